/* defect 30: self-referential memory-array method; public API only */
#include <stdio.h>
#include <stdlib.h>
#include <string.h>
#include <libkdumpfile/addrxlat.h>
static unsigned long depth, maxdepth;
static unsigned char page[4096];
static addrxlat_status get_page(const addrxlat_cb_t *cb, addrxlat_buffer_t *buf)
{
	buf->addr.addr &= ~0xfffULL; buf->ptr = page; buf->size = sizeof page;
	buf->byte_order = ADDRXLAT_HOST_ENDIAN; return ADDRXLAT_OK;
}
static unsigned long read_caps(const addrxlat_cb_t *cb) { return ADDRXLAT_CAPS(ADDRXLAT_MACHPHYSADDR); }
int main(int argc, char **argv)
{
	addrxlat_ctx_t *ctx = addrxlat_ctx_new();
	addrxlat_cb_t *cb = addrxlat_ctx_add_cb(ctx);
	addrxlat_sys_t *sys = addrxlat_sys_new();
	addrxlat_map_t *map = addrxlat_map_new();
	addrxlat_range_t r = { ADDRXLAT_ADDR_MAX, ADDRXLAT_SYS_METH_CUSTOM };
	addrxlat_meth_t m; addrxlat_fulladdr_t fa; addrxlat_status st;
	cb->get_page = get_page; cb->read_caps = read_caps;
	addrxlat_map_set(map, 0, &r);
	addrxlat_sys_set_map(sys, ADDRXLAT_SYS_MAP_KV_PHYS, map);
	memset(&m, 0, sizeof m);
	m.kind = ADDRXLAT_MEMARR; m.target_as = ADDRXLAT_MACHPHYSADDR;
	m.param.memarr.base.as = ADDRXLAT_KVADDR; m.param.memarr.base.addr = 0x1000;
	m.param.memarr.shift = argc > 1 ? atoi(argv[1]) : 0;
	m.param.memarr.elemsz = argc > 2 ? atoi(argv[2]) : 3;
	m.param.memarr.valsz = 8;
	addrxlat_sys_set_meth(sys, ADDRXLAT_SYS_METH_CUSTOM, &m);
	fa.as = ADDRXLAT_KVADDR; fa.addr = 0x1238;
	st = addrxlat_fulladdr_conv(&fa, ADDRXLAT_MACHPHYSADDR, ctx, sys);
	printf("status %d (%s)\n", st, addrxlat_ctx_get_err(ctx));
	return 0;
}
