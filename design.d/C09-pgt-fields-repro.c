/* A paging form with more fields than the PTE format has levels: the "not present" message of
 * pgt_ia32_pae() reads past pgt_full_name[] / pte_name[] (public API only).
 * Build with AddressSanitizer over the library sources, e.g.
 *   gcc -g -fsanitize=address -DHAVE_CONFIG_H -I$REPO -I$REPO/include -I$REPO/src -I$REPO/src/addrxlat \
 *       C09-pgt-fields-repro.c $REPO/src/addrxlat/[a-z]*.c -o repro && ./repro
 * before fixes/90: "AddressSanitizer: global-buffer-overflow ... in printf_common";
 * after: status 1 (Too many paging levels: 5). */
#include <stdio.h>
#include <string.h>
#include <libkdumpfile/addrxlat.h>
static unsigned char page[4096];
static addrxlat_status get_page(const addrxlat_cb_t *cb, addrxlat_buffer_t *buf)
{
	buf->addr.addr &= ~0xfffULL; buf->ptr = page; buf->size = sizeof page;
	buf->byte_order = ADDRXLAT_HOST_ENDIAN; return ADDRXLAT_OK;
}
static unsigned long read_caps(const addrxlat_cb_t *cb) { return ADDRXLAT_CAPS(ADDRXLAT_KPHYSADDR); }
int main(void)
{
	addrxlat_ctx_t *ctx = addrxlat_ctx_new();
	addrxlat_cb_t *cb = addrxlat_ctx_add_cb(ctx);
	addrxlat_meth_t m; addrxlat_step_t step; addrxlat_status st;
	static const unsigned short f[5] = { 12, 9, 9, 2, 2 };
	cb->get_page = get_page; cb->read_caps = read_caps;
	memset(&m, 0, sizeof m);
	m.kind = ADDRXLAT_PGT; m.target_as = ADDRXLAT_KPHYSADDR;
	m.param.pgt.root.as = ADDRXLAT_KPHYSADDR; m.param.pgt.root.addr = 0x1000;
	m.param.pgt.pf.pte_format = ADDRXLAT_PTE_IA32_PAE; m.param.pgt.pf.nfields = 5;
	memcpy(m.param.pgt.pf.fieldsz, f, sizeof f);
	memset(&step, 0, sizeof step);
	step.ctx = ctx; step.sys = NULL; step.meth = &m; step.base.addr = 0x1234;
	st = addrxlat_walk(&step);
	printf("status %d (%s)\n", st, addrxlat_ctx_get_err(ctx));
	addrxlat_ctx_decref(ctx);
	return 0;
}
