#!/bin/sh
# mktree.sh <dir>: pinned tree + dependency fixes + conc's fixes + hooks (no build; for cc_build only)
set -e
d=$1
git -C /repo worktree add -q --detach "$d" HEAD
cp /repo/config.h "$d"/ && cp /repo/include/libkdumpfile/*.h "$d"/include/libkdumpfile/
cd "$d"
for p in /work/formats/fixes/04-*.patch /work/formats/fixes/07-*.patch /work/formats/fixes/32-*.patch \
         /work/parse/fixes/08-*.patch /work/parse/fixes/09-*.patch /work/parse/fixes/72-*.patch \
         /work/res/fixes/41-*.patch /work/res/fixes/19-*.patch /work/cache/fixes/01-*.patch \
         /work/conc/fixes/17-*.patch /work/conc/fixes/18-*.patch /work/parse/fixes/71-*.patch \
         /work/conc/fixes/35-*.patch /work/conc/fixes/80-*.patch /work/conc/fixes/81-*.patch \
         /work/conc/hooks/01-*.patch /work/conc/hooks/02-*.patch /work/conc/hooks/03-*.patch; do
  git apply "$p" || { echo "FAILED $p"; exit 1; }
done
echo "tree ready: $d"
