#!/bin/sh
# mktree.sh <dir>: pinned snapshot (fa1055a) + dependency fixes + conc's fixes + hooks (no build; for cc_build only).
# This is how the scratch tree the C04/C05 checks were developed against was made.  /repo's HEAD has moved since
# (the integrator merges fixes as branches come in): fixes/17 in this branch is now relative to /repo HEAD 9b69204
# (it also covers the three fcache_put_chunk calls added by 'fix: diskdump leaks the file cache chunk ...');
# fixes/81 and hooks 01, 02 are already in /repo (merged with the res branch).
set -e
d=$1
git -C /repo worktree add -q --detach "$d" fa1055a
cp /repo/config.h "$d"/ && cp /repo/include/libkdumpfile/*.h "$d"/include/libkdumpfile/
cd "$d"
for p in /work/formats/fixes/04-*.patch /work/formats/fixes/07-*.patch /work/formats/fixes/32-*.patch \
         /work/parse/fixes/08-*.patch /work/parse/fixes/09-*.patch /work/parse/fixes/72-*.patch \
         /work/res/fixes/41-*.patch /work/res/fixes/19-*.patch /work/cache/fixes/01-*.patch \
         /work/conc/fixes/17-*.patch /work/conc/fixes/18-*.patch /work/parse/fixes/71-*.patch \
         /work/conc/fixes/35-*.patch /work/conc/fixes/80-*.patch /work/conc/fixes/81-*.patch \
         /work/conc/hooks/01-*.patch /work/conc/hooks/02-*.patch /work/conc/hooks/03-*.patch; do
  git apply "$p" || { echo "FAILED $p"; exit 1; }
done
echo "tree ready: $d"
