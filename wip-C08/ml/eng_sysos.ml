(* engine "sysos" (C08): same case line as harness/sysos_drv.c plus the abstract image
     K:<first>:<last>:<off>     chunks in ascending order
   output: "st=<status> | <maps> | <methods>" in the driver's format (maps and methods only
   when the set-up succeeds). *)
open Util
open SysLayout
open LinuxX86_64

let after c s = let i = String.index s c in String.sub s (i + 1) (String.length s - i - 1)
let starts p s = String.length s >= String.length p && String.sub s 0 (String.length p) = p

let mapnames = [| "hw"; "kvphys"; "kpdirect"; "mpkp"; "kpmp" |]

let show_map (m : MapModel.map option) =
  match m with
  | None -> "null"
  | Some m -> String.concat "," (Stdlib.List.map (fun r ->
      hex_of_n r.MapModel.endoff ^ ":" ^ hex_of_z r.MapModel.meth) m)

let show_meth = function
  | LNone -> None
  | LLinear (tas, off) -> Some ("L:" ^ hex_of_z tas ^ ":" ^ hex_of_n off)
  | LPgt (tas, ras, raddr, fmt, mask, fields) ->
      Some ("P:" ^ hex_of_z tas ^ ":" ^ hex_of_z ras ^ ":" ^ hex_of_n raddr ^ ":" ^ hex_of_n fmt ^ ":" ^
            hex_of_n mask ^ ":" ^ String.concat "." (Stdlib.List.map hex_of_n fields))

let run_case (line : string) : string =
  let toks = words line in
  let get p = try Some (after '=' (Stdlib.List.find (starts p) toks)) with Not_found -> None in
  let num p = match get p with Some v -> Some (n_of_hex v) | None -> None in
  let root = match get "root=" with
    | Some v -> (match split_on ':' v with
        | [a; x] -> Some (z_of_hex a, n_of_hex x) | _ -> failwith "bad root")
    | None -> None in
  let o = { lo_ver = num "ver="; lo_physbase = num "physbase="; lo_virtbits = num "virtbits=";
            lo_rootpgt = root; sym_stext = num "sym:_stext="; sym_text = num "sym:_text=";
            sym_init_top_pgt = num "sym:init_top_pgt="; sym_init_level4_pgt = num "sym:init_level4_pgt=";
            reg_cr3 = num "reg:cr3="; reg_cr4 = num "reg:cr4=";
            num_l5_enabled = num "num:pgtable_l5_enabled="; num_sme_mask = num "num:sme_mask=" } in
  let chunks = Stdlib.List.filter_map (fun t ->
    if starts "K:" t then
      (match split_on ':' t with
       | [_; f; l; off] -> Some { ImgEnv.c_first = n_of_hex f; c_last = n_of_hex l; c_off = n_of_hex off }
       | _ -> failwith "bad K")
    else None) toks in
  let r = sys_linux_x86_64 (ImgEnv.img_vtop chunks) (ImgEnv.img_lowest_mapped chunks)
            (ImgEnv.img_lowest_unmapped chunks) true (nat_of_int 100000) o in
  match r with
  | IErr st -> "st=" ^ hex_of_z st
  | IUndef -> "UNDEF"
  | IFuel -> "FUEL"
  | IOk s ->
      let maps = String.concat " " (Stdlib.List.init 5 (fun i ->
        mapnames.(i) ^ "=" ^ show_map (s.o_map (n_of_int i)))) in
      let meths = Stdlib.List.filter_map (fun i ->
        match show_meth (s.o_meth (n_of_int i)) with
        | Some m -> Some (Printf.sprintf "%x=%s" i m) | None -> None) (Stdlib.List.init 16 (fun i -> i)) in
      "st=0 | " ^ maps ^ " | " ^ (if meths = [] then "-" else String.concat " " meths)

let engines = [ "sysos", run_case ]
