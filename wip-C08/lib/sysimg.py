"""Synthesised x86-64 Linux memory images for engine "sysos" (C08).

An image is described abstractly by *chunks*: maximal runs of virtual addresses that the
page tables map, each linear (phys = virt + off) and separated from its neighbours by an
unmapped gap -- this is the way the supported kernels lay out memory (direct map, kernel
text, modules, vmalloc/vmemmap areas).  `build()` realises the chunks as 4- or 5-level
x86-64 page tables at a mix of 4K / 2M / 1G granularity and emits the sparse memory words
(runs of equal-stride entries are compressed)."""

M64 = (1 << 64) - 1
K4, M2, G1 = 1 << 12, 1 << 21, 1 << 30
KTEXT_START = 0xffffffff80000000
KTEXT_END_NOKASLR = 0xffffffff9fffffff
KTEXT_END = 0xffffffffbfffffff
NX = 1 << 63
TBL_FLAGS = 0x67
LEAF_FLAGS = {K4: 0x163 | NX, M2: 0x1e3 | NX, G1: 0x1e3 | NX}


def ver(a, b, c):
    return (a << 16) | (b << 8) | c


class PageTables:
    def __init__(self, levels, tbl_pool):
        self.levels = levels            # 4 or 5
        self.words = {}                 # phys addr (8-aligned) -> value
        self.pool = tbl_pool            # next free physical page for a table
        self.root = self.alloc()
        self.tables = {}                # (level, vbase) -> phys of the table

    def alloc(self):
        a = self.pool
        self.pool += K4
        return a

    def idx(self, va, level):           # level 1 = PT ... 4 = PGD (5 = top with LA57)
        return (va >> (12 + 9 * (level - 1))) & 0x1ff

    def map_page(self, va, pa, size):
        leaf_level = {K4: 1, M2: 2, G1: 3}[size]
        tbl = self.root
        for level in range(self.levels, leaf_level, -1):
            ea = tbl + 8 * self.idx(va, level)
            ent = self.words.get(ea)
            if ent is None:
                nt = self.alloc()
                self.words[ea] = nt | TBL_FLAGS
                tbl = nt
            else:
                assert not (ent & 0x80) or level == self.levels, "table entry expected"
                tbl = ent & 0x000ffffffffff000
        ea = tbl + 8 * self.idx(va, leaf_level)
        assert ea not in self.words, "page mapped twice: %x" % va
        self.words[ea] = pa | LEAF_FLAGS[size]

    def map_range(self, va, pa, length, plan):
        """plan: preferred page sizes, largest first; falls back to what alignment allows"""
        end = va + length
        while va < end:
            for size in plan:
                if va % size == 0 and pa % size == 0 and va + size <= end:
                    break
            else:
                size = K4
            self.map_page(va, pa, size)
            va += size
            pa += size


def compress(words):
    """[(addr, val)] sorted -> tokens W:/R: (arithmetic progressions of >= 4 entries)"""
    items = sorted(words.items())
    out = []
    i = 0
    n = len(items)
    while i < n:
        j = i + 1
        if j < n and items[j][0] == items[i][0] + 8:
            step = (items[j][1] - items[i][1]) & M64
            while j + 1 < n and items[j + 1][0] == items[j][0] + 8 and \
                    ((items[j + 1][1] - items[j][1]) & M64) == step:
                j += 1
            cnt = j - i + 1
            if cnt >= 4:
                out.append("R:%x:%x:%x:%x" % (items[i][0], items[i][1], cnt, step))
                i = j + 1
                continue
        out.append("W:%x:%x" % items[i])
        i += 1
    return out


class Scenario:
    """One synthesised kernel.  Attributes after gen(): chunks [(vstart, length, pstart, what)],
    tokens (case line), levels, D (direct map base), M (memory size)."""

    def __init__(self, rng):
        self.r = rng

    def gen(self):
        r = self.r
        self.levels = 5 if r.random() < 0.2 else 4
        era = r.choice(["2.6.0", "2.6.11", "2.6.27", "2.6.31", "3.x", "4.20", "kaslr", "kaslr"]) \
            if self.levels == 4 else r.choice(["5l", "5l-kaslr"])
        self.era = era
        # memory: [0, M), with optional hole
        gran = r.choice(["4k", "2m", "1g", "mixed", "mixed"])
        if gran == "4k":
            M = K4 * r.randint(16, 2048)
        elif gran == "2m":
            M = M2 * r.randint(2, 600)
        elif gran == "1g":
            M = G1 * r.randint(1, 70)
        else:
            M = G1 * r.randint(1, 6) + M2 * r.randint(0, 20) + K4 * r.choice([0, 0, r.randint(1, 300)])
        self.M = M
        self.gran = gran
        kver = {"2.6.0": ver(2, 6, r.randint(0, 10)), "2.6.11": ver(2, 6, r.randint(11, 26)),
                "2.6.27": ver(2, 6, r.randint(27, 30)), "2.6.31": ver(2, 6, r.randint(31, 39)),
                "3.x": r.choice([ver(3, 0, 0), ver(3, 12, 4), ver(4, 4, 0), ver(4, 7, 9)]),
                "4.20": r.choice([ver(4, 20, 0), ver(5, 3, 18)]),
                "kaslr": r.choice([ver(4, 8, 0), ver(4, 12, 14), ver(5, 14, 0), ver(6, 4, 0)]),
                "5l": r.choice([ver(4, 14, 0), ver(5, 10, 0)]),
                "5l-kaslr": r.choice([ver(4, 17, 0), ver(6, 1, 0)])}[era]
        self.kver = kver
        if era == "2.6.0":
            D = 0x0000010000000000
        elif era == "2.6.11":
            D = 0xffff810000000000
        elif era in ("2.6.27", "2.6.31", "3.x"):
            D = 0xffff880000000000
        elif era == "4.20":
            D = 0xffff888000000000
        elif era == "kaslr":
            lo, hi = 0xffff888000000000, 0xffffc7ffffffffff - M - (64 << 30)
            D = lo + G1 * r.randint(0, (hi - lo) // G1)
        elif era == "5l":
            D = 0xff11000000000000
        else:
            lo, hi = 0xff11000000000000, 0xff90ffffffffffff - M - (64 << 30)
            D = lo + G1 * r.randint(0, (hi - lo) // G1)
        self.D = D
        # kernel text
        kaslr_text = era in ("kaslr", "5l-kaslr") and r.random() < 0.8
        tsize = M2 * r.randint(2, 24)
        voff = 0x1000000 + (M2 * r.randint(0, 400) if kaslr_text else 0)
        if voff + tsize > (1 << 30) - M2 * 8:
            voff = 0x1000000
        vtext = KTEXT_START + voff
        # physical placement of the image: anywhere in memory (2M aligned), phys_base follows
        pmax = max(0, (min(M, 1 << 36) - tsize - M2) // M2)
        ptext = M2 * r.randint(0, pmax) if pmax > 0 and r.random() < 0.7 else min(0x1000000, pmax * M2)
        phys_base = (ptext - voff) & M64          # virt - KTEXT_START + phys_base = phys
        self.vtext, self.ptext, self.tsize, self.phys_base = vtext, ptext, tsize, phys_base
        chunks = []
        # direct map (possibly with a hole)
        hole = None
        if M >= 8 * M2 and r.random() < 0.25:
            hs = M2 * r.randint(1, max(1, M // M2 - 3))
            hl = M2 * r.randint(1, max(1, (M - hs) // M2 - 1))
            if hs + hl < M:
                hole = (hs, hl)
        if hole:
            chunks.append((D, hole[0], 0, "direct"))
            chunks.append((D + hole[0] + hole[1], M - hole[0] - hole[1], hole[0] + hole[1], "direct"))
        else:
            chunks.append((D, M, 0, "direct"))
        chunks.append((vtext, tsize, ptext, "ktext"))
        # areas the fast paths must not swallow: vmalloc-like after the direct map, modules
        extra = []
        if r.random() < 0.6:
            if era in ("kaslr", "4.20", "5l", "5l-kaslr"):
                # randomised layouts: the next area follows the direct map after a gap
                gap = r.choice([K4, M2, G1, 16 * G1])
                vs = (D + M + gap + G1 - 1) // G1 * G1 if gap >= G1 else D + M + gap
            else:
                # fixed layouts: vmalloc lives above the version's direct-map window
                vs = {"2.6.0": 0x0000020000000000, "2.6.11": 0xffffc20000000000,
                      "2.6.27": 0xffffc20000000000}.get(era, 0xffffc90000000000) + K4 * r.randint(0, 64)
            vs = (vs + K4 - 1) // K4 * K4
            for k in range(r.randint(1, 3)):
                ln = K4 * r.randint(1, 8)
                ps = K4 * r.randint(0, max(0, min(M, 1 << 40) // K4 - 9))
                if vs + ln < (1 << 64) and ps != ((vs - D) & M64):
                    extra.append((vs, ln, ps, "vmalloc"))
                vs += ln + K4 * r.randint(1, 4)
        if r.random() < 0.5:
            mbase = 0xffffffffa0000000 if era not in ("kaslr", "5l-kaslr", "4.20", "5l") else 0xffffffffc0000000
            ln = K4 * r.randint(1, 16)
            ps = K4 * r.randint(0, max(0, min(M, 1 << 40) // K4 - 17))
            if ((ps - mbase) & M64) != ((ptext - vtext) & M64):
                extra.append((mbase, ln, ps, "modules"))
        if r.random() < 0.3 and era not in ("2.6.0",):
            # something just above the text image, separated by one page (e.g. a late-mapped section)
            vs = vtext + tsize + K4 * r.randint(1, 3)
            ps = K4 * r.randint(0, max(0, min(M, 1 << 40) // K4 - 3))
            if ((ps - vs) & M64) != ((ptext - vtext) & M64) and vs + 2 * K4 <= mbase_limit(era):
                extra.append((vs, K4 * 2, ps, "above-text"))
        chunks += extra
        chunks.sort()
        self.chunks = chunks
        # page tables
        tbl_pool = (M + 0x200000 + K4 - 1) & ~(K4 - 1)          # tables live above RAM
        root_in_text = r.random() < 0.45
        pt = PageTables(self.levels, tbl_pool)
        if root_in_text:
            pt.root = ptext + tsize - K4 * r.randint(1, 64)      # inside the kernel image
        self.pt = pt
        plan = {"4k": [K4], "2m": [M2, K4], "1g": [G1, M2, K4], "mixed": [G1, M2, K4]}[gran]
        for (vs, ln, ps, what) in chunks:
            if what == "direct":
                if gran == "mixed" and ln > 4 * M2 and r.random() < 0.7:
                    # first stretch at small pages, the rest at whatever fits
                    head = min(ln, M2 * r.randint(1, 3))
                    pt.map_range(vs, ps, head, [K4])
                    pt.map_range(vs + head, ps + head, ln - head, plan)
                else:
                    pt.map_range(vs, ps, ln, plan)
            elif what == "ktext":
                pt.map_range(vs, ps, ln, [M2, K4] if r.random() < 0.8 else [K4])
            else:
                pt.map_range(vs, ps, ln, [K4])
        # options / symbols
        toks = []
        have_ver = r.random() < 0.6
        if have_ver:
            toks.append("ver=%x" % kver)
        have_pb = r.random() < (0.9 if root_in_text else 0.55)
        if have_pb:
            toks.append("physbase=%x" % phys_base)
        have_stext = r.random() < 0.6
        if have_stext:
            toks.append("sym:%s=%x" % (r.choice(["_stext", "_stext", "_text"]), vtext))
        # paging depth
        how = r.choice(["opt", "cr4", "l5num", "auto"])
        if how == "opt":
            toks.append("virtbits=%x" % (57 if self.levels == 5 else 48))
        elif how == "cr4":
            toks.append("reg:cr4=%x" % (0x1000 | 0x20 if self.levels == 5 else 0x20))
        elif how == "l5num" or self.levels == 5:
            toks.append("num:pgtable_l5_enabled=%x" % (1 if self.levels == 5 else 0))
        else:
            if not (have_stext and "sym:_stext" in " ".join(toks)) and not (have_ver and kver < ver(4, 13, 0)):
                toks.append("virtbits=30")
        # root
        cap = 1 if r.random() < 0.7 else 0
        if root_in_text:
            kv_root = (pt.root - ptext + vtext) & M64
            name = "init_top_pgt" if r.random() < 0.5 else "init_level4_pgt"
            toks.append("sym:%s=%x" % (name, kv_root))
            self.rootspec = "sym"
        else:
            k = r.random()
            if k < 0.4:
                toks.append("root=%s:%x" % (cap, pt.root))
                self.rootspec = "opt"
            elif k < 0.6:
                toks.append("root=%s:%x" % (1 - cap, pt.root))
                self.rootspec = "opt-other"
            else:
                toks.append("reg:cr3=%x" % (pt.root | r.choice([0, 0, 0x18, 0x805])))
                self.rootspec = "cr3"
        toks.append("CAP:%x" % cap)
        self.in_model_domain = (not root_in_text) or have_pb
        for (vs, ln, ps, what) in chunks:
            toks.append("K:%x:%x:%x" % (vs, vs + ln - 1, (ps - vs) & M64))
        toks += compress(pt.words)
        self.cfg = toks
        return self

    # -- abstract semantics of the image -------------------------------------
    def phys_of(self, va):
        for (vs, ln, ps, what) in self.chunks:
            if vs <= va < vs + ln:
                return ps + (va - vs), what
        return None, None

    def probes(self):
        r = self.r
        qs = set()
        for (vs, ln, ps, what) in self.chunks:
            for v in (vs - K4, vs - 1, vs, vs + 0xfff, vs + K4, vs + ln - K4, vs + ln - 1, vs + ln, vs + ln + K4 - 1,
                      vs + r.randrange(ln), vs + r.randrange(ln), vs + (r.randrange(ln) & ~7)):
                if 0 <= v <= M64:
                    qs.add(v)
        for v in (KTEXT_START, KTEXT_START + 0xfff, KTEXT_END_NOKASLR, KTEXT_END_NOKASLR + 1, KTEXT_END, KTEXT_END + 1,
                  0xffff880000000000, 0xffffc7ffffffffff, 0xffffc80000000000, 0, M64, 0x7fffffffffff,
                  0xffff800000000000, self.D + self.M + G1):
            qs.add(v)
        ps = set()
        for p in (0, 0xfff, K4, self.M - K4, self.M - 1, self.M, self.M + K4, r.randrange(self.M), r.randrange(self.M),
                  self.ptext, self.ptext + self.tsize - 1, (1 << 52) - 1, 1 << 52, (1 << 46) - 1, 1 << 46):
            ps.add(p)
        for (vs, ln, pstart, what) in self.chunks:
            if what == "direct":
                ps |= {pstart, pstart + ln - 1, pstart + ln, max(0, pstart - 1)}
        return sorted(qs), sorted(ps)

    def line(self):
        qs, ps = self.probes()
        return " ".join(self.cfg + ["Q:%x" % q for q in qs] + ["P:%x" % p for p in ps])


def mbase_limit(era):
    return 0xffffffffa0000000 - K4 * 8 if era not in ("kaslr", "5l-kaslr", "4.20", "5l") else 0xffffffffc0000000 - K4 * 8
