"""C08 — OS-level translation shortcuts never contradict the page tables (x86-64 Linux; partial).

Theorems: coq/theories/Properties_C08.v.  Tie: engine "sysos" — synthesised x86-64 Linux
images (lib/kdv/sysimg.py) fed to addrxlat_sys_os_init through the public API by
harness/sysos_drv.c; the property is evaluated on the implementation (translation through
ADDRXLAT_SYS_MAP_KV_PHYS vs the pure hardware walk, reverse direct map round trip) and the
resulting maps/methods are compared with the extracted layout model."""
from .. import core
from .. import sysimg

M64 = (1 << 64) - 1


def parse_probe(tok):
    """'v<addr> fast=ok:<p> hw=none' -> (kind, addr, {tag: (status, value)})"""
    parts = tok.split()
    kind, addr = parts[0][0], int(parts[0][1:], 16)
    res = {}
    for p in parts[1:]:
        k, _, v = p.partition("=")
        if v.startswith("ok:"):
            res[k] = ("ok", int(v[3:], 16))
        else:
            res[k] = (v, None)
    return kind, addr, res


def judge_line(sc, out):
    """Evaluate the property on the implementation's answers for one image.
    Returns (list of violations, stats dict)."""
    bad = []
    stats = {}
    parts = [x.strip() for x in out.split("|")]
    if len(parts) != 4:
        return ["unparsable output: " + out[:200]], stats
    if parts[0] != "st=0":
        stats["init-failed"] = 1
        return bad, stats
    for tok in (parts[3].split(";") if parts[3] else []):
        kind, addr, res = parse_probe(tok)
        if kind == "v":
            exp, what = sc.phys_of(addr)
            hw, fast = res.get("hw"), res.get("fast")
            if exp is not None:
                # sanity of the synthesiser and of the hardware walk (C02's business)
                if hw[0] == "ok" and hw[1] != exp:
                    bad.append("hardware walk of %x gives %x, the image maps it to %x" % (addr, hw[1], exp))
            if hw[0] == "ok":
                stats["mapped-" + (what or "?")] = stats.get("mapped-" + (what or "?"), 0) + 1
                if fast[0] != "ok":
                    bad.append("KV_PHYS fails (%s) for %x which the page tables map to %x" % (fast[0], addr, hw[1]))
                elif fast[1] != hw[1]:
                    bad.append("KV_PHYS translates %x to %x, the page tables to %x" % (addr, fast[1], hw[1]))
            else:
                stats["unmapped"] = stats.get("unmapped", 0) + 1
        else:
            rd = res.get("rdirect")
            if rd[0] == "ok":
                stats["rdirect-ok"] = stats.get("rdirect-ok", 0) + 1
                back, hwb = res.get("back"), res.get("hwback")
                if back[0] != "ok" or back[1] != addr:
                    bad.append("reverse direct map turns %x into %x which KV_PHYS maps to %s"
                               % (addr, rd[1], "%x" % back[1] if back[0] == "ok" else back[0]))
                if hwb[0] == "ok" and hwb[1] != addr:
                    bad.append("reverse direct map turns %x into %x which the page tables map to %x"
                               % (addr, rd[1], hwb[1]))
            else:
                stats["rdirect-none"] = stats.get("rdirect-none", 0) + 1
    return bad, stats


def check(run):
    run.trusted += ["the image synthesiser lib/kdv/sysimg.py (page-table builder; cross-checked: every hardware walk "
                    "of a mapped probe must give the physical address the abstract image says)",
                    "harness/sysos_drv.c and its callbacks"]
    run.assumptions += ["images are laid out the way the supported kernels lay out memory: mapped areas are linear "
                        "chunks separated by unmapped gaps (direct map possibly with holes, kernel text at the "
                        "phys_base-relative offset, modules / vmalloc-like areas elsewhere)",
                        "x86-64 Linux only (partial): other architectures and Xen are not covered by this check"]
    run.check_coq()
    if not run.need_ml():
        return
    exe = run.need_cc("sysos_drv", "sysos_drv.c", sources=core.lib_sources(which=("addrxlat",)),
                      sanitize=True, libs=False)
    if exe is None:
        return
    quick = run.tier == "quick"
    n = 300 if quick else 6000
    scs = [sysimg.Scenario(run.rng).gen() for _ in range(n)]
    lines = [sc.line() for sc in scs]
    impl, crashes = core.run_impl_lines(exe, run.work, lines, timeout=600)
    model = core.run_model("sysos", run.casefile("sysos-cases.txt", lines))
    run.cov["rule"] = ("one case = one synthesised x86-64 Linux image (kernel era, KASLR placement, phys_base, 4/5 "
                       "levels, page granularity, which options/symbols are present) with ~60-150 probes; "
                       "non-trivial = os_init succeeds and at least one mapped probe goes through a fast path")
    run.cov["engines"]["sysos"] = {"generated": n}
    for i, (sc, out) in enumerate(zip(scs, impl)):
        if i in crashes:
            run.violation("impl", "addrxlat_sys_os_init / translation aborts (exit %s) on a synthesised image (%s)"
                          % (crashes[i][0], sc.era), {"engine": "sysos", "case": lines[i][:20000],
                                                      "impl_stderr_tail": crashes[i][1][-1500:]},
                          found_input=True, signature="sysos crash " + crashes[i][1][-200:])
            continue
        bad, stats = judge_line(sc, out)
        # model vs code: status, maps and methods after the set-up
        if sc.in_model_domain:
            mo = [x.strip() for x in model[i].split("|")]
            io = [x.strip() for x in out.split("|")]
            same = (mo == io[:3]) if mo[0] == "st=0" else (mo[0] == io[0])
            run.count("layout-compared")
            if not same:
                run.violation("tie", "correspondence sysos (model LinuxX86_64.sys_linux_x86_64 vs addrxlat_sys_os_init) "
                              "broken on a %s image (D=%x, M=%x): model %s ; implementation %s"
                              % (sc.era, sc.D, sc.M, " | ".join(mo)[:500], " | ".join(io[:3])[:500]),
                              {"engine": "sysos", "case": lines[i][:20000], "model": model[i],
                               "implementation": out[:4000]}, found_input=False, signature="sysos tie")
        else:
            run.count("layout-outside-model-domain")
        for k, v in stats.items():
            run.count(k, v)
        run.count("era-" + sc.era)
        run.count("gran-" + sc.gran)
        run.note_case(lines[i][:2000], bool(stats.get("mapped-direct") or stats.get("mapped-ktext")))
        if i < 2:
            run.sample({"era": sc.era, "D": "%x" % sc.D, "M": "%x" % sc.M, "impl": out[:600]})
        if bad:
            run.violation("spec", "x86-64 Linux (%s, D=%x, M=%x, %d-level, %s pages): %s"
                          % (sc.era, sc.D, sc.M, sc.levels, sc.gran, bad[0]),
                          {"engine": "sysos", "case": lines[i][:20000], "implementation": out[:4000],
                           "all": bad[:10]}, found_input=True, signature="sysos spec " + bad[0][:60])
            if len(run.violations) > 3:
                break
