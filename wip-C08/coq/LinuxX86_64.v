(** Model of the x86-64 Linux set-up of src/addrxlat/x86_64.c:
    [sys_x86_64] / [init_pgt_meth] / [get_virt_bits] / [map_linux_x86_64] /
    [get_linux_pgt_root] / [linux_ktext_meth] / [linux_ktext_extents] /
    [linux_ktext_map] / [set_pgt_fallback] / [linux_directmap_by_pgt] /
    [linux_directmap_by_ver] / [linux_directmap] / [remove_rdirect], and
    [highest_linear] of step.c, as functions of

    - the options and the answers of the symbol / register / number callbacks
      ([lopts]; an absent value is the callback's ADDRXLAT_ERR_NODATA), and
    - the page tables of the image, seen through three scan functions:
      [vtop v] (the hardware walk of [v] followed by the conversion to a
      kernel physical address; [None] = not present), [lowest_mapped a lim]
      and [lowest_unmapped a lim] (step.c; specified in Sys/Scan.v).

    Not modelled (the generator stays away): Xen ([xen_xlat]), the
    [linux_rdirect_map] path taken when the read callback can read neither
    physical space, callbacks failing with a status other than NODATA, and
    page tables that are unreadable when a scan needs them (a root given as
    a kernel virtual address without the [phys_base] option).  Statuses of
    scans are the two that occur with readable tables: found / NOTPRESENT.
    No proofs in this file. *)
From Coq Require Import NArith ZArith List Bool.
From KdV Require Import Base.Wrap64 Map.MapModel Sys.SysLayout.
Import ListNotations.
Local Open Scope N_scope.

Definition ST_OK : Z := 0%Z.
Definition ST_NOTIMPL : Z := 1%Z.
Definition ST_NOTPRESENT : Z := 2%Z.
Definition ST_NOMEM : Z := 4%Z.
Definition ST_NODATA : Z := 5%Z.
Definition ST_NOMETH : Z := 6%Z.

Definition PAGE_MASK : N := 0xfff.
Definition PHYSADDR_MASK : N := 0xfffffffffffff.                 (* 52 bits *)
Definition NONCANONICAL_START : N := 0x800000000000.
Definition NONCANONICAL_END : N := 0xffff7fffffffffff.
Definition NONCANONICAL_5L_START : N := 0x100000000000000.
Definition NONCANONICAL_5L_END : N := 0xfeffffffffffffff.
Definition LINUX_KTEXT_START : N := 0xffffffff80000000.
Definition LINUX_KTEXT_END_NOKASLR : N := 0xffffffff9fffffff.
Definition LINUX_KTEXT_END : N := 0xffffffffbfffffff.
Definition DIRECTMAP_START_2_6_0 : N := 0x0000010000000000.
Definition DIRECTMAP_END_2_6_0 : N := 0x000001ffffffffff.
Definition DIRECTMAP_START_2_6_11 : N := 0xffff810000000000.
Definition DIRECTMAP_END_2_6_11 : N := 0xffffc0ffffffffff.
Definition DIRECTMAP_START_2_6_27 : N := 0xffff880000000000.
Definition DIRECTMAP_END_2_6_27 : N := 0xffffc0ffffffffff.
Definition DIRECTMAP_START_2_6_31 : N := 0xffff880000000000.
Definition DIRECTMAP_END_2_6_31 : N := 0xffffc7ffffffffff.
Definition DIRECTMAP_START_5LEVEL : N := 0xff11000000000000.
Definition DIRECTMAP_END_5LEVEL : N := 0xff90ffffffffffff.
Definition PTE_X86_64 : N := 6.                                   (* ADDRXLAT_PTE_X86_64 *)

(** ADDRXLAT_VER_LINUX(a, b, c) *)
Definition ver_linux (a b c : N) : N := a * 65536 + b * 256 + c.

Record lopts := {
  lo_ver : option N;            (* version_code *)
  lo_physbase : option N;       (* phys_base *)
  lo_virtbits : option N;       (* virt_bits *)
  lo_rootpgt : option (Z * N);  (* rootpgt *)
  sym_stext : option N;
  sym_text : option N;
  sym_init_top_pgt : option N;
  sym_init_level4_pgt : option N;
  reg_cr3 : option N;
  reg_cr4 : option N;
  num_l5_enabled : option N;
  num_sme_mask : option N
}.

Inductive ires := IOk (s : osys) | IErr (st : Z) | IUndef | IFuel.

(** linux_directmap_by_ver *)
Definition linux_directmap_by_ver (v : N) : Z + (N * N) :=
  if ver_linux 4 8 0 <=? v then inl ST_NOMETH
  else if ver_linux 2 6 31 <=? v then inr (DIRECTMAP_START_2_6_31, DIRECTMAP_END_2_6_31)
  else if ver_linux 2 6 27 <=? v then inr (DIRECTMAP_START_2_6_27, DIRECTMAP_END_2_6_27)
  else if ver_linux 2 6 11 <=? v then inr (DIRECTMAP_START_2_6_11, DIRECTMAP_END_2_6_11)
  else if ver_linux 2 6 0 <=? v then inr (DIRECTMAP_START_2_6_0, DIRECTMAP_END_2_6_0)
  else inl ST_NOTIMPL.

(** get_virt_bits *)
Definition get_virt_bits (o : lopts) : Z + N :=
  match lo_virtbits o with
  | Some b => inr b
  | None =>
      match reg_cr4 o with
      | Some cr4 => inr (if N.testbit cr4 12 then 57 else 48)
      | None =>
          match num_l5_enabled o with
          | Some l5 => inr (if l5 =? 0 then 48 else 57)
          | None =>
              match sym_stext o with
              | Some _ => inr 48
              | None =>
                  match lo_ver o with
                  | Some v => if v <? ver_linux 4 13 0 then inr 48 else inl ST_NODATA
                  | None => inl ST_NODATA
                  end
              end
          end
      end
  end.

(** get_linux_pgt_root (+ the masking in map_linux_x86_64) *)
Definition linux_pgt_root (o : lopts) : Z * N :=
  let '(a, addr) :=
    match lo_rootpgt o with
    | Some (a, addr) => if (a =? LAS_NOADDR)%Z then (LAS_NOADDR, addr) else (a, addr)
    | None => (LAS_NOADDR, 0)
    end in
  let '(a, addr) :=
    if negb (a =? LAS_NOADDR)%Z then (a, addr)
    else match sym_init_top_pgt o with
         | Some v => (LAS_KV, v)
         | None =>
             match sym_init_level4_pgt o with
             | Some v => (LAS_KV, v)
             | None =>
                 match reg_cr3 o with
                 | Some v => (LAS_MACHPHYS, v)
                 | None => (LAS_NOADDR, addr)
                 end
             end
         end in
  (a, N.ldiff addr PAGE_MASK).

Section Scans.
  Variable vtop : N -> option N.
  Variable lowest_mapped : N -> N -> option N.
  Variable lowest_unmapped : N -> N -> option N.
  Variable alloc : bool.

  (** highest_linear (step.c): from [addr], as long as mapped stretches start
      with the offset [off], extend up to the end of the stretch.  Result:
      (status, *addr).  [lowest_unmapped] answering [None] (nothing unmapped up
      to the limit) leaves [limit + 1] in the cursor. *)
  Fixpoint highest_linear (fuel : nat) (next limit off : N) (ret : Z) (res : N)
    : option (Z * N) :=
    match fuel with
    | O => None
    | S f =>
        match lowest_mapped next limit with
        | None => Some (ret, res)
        | Some m =>
            match vtop m with
            | None => Some (ST_NOTPRESENT, res)          (* the conversion fails *)
            | Some p =>
                if negb (wsub p m =? off) then Some (ret, res)
                else
                  let next' := match lowest_unmapped m limit with
                               | Some u => u
                               | None => wadd limit 1
                               end in
                  highest_linear f next' limit off ST_OK (wsub next' 1)
            end
        end
    end.

  Definition is_directmap (a : N) : bool :=
    match vtop a with Some 0 => true | _ => false end.

  Variable fuel : nat.

  (** linux_directmap_by_pgt: status and region *)
  Definition linux_directmap_by_pgt (nfields : N) : option (Z * N * N) :=
    if is_directmap DIRECTMAP_START_2_6_0 then
      match highest_linear fuel DIRECTMAP_START_2_6_0 DIRECTMAP_END_2_6_0
                           (wsub 0 DIRECTMAP_START_2_6_0) ST_NOTPRESENT DIRECTMAP_START_2_6_0 with
      | Some (st, last) => Some (st, DIRECTMAP_START_2_6_0, last)
      | None => None
      end
    else if is_directmap DIRECTMAP_START_2_6_11 then
      match highest_linear fuel DIRECTMAP_START_2_6_11 DIRECTMAP_END_2_6_11
                           (wsub 0 DIRECTMAP_START_2_6_11) ST_NOTPRESENT DIRECTMAP_START_2_6_11 with
      | Some (st, last) => Some (st, DIRECTMAP_START_2_6_11, last)
      | None => None
      end
    else
      let '(start, end_) :=
        if nfields =? 6 then (DIRECTMAP_START_5LEVEL, DIRECTMAP_END_5LEVEL)
        else (DIRECTMAP_START_2_6_31, DIRECTMAP_END_2_6_31) in
      match lowest_mapped start end_ with
      | Some first =>
          match highest_linear fuel first end_ (wsub 0 first) ST_NOTPRESENT first with
          | Some (st, last) => Some (st, first, last)
          | None => None
          end
      | None => Some (ST_NOTIMPL, start, start)
      end.

  (** remove_rdirect *)
  Definition remove_rdirect (s : osys) : osys :=
    set_map (set_meth s METH_RDIRECT LNone) LMAP_KPHYS_DIRECT None.

  Definition lift (r : lres osys) : ires :=
    match r with
    | LOk s => IOk s
    | LNoMem => IErr ST_NOMEM
    | LOOB => IUndef
    | LUndef => IUndef
    end.

  (** linux_directmap *)
  Definition linux_directmap (o : lopts) (nfields : N) (s : osys) : ires :=
    match linux_directmap_by_pgt nfields with
    | None => IFuel
    | Some (st, first, last) =>
        let '(st, first, last) :=
          if negb (st =? ST_OK)%Z then
            match lo_ver o with
            | Some v =>
                match linux_directmap_by_ver v with
                | inr (f, l) => (ST_OK, f, l)
                | inl e => (e, first, last)
                end
            | None => (st, first, last)
            end
          else (st, first, last) in
        let s := remove_rdirect s in
        if (st =? ST_OK)%Z then
          lift (sys_set_layout alloc s LMAP_KV_PHYS
                  [ {| r_first := first; r_last := last; r_meth := METH_DIRECT; r_act := ActDirect |} ])
        else IOk s
    end.

  (** linux_ktext_meth: status (OK or the non-fatal NOTPRESENT) and system *)
  Definition set_ktext_offset (s : osys) (off : N) : osys :=
    set_meth s METH_KTEXT (LLinear LAS_KPHYS off).

  Definition linux_ktext_meth (o : lopts) (s : osys) : Z * osys :=
    match lo_physbase o with
    | Some pb => (ST_OK, set_ktext_offset s (wsub pb LINUX_KTEXT_START))
    | None =>
        let stext := match sym_stext o with Some v => Some v | None => sym_text o end in
        match stext with
        | Some v =>
            (* calc_ktext_offset *)
            match vtop v with
            | Some p => (ST_OK, set_ktext_offset s (wsub p v))
            | None => (ST_NOTPRESENT, s)
            end
        | None =>
            match lowest_mapped LINUX_KTEXT_START LINUX_KTEXT_END with
            | Some a =>
                match vtop a with
                | Some p => (ST_OK, set_ktext_offset s (wsub p a))
                | None => (ST_NOTPRESENT, s)
                end
            | None => (ST_NOTPRESENT, s)
            end
        end
    end.

  (** linux_ktext_extents: status, low, high *)
  Definition linux_ktext_extents (s : osys) : option (Z * N * N) :=
    match lowest_mapped LINUX_KTEXT_START LINUX_KTEXT_END with
    | None => Some (ST_NOTPRESENT, LINUX_KTEXT_START, LINUX_KTEXT_START)
    | Some low =>
        match o_meth s METH_KTEXT with
        | LLinear _ linearoff =>
            let r1 :=
              if low <=? LINUX_KTEXT_END_NOKASLR
              then highest_linear fuel low LINUX_KTEXT_END_NOKASLR linearoff ST_NOTPRESENT low
              else Some (ST_OK, low) in
            match r1 with
            | None => None
            | Some (st, high) =>
                if (st =? ST_OK)%Z && (LINUX_KTEXT_END_NOKASLR <=? high) then
                  let high1 := wadd high 1 in
                  match highest_linear fuel high1 LINUX_KTEXT_END linearoff ST_NOTPRESENT high1 with
                  | None => None
                  | Some (st2, high2) =>
                      if (st2 =? ST_NOTPRESENT)%Z then Some (ST_OK, low, wsub high2 1)
                      else Some (st2, low, high2)
                  end
                else Some (st, low, high)
            end
        | _ => Some (ST_NOTIMPL, low, low)    (* not reached: the KTEXT slot is linear here *)
        end
    end.

  Definition nonfatal (st : Z) : bool :=
    (st =? ST_NOMETH)%Z || (st =? ST_NODATA)%Z || (st =? ST_NOTPRESENT)%Z.

  Definition kv_map_set (s : osys) (first : N) (r : range) : ires :=
    match o_map s LMAP_KV_PHYS with
    | None => IUndef                                   (* NULL map dereferenced *)
    | Some m =>
        match map_set m first r alloc with
        | Ok m' => IOk (set_map s LMAP_KV_PHYS (Some m'))
        | NoMem => IErr ST_NOMEM
        | OOB => IUndef
        end
    end.

  (** linux_ktext_map *)
  Definition linux_ktext_map (o : lopts) (s : osys) : ires :=
    let '(st, s) := linux_ktext_meth o s in
    if nonfatal st then IOk s
    else if negb (st =? ST_OK)%Z then IErr st
    else
      let s1 :=
        match o_meth s METH_PGT with
        | LPgt _ ras raddr _ _ _ =>
            if (ras =? LAS_KV)%Z
            then kv_map_set s raddr {| endoff := PAGE_MASK; meth := Z.of_N METH_KTEXT |}
            else IOk s
        | _ => IOk s
        end in
      match s1 with
      | IOk s =>
          match linux_ktext_extents s with
          | None => IFuel
          | Some (st, low, high) =>
              if nonfatal st then IOk s
              else if negb (st =? ST_OK)%Z then IErr st
              else kv_map_set s low {| endoff := wsub high low; meth := Z.of_N METH_KTEXT |}
          end
      | e => e
      end.

  (** set_pgt_fallback *)
  Definition set_pgt_fallback (s : osys) (idx : N) : osys :=
    match o_meth s idx with
    | LNone => set_meth s idx (o_meth s METH_PGT)
    | _ => s
    end.

  (** sys_x86_64 + map_linux_x86_64 (os_type = linux, no Xen, the reader can
      read a physical address space) *)
  Definition sys_linux_x86_64 (o : lopts) : ires :=
    match get_virt_bits o with
    | inl e => IErr e
    | inr vb =>
        if negb ((vb =? 48) || (vb =? 57)) then IErr ST_NOTIMPL       (* bad_virt_bits *)
        else
          let nfields := if vb =? 48 then 5 else 6 in
          let root0 := match lo_rootpgt o with Some r => r | None => (LAS_NOADDR, 0) end in
          let pgt0 := LPgt LAS_MACHPHYS (fst root0) (snd root0) PTE_X86_64 0
                           (firstn (N.to_nat nfields) [12; 9; 9; 9; 9; 9]) in
          let s := set_meth empty_sys METH_PGT pgt0 in
          let hw_layout :=
            if nfields =? 6 then
              [ {| r_first := 0; r_last := NONCANONICAL_5L_START - 1; r_meth := METH_PGT; r_act := ActNone |};
                {| r_first := NONCANONICAL_5L_END + 1; r_last := MAXA; r_meth := METH_PGT; r_act := ActNone |} ]
            else
              [ {| r_first := 0; r_last := NONCANONICAL_START - 1; r_meth := METH_PGT; r_act := ActNone |};
                {| r_first := NONCANONICAL_END + 1; r_last := MAXA; r_meth := METH_PGT; r_act := ActNone |} ] in
          match sys_set_layout alloc s LMAP_HW hw_layout with
          | LOk s =>
              match (match o_map s LMAP_HW with Some m => map_copy m alloc alloc | None => None end) with
              | None => IErr ST_NOMEM
              | Some cp =>
                  let s := set_map s LMAP_KV_PHYS (Some cp) in
                  match sys_set_physmaps alloc s PHYSADDR_MASK with
                  | LOk s =>
                      (* map_linux_x86_64 *)
                      let '(ras, raddr) := linux_pgt_root o in
                      let mask := match num_sme_mask o with Some m => m | None => 0 end in
                      let s := set_meth s METH_PGT
                                 (LPgt LAS_MACHPHYS ras raddr PTE_X86_64 mask
                                       (firstn (N.to_nat nfields) [12; 9; 9; 9; 9; 9])) in
                      match linux_ktext_map o s with
                      | IOk s =>
                          let s := set_pgt_fallback s METH_KTEXT in
                          linux_directmap o nfields s
                      | e => e
                      end
                  | r => lift r
                  end
              end
          | r => lift r
          end
    end.
End Scans.
