(** C08 -- placeholder while the tie is brought up. *)
From Coq Require Import NArith.
Example C08_placeholder : (1 + 1 = 2)%N.
Proof. vm_compute; reflexivity. Qed.
