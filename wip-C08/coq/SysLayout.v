(** Model of the layout functions of src/addrxlat/sys.c: [sys_set_layout],
    [act_direct], [act_rdirect], [act_ident_kphys], [act_ident_machphys],
    [sys_set_physmaps], over C10's maps ([MapModel.map_set]).

    A translation system under construction ([osys]) is the array of the five
    maps (NULL = [None]) and the array of method slots.  Methods carry what
    the layout code reads and writes: kind, target address space, and the
    parameters of the linear and page-table kinds.

    [act_rdirect] reads [meth[DIRECT].param.linear.off] whatever the kind of
    that slot is; reading the union member of a slot that does not hold a
    linear method is the outcome [LUndef].  Allocation failure
    ([internal_map_new], [realloc] in [map_set]) is the outcome [LNoMem],
    decided by the oracle [alloc] (one answer for all calls: C18 enumerates
    schedules, this property does not).  No proofs in this file. *)
From Coq Require Import NArith ZArith List Bool.
From KdV Require Import Base.Wrap64 Map.MapModel.
Import ListNotations.
Local Open Scope N_scope.

(** addrxlat_sys_meth_t *)
Definition METH_PGT : N := 0.
Definition METH_UPGT : N := 1.
Definition METH_DIRECT : N := 2.
Definition METH_KTEXT : N := 3.
Definition METH_VMEMMAP : N := 4.
Definition METH_RDIRECT : N := 5.
Definition METH_MACHPHYS_KPHYS : N := 6.
Definition METH_KPHYS_MACHPHYS : N := 7.

(** addrxlat_sys_map_t *)
Definition LMAP_HW : N := 0.
Definition LMAP_KV_PHYS : N := 1.
Definition LMAP_KPHYS_DIRECT : N := 2.
Definition LMAP_MACHPHYS_KPHYS : N := 3.
Definition LMAP_KPHYS_MACHPHYS : N := 4.

(** addrxlat_addrspace_t *)
Definition LAS_KPHYS : Z := 0%Z.
Definition LAS_MACHPHYS : Z := 1%Z.
Definition LAS_KV : Z := 2%Z.
Definition LAS_NOADDR : Z := (-1)%Z.

Inductive lmeth :=
| LNone                                            (* ADDRXLAT_NOMETH *)
| LLinear (tas : Z) (off : N)
| LPgt (tas : Z) (root_as : Z) (root_addr : N) (fmt : N) (pte_mask : N) (fields : list N).

Record osys := { o_map : N -> option map; o_meth : N -> lmeth }.

Definition set_meth (s : osys) (idx : N) (m : lmeth) : osys :=
  {| o_map := o_map s; o_meth := fun j => if j =? idx then m else o_meth s j |}.
Definition set_map (s : osys) (idx : N) (m : option map) : osys :=
  {| o_map := fun j => if j =? idx then m else o_map s j; o_meth := o_meth s |}.

Definition empty_sys : osys := {| o_map := fun _ => None; o_meth := fun _ => LNone |}.

(** enum sys_action *)
Inductive action := ActNone | ActDirect | ActRdirect | ActIdentKphys | ActIdentMachphys.

Record region := { r_first : N; r_last : N; r_meth : N; r_act : action }.

Inductive lres (A : Type) := LOk (a : A) | LNoMem | LOOB | LUndef.
Arguments LOk {A}. Arguments LNoMem {A}. Arguments LOOB {A}. Arguments LUndef {A}.

Section Layout.
  Variable alloc : bool.

  (** one region of the loop in sys_set_layout, for the actions that do not
      recurse: the action, then internal_map_set on the map being built *)
  Definition simple_action (s : osys) (r : region) : lres osys :=
    match r_act r with
    | ActRdirect =>
        (* meth->param.linear.off = -sys->meth[DIRECT].param.linear.off *)
        match o_meth s METH_DIRECT with
        | LLinear _ off => LOk (set_meth s (r_meth r) (LLinear LAS_KV (wsub 0 off)))
        | _ => LUndef
        end
    | ActIdentKphys => LOk (set_meth s (r_meth r) (LLinear LAS_KPHYS 0))
    | ActIdentMachphys => LOk (set_meth s (r_meth r) (LLinear LAS_MACHPHYS 0))
    | _ => LOk s
    end.

  Definition region_range (r : region) : range :=
    {| endoff := wsub (r_last r) (r_first r); meth := Z.of_N (r_meth r) |}.

  (** the loop of sys_set_layout without SYS_ACT_DIRECT *)
  Fixpoint layout_simple (s : osys) (m : map) (layout : list region) : lres (osys * map) :=
    match layout with
    | [] => LOk (s, m)
    | r :: tl =>
        match simple_action s r with
        | LOk s' =>
            match map_set m (r_first r) (region_range r) alloc with
            | Ok m' => layout_simple s' m' tl
            | NoMem => LNoMem
            | OOB => LOOB
            end
        | LNoMem => LNoMem | LOOB => LOOB | LUndef => LUndef
        end
    end.

  (** sys_set_layout for a layout without SYS_ACT_DIRECT: the map is created
      when absent and is attached to the system before the loop runs *)
  Definition set_layout_simple (s : osys) (idx : N) (layout : list region) : lres osys :=
    if negb alloc && match o_map s idx with None => true | Some _ => false end then LNoMem
    else
      let m := match o_map s idx with Some m => m | None => [] end in
      match layout_simple s m layout with
      | LOk (s', m') => LOk (set_map s' idx (Some m'))
      | LNoMem => LNoMem | LOOB => LOOB | LUndef => LUndef
      end.

  (** act_direct: the slot becomes a linear method to kernel physical
      addresses with offset [-first]; the reverse mapping [0, last - first]
      is laid out on ADDRXLAT_SYS_MAP_KPHYS_DIRECT *)
  Definition act_direct (s : osys) (r : region) : lres osys :=
    let s1 := set_meth s (r_meth r) (LLinear LAS_KPHYS (wsub 0 (r_first r))) in
    set_layout_simple s1 LMAP_KPHYS_DIRECT
      [ {| r_first := 0; r_last := wsub (r_last r) (r_first r);
           r_meth := METH_RDIRECT; r_act := ActRdirect |} ].

  (** the loop of sys_set_layout *)
  Fixpoint layout_loop (s : osys) (m : map) (layout : list region) : lres (osys * map) :=
    match layout with
    | [] => LOk (s, m)
    | r :: tl =>
        let acted :=
          match r_act r with
          | ActDirect => act_direct s r
          | _ => simple_action s r
          end in
        match acted with
        | LOk s' =>
            match map_set m (r_first r) (region_range r) alloc with
            | Ok m' => layout_loop s' m' tl
            | NoMem => LNoMem
            | OOB => LOOB
            end
        | LNoMem => LNoMem | LOOB => LOOB | LUndef => LUndef
        end
    end.

  (** sys_set_layout.  ([idx] is never ADDRXLAT_SYS_MAP_KPHYS_DIRECT when the
      layout contains SYS_ACT_DIRECT: the two maps are distinct objects.) *)
  Definition sys_set_layout (s : osys) (idx : N) (layout : list region) : lres osys :=
    if negb alloc && match o_map s idx with None => true | Some _ => false end then LNoMem
    else
      let m := match o_map s idx with Some m => m | None => [] end in
      match layout_loop s m layout with
      | LOk (s', m') => LOk (set_map s' idx (Some m'))
      | LNoMem => LNoMem | LOOB => LOOB | LUndef => LUndef
      end.

  (** sys_set_physmaps *)
  Definition sys_set_physmaps (s : osys) (maxaddr : N) : lres osys :=
    match sys_set_layout s LMAP_MACHPHYS_KPHYS
            [ {| r_first := 0; r_last := maxaddr; r_meth := METH_MACHPHYS_KPHYS;
                 r_act := ActIdentKphys |} ] with
    | LOk s' =>
        sys_set_layout s' LMAP_KPHYS_MACHPHYS
          [ {| r_first := 0; r_last := maxaddr; r_meth := METH_KPHYS_MACHPHYS;
               r_act := ActIdentMachphys |} ]
    | e => e
    end.
End Layout.

(** translation of an address by the method a map selects (linear methods
    only: what the fast paths are) *)
Definition linear_apply (m : lmeth) (addr : N) : option (Z * N) :=
  match m with
  | LLinear tas off => Some (tas, wadd addr off)
  | _ => None
  end.
