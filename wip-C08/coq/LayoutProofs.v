(** C08, proofs about the layout functions of sys.c (Sys/SysLayout.v) and the
    x86-64 Linux decisions (Sys/LinuxX86_64.v). *)
From Coq Require Import NArith ZArith List Bool Lia.
From KdV Require Import Base.Wrap64 Map.MapModel Map.MapSpec Map.MapProofs Sys.SysLayout.
Import ListNotations.
Local Open Scope N_scope.

(** * Arithmetic of the direct / reverse direct offsets (mod 2^64) *)

Lemma wsub_0_lt f : f < W -> f <> 0 -> wsub 0 f = W - f.
Proof.
  intros Hf Hn. unfold wsub, w. rewrite (N.mod_small f) by assumption.
  rewrite N.add_0_l. apply N.mod_small. lia.
Qed.

Lemma wsub_0_0 : wsub 0 0 = 0.
Proof.
  unfold wsub, w. rewrite N.mod_0_l by exact W_nz. rewrite N.add_0_l, N.sub_0_r.
  apply N.mod_same. exact W_nz.
Qed.

(** the reverse direct offset is the direct map's base *)
Lemma wsub_0_invol f : f < W -> wsub 0 (wsub 0 f) = f.
Proof.
  intros Hf. destruct (N.eq_dec f 0) as [->|Hn].
  - now rewrite !wsub_0_0.
  - rewrite (wsub_0_lt f Hf Hn). rewrite wsub_0_lt by lia. lia.
Qed.

(** adding [-f] then [f] (or [f] then [-f]) is the identity on 64-bit values *)
Lemma direct_then_rdirect f v : f < W -> v < W -> wadd (wadd v (wsub 0 f)) f = v.
Proof.
  intros Hf Hv. destruct (N.eq_dec f 0) as [->|Hn].
  - rewrite wsub_0_0. unfold wadd, w. rewrite !N.add_0_r. rewrite N.mod_mod by exact W_nz.
    now apply N.mod_small.
  - rewrite (wsub_0_lt f Hf Hn). unfold wadd, w.
    rewrite N.add_mod_idemp_l by exact W_nz.
    replace (v + (W - f) + f) with (v + 1 * W) by lia.
    rewrite N.mod_add by exact W_nz. now apply N.mod_small.
Qed.

Lemma rdirect_then_direct f p : f < W -> p < W -> wadd (wadd p f) (wsub 0 f) = p.
Proof.
  intros Hf Hp. destruct (N.eq_dec f 0) as [->|Hn].
  - rewrite wsub_0_0. unfold wadd, w. rewrite !N.add_0_r. rewrite N.mod_mod by exact W_nz.
    now apply N.mod_small.
  - rewrite (wsub_0_lt f Hf Hn). unfold wadd, w.
    rewrite N.add_mod_idemp_l by exact W_nz.
    replace (p + f + (W - f)) with (p + 1 * W) by lia.
    rewrite N.mod_add by exact W_nz. now apply N.mod_small.
Qed.

Lemma direct_in_range f l v : f <= v -> v <= l -> l < W -> wadd v (wsub 0 f) = v - f.
Proof.
  intros H1 H2 H3. destruct (N.eq_dec f 0) as [->|Hn].
  - rewrite wsub_0_0. unfold wadd, w. rewrite N.add_0_r, N.sub_0_r. apply N.mod_small. lia.
  - rewrite wsub_0_lt by lia. unfold wadd, w.
    replace (v + (W - f)) with ((v - f) + 1 * W) by lia.
    rewrite N.mod_add by exact W_nz. apply N.mod_small. lia.
Qed.

Lemma rdirect_in_range f l p : f <= l -> l < W -> p <= l - f -> wadd p f = p + f.
Proof. intros H1 H2 H3. unfold wadd, w. apply N.mod_small. lia. Qed.

(** * sys_set_layout with SYS_ACT_DIRECT *)

Definition map_of (s : osys) (idx : N) : map :=
  match o_map s idx with Some m => m | None => [] end.

Lemma tiles_map_of_none s idx : o_map s idx = None -> tiles (map_of s idx).
Proof. intros H. unfold map_of. rewrite H. now left. Qed.

Definition direct_region (first last : N) : region :=
  {| r_first := first; r_last := last; r_meth := METH_DIRECT; r_act := ActDirect |}.

Theorem direct_layout s first last :
  tiles (map_of s LMAP_KV_PHYS) -> tiles (map_of s LMAP_KPHYS_DIRECT) ->
  first <= last -> last < W ->
  exists s',
    sys_set_layout true s LMAP_KV_PHYS [direct_region first last] = LOk s' /\
    (* the two methods *)
    o_meth s' METH_DIRECT = LLinear LAS_KPHYS (wsub 0 first) /\
    o_meth s' METH_RDIRECT = LLinear LAS_KV first /\
    (* the two maps select them exactly on the two regions *)
    (forall v, denote (map_of s' LMAP_KV_PHYS) v =
               if (first <=? v) && (v <=? last) then Z.of_N METH_DIRECT
               else denote (map_of s LMAP_KV_PHYS) v) /\
    (forall p, denote (map_of s' LMAP_KPHYS_DIRECT) p =
               if p <=? last - first then Z.of_N METH_RDIRECT
               else denote (map_of s LMAP_KPHYS_DIRECT) p) /\
    (* everything else is untouched *)
    (forall i, i <> METH_DIRECT -> i <> METH_RDIRECT -> o_meth s' i = o_meth s i) /\
    (forall i, i <> LMAP_KV_PHYS -> i <> LMAP_KPHYS_DIRECT -> o_map s' i = o_map s i).
Proof.
  intros Htk Htd Hfl Hl.
  assert (Hsub : wsub last first = last - first) by (apply wsub_le; lia).
  assert (Hsub0 : wsub (last - first) 0 = last - first).
  { rewrite wsub_le; [apply N.sub_0_r|lia|lia]. }
  (* the reverse direct map *)
  set (s1 := set_meth s METH_DIRECT (LLinear LAS_KPHYS (wsub 0 first))).
  set (rr := {| r_first := 0; r_last := wsub last first; r_meth := METH_RDIRECT; r_act := ActRdirect |}).
  destruct (set_pointwise (map_of s LMAP_KPHYS_DIRECT) 0 (region_range rr) Htd) as [md [Hmd Hdd]].
  { cbn. rewrite Hsub, Hsub0. lia. }
  (* the direct map *)
  destruct (set_pointwise (map_of s LMAP_KV_PHYS) first (region_range (direct_region first last)) Htk)
    as [mk [Hmk Hdk]].
  { cbn. rewrite Hsub. lia. }
  set (s2 := set_map (set_meth s1 METH_RDIRECT (LLinear LAS_KV (wsub 0 (wsub 0 first))))
                     LMAP_KPHYS_DIRECT (Some md)).
  exists (set_map s2 LMAP_KV_PHYS (Some mk)).
  assert (Hact : act_direct true s (direct_region first last) = LOk s2).
  { unfold act_direct, set_layout_simple. cbn [r_meth r_first r_last direct_region negb andb].
    fold s1. fold rr.
    replace (match o_map s1 LMAP_KPHYS_DIRECT with Some m => m | None => [] end)
      with (map_of s LMAP_KPHYS_DIRECT) by reflexivity.
    cbn [layout_simple]. unfold simple_action. cbn [r_act rr r_meth r_first].
    replace (o_meth s1 METH_DIRECT) with (LLinear LAS_KPHYS (wsub 0 first)) by reflexivity.
    rewrite Hmd. reflexivity. }
  split; [|split; [|split; [|split; [|split; [|split]]]]].
  - unfold sys_set_layout. cbn [negb andb].
    replace (match o_map s LMAP_KV_PHYS with Some m => m | None => [] end)
      with (map_of s LMAP_KV_PHYS) by reflexivity.
    cbn [layout_loop]. cbn [r_act direct_region]. fold (direct_region first last).
    rewrite Hact. cbn [r_first direct_region]. rewrite Hmk. reflexivity.
  - reflexivity.
  - cbn. f_equal. apply wsub_0_invol. lia.
  - intros v. unfold map_of at 1. cbn. rewrite Hdk. unfold set_spec. cbn. now rewrite Hsub,
      (N.add_comm first), N.sub_add by assumption.
  - intros p. unfold map_of at 1. cbn. rewrite Hdd. unfold set_spec. cbn.
    rewrite Hsub, Hsub0. assert (E : 0 <=? p = true) by (apply N.leb_le; lia). now rewrite E.
  - intros i H1 H2. cbn.
    destruct (i =? METH_RDIRECT) eqn:E1; [apply N.eqb_eq in E1; contradiction|].
    destruct (i =? METH_DIRECT) eqn:E2; [apply N.eqb_eq in E2; contradiction|]. reflexivity.
  - intros i H1 H2. cbn.
    destruct (i =? LMAP_KV_PHYS) eqn:E1; [apply N.eqb_eq in E1; contradiction|].
    destruct (i =? LMAP_KPHYS_DIRECT) eqn:E2; [apply N.eqb_eq in E2; contradiction|]. reflexivity.
Qed.

(** The property of the two fast paths: on the regions laid out by
    [sys_set_layout] with SYS_ACT_DIRECT, direct after reverse direct is the
    identity on [0, last - first] and reverse direct after direct the identity
    on [first, last]; each lands inside the other's region. *)
Theorem direct_rdirect_inverse s first last :
  tiles (map_of s LMAP_KV_PHYS) -> tiles (map_of s LMAP_KPHYS_DIRECT) ->
  first <= last -> last < W ->
  exists s' doff roff,
    sys_set_layout true s LMAP_KV_PHYS [direct_region first last] = LOk s' /\
    o_meth s' METH_DIRECT = LLinear LAS_KPHYS doff /\
    o_meth s' METH_RDIRECT = LLinear LAS_KV roff /\
    (forall v, first <= v <= last ->
       denote (map_of s' LMAP_KV_PHYS) v = Z.of_N METH_DIRECT /\
       wadd v doff <= last - first /\
       denote (map_of s' LMAP_KPHYS_DIRECT) (wadd v doff) = Z.of_N METH_RDIRECT /\
       wadd (wadd v doff) roff = v) /\
    (forall p, p <= last - first ->
       denote (map_of s' LMAP_KPHYS_DIRECT) p = Z.of_N METH_RDIRECT /\
       first <= wadd p roff <= last /\
       denote (map_of s' LMAP_KV_PHYS) (wadd p roff) = Z.of_N METH_DIRECT /\
       wadd (wadd p roff) doff = p) /\
    (* and, as 64-bit arithmetic, the two offsets cancel everywhere *)
    (forall x, x < W -> wadd (wadd x doff) roff = x /\ wadd (wadd x roff) doff = x).
Proof.
  intros Htk Htd Hfl Hl.
  destruct (direct_layout s first last Htk Htd Hfl Hl) as [s' [Hs [Hd [Hr [Hk [Hp _]]]]]].
  exists s', (wsub 0 first), first. split; [exact Hs|]. split; [exact Hd|]. split; [exact Hr|].
  split; [|split].
  - intros v [Hv1 Hv2].
    assert (Hdv : wadd v (wsub 0 first) = v - first) by (eapply direct_in_range; eassumption).
    split; [|split; [|split]].
    + rewrite Hk. apply N.leb_le in Hv1. apply N.leb_le in Hv2. now rewrite Hv1, Hv2.
    + rewrite Hdv. lia.
    + rewrite Hp, Hdv. assert (E : v - first <=? last - first = true) by (apply N.leb_le; lia).
      now rewrite E.
    + apply direct_then_rdirect; lia.
  - intros p Hpr.
    assert (Hrp : wadd p first = p + first) by (eapply rdirect_in_range; eassumption).
    split; [|split; [|split]].
    + rewrite Hp. apply N.leb_le in Hpr. now rewrite Hpr.
    + rewrite Hrp. lia.
    + rewrite Hk, Hrp.
      assert (E1 : first <=? p + first = true) by (apply N.leb_le; lia).
      assert (E2 : p + first <=? last = true) by (apply N.leb_le; lia).
      now rewrite E1, E2.
    + apply rdirect_then_direct; lia.
  - intros x Hx. split; [apply direct_then_rdirect|apply rdirect_then_direct]; lia.
Qed.
