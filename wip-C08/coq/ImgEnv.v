(** C08, test environment: the abstract description of a synthesised image
    (lib/kdv/sysimg.py) and what the page-table scans answer on it.  An image
    is a list of [chunk]s in ascending order, each mapped linearly
    ([phys = virt + off] modulo 2^64), page aligned and separated by unmapped
    gaps.  These functions are the *specification-level* answers (least mapped
    address in a window, ...), not a model of step.c (that is Sys/Scan.v).
    No proofs. *)
From Coq Require Import NArith ZArith List Bool.
From KdV Require Import Base.Wrap64.
Import ListNotations.
Local Open Scope N_scope.

Record chunk := { c_first : N; c_last : N; c_off : N }.

Fixpoint img_vtop (cs : list chunk) (v : N) : option N :=
  match cs with
  | [] => None
  | c :: tl => if (c_first c <=? v) && (v <=? c_last c) then Some (wadd v (c_off c)) else img_vtop tl v
  end.

(** least mapped address >= a (rounded down to a page), if <= lim *)
Fixpoint img_lowest_mapped (cs : list chunk) (a lim : N) : option N :=
  let a := N.ldiff a 0xfff in
  match cs with
  | [] => None
  | c :: tl =>
      if c_last c <? a then img_lowest_mapped tl a lim
      else let m := N.max a (c_first c) in if m <=? lim then Some m else None
  end.

(** least unmapped address >= a (rounded down to a page), if <= lim *)
Fixpoint img_lowest_unmapped (cs : list chunk) (a lim : N) : option N :=
  let a := N.ldiff a 0xfff in
  match cs with
  | [] => if a <=? lim then Some a else None
  | c :: tl =>
      if c_last c <? a then img_lowest_unmapped tl a lim
      else if a <? c_first c then (if a <=? lim then Some a else None)
      else (* a lies in c: the first address after it (chunks are separated by gaps) *)
        if c_last c <? lim then Some (c_last c + 1) else None
  end.
