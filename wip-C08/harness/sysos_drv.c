/* Correspondence driver, engine "sysos" (C08): feeds addrxlat_sys_os_init
 * (x86_64, Linux) from options, symbols/registers/numbers and a sparse memory
 * image, all through the public API, then
 *   - prints the resulting maps and methods (model-vs-code part),
 *   - translates probe addresses through ADDRXLAT_SYS_MAP_KV_PHYS ("fast")
 *     and through ADDRXLAT_SYS_MAP_HW followed by the conversion to kernel
 *     physical ("hw"), and physical probes through ADDRXLAT_SYS_MAP_KPHYS_DIRECT
 *     and back (the property evaluated on the implementation).
 * Case format (one line, tokens separated by spaces; numbers hex):
 *   ver=<code> physbase=<addr> virtbits=<n> root=<as>:<addr>      options
 *   sym:<name>=<val> reg:<name>=<val> num:<name>=<val>            callbacks
 *   CAP:<as>                                                       readable address space
 *   W:<addr>:<val>   R:<addr>:<val>:<count>:<step>                 64-bit words / runs
 *   Q:<kvaddr>  P:<kphys>                                          probes
 * Output: "st=<os_init status> | <maps> | <methods> | <probe results>". */
#include "common.h"
#include <libkdumpfile/addrxlat.h>

#define PAGE 4096ULL
struct page { uint64_t base; uint64_t w[PAGE / 8]; struct page *next; };
#define NBUCKET 1024
static struct page *bucket[NBUCKET];
static int entry_as;
static addrxlat_ctx_t *ctx;

static struct page *find_page(uint64_t base, int create)
{
	unsigned h = (unsigned)((base >> 12) * 2654435761u) % NBUCKET;
	struct page *p;
	for (p = bucket[h]; p; p = p->next)
		if (p->base == base)
			return p;
	if (!create)
		return NULL;
	p = calloc(1, sizeof *p);
	p->base = base;
	p->next = bucket[h];
	bucket[h] = p;
	return p;
}
static void free_pages(void)
{
	unsigned h;
	for (h = 0; h < NBUCKET; ++h) {
		struct page *p = bucket[h], *n;
		for (; p; p = n) { n = p->next; free(p); }
		bucket[h] = NULL;
	}
}
static void put_word(uint64_t addr, uint64_t val)
{
	struct page *p = find_page(addr & ~(PAGE - 1), 1);
	p->w[(addr & (PAGE - 1)) >> 3] = val;
}

static addrxlat_status get_page(const addrxlat_cb_t *cb, addrxlat_buffer_t *buf)
{
	struct page *p;
	if (buf->addr.as != entry_as)
		return addrxlat_ctx_err(ctx, ADDRXLAT_ERR_INVALID, "Unexpected address space: %ld",
					(long)buf->addr.as);
	p = find_page(buf->addr.addr & ~(PAGE - 1), 0);
	if (!p)
		return addrxlat_ctx_err(ctx, ADDRXLAT_ERR_NODATA, "No data");
	buf->addr.addr = p->base;
	buf->ptr = p->w;
	buf->size = PAGE;
	buf->byte_order = ADDRXLAT_HOST_ENDIAN;
	return ADDRXLAT_OK;
}
static unsigned long read_caps(const addrxlat_cb_t *cb) { return ADDRXLAT_CAPS(entry_as); }

struct named { char kind; char name[40]; uint64_t val; };
static struct named names[32];
static unsigned nnames;
static addrxlat_status lookup(char kind, const char *name, addrxlat_addr_t *val)
{
	unsigned i;
	for (i = 0; i < nnames; ++i)
		if (names[i].kind == kind && !strcmp(names[i].name, name)) {
			*val = names[i].val;
			return ADDRXLAT_OK;
		}
	return ADDRXLAT_ERR_NODATA;
}
static addrxlat_status cb_reg(const addrxlat_cb_t *cb, const char *n, addrxlat_addr_t *v) { return lookup('r', n, v); }
static addrxlat_status cb_sym(const addrxlat_cb_t *cb, const char *n, addrxlat_addr_t *v) { return lookup('s', n, v); }
static addrxlat_status cb_num(const addrxlat_cb_t *cb, const char *n, addrxlat_addr_t *v) { return lookup('n', n, v); }
static addrxlat_status cb_sizeof(const addrxlat_cb_t *cb, const char *n, addrxlat_addr_t *v) { return ADDRXLAT_ERR_NODATA; }
static addrxlat_status cb_offsetof(const addrxlat_cb_t *cb, const char *o, const char *e, addrxlat_addr_t *v) { return ADDRXLAT_ERR_NODATA; }

static const char *const mapname[] = { "hw", "kvphys", "kpdirect", "mpkp", "kpmp" };

static void show_maps(addrxlat_sys_t *sys)
{
	unsigned i;
	for (i = 0; i < ADDRXLAT_SYS_MAP_NUM; ++i) {
		addrxlat_map_t *map = addrxlat_sys_get_map(sys, i);
		printf("%s%s=", i ? " " : "", mapname[i]);
		if (!map) { printf("null"); continue; }
		{
			size_t k, n = addrxlat_map_len(map);
			const addrxlat_range_t *r = addrxlat_map_ranges(map);
			for (k = 0; k < n; ++k) {
				printf("%s%" PRIx64 ":", k ? "," : "", (uint64_t)r[k].endoff);
				pshx((long long)r[k].meth);
			}
		}
	}
}

static void show_meths(addrxlat_sys_t *sys)
{
	unsigned i, first = 1;
	for (i = 0; i < ADDRXLAT_SYS_METH_NUM; ++i) {
		const addrxlat_meth_t *m = addrxlat_sys_get_meth(sys, i);
		if (m->kind == ADDRXLAT_NOMETH)
			continue;
		printf("%s%x=", first ? "" : " ", i);
		first = 0;
		switch (m->kind) {
		case ADDRXLAT_LINEAR:
			printf("L:"); pshx(m->target_as); printf(":%" PRIx64, (uint64_t)m->param.linear.off);
			break;
		case ADDRXLAT_PGT: {
			unsigned k;
			printf("P:"); pshx(m->target_as); putchar(':'); pshx(m->param.pgt.root.as);
			printf(":%" PRIx64 ":%x:%" PRIx64 ":", (uint64_t)m->param.pgt.root.addr,
			       (unsigned)m->param.pgt.pf.pte_format, (uint64_t)m->param.pgt.pte_mask);
			for (k = 0; k < m->param.pgt.pf.nfields; ++k)
				printf("%s%x", k ? "." : "", (unsigned)m->param.pgt.pf.fieldsz[k]);
			break;
		}
		case ADDRXLAT_MEMARR:
			printf("A:"); pshx(m->target_as); putchar(':'); pshx(m->param.memarr.base.as);
			printf(":%" PRIx64 ":%x:%x:%x", (uint64_t)m->param.memarr.base.addr,
			       m->param.memarr.shift, m->param.memarr.elemsz, m->param.memarr.valsz);
			break;
		default:
			printf("kind%d", (int)m->kind);
		}
	}
	if (first) putchar('-');
}

/* translate [addr] (in the space the map expects) through map [mapidx]; the
 * result is converted to [want] unless it already is there.
 * returns: 0 ok, -1 no method for the address, else the failing status */
static long xlat_through(addrxlat_sys_t *sys, addrxlat_sys_map_t mapidx, uint64_t addr,
			 addrxlat_addrspace_t want, addrxlat_fulladdr_t *out)
{
	addrxlat_map_t *map = addrxlat_sys_get_map(sys, mapidx);
	addrxlat_sys_meth_t mi;
	addrxlat_step_t step;
	addrxlat_status st;
	if (!map)
		return -1;
	mi = addrxlat_map_search(map, addr);
	if (mi == ADDRXLAT_SYS_METH_NONE)
		return -1;
	memset(&step, 0, sizeof step);
	step.ctx = ctx;
	step.sys = sys;
	step.meth = addrxlat_sys_get_meth(sys, mi);
	step.base.addr = addr;
	st = addrxlat_walk(&step);
	if (st != ADDRXLAT_OK)
		return st;
	*out = step.base;
	if (out->as != want) {
		st = addrxlat_fulladdr_conv(out, want, ctx, sys);
		if (st != ADDRXLAT_OK)
			return 0x100 + st;
	}
	return 0;
}

static void show_res(const char *tag, long rc, const addrxlat_fulladdr_t *fa)
{
	printf(" %s=", tag);
	if (rc == 0) printf("ok:%" PRIx64, (uint64_t)fa->addr);
	else if (rc == -1) printf("none");
	else printf("e%lx", rc);
}

static void probe_kv(addrxlat_sys_t *sys, uint64_t v)
{
	addrxlat_fulladdr_t f = { 0, 0 }, h = { 0, 0 };
	long rf = xlat_through(sys, ADDRXLAT_SYS_MAP_KV_PHYS, v, ADDRXLAT_KPHYSADDR, &f);
	long rh;
	addrxlat_ctx_clear_err(ctx);
	rh = xlat_through(sys, ADDRXLAT_SYS_MAP_HW, v, ADDRXLAT_KPHYSADDR, &h);
	addrxlat_ctx_clear_err(ctx);
	printf("v%" PRIx64, v);
	show_res("fast", rf, &f);
	show_res("hw", rh, &h);
}

static void probe_phys(addrxlat_sys_t *sys, uint64_t p)
{
	addrxlat_fulladdr_t v = { 0, 0 }, b = { 0, 0 }, h = { 0, 0 };
	long rv = xlat_through(sys, ADDRXLAT_SYS_MAP_KPHYS_DIRECT, p, ADDRXLAT_KVADDR, &v);
	addrxlat_ctx_clear_err(ctx);
	printf("p%" PRIx64, p);
	show_res("rdirect", rv, &v);
	if (rv == 0) {
		long rb = xlat_through(sys, ADDRXLAT_SYS_MAP_KV_PHYS, v.addr, ADDRXLAT_KPHYSADDR, &b);
		long rh;
		addrxlat_ctx_clear_err(ctx);
		rh = xlat_through(sys, ADDRXLAT_SYS_MAP_HW, v.addr, ADDRXLAT_KPHYSADDR, &h);
		addrxlat_ctx_clear_err(ctx);
		show_res("back", rb, &b);
		show_res("hwback", rh, &h);
	}
}

int main(int argc, char **argv)
{
	FILE *f = fopen(argv[1], "r");
	char *line;
	if (!f) { perror(argv[1]); return 2; }
	setvbuf(stdout, NULL, _IOLBF, 0);
	while ((line = verif_getline(f))) {
		static char *tok[1 << 16];
		int ntok = 0, i, nopt = 0, first;
		char *save = NULL, *p;
		addrxlat_cb_t *cb;
		addrxlat_sys_t *sys = addrxlat_sys_new();
		addrxlat_opt_t opts[8];
		addrxlat_fulladdr_t rootpgt;
		addrxlat_status st;

		ctx = addrxlat_ctx_new();
		cb = addrxlat_ctx_add_cb(ctx);
		cb->get_page = get_page;
		cb->read_caps = read_caps;
		cb->reg_value = cb_reg;
		cb->sym_value = cb_sym;
		cb->sym_sizeof = cb_sizeof;
		cb->sym_offsetof = cb_offsetof;
		cb->num_value = cb_num;
		entry_as = ADDRXLAT_MACHPHYSADDR;
		nnames = 0;
		addrxlat_opt_arch(&opts[nopt++], "x86_64");
		addrxlat_opt_os_type(&opts[nopt++], "linux");
		for (p = strtok_r(line, " ", &save); p && ntok < (1 << 16); p = strtok_r(NULL, " ", &save))
			tok[ntok++] = p;
		for (i = 0; i < ntok; ++i) {
			char *t = tok[i];
			if (!strncmp(t, "ver=", 4)) addrxlat_opt_version_code(&opts[nopt++], hx(t + 4));
			else if (!strncmp(t, "physbase=", 9)) addrxlat_opt_phys_base(&opts[nopt++], hx(t + 9));
			else if (!strncmp(t, "virtbits=", 9)) addrxlat_opt_virt_bits(&opts[nopt++], hx(t + 9));
			else if (!strncmp(t, "root=", 5)) {
				char *c = strchr(t + 5, ':');
				rootpgt.as = (int)shx(t + 5);
				rootpgt.addr = hx(c + 1);
				addrxlat_opt_rootpgt(&opts[nopt++], &rootpgt);
			} else if (!strncmp(t, "sym:", 4) || !strncmp(t, "reg:", 4) || !strncmp(t, "num:", 4)) {
				char *eq = strchr(t, '=');
				struct named *n = &names[nnames++];
				n->kind = t[0];
				*eq = 0;
				strncpy(n->name, t + 4, sizeof n->name - 1);
				n->name[sizeof n->name - 1] = 0;
				n->val = hx(eq + 1);
			} else if (!strncmp(t, "CAP:", 4)) entry_as = (int)shx(t + 4);
			else if (t[0] == 'W' && t[1] == ':') {
				char *c = strchr(t + 2, ':');
				put_word(hx(t + 2), hx(c + 1));
			} else if (t[0] == 'R' && t[1] == ':') {
				uint64_t a, v, n, s, k; char *c = t + 2;
				a = hx(c); c = strchr(c, ':') + 1;
				v = hx(c); c = strchr(c, ':') + 1;
				n = hx(c); c = strchr(c, ':') + 1;
				s = hx(c);
				for (k = 0; k < n; ++k)
					put_word(a + 8 * k, v + k * s);
			}
		}
		st = addrxlat_sys_os_init(sys, ctx, nopt, opts);
		printf("st="); pshx((long long)st);
		printf(" | ");
		show_maps(sys);
		printf(" | ");
		show_meths(sys);
		printf(" |");
		addrxlat_ctx_clear_err(ctx);
		first = 1;
		if (st == ADDRXLAT_OK) {
			addrxlat_map_t *kv = addrxlat_sys_get_map(sys, ADDRXLAT_SYS_MAP_KV_PHYS);
			for (i = 0; i < ntok; ++i) {
				char *t = tok[i];
				if (t[0] == 'Q' && t[1] == ':') { putchar(first ? ' ' : ';'); first = 0; probe_kv(sys, hx(t + 2)); }
				else if (t[0] == 'P' && t[1] == ':') { putchar(first ? ' ' : ';'); first = 0; probe_phys(sys, hx(t + 2)); }
			}
			/* self-derived probes: around every boundary of the KV -> PHYS map */
			if (kv) {
				size_t k, n = addrxlat_map_len(kv);
				const addrxlat_range_t *r = addrxlat_map_ranges(kv);
				uint64_t pos = 0;
				for (k = 0; k + 1 < n; ++k) {
					static const long long d[] = { -0x1000, -1, 0, 0xfff, 0x1000 };
					unsigned j;
					pos += r[k].endoff + 1;	/* first address of the next range */
					for (j = 0; j < 5; ++j) {
						putchar(first ? ' ' : ';'); first = 0;
						probe_kv(sys, pos + d[j]);
					}
				}
			}
		}
		putchar('\n');
		addrxlat_sys_decref(sys);
		addrxlat_ctx_decref(ctx);
		free_pages();
	}
	fclose(f);
	return 0;
}
