/* Correspondence driver, engine "errmsg" (C16): replays add/clear histories on
 * the real err_vadd()/err_clear() of src/errmsg.h.
 *
 *   case line:  <bufsz> <op> <op> ...      (bufsz decimal)
 *      A:<hex text or ->:<ok>   err_add(err, "%s", text), realloc answers <ok>
 *      X:<ok>                   a format on which vsnprintf() fails (returns -1)
 *      C                        err_clear()
 *   output, one token per op:   N | B<off>=<hex> | D<off>=<hex>
 *      (str is NULL | points at buf+off | points at dyn+off; hex = the C string)
 *
 * The error object is malloc'ed with exactly sizeof(hdr)+bufsz bytes and every
 * realloc() answer is an exact-size block that always moves, so ASan's red
 * zones are the guard zones for buf, dyn and the VLA lbuf.
 */
#include "common.h"
#include <unistd.h>
#include <stdarg.h>

static int fail_next_realloc;
static void *dyn_ptr;
static size_t dyn_size;
static unsigned long n_realloc;

static void *verif_realloc(void *p, size_t sz)
{
	void *n;
	++n_realloc;
	if (fail_next_realloc) { fail_next_realloc = 0; return NULL; }
	if (p && p != dyn_ptr) { fprintf(stderr, "realloc of a foreign pointer\n"); abort(); }
	n = malloc(sz);
	if (!n) abort();
	memset(n, 0xee, sz);
	if (p) {
		memcpy(n, p, dyn_size < sz ? dyn_size : sz);
		memset(p, 0xdd, dyn_size);
		free(p);
	}
	dyn_ptr = n; dyn_size = sz;
	return n;
}

static const char badfmt[] = "%!verif-bad-format";
static int verif_vsnprintf(char *buf, size_t sz, const char *fmt, va_list ap)
{
	if (fmt == badfmt)
		return -1;
	return (vsnprintf)(buf, sz, fmt, ap);
}

#define realloc verif_realloc
#define vsnprintf verif_vsnprintf
#include "src/errmsg.h"
#undef realloc
#undef vsnprintf

static void show(const kdump_errmsg_t *err)
{
	const char *s = err_str(err);
	const unsigned char *p;
	if (!s) { printf("N"); return; }
	if (s >= err->buf && s < err->buf + err->bufsz)
		printf("B%zu=", (size_t)(s - err->buf));
	else if (err->dyn && s >= err->dyn && s < err->dyn + dyn_size)
		printf("D%zu=", (size_t)(s - err->dyn));
	else { printf("WILD"); return; }
	for (p = (const unsigned char *)s; *p; ++p)
		printf("%02x", *p);
}

int main(int argc, char **argv)
{
	FILE *f = fopen(argv[1], "r");
	char *line;
	if (!f) { perror(argv[1]); return 2; }
	setvbuf(stdout, NULL, _IOLBF, 0);
	while ((line = verif_getline(f))) {
		alarm(5);	/* a case takes milliseconds; a spinning library is killed by SIGALRM */
		char *save = NULL, *tok;
		size_t bufsz;
		kdump_errmsg_t *err;
		int first = 1;
		tok = strtok_r(line, " ", &save);
		if (!tok) { putchar('\n'); continue; }
		bufsz = strtoul(tok, NULL, 10);
		err = malloc(sizeof(*err) + bufsz);
		if (!err) abort();
		dyn_ptr = NULL; dyn_size = 0;
		err_init(err, bufsz);
		memset(err->buf, '#', bufsz);
		for (tok = strtok_r(NULL, " ", &save); tok; tok = strtok_r(NULL, " ", &save)) {
			if (!first) putchar(' ');
			first = 0;
			if (tok[0] == 'A') {
				char *hex = tok + 2, *colon = strchr(hex, ':');
				size_t n = (hex[0] == '-') ? 0 : (size_t)(colon - hex) / 2, i;
				char *text = malloc(n + 1);
				for (i = 0; i < n; ++i) {
					unsigned v;
					sscanf(hex + 2 * i, "%2x", &v);
					text[i] = (char)v;
				}
				text[n] = 0;
				fail_next_realloc = (colon[1] == '0');
				err_add(err, "%s", text);
				fail_next_realloc = 0;
				free(text);
			} else if (tok[0] == 'X') {
				fail_next_realloc = (tok[2] == '0');
				err_add(err, badfmt);
				fail_next_realloc = 0;
			} else if (tok[0] == 'C') {
				err_clear(err);
			}
			show(err);
		}
		putchar('\n');
		err_cleanup(err);
		free(err);
	}
	fclose(f);
	return 0;
}
