/* Correspondence / monitoring driver, engine "res" (C15).
 *
 * One case per input line, executed in a forked child:
 *
 *   seq <file>|<file>... : <op> <op> ...      random API histories on real dumps
 *   chunk <policy> <npages> <pos> <len> <iofail> <allocfail>
 *                                             white-box fcache_get_chunk / put_chunk
 *
 * "seq" ops (ctx slots 0..7, object slots 0..7):
 *   N<c>            ctx[c] = kdump_new()
 *   O<c>:<f>        kdump_open_fd(ctx[c], fd of file f)   (also a re-open)
 *   C<c>:<d>:<fl>   ctx[d] = kdump_clone(ctx[c], fl)
 *   F<c>            kdump_free(ctx[c])
 *   R<c>:<as>:<addr>:<len>   kdump_read
 *   S<c>:<as>:<addr>         kdump_read_string
 *   M<c>:<rootpgt>  set the forced root page table (enables KDUMP_KVADDR)
 *   P<c>:<n>        set cache.size
 *   G<c>:<o>:<k>    obj[o] = value of attribute k (0 memory.pagemap, 1 file.pagemap,
 *                   2 linux.vmcoreinfo.raw) with an own reference
 *   B<o>            use and drop obj[o]
 *   V<c>            set linux.vmcoreinfo.raw from a blob
 *   T<c>:<k>        type-mismatch / bad-key attribute calls
 *   X<c>:<o>        kdump_get_addrxlat -> obj[o] holds ctx+sys references
 *   I<c>            iterate over all attributes
 *   Z<m>            order of the final teardown (0..5: objects before / after the contexts,
 *                   contexts in ascending / descending order, objects both before and after)
 *   Y<c>:<p>        set file.mmap_policy (0 never, 1 always, 2 try)
 *   K<c>:<addr>     read a page that is known to be good: must succeed (a cache entry
 *                   left pinned by an earlier failure shows up here as KDUMP_ERR_BUSY)
 *   J<c>:<k>        an attribute update that the library must REJECT (pre-set hook refusal
 *                   or invalid value) or accept, of every value type, on attributes with and
 *                   without a previous value; per-call accounting: a rejected call must not
 *                   leave any block allocated that it allocated itself
 * After EVERY op: sum of cache-entry reference counts (page cache and both file
 * caches, hooks/02-cache-refsum.patch) of every live context must be 0, no lock may
 * be held, the caller's descriptors must be where they were.  At the end everything
 * still alive is dropped (in the order given by the case) and no tracked block may
 * remain.  Output: "ok ops=<n> ..." or the first problem.
 */
#include "common.h"
#include <fcntl.h>
#include <signal.h>
#include <sys/wait.h>
#include <sys/stat.h>
#include <sys/mman.h>
#include "oom.h"
#include "kdumpfile-priv.h"

unsigned long verif_cache_refsum(struct cache *cache);

/* ---- pread / mmap failure injection (chunk scenario) ---- */
ssize_t __real_pread(int, void *, size_t, off_t);
void *__real_mmap(void *, size_t, int, int, int, off_t);
static long io_calls, io_fail_at;
ssize_t __wrap_pread(int fd, void *buf, size_t n, off_t off)
{
	if (io_fail_at && ++io_calls == io_fail_at) { errno = EIO; return -1; }
	return __real_pread(fd, buf, n, off);
}
void *__wrap_mmap(void *a, size_t l, int p, int f, int fd, off_t off)
{
	if (io_fail_at && fd >= 0 && ++io_calls == io_fail_at) { errno = ENOMEM; return MAP_FAILED; }
	return __real_mmap(a, l, p, f, fd, off);
}

static char outbuf[1 << 16];
static size_t outlen;
static void out(const char *fmt, ...)
{
	va_list ap; int on = oom_track; oom_track = 0;
	va_start(ap, fmt);
	outlen += vsnprintf(outbuf + outlen, sizeof outbuf - outlen, fmt, ap);
	va_end(ap);
	if (outlen >= sizeof outbuf) outlen = sizeof outbuf - 1;
	oom_track = on;
}
#define LIB(stmt) do { oom_track = 1; stmt; oom_track = 0; } while (0)

/* ======================= seq ======================= */
#define NCTX 8
#define NOBJ 8
#define NFILE 8
static kdump_ctx_t *ctx[NCTX];
static struct { int kind; kdump_bmp_t *bmp; kdump_blob_t *blob; addrxlat_ctx_t *ax; addrxlat_sys_t *sys; } obj[NOBJ];
static int fds[NFILE]; static off_t fdpos[NFILE]; static off_t fdsize[NFILE]; static int nfiles;
static char problem[512];
static void fail(const char *fmt, ...)
{
	va_list ap;
	if (problem[0]) return;
	va_start(ap, fmt); vsnprintf(problem, sizeof problem, fmt, ap); va_end(ap);
}

static unsigned long refsum_ctx(kdump_ctx_t *c, char *which)
{
	unsigned long s = 0, x;
	struct kdump_shared *sh = c->shared;
	if (sh->cache && (x = verif_cache_refsum(sh->cache))) { s += x; strcat(which, "page "); }
	if (sh->fcache) {
		if ((x = verif_cache_refsum(sh->fcache->cache))) { s += x; strcat(which, "mmap "); }
		if ((x = verif_cache_refsum(sh->fcache->fbcache))) { s += x; strcat(which, "read "); }
	}
	return s;
}

/* the only thing a failed call may keep: a grown error message buffer of the context */
static int is_errbuf(void *p, kdump_ctx_t *c)
{
	return c && p == (void *)c->err.dyn;
}

static void drop_obj(int o)
{
	static unsigned char bits[0x3000 / 8]; kdump_addr_t idx = 0;
	switch (obj[o].kind) {
	case 1:
		/* the whole range: a narrower window trips the elf_get_bits overrun (C07's) */
		LIB(kdump_bmp_get_bits(obj[o].bmp, 0, 0x2fff, bits));
		LIB(kdump_bmp_find_set(obj[o].bmp, &idx));
		LIB(kdump_bmp_decref(obj[o].bmp));
		break;
	case 2:
		LIB({ void *p = kdump_blob_pin(obj[o].blob); (void)p; kdump_blob_unpin(obj[o].blob); });
		LIB(kdump_blob_decref(obj[o].blob));
		break;
	case 3:
		LIB(addrxlat_sys_decref(obj[o].sys));
		LIB(addrxlat_ctx_decref(obj[o].ax));
		break;
	}
	obj[o].kind = 0;
}

static int teardown_mode;
static void do_op(char *op)
{
	char *f[6]; int nf = 0; char *save = NULL, *p;
	char kind = op[0];
	int c, d, o;
	kdump_status st = KDUMP_OK;
	for (p = strtok_r(op + 1, ":", &save); p && nf < 6; p = strtok_r(NULL, ":", &save)) f[nf++] = p;
	c = nf > 0 ? atoi(f[0]) % NCTX : 0;
	if (kind == 'Z') { teardown_mode = nf > 0 ? atoi(f[0]) : 0; return; }
	if (kind != 'N' && kind != 'B' && !ctx[c]) return;         /* context not alive: no-op */
	switch (kind) {
	case 'N':
		if (ctx[c]) return;
		LIB(ctx[c] = kdump_new());
		if (!ctx[c]) fail("kdump_new returned NULL");
		break;
	case 'O': {
		int fi = atoi(f[1]) % nfiles;
		LIB(st = kdump_open_fd(ctx[c], fds[fi]));
		break; }
	case 'C':
		d = atoi(f[1]) % NCTX;
		if (ctx[d]) return;
		LIB(ctx[d] = kdump_clone(ctx[c], strtoul(f[2], NULL, 0)));
		if (!ctx[d]) fail("kdump_clone returned NULL");
		break;
	case 'F':
		LIB(kdump_free(ctx[c]));
		ctx[c] = NULL;
		break;
	case 'R': {
		size_t len = strtoull(f[3], NULL, 0), l = len;
		unsigned char *buf = __real_malloc(len + 1);
		LIB(st = kdump_read(ctx[c], (kdump_addrspace_t)atoi(f[1]), strtoull(f[2], NULL, 0), buf, &l));
		if (l > len) fail("read returned more than asked");
		__real_free(buf);
		break; }
	case 'S': {
		char *s = NULL;
		LIB(st = kdump_read_string(ctx[c], (kdump_addrspace_t)atoi(f[1]), strtoull(f[2], NULL, 0), &s));
		if (st == KDUMP_OK) LIB(free(s));
		break; }
	case 'M':
		LIB(st = kdump_set_number_attr(ctx[c], KDUMP_ATTR_XLAT_FORCE ".rootpgt.as", ADDRXLAT_MACHPHYSADDR));
		LIB(st = kdump_set_address_attr(ctx[c], KDUMP_ATTR_XLAT_FORCE ".rootpgt.addr", strtoull(f[1], NULL, 0)));
		LIB(st = kdump_set_number_attr(ctx[c], KDUMP_ATTR_XLAT_FORCE ".virt_bits", 48));
		break;
	case 'P':
		LIB(st = kdump_set_number_attr(ctx[c], "cache.size", strtoul(f[1], NULL, 0)));
		break;
	case 'G': {
		static const char *keys[] = { "memory.pagemap", "file.pagemap", "linux.vmcoreinfo.raw" };
		kdump_attr_t a;
		o = atoi(f[1]) % NOBJ;
		if (obj[o].kind) return;
		LIB(st = kdump_get_attr(ctx[c], keys[atoi(f[2]) % 3], &a));
		if (st == KDUMP_OK && a.type == KDUMP_BITMAP) {
			LIB(kdump_bmp_incref(a.val.bitmap)); obj[o].kind = 1; obj[o].bmp = a.val.bitmap;
		} else if (st == KDUMP_OK && a.type == KDUMP_BLOB) {
			LIB(kdump_blob_incref(a.val.blob)); obj[o].kind = 2; obj[o].blob = a.val.blob;
		}
		break; }
	case 'B':
		o = atoi(f[0]) % NOBJ;
		drop_obj(o);
		break;
	case 'V': {
		static const char vmci[] = "OSRELEASE=1.2.3-res\nPAGESIZE=4096\nSYMBOL(x)=ffffffff81000000\n"
			"LENGTH(y)=7\nNUMBER(z)=1\nOFFSET(a.b)=8\nSIZE(a)=16\n";
		kdump_blob_t *b; kdump_attr_t a;
		LIB(b = kdump_blob_new_dup(vmci, sizeof vmci - 1));
		if (!b) { fail("blob allocation"); break; }
		a.type = KDUMP_BLOB; a.val.blob = b;
		LIB(st = kdump_set_attr(ctx[c], "linux.vmcoreinfo.raw", &a));   /* the reference is stolen */
		break; }
	case 'T': {
		kdump_attr_t a; const char *s; kdump_num_t n;
		switch (atoi(f[1]) % 5) {
		case 0: LIB(st = kdump_set_string_attr(ctx[c], "cache.size", "not a number")); break;
		case 1: LIB(st = kdump_set_number_attr(ctx[c], "no.such.key", 1)); break;
		case 2: LIB(st = kdump_get_string_attr(ctx[c], "cache.size", &s)); break;
		case 3: LIB(st = kdump_get_number_attr(ctx[c], "linux.uts.release", &n)); break;
		case 4: {
			kdump_blob_t *b;
			LIB(b = kdump_blob_new_dup("x", 1));
			a.type = KDUMP_BLOB; a.val.blob = b;
			/* wrong type for a number attribute: the caller keeps its reference */
			LIB(st = kdump_set_attr(ctx[c], "cache.size", &a));
			LIB(kdump_blob_decref(b));
			break; }
		}
		break; }
	case 'X': {
		addrxlat_ctx_t *ax; addrxlat_sys_t *sys;
		o = atoi(f[1]) % NOBJ;
		if (obj[o].kind) return;
		LIB(st = kdump_get_addrxlat(ctx[c], &ax, &sys));
		if (st == KDUMP_OK) { obj[o].kind = 3; obj[o].ax = ax; obj[o].sys = sys; }
		break; }
	case 'Y':
		LIB(st = kdump_set_number_attr(ctx[c], "file.mmap_policy", strtoul(f[1], NULL, 0)));
		break;
	case 'K': {
		unsigned char buf[64]; size_t l = sizeof buf;
		LIB(st = kdump_read(ctx[c], KDUMP_MACHPHYSADDR, strtoull(f[1], NULL, 0), buf, &l));
		if (st != KDUMP_OK)
			fail("good page at %s cannot be read: status %d (%s)", f[1], (int)st, kdump_get_err(ctx[c]));
		break; }
	case 'J': {
		unsigned long before = oom_serial, j;
		int k = atoi(f[1]) % 8, must_reject = 1;
		kdump_attr_t a;
		switch (k) {
		case 0: LIB(st = kdump_set_string_attr(ctx[c], "addrxlat.ostype", "hurd")); break;
		case 1: LIB(st = kdump_set_string_attr(ctx[c], "addrxlat.ostype", "a-rather-long-unsupported-operating-system-name")); break;
		case 2: LIB(st = kdump_set_string_attr(ctx[c], "addrxlat.ostype", "linux")); must_reject = 0; break;
		case 3: LIB(st = kdump_set_string_attr(ctx[c], "addrxlat.ostype", "xen")); must_reject = 0; break;
		case 4: LIB(st = kdump_set_number_attr(ctx[c], "cache.size", 0x100000000ULL)); break;
		case 5: LIB(st = kdump_set_number_attr(ctx[c], "arch.page_size", 3000)); break;
		case 6: {	/* a blob where a string is expected: the caller keeps its reference */
			kdump_blob_t *b;
			LIB(b = kdump_blob_new_dup("blob", 4));
			a.type = KDUMP_BLOB; a.val.blob = b;
			LIB(st = kdump_set_attr(ctx[c], "addrxlat.ostype", &a));
			LIB(kdump_blob_decref(b));
			break; }
		case 7: {	/* a string where a blob is expected */
			a.type = KDUMP_STRING; a.val.string = "not a blob";
			LIB(st = kdump_set_attr(ctx[c], "linux.vmcoreinfo.raw", &a));
			break; }
		}
		if (must_reject && st == KDUMP_OK) fail("update %d that must be rejected was accepted", k);
		if (st != KDUMP_OK)
			for (j = 0; j < oom_hiwater; ++j)
				if (oom_tab[j].p && oom_tab[j].serial > before && !is_errbuf(oom_tab[j].p, ctx[c])) {
					fail("rejected attribute update %d left a block allocated (site %lx)",
					     k, (unsigned long)oom_tab[j].site);
					break;
				}
		break; }
	case 'I': {
		kdump_attr_iter_t it;
		LIB(st = kdump_attr_iter_start(ctx[c], "linux", &it));
		if (st == KDUMP_OK) {
			int guard = 0;
			while (it.key && guard++ < 1000) { LIB(st = kdump_attr_iter_next(ctx[c], &it)); if (st != KDUMP_OK) break; }
			LIB(kdump_attr_iter_end(ctx[c], &it));
		}
		break; }
	default:
		fail("bad op %c", kind);
	}
	(void)st;
}

static unsigned long underflow_seen;
static char underflow_ops[32];
static void check_after(int k, const char *op)
{
	int i;
	for (i = 0; i < NCTX; ++i)
		if (ctx[i]) {
			char which[64] = "";
			unsigned long s = refsum_ctx(ctx[i], which);
			if (s) fail("op#%d %s: refsum=%lu in cache(s) %sof ctx %d", k, op, s, which, i);
		}
	if (oom_locks_held()) fail("op#%d %s: %d lock(s) held at return", k, op, oom_locks_held());
	if (oom_lock_underflow != underflow_seen) {
		/* not fatal for the rest of the history: remembered by kind of operation */
		underflow_seen = oom_lock_underflow;
		if (!strchr(underflow_ops, op[0]) && strlen(underflow_ops) < sizeof underflow_ops - 1)
			underflow_ops[strlen(underflow_ops)] = op[0];
	}
	for (i = 0; i < nfiles; ++i) {
		struct stat st;
		if (lseek(fds[i], 0, SEEK_CUR) != fdpos[i]) fail("op#%d %s: descriptor %d repositioned", k, op, i);
		if (fstat(fds[i], &st) || st.st_size != fdsize[i]) fail("op#%d %s: descriptor %d unusable", k, op, i);
	}
}

static void run_seq(char *line)
{
	char *colon = strstr(line, " : "), *files, *ops, *save = NULL, *t;
	int k = 0, i;
	if (!colon) _exit(5);
	*colon = 0; files = line; ops = colon + 3;
	for (t = strtok_r(files, "|", &save); t && nfiles < NFILE; t = strtok_r(NULL, "|", &save)) {
		struct stat st;
		fds[nfiles] = open(t, O_RDONLY);
		if (fds[nfiles] < 0) { perror(t); _exit(4); }
		fstat(fds[nfiles], &st); fdsize[nfiles] = st.st_size;
		fdpos[nfiles] = lseek(fds[nfiles], 7 * nfiles, SEEK_SET);
		++nfiles;
	}
	save = NULL;
	for (t = strtok_r(ops, " ", &save); t; t = strtok_r(NULL, " ", &save)) {
		char opcopy[128];
		snprintf(opcopy, sizeof opcopy, "%s", t);
		do_op(t);
		check_after(++k, opcopy);
		if (problem[0]) break;
	}
	/* drop everything that is still alive: objects first for even cases, contexts first otherwise */
	if (!problem[0]) {
		if (teardown_mode % 2 == 0) for (i = 0; i < NOBJ; ++i) if (obj[i].kind) drop_obj(i);
		for (i = 0; i < NCTX; ++i) { int j = (teardown_mode % 3) ? i : NCTX - 1 - i; if (ctx[j]) { LIB(kdump_free(ctx[j])); ctx[j] = NULL; } }
		for (i = 0; i < NOBJ; ++i) if (obj[i].kind) drop_obj(i);
		if (oom_lock_underflow != underflow_seen && !strchr(underflow_ops, 'Z'))
			underflow_ops[strlen(underflow_ops)] = 'Z';
		if (oom_locks_held()) fail("teardown: %d lock(s) held", oom_locks_held());
		if (oom_nblk) {
			unsigned long j; char l[300] = ""; size_t ll = 0;
			for (j = 0; j < oom_hiwater && ll < sizeof l - 40; ++j)
				if (oom_tab[j].p) ll += snprintf(l + ll, sizeof l - ll, "%s%lx", ll ? "," : "", (unsigned long)oom_tab[j].site);
			fail("leak=%s", l);
		}
	}
	for (i = 0; i < nfiles; ++i) close(fds[i]);
	if (!problem[0] && underflow_ops[0])
		fail("lock-underflow: a lock was released that was not held, in ops of kind %s (Z = final teardown)", underflow_ops);
	if (problem[0]) { for (char *p = problem; *p; ++p) if (*p == ' ') *p = '_'; out("BAD %s", problem); }
	else out("ok ops=%d lockev=%lu", k, oom_lock_events);
}

/* ======================= chunk ======================= */
/* chunk <policy 0 never|1 always|2 try> <filepages> <pos> <len> <iofail k> <allocfail n>
 * probes the page pointers first (to report which pages are contiguous with their
 * predecessor), flushes both caches, then runs get_chunk with the k-th pread/mmap
 * failing and the n-th allocation failing, then put_chunk.
 * Output: st=<status> geom=<embed|array|copy|-> pins=<refsum after get> blocks=<tracked blocks after get>
 *         pins2= blocks2= (after put)  contig=<bits> pages=<n> big=<0|1> */
static void run_chunk(char **av, int ac)
{
	int policy = atoi(av[0]); unsigned filepages = atoi(av[1]);
	off_t pos = strtoull(av[2], NULL, 0); size_t len = strtoull(av[3], NULL, 0);
	long iofail = atol(av[4]); unsigned long allocfail = strtoul(av[5], NULL, 0);
	char path[] = "/tmp/res-chunk-XXXXXX";
	int fd = mkstemp(path), i;
	size_t pgsz = sysconf(_SC_PAGESIZE);
	struct fcache *fc; struct fcache_chunk fch; struct fcache_entry fce;
	kdump_status st;
	char contig[64] = ""; unsigned np = 0;
	void *prev_end = NULL;
	off_t p;
	unlink(path);
	{
		char *pg = __real_malloc(pgsz);
		for (i = 0; i < (int)filepages; ++i) { memset(pg, 'a' + i, pgsz); write(fd, pg, pgsz); }
		__real_free(pg);
	}
	LIB(fc = fcache_new(1, &fd, 8, 0));
	if (!fc) _exit(4);
	fc->mmap_policy.number = policy == 0 ? KDUMP_MMAP_NEVER : policy == 1 ? KDUMP_MMAP_ALWAYS : KDUMP_MMAP_TRY;
	/* probe */
	for (p = pos; len && p < (off_t)(pos + len) && np < 60; ) {
		LIB(st = fcache_get(fc, &fce, 0, p));
		if (st != KDUMP_OK) break;
		contig[np++] = (np && fce.data == prev_end) ? '1' : '0';
		prev_end = fce.data + fce.len;
		p += fce.len;
		LIB(fcache_put(&fce));
	}
	contig[np] = 0;
	LIB(cache_flush(fc->cache)); LIB(cache_flush(fc->fbcache));
	{
		off_t first = pos & ~(off_t)(pgsz - 1), last = (pos + len - 1) & ~(off_t)(pgsz - 1);
		out("pages=%u big=%d contig=%s ", np, len && ((last - first) / pgsz + 1 > MAX_EMBED_FCES), np ? contig : "-");
	}
	io_calls = 0; io_fail_at = iofail;
	oom_track = 1; oom_inject = 1; oom_fail_at = allocfail; oom_seq = 0;
	{
		unsigned long before = oom_nblk;
		st = fcache_get_chunk(fc, &fch, len, 0, pos);
		oom_inject = 0; io_fail_at = 0; oom_track = 0;
		out("st=%d geom=%s pins=%lu blocks=%lu ", (int)st,
		    st != KDUMP_OK ? "-" : !len ? "empty" : fch.nent > MAX_EMBED_FCES ? "array" : fch.nent ? "embed" : "copy",
		    verif_cache_refsum(fc->cache) + verif_cache_refsum(fc->fbcache), oom_nblk - before);
		if (st == KDUMP_OK) {
			/* the data must be the file's bytes */
			size_t k;
			for (k = 0; k < len; ++k)
				if (((unsigned char *)fch.data)[k] != 'a' + (pos + k) / pgsz) { out("DATA-MISMATCH "); break; }
			LIB(fcache_put_chunk(&fch));
		}
		out("pins2=%lu blocks2=%lu", verif_cache_refsum(fc->cache) + verif_cache_refsum(fc->fbcache), oom_nblk - before);
	}
	LIB(fcache_decref(fc));
	if (oom_nblk) out(" LEAK-AT-END=%lu", oom_nblk);
	close(fd);
}

static void child(char *line, int resfd)
{
	alarm(8);
	if (!strncmp(line, "seq ", 4)) run_seq(line + 4);
	else if (!strncmp(line, "chunk ", 6)) {
		char *av[8]; int ac = 0; char *save = NULL, *t;
		for (t = strtok_r(line + 6, " ", &save); t && ac < 8; t = strtok_r(NULL, " ", &save)) av[ac++] = t;
		if (ac < 6) _exit(5);
		run_chunk(av, ac);
	} else _exit(5);
	write(resfd, "R ", 2); write(resfd, outbuf, outlen); write(resfd, "\n", 1);
	_exit(0);
}

static void san_summary(const char *err, char *dst, size_t n)
{
	const char *p = strstr(err, "ERROR: AddressSanitizer: "), *q;
	char kind[64] = "", fn[128] = "?";
	strcpy(dst, "-");
	if (p) { p += strlen("ERROR: AddressSanitizer: "); sscanf(p, "%63[^ \n]", kind); }
	else if ((p = strstr(err, "runtime error: "))) strcpy(kind, "ubsan");
	else return;
	for (q = p; (q = strstr(q, "\n    #")); ) {
		char f[128] = "", path[256] = "";
		q += 1;
		if (sscanf(q, " #%*d 0x%*x in %127s %255s", f, path) >= 1 &&
		    (strstr(path, "/src/kdumpfile/") || strstr(path, "/src/addrxlat/") || strstr(path, "/src/errmsg.h")
		     || strstr(path, "/src/list.h"))) { snprintf(fn, sizeof fn, "%s", f); break; }
	}
	snprintf(dst, n, "%s@%s", kind, fn);
}

int main(int argc, char **argv)
{
	FILE *f = fopen(argv[1], "r");
	char *line;
	void *bt[4];
	if (!f) { perror(argv[1]); return 2; }
	setvbuf(stdout, NULL, _IOLBF, 0);
	backtrace(bt, 4);
	while ((line = verif_getline(f))) {
		int pr[2], pe[2], status;
		pid_t pid;
		static char res[1 << 16], err[1 << 16]; char san[256];
		size_t rl = 0, el = 0;
		if (pipe(pr) || pipe(pe)) { perror("pipe"); return 2; }
		fflush(stdout);
		pid = fork();
		if (pid == 0) { close(pr[0]); close(pe[0]); dup2(pe[1], 2); child(line, pr[1]); _exit(0); }
		close(pr[1]); close(pe[1]);
		{
			int open_r = 1, open_e = 1;
			while (open_r || open_e) {
				fd_set rs; int mx = 0; ssize_t k; char tmp[4096];
				FD_ZERO(&rs);
				if (open_r) { FD_SET(pr[0], &rs); mx = pr[0]; }
				if (open_e) { FD_SET(pe[0], &rs); if (pe[0] > mx) mx = pe[0]; }
				if (select(mx + 1, &rs, NULL, NULL, NULL) < 0) break;
				if (open_r && FD_ISSET(pr[0], &rs)) {
					k = read(pr[0], rl < sizeof res - 1 ? res + rl : tmp, rl < sizeof res - 1 ? sizeof res - 1 - rl : sizeof tmp);
					if (k <= 0) open_r = 0; else if (rl < sizeof res - 1) rl += k;
				}
				if (open_e && FD_ISSET(pe[0], &rs)) {
					k = read(pe[0], el < sizeof err - 1 ? err + el : tmp, el < sizeof err - 1 ? sizeof err - 1 - el : sizeof tmp);
					if (k <= 0) open_e = 0; else if (el < sizeof err - 1) el += k;
				}
			}
		}
		res[rl] = 0; err[el] = 0;
		close(pr[0]); close(pe[0]);
		waitpid(pid, &status, 0);
		san_summary(err, san, sizeof san);
		{
			char *r = strstr(res, "R ");
			char rc[32];
			if (WIFSIGNALED(status)) snprintf(rc, sizeof rc, "sig%d", WTERMSIG(status));
			else snprintf(rc, sizeof rc, "%d", WEXITSTATUS(status));
			if (r && !strcmp(rc, "0") && !strcmp(san, "-")) {
				char *nl = strchr(r, '\n'); if (nl) *nl = 0;
				printf("%s\n", r + 2);
			} else {
				printf("DIED rc=%s san=%s\n", rc, san);
				if (getenv("OOM_VERBOSE")) fprintf(stderr, "---- %s\n", err);
			}
		}
	}
	fclose(f);
	return 0;
}
