/* Correspondence driver, engine "flat" (C11).
 *
 * F cases: the case's byte string becomes a file (memfd); a real file cache
 * (fcache_new, read(2) policy) and a real context are created and the real
 * flatmap_init / flatmap_pread / flatmap_get_chunk are run on it.  The calls
 * flatmap.c makes into the file cache (fcache_pread, fcache_get_chunk) are
 * intercepted at link level (-Wl,--wrap) to record (pos, len) and to inject
 * an I/O error region; the allocator is intercepted the same way to answer
 * from the case's oracle during flatmap_init and to fail the chunk buffer.
 *
 * S cases: sort_pfn_file_maps + find_pfn_file_map on the windows given.
 *
 * Must be linked with
 *   -Wl,--wrap=_kdumpfile_priv_fcache_pread,--wrap=_kdumpfile_priv_fcache_get_chunk
 *   -Wl,--wrap=malloc,--wrap=calloc,--wrap=realloc,--wrap=free
 */
#include "common.h"
#include <unistd.h>
#include <fcntl.h>
#include <sys/mman.h>
#include "kdumpfile-priv.h"

/* ---- allocator interposition ------------------------------------------ */
void *__real_malloc(size_t);
void *__real_calloc(size_t, size_t);
void *__real_realloc(void *, size_t);
void __real_free(void *);

static int oracle_armed;          /* answer from the oracle (flatmap_init) */
static const char *oracle = "";
static size_t oracle_idx;
static int fail_next_malloc;      /* chunk buffer */
static long n_alloc, n_free;      /* balance while counting */
static int counting;

static int oracle_says_fail(void)
{
	if (!oracle_armed)
		return 0;
	if (oracle[oracle_idx]) {
		int fail = oracle[oracle_idx] == '0';
		++oracle_idx;
		return fail;
	}
	return 0;
}

void *__wrap_malloc(size_t sz)
{
	void *p;
	if (oracle_says_fail())
		return NULL;
	if (fail_next_malloc) {
		fail_next_malloc = 0;
		return NULL;
	}
	p = __real_malloc(sz);
	if (p && counting)
		++n_alloc;
	return p;
}

void *__wrap_calloc(size_t n, size_t sz)
{
	void *p;
	if (oracle_says_fail())
		return NULL;
	p = __real_calloc(n, sz);
	if (p && counting)
		++n_alloc;
	return p;
}

void *__wrap_realloc(void *old, size_t sz)
{
	void *p;
	if (oracle_says_fail())
		return NULL;
	p = __real_realloc(old, sz);
	if (p && !old && counting)
		++n_alloc;
	return p;
}

void __wrap_free(void *p)
{
	if (p && counting)
		++n_free;
	__real_free(p);
}

/* ---- file cache interposition ----------------------------------------- */
kdump_status real_fcache_pread(struct fcache *, void *, size_t, unsigned, off_t)
	__asm__("__real__kdumpfile_priv_fcache_pread");
kdump_status wrap_fcache_pread(struct fcache *, void *, size_t, unsigned, off_t)
	__asm__("__wrap__kdumpfile_priv_fcache_pread");
kdump_status real_fcache_get_chunk(struct fcache *, struct fcache_chunk *, size_t, unsigned, off_t)
	__asm__("__real__kdumpfile_priv_fcache_get_chunk");
kdump_status wrap_fcache_get_chunk(struct fcache *, struct fcache_chunk *, size_t, unsigned, off_t)
	__asm__("__wrap__kdumpfile_priv_fcache_get_chunk");

static int have_failpos;
static long long failpos, failend;
static int failst;
static int tracing;
static char *trace;
static size_t trace_len, trace_cap;
static int n_chunk_calls;

static void trace_add(char tag, long long pos, unsigned long long len)
{
	char tmp[64];
	int n;
	if (!tracing)
		return;
	n = snprintf(tmp, sizeof tmp, "%s%c%s%llx:%llx", trace_len ? "," : "", tag,
		     pos < 0 ? "-" : "", pos < 0 ? -(unsigned long long)pos : (unsigned long long)pos,
		     len);
	if (trace_len + n + 1 > trace_cap) {
		trace_cap = (trace_len + n + 1) * 2;
		trace = __real_realloc(trace, trace_cap);
	}
	memcpy(trace + trace_len, tmp, n + 1);
	trace_len += n;
}

static int injected(off_t pos, size_t len)
{
	/* [pos, pos + len) meets [failpos, failend) */
	return len && have_failpos && pos >= 0 && failpos >= 0 &&
		(unsigned long long)pos + len > (unsigned long long)failpos &&
		(long long)pos < failend;
}

kdump_status wrap_fcache_pread(struct fcache *fc, void *buf, size_t len, unsigned fidx, off_t pos)
{
	trace_add('r', pos, len);
	if (injected(pos, len))
		return failst;
	return real_fcache_pread(fc, buf, len, fidx, pos);
}

kdump_status wrap_fcache_get_chunk(struct fcache *fc, struct fcache_chunk *fch, size_t len,
				   unsigned fidx, off_t pos)
{
	trace_add('c', pos, len);
	++n_chunk_calls;
	if (injected(pos, len))
		return failst;
	return real_fcache_get_chunk(fc, fch, len, fidx, pos);
}

/* ---- case parsing ------------------------------------------------------ */
static unsigned char *filebuf;
static size_t filelen, filecap;

static void file_add(const unsigned char *p, size_t n, int zero)
{
	if (filelen + n > filecap) {
		filecap = (filelen + n) * 2 + 64;
		filebuf = __real_realloc(filebuf, filecap);
	}
	if (zero)
		memset(filebuf + filelen, 0, n);
	else
		memcpy(filebuf + filelen, p, n);
	filelen += n;
}

static int hv(int c)
{
	return c <= '9' ? c - '0' : (c | 32) - 'a' + 10;
}

static void parse_filespec(char *s)
{
	char *save = NULL, *tok;
	filelen = 0;
	for (tok = strtok_r(s, ", ", &save); tok; tok = strtok_r(NULL, ", ", &save)) {
		if (tok[0] == 'z')
			file_add(NULL, hx(tok + 1), 1);
		else if (tok[0] == 'x') {
			size_t i, n = strlen(tok + 1) / 2;
			for (i = 0; i < n; ++i) {
				unsigned char b = hv(tok[1 + 2 * i]) * 16 + hv(tok[2 + 2 * i]);
				file_add(&b, 1, 0);
			}
		}
	}
}

static void print_hex(const unsigned char *p, size_t n)
{
	static const char d[] = "0123456789abcdef";
	size_t i;
	for (i = 0; i < n; ++i) {
		putchar(d[p[i] >> 4]);
		putchar(d[p[i] & 15]);
	}
}

static char *trim(char *s)
{
	char *e;
	while (*s == ' ')
		++s;
	e = s + strlen(s);
	while (e > s && e[-1] == ' ')
		*--e = 0;
	return s;
}

static void flat_case(char *rest)
{
	char *part[4], *p = rest;
	int i, fd;
	kdump_ctx_t *ctx;
	struct fcache *fc;
	struct flattened_map *map;
	kdump_status st;
	char *save = NULL, *tok;

	for (i = 0; i < 4; ++i) {
		part[i] = p;
		if (i < 3) {
			p = strchr(p, '|');
			if (!p) { printf("BAD-CASE\n"); return; }
			*p++ = 0;
		}
		part[i] = trim(part[i]);
	}
	parse_filespec(part[0]);
	have_failpos = strcmp(part[1], "-") != 0;
	if (have_failpos) {
		char *c = strchr(part[1], ':');
		char *c2 = c ? strchr(c + 1, ':') : NULL;
		failpos = shx(part[1]);
		failend = c ? shx(c + 1) : failpos;
		failst = c2 ? (int)hx(c2 + 1) : KDUMP_ERR_SYSTEM;
	}
	oracle = strcmp(part[2], "-") ? part[2] : "";
	oracle_idx = 0;

	fd = memfd_create("flat", 0);
	if (fd < 0 || (filelen && write(fd, filebuf, filelen) != (ssize_t)filelen)) {
		printf("BAD-FILE\n");
		return;
	}
	ctx = kdump_new();
	fc = fcache_new(1, &fd, 16, 10);
	map = flatmap_alloc(1);
	if (!ctx || !fc || !map) {
		printf("BAD-SETUP\n");
		return;
	}
	fc->mmap_policy.number = KDUMP_MMAP_NEVER;
	ctx->shared->fcache = fc;
	ctx->shared->flatmap = map;

	tracing = 0;
	oracle_armed = 1;
	st = flatmap_init(map, ctx);
	oracle_armed = 0;

	if (!map->fmap[0].map) {
		if (st == KDUMP_OK)
			printf("open=plain map=");
		else
			printf("open=err%d map=", (int)st);
	} else {
		const addrxlat_range_t *r = addrxlat_map_ranges(map->fmap[0].map);
		size_t n = addrxlat_map_len(map->fmap[0].map);
		size_t k;
		printf("open=flat%d map=", (int)st);
		for (k = 0; k < n; ++k) {
			printf("%s%" PRIx64 ":", k ? "," : "", (uint64_t)r[k].endoff);
			pshx((long long)r[k].meth);
			putchar(':');
			if (r[k].meth == ADDRXLAT_SYS_METH_NONE)
				putchar('-');
			else
				pshx((long long)map->fmap[0].offs[r[k].meth]);
		}
	}

	if (st == KDUMP_OK)
		for (tok = strtok_r(part[3], " ", &save); tok; tok = strtok_r(NULL, " ", &save)) {
			char *fld[5]; int nf = 0; char *s2 = NULL, *q;
			long long pos;
			size_t len;
			for (q = strtok_r(tok, ":", &s2); q && nf < 5; q = strtok_r(NULL, ":", &s2))
				fld[nf++] = q;
			if (nf < 3)
				continue;
			pos = shx(fld[1]);
			len = hx(fld[2]);
			trace_len = 0;
			if (trace)
				trace[0] = 0;
			tracing = 1;
			if (fld[0][0] == 'P') {
				unsigned char *buf = __real_malloc(len + 1);
				memset(buf, 0xa5, len + 1);
				st = flatmap_pread(map, buf, len, 0, pos);
				tracing = 0;
				printf(" P%d=", (int)st);
				if (st == KDUMP_OK)
					print_hex(buf, len);
				printf("[%s]", trace_len ? trace : "");
				__real_free(buf);
			} else {
				struct fcache_chunk fch;
				long bal;
				memset(&fch, 0, sizeof fch);
				fail_next_malloc = (nf > 3 && fld[3][0] == '0');
				n_chunk_calls = 0;
				n_alloc = n_free = 0;
				counting = 1;
				st = flatmap_get_chunk(map, &fch, len, 0, pos);
				counting = 0;
				tracing = 0;
				/* a direct chunk never asks for the buffer */
				fail_next_malloc = 0;
				bal = n_alloc - n_free;
				printf(" C%d=", (int)st);
				if (st == KDUMP_OK) {
					print_hex(fch.data, len);
					printf(":l%d", n_chunk_calls ? 0 : 1);
					fcache_put_chunk(&fch);
				} else
					printf(":l%ld", bal);
				printf("[%s]", trace_len ? trace : "");
			}
		}
	putchar('\n');
	kdump_free(ctx);		/* releases the flattened map and the file cache */
	close(fd);
}

static void split_case(char *rest)
{
	struct pfn_file_map maps[64];
	size_t n = 0, i;
	char *bar = strchr(rest, '|');
	char *save = NULL, *tok;

	if (!bar) { printf("BAD-CASE\n"); return; }
	*bar++ = 0;
	for (tok = strtok_r(rest, ", ", &save); tok && n < 64; tok = strtok_r(NULL, ", ", &save)) {
		char *c1 = strchr(tok, ':'), *c2 = c1 ? strchr(c1 + 1, ':') : NULL;
		if (!c2)
			continue;
		memset(&maps[n], 0, sizeof maps[n]);
		maps[n].start_pfn = hx(tok);
		maps[n].end_pfn = hx(c1 + 1);
		maps[n].fidx = (unsigned)hx(c2 + 1);
		++n;
	}
	sort_pfn_file_maps(maps, n);
	printf("order=");
	for (i = 0; i < n; ++i)
		printf("%s%x", i ? "," : "", maps[i].fidx);
	for (tok = strtok_r(bar, " ", &save); tok; tok = strtok_r(NULL, " ", &save)) {
		kdump_pfn_t pfn = hx(tok);
		const struct pfn_file_map *pdmap = find_pfn_file_map(maps, n, pfn);
		/* the test diskdump_read_page applies to the map it found */
		if (pdmap && pdmap->start_pfn <= pfn)
			printf(" %s=%x", tok, pdmap->fidx);
		else
			printf(" %s=-", tok);
	}
	putchar('\n');
}

int main(int argc, char **argv)
{
	FILE *f = fopen(argv[1], "r");
	char *line;
	if (!f) { perror(argv[1]); return 2; }
	setvbuf(stdout, NULL, _IOLBF, 0);
	while ((line = verif_getline(f))) {
		if (line[0] == 'F' && line[1] == ' ')
			flat_case(line + 2);
		else if (line[0] == 'S' && line[1] == ' ')
			split_case(line + 2);
		else
			printf("BAD-CASE\n");
	}
	fclose(f);
	__real_free(filebuf);
	__real_free(trace);
	return 0;
}
