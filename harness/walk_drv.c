/* Correspondence driver, engine "walk" (C02): runs addrxlat_walk() and
 * addrxlat_launch() + addrxlat_step() of the real library (public API only) on
 * a translation method and a sparse memory given by the case; a fresh context
 * per case.
 *
 * Case (one line, blank-separated; all numbers hex, "-" prefix for negative):
 *   pgt <fmt> <f0,f1,..> <root_as> <root> <pte_mask> <tgt_as> <bo> <addr> <cell>...
 *   lin <off> <tgt_as> <addr>
 *   lkp <endoff> <tgt_as> <addr> <orig>:<dest>...
 *   mar <base_as> <base> <shift> <elemsz> <valsz> <tgt_as> <bo> <addr> <cell>...
 *   non <tgt_as> <addr>
 * cell = <as>:<addr>=<value>   raw cell served for exactly that address
 *      | <as>:<addr>!<status>  the read callback fails with that status
 * as: 0 KPHYSADDR, 1 MACHPHYSADDR, 2 KVADDR, -1 NOADDR;  bo: 0 big, 1 little, 2 host
 *
 * Output: "W <st> [<as>:<addr>] | L <st> [state] ; S <st> [state] ; ..."
 * state = r=<remain> e=<elemsz> b=<as>:<addr> raw=<raw> i=<idx[0]>,..,<idx[remain]>
 */
#include "common.h"
#include <endian.h>
#include <libkdumpfile/addrxlat.h>

#define MAXCELLS 64
struct cell { int as; uint64_t addr; int err; long long st; uint64_t val; unsigned char buf[16]; };
static struct cell cells[MAXCELLS];
static int ncells;
static int byte_order;
static int ptewidth;		/* 4 or 8: width of the entities the method reads */

/* signed hex without signed overflow ("-8000000000000000" is INT64_MIN) */
static long long sx(const char *s)
{
	return (*s == '-') ? (long long)(0 - strtoull(s + 1, NULL, 16)) : (long long)strtoull(s, NULL, 16);
}

static unsigned long read_caps(const addrxlat_cb_t *cb)
{
	return ADDRXLAT_CAPS(ADDRXLAT_KPHYSADDR) | ADDRXLAT_CAPS(ADDRXLAT_MACHPHYSADDR) |
		ADDRXLAT_CAPS(ADDRXLAT_KVADDR);
}

static addrxlat_status get_page(const addrxlat_cb_t *cb, addrxlat_buffer_t *buf)
{
	addrxlat_ctx_t *ctx = cb->priv;
	int i;
	for (i = 0; i < ncells; ++i)
		if (cells[i].as == (int)buf->addr.as && cells[i].addr == buf->addr.addr)
			break;
	if (i == ncells)
		return addrxlat_ctx_err(ctx, ADDRXLAT_ERR_NODATA, "No data");
	if (cells[i].err)
		return addrxlat_ctx_err(ctx, (addrxlat_status)cells[i].st, "Injected failure");
	/* the buffer must stay valid while the library caches it: one per cell */
	memset(cells[i].buf, 0, sizeof cells[i].buf);
	if (ptewidth == 4) {
		uint32_t v = (uint32_t)cells[i].val;
		if (byte_order == 0) v = htobe32(v); else if (byte_order == 1) v = htole32(v);
		memcpy(cells[i].buf, &v, 4);
	} else {
		uint64_t v = cells[i].val;
		if (byte_order == 0) v = htobe64(v); else if (byte_order == 1) v = htole64(v);
		memcpy(cells[i].buf, &v, 8);
	}
	buf->ptr = cells[i].buf;
	/* the window covers exactly the requested address: every read goes
	 * through this callback, memory is keyed by exact address */
	buf->size = 1;
	buf->byte_order = byte_order == 0 ? ADDRXLAT_BIG_ENDIAN :
		byte_order == 1 ? ADDRXLAT_LITTLE_ENDIAN : ADDRXLAT_HOST_ENDIAN;
	return ADDRXLAT_OK;
}

static int parse_cells(char **tok, int n)
{
	int i;
	ncells = 0;
	for (i = 0; i < n && ncells < MAXCELLS; ++i) {
		char *c = strchr(tok[i], ':'), *e;
		struct cell *ce = &cells[ncells];
		if (!c) return -1;
		*c++ = 0;
		ce->as = (int)sx(tok[i]);
		if ((e = strchr(c, '='))) {
			*e++ = 0; ce->err = 0; ce->val = hx(e);
		} else if ((e = strchr(c, '!'))) {
			*e++ = 0; ce->err = 1; ce->st = sx(e);
		} else
			return -1;
		ce->addr = hx(c);
		++ncells;
	}
	return 0;
}

static void show_state(const addrxlat_step_t *st)
{
	unsigned i;
	printf(" r=%x e=%x b=", (unsigned)st->remain, (unsigned)st->elemsz);
	pshx((long long)(int)st->base.as);
	printf(":%" PRIx64 " raw=%" PRIx64 " i=", (uint64_t)st->base.addr, (uint64_t)st->raw.pte);
	for (i = 0; i <= st->remain && i <= ADDRXLAT_FIELDS_MAX; ++i)
		printf("%s%" PRIx64, i ? "," : "", (uint64_t)st->idx[i]);
}

static void run(addrxlat_meth_t *meth, uint64_t addr)
{
	addrxlat_ctx_t *ctx;
	addrxlat_cb_t *cb;
	addrxlat_step_t step;
	addrxlat_status status;
	int guard;

	/* one call */
	ctx = addrxlat_ctx_new();
	cb = addrxlat_ctx_add_cb(ctx);
	cb->priv = ctx; cb->get_page = get_page; cb->read_caps = read_caps;
	memset(&step, 0, sizeof step);
	step.ctx = ctx; step.sys = NULL; step.meth = meth;
	step.base.as = ADDRXLAT_NOADDR; step.base.addr = addr;
	status = addrxlat_walk(&step);
	printf("W %d", (int)status);
	if (status == ADDRXLAT_OK) {
		putchar(' '); pshx((long long)(int)step.base.as);
		printf(":%" PRIx64, (uint64_t)step.base.addr);
	}
	addrxlat_ctx_decref(ctx);

	/* launch + single steps, fresh context */
	ctx = addrxlat_ctx_new();
	cb = addrxlat_ctx_add_cb(ctx);
	cb->priv = ctx; cb->get_page = get_page; cb->read_caps = read_caps;
	memset(&step, 0, sizeof step);
	step.ctx = ctx; step.sys = NULL; step.meth = meth;
	step.base.as = ADDRXLAT_NOADDR; step.base.addr = addr;
	status = addrxlat_launch(&step, addr);
	printf(" | L %d", (int)status);
	if (status == ADDRXLAT_OK) show_state(&step);
	for (guard = 0; status == ADDRXLAT_OK && step.remain && guard < 64; ++guard) {
		status = addrxlat_step(&step);
		printf(" ; S %d", (int)status);
		if (status == ADDRXLAT_OK) show_state(&step);
	}
	addrxlat_ctx_decref(ctx);
	putchar('\n');
}

int main(int argc, char **argv)
{
	FILE *f = fopen(argv[1], "r");
	char *line;
	if (!f) { perror(argv[1]); return 2; }
	setvbuf(stdout, NULL, _IOLBF, 0);
	while ((line = verif_getline(f))) {
		char *tok[MAXCELLS + 16], *save = NULL, *p;
		int n = 0;
		addrxlat_meth_t meth;
		addrxlat_lookup_elem_t tbl[MAXCELLS];

		for (p = strtok_r(line, " ", &save); p && n < MAXCELLS + 16; p = strtok_r(NULL, " ", &save))
			tok[n++] = p;
		memset(&meth, 0, sizeof meth);
		ncells = 0; byte_order = 2; ptewidth = 8;
		if (n >= 9 && !strcmp(tok[0], "pgt")) {
			addrxlat_param_pgt_t *pgt = &meth.param.pgt;
			char *s2 = NULL, *q;
			meth.kind = ADDRXLAT_PGT;
			pgt->pf.pte_format = addrxlat_pte_format(tok[1]);
			pgt->pf.nfields = 0;
			if (strcmp(tok[2], "-"))
				for (q = strtok_r(tok[2], ",", &s2); q && pgt->pf.nfields < ADDRXLAT_FIELDS_MAX;
				     q = strtok_r(NULL, ",", &s2))
					pgt->pf.fieldsz[pgt->pf.nfields++] = (unsigned short)hx(q);
			pgt->root.as = (addrxlat_addrspace_t)sx(tok[3]);
			pgt->root.addr = hx(tok[4]);
			pgt->pte_mask = hx(tok[5]);
			meth.target_as = (addrxlat_addrspace_t)sx(tok[6]);
			byte_order = (int)hx(tok[7]);
			ptewidth = 1 << addrxlat_pteval_shift(pgt->pf.pte_format) == 4 ? 4 : 8;
			if (parse_cells(tok + 9, n - 9)) { puts("BADCASE"); continue; }
			run(&meth, hx(tok[8]));
		} else if (n >= 4 && !strcmp(tok[0], "lin")) {
			meth.kind = ADDRXLAT_LINEAR;
			meth.param.linear.off = (addrxlat_off_t)sx(tok[1]);
			meth.target_as = (addrxlat_addrspace_t)sx(tok[2]);
			run(&meth, hx(tok[3]));
		} else if (n >= 4 && !strcmp(tok[0], "lkp")) {
			int i;
			meth.kind = ADDRXLAT_LOOKUP;
			meth.param.lookup.endoff = hx(tok[1]);
			meth.target_as = (addrxlat_addrspace_t)sx(tok[2]);
			for (i = 4; i < n && i - 4 < MAXCELLS; ++i) {
				char *c = strchr(tok[i], ':');
				if (!c) break;
				*c++ = 0;
				tbl[i - 4].orig = hx(tok[i]);
				tbl[i - 4].dest = hx(c);
			}
			meth.param.lookup.nelem = i - 4;
			meth.param.lookup.tbl = tbl;
			run(&meth, hx(tok[3]));
		} else if (n >= 9 && !strcmp(tok[0], "mar")) {
			addrxlat_param_memarr_t *ma = &meth.param.memarr;
			meth.kind = ADDRXLAT_MEMARR;
			ma->base.as = (addrxlat_addrspace_t)sx(tok[1]);
			ma->base.addr = hx(tok[2]);
			ma->shift = (unsigned)hx(tok[3]);
			ma->elemsz = (unsigned)hx(tok[4]);
			ma->valsz = (unsigned)hx(tok[5]);
			meth.target_as = (addrxlat_addrspace_t)sx(tok[6]);
			byte_order = (int)hx(tok[7]);
			ptewidth = ma->valsz == 4 ? 4 : 8;
			if (parse_cells(tok + 9, n - 9)) { puts("BADCASE"); continue; }
			run(&meth, hx(tok[8]));
		} else if (n >= 3 && !strcmp(tok[0], "non")) {
			meth.kind = ADDRXLAT_NOMETH;
			meth.target_as = (addrxlat_addrspace_t)sx(tok[1]);
			run(&meth, hx(tok[2]));
		} else
			puts("BADCASE");
	}
	fclose(f);
	return 0;
}
