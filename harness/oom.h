/* Allocation/lock instrumentation shared by the "oom" and "res" drivers.
 *
 * The executable is linked with
 *   -Wl,--wrap=malloc,--wrap=calloc,--wrap=realloc,--wrap=strdup,--wrap=free
 * so every allocator call made from an object of this link (the library
 * sources and the driver) lands here.  Calls are *tracked* (and eligible for
 * failure injection) only while `oom_track` is non-zero; the driver switches
 * it on around library calls.  Memory handed out while tracking is kept in a
 * table with the return address of the allocating call, so that leaks, frees
 * and the failing call can be reported by allocation *site* (resolved to
 * file:function by the orchestrator with addr2line), never by index.
 */
#ifndef VERIF_OOM_H
#define VERIF_OOM_H
#include <errno.h>
#include <unistd.h>
#include <execinfo.h>

void *__real_malloc(size_t);
void *__real_calloc(size_t, size_t);
void *__real_realloc(void *, size_t);
char *__real_strdup(const char *);
void __real_free(void *);

#define OOM_MAXBLK 200000
#define OOM_MAXEV  400000
struct oom_blk { void *p; size_t sz; void *site; unsigned long serial; };
static struct oom_blk oom_tab[OOM_MAXBLK];
static unsigned long oom_nblk;            /* live tracked blocks */
static unsigned long oom_hiwater;         /* table slots in use  */
static int oom_track;                     /* tracking on/off     */
static int oom_inject;                    /* injection window open */
static unsigned long oom_seq;             /* allocations seen inside the window */
static unsigned long oom_fail_at;         /* 0 = never */
static void *oom_fail_site;               /* return address of the failed call */
static void *oom_fail_site2;              /* its caller (best effort) */
static unsigned long oom_failed_calls;    /* how many calls were failed */
static int oom_fail_shrink;               /* the failed call was a realloc that does not grow */
static int oom_fail_fd = -1;              /* written as soon as the failure is injected */
static unsigned long oom_serial;

/* event log (only inside the injection window) */
struct oom_ev { char kind; void *a; unsigned long serial; };
static struct oom_ev oom_evs[OOM_MAXEV];
static unsigned long oom_nev;
static int oom_log_events = 1;
static inline void oom_event2(char kind, void *a, unsigned long serial)
{
	if (oom_log_events && oom_inject && oom_nev < OOM_MAXEV) {
		oom_evs[oom_nev].kind = kind; oom_evs[oom_nev].a = a;
		oom_evs[oom_nev].serial = serial; ++oom_nev;
	}
}
static inline void oom_event(char kind, void *a) { oom_event2(kind, a, 0); }

static void oom_record(void *p, size_t sz, void *site)
{
	unsigned long i;
	for (i = 0; i < oom_hiwater; ++i)
		if (!oom_tab[i].p) break;
	if (i == oom_hiwater) {
		if (oom_hiwater == OOM_MAXBLK) { write(2, "oom table full\n", 15); _exit(3); }
		++oom_hiwater;
	}
	oom_tab[i].p = p; oom_tab[i].sz = sz; oom_tab[i].site = site;
	oom_tab[i].serial = ++oom_serial;
	++oom_nblk;
	oom_event2('A', site, oom_tab[i].serial);
}
static struct oom_blk *oom_find(void *p)
{
	unsigned long i;
	for (i = oom_hiwater; i-- > 0; )
		if (oom_tab[i].p == p) return &oom_tab[i];
	return NULL;
}
static void oom_forget(void *p)
{
	struct oom_blk *b = oom_find(p);
	if (b) {
		oom_event2('F', b->site, b->serial);
		b->p = NULL; --oom_nblk;
		while (oom_hiwater && !oom_tab[oom_hiwater - 1].p) --oom_hiwater;
	}
}
/* should this call fail? */
static int oom_should_fail(void *site)
{
	if (!oom_track || !oom_inject) return 0;
	++oom_seq;
	if (oom_fail_at && oom_seq == oom_fail_at) {
		void *bt[8]; int n, i;
		oom_fail_site = site;
		oom_track = 0;
		n = backtrace(bt, 8);   /* here, wrapper, caller (== site), caller's caller ... */
		oom_track = 1;
		oom_fail_site2 = NULL;
		for (i = 0; i + 1 < n; ++i)
			if (bt[i] == site) { oom_fail_site2 = bt[i + 1]; break; }
		++oom_failed_calls;
		oom_event('X', site);
		if (oom_fail_fd >= 0) {
			char b[64]; int l = snprintf(b, sizeof b, "F %lx %lx\n",
				(unsigned long)site, (unsigned long)oom_fail_site2);
			write(oom_fail_fd, b, l);
		}
		errno = ENOMEM;
		return 1;
	}
	return 0;
}
#define OOM_SITE() __builtin_extract_return_addr(__builtin_return_address(0))

void *__wrap_malloc(size_t sz)
{
	void *site = OOM_SITE(), *p;
	if (oom_should_fail(site)) return NULL;
	p = __real_malloc(sz);
	if (p && oom_track) oom_record(p, sz, site);
	return p;
}
void *__wrap_calloc(size_t n, size_t sz)
{
	void *site = OOM_SITE(), *p;
	if (oom_should_fail(site)) return NULL;
	p = __real_calloc(n, sz);
	if (p && oom_track) oom_record(p, n * sz, site);
	return p;
}
void *__wrap_realloc(void *old, size_t sz)
{
	void *site = OOM_SITE(), *p;
	if (oom_should_fail(site)) {
		struct oom_blk *b = old ? oom_find(old) : NULL;
		if (b && sz <= b->sz) oom_fail_shrink = 1;
		return NULL;
	}
	if (old && oom_track) oom_forget(old);
	else if (old) { struct oom_blk *b = oom_find(old); if (b) { b->p = NULL; --oom_nblk; } }
	p = __real_realloc(old, sz);
	if (p && oom_track) oom_record(p, sz, site);
	return p;
}
char *__wrap_strdup(const char *s)
{
	void *site = OOM_SITE(); char *p;
	if (oom_should_fail(site)) return NULL;
	p = __real_strdup(s);
	if (p && oom_track) oom_record(p, strlen(s) + 1, site);
	return p;
}
void __wrap_free(void *p)
{
	if (p) {
		if (oom_track) oom_forget(p);
		else { struct oom_blk *b = oom_find(p); if (b) { b->p = NULL; --oom_nblk; } }
	}
	__real_free(p);
}

/* ---- lock events (hooks/01-lock-events.patch) ---- */
#define OOM_MAXLOCK 64
static struct { const void *lock; int rd, wr; const char *name; } oom_locks[OOM_MAXLOCK];
static int oom_nlocks;
static unsigned long oom_lock_events, oom_lock_underflow;
static int oom_lock_slot(const void *lock)
{
	int i;
	for (i = 0; i < oom_nlocks; ++i)
		if (oom_locks[i].lock == lock) return i;
	if (oom_nlocks == OOM_MAXLOCK) { write(2, "lock table full\n", 16); _exit(3); }
	oom_locks[oom_nlocks].lock = lock; oom_locks[oom_nlocks].rd = oom_locks[oom_nlocks].wr = 0;
	oom_locks[oom_nlocks].name = NULL;
	return oom_nlocks++;
}
static void oom_name_lock(const void *lock, const char *name)
{
	oom_locks[oom_lock_slot(lock)].name = name;
}
/* a destroyed lock's address may be reused */
static void oom_forget_locks(void) { oom_nlocks = 0; }
void verif_lock_event(int kind, const void *lock)
{
	int i = oom_lock_slot(lock);
	++oom_lock_events;
	switch (kind) {
	case 0: case 3: ++oom_locks[i].wr; break;
	case 2: ++oom_locks[i].rd; break;
	case 1: if (oom_locks[i].wr > 0) --oom_locks[i].wr; else ++oom_lock_underflow; break;
	case 4: if (oom_locks[i].wr > 0) --oom_locks[i].wr;
		else if (oom_locks[i].rd > 0) --oom_locks[i].rd;
		else ++oom_lock_underflow;
		break;
	}
	oom_event("LUrwu"[kind], (void *)(uintptr_t)i);
}
static int oom_locks_held(void)
{
	int i, n = 0;
	for (i = 0; i < oom_nlocks; ++i) n += oom_locks[i].rd + oom_locks[i].wr;
	return n;
}
#endif
