/* Correspondence / search driver, engine "corrupt" (C03).
 *
 * One case per line, one canonical result line per case:
 *
 *   R <cap> <hex-src>
 *       uncompress_rle() into an exactly cap-sized heap buffer (ASan red zones
 *       on both sides), prefilled with 0xEE.
 *       -> "R <ret> <len> <hex of the whole cap-byte buffer>"
 *
 *   F <opts> <spec> [<spec> ...]
 *       build one file per <spec>, open the set through the public API and
 *       then read memory, enumerate attributes and query page maps.  Every
 *       case runs in a forked child with an alarm() before each API call, so a
 *       signal, a sanitizer report or a timeout is reported in the result line
 *       and the driver itself survives.
 *       <opts>  = comma separated k=v: m=<0|1> (1: default mmap policy, 0: never),
 *                 t=<seconds per call>, n=<pages read per address space>,
 *                 a=<attr key>:<hex number> (repeatable): number attributes set
 *                 on the fresh context *before* the open (pre-open history)
 *       <spec>  = <seedpath>[@<trunc-len>][+<off>:<hexbytes>]...   (offsets hex)
 *       -> "F open=<st> ... " (see child_main)
 *
 * Only integers, status names and short strings are printed. */
#include "common.h"
#include <stdarg.h>
#include <unistd.h>
#include <fcntl.h>
#include <signal.h>
#include <errno.h>
#include <sys/wait.h>
#include <sys/stat.h>
#include <libkdumpfile/kdumpfile.h>

/* non-static library internals reached by linking the sources */
int uncompress_rle(unsigned char *dst, size_t *pdstlen,
		   const unsigned char *src, size_t srclen)
	__asm__("_kdumpfile_priv_uncompress_rle");

static const char *workdir = ".";

/* ------------------------------------------------------------------ RLE */
static int hexval(int c)
{
	if (c >= '0' && c <= '9') return c - '0';
	if (c >= 'a' && c <= 'f') return c - 'a' + 10;
	if (c >= 'A' && c <= 'F') return c - 'A' + 10;
	return -1;
}

static size_t unhex(const char *s, unsigned char **out)
{
	size_t n = strlen(s) / 2, i;
	unsigned char *p = malloc(n ? n : 1);
	for (i = 0; i < n; ++i)
		p[i] = (unsigned char)(hexval(s[2*i]) << 4 | hexval(s[2*i+1]));
	*out = p;
	return n;
}

static void do_rle(char *args)
{
	char *save = NULL;
	char *scap = strtok_r(args, " ", &save);
	char *shex = strtok_r(NULL, " ", &save);
	size_t cap = scap ? hx(scap) : 0, len, srclen, i;
	unsigned char *src0, *src, *dst;
	int ret;

	if (!shex || !strcmp(shex, "-")) shex = "";
	srclen = unhex(shex, &src0);
	/* exact-size copies so that one byte too far is a red-zone hit */
	src = malloc(srclen ? srclen : 1);
	if (srclen) memcpy(src, src0, srclen);
	free(src0);
	if (!srclen) { free(src); src = malloc(1); }
	dst = malloc(cap ? cap : 1);
	memset(dst, 0xEE, cap ? cap : 1);
	len = cap;
	/* a zero-length buffer is passed as a pointer to a 1-byte block whose
	 * byte must never be touched: checked below */
	ret = uncompress_rle(dst, &len, srclen ? src : src + 1, srclen);
	printf("R %d %zx ", ret, len);
	for (i = 0; i < cap; ++i) printf("%02x", dst[i]);
	if (!cap) printf(dst[0] == 0xEE ? "-" : "TOUCHED");
	putchar('\n');
	free(src); free(dst);
}

/* ------------------------------------------------- page size (white box) */
static const char *stname(kdump_status st);

/* "S ps <v>": set arch.page_size on a fresh context through the public API */
static void do_sizes(char *args)
{
	char *save = NULL;
	char *what = strtok_r(args, " ", &save);
	char *sv = strtok_r(NULL, " ", &save);
	kdump_ctx_t *ctx;
	kdump_attr_t a;
	kdump_status st;
	kdump_num_t ps = 0, shift = 0;

	if (!what || !sv || strcmp(what, "ps")) { printf("SKIP\n"); return; }
	ctx = kdump_new();
	if (!ctx) { printf("S new=NULL\n"); return; }
	a.type = KDUMP_NUMBER;
	a.val.number = hx(sv);
	st = kdump_set_attr(ctx, KDUMP_ATTR_PAGE_SIZE, &a);
	if (st != KDUMP_OK)
		printf("S %s\n", stname(st));
	else {
		kdump_get_number_attr(ctx, KDUMP_ATTR_PAGE_SIZE, &ps);
		kdump_get_number_attr(ctx, KDUMP_ATTR_PAGE_SHIFT, &shift);
		printf("S ok %llx %llx\n", (unsigned long long)ps, (unsigned long long)shift);
	}
	kdump_free(ctx);
}

/* ----------------------------------------------------------- file cases */
static int out_fd = 1;
static const char *cur_step = "start";
static unsigned call_limit = 5;
static int use_alarm = 1;	/* the libFuzzer harness relies on -timeout instead */

static void emit(const char *fmt, ...)
{
	char buf[1024];
	va_list ap;
	int n;
	va_start(ap, fmt);
	n = vsnprintf(buf, sizeof buf, fmt, ap);
	va_end(ap);
	if (n > (int)sizeof buf - 1) n = sizeof buf - 1;
	if (write(out_fd, buf, n) < 0) _exit(4);
}

static void on_alarm(int sig)
{
	char buf[128];
	int n = snprintf(buf, sizeof buf, " TIMEOUT@%s", cur_step);
	if (write(out_fd, buf, n) < 0) _exit(4);
	_exit(3);
}

static void step(const char *name)
{
	cur_step = name;
	if (use_alarm)
		alarm(call_limit);
}

static const char *stname(kdump_status st)
{
	static const char *const names[] = { "OK", "SYSTEM", "NOTIMPL", "NODATA", "CORRUPT",
		"INVALID", "NOKEY", "EOF", "BUSY", "ADDRXLAT" };
	static char buf[32];
	if ((unsigned)st < sizeof names / sizeof names[0]) return names[st];
	snprintf(buf, sizeof buf, "BADSTATUS(%d)", (int)st);
	return buf;
}

static unsigned long hist[11];
static void note_status(kdump_status st)
{
	++hist[(unsigned)st < 10 ? (unsigned)st : 10];
}
static void emit_hist(const char *tag)
{
	int i;
	emit(" %s=", tag);
	for (i = 0; i < 11; ++i) {
		emit("%s%lu", i ? "/" : "", hist[i]);
	}
	if (hist[10]) emit(" BADSTATUS@%s", tag);
	memset(hist, 0, sizeof hist);
}

static void sanitize(char *s)
{
	for (; *s; ++s)
		if (*s == ' ' || *s == '\n' || *s == '\t' || (unsigned char)*s < 32 || (unsigned char)*s > 126)
			*s = '_';
}

/* recursive attribute walk; every value is fetched (forces revalidation) */
static unsigned long n_attrs, n_attr_err;
static unsigned long blob_sum;

static void walk_attrs(kdump_ctx_t *ctx, const kdump_attr_ref_t *dir, int depth, char *path, size_t plen)
{
	kdump_attr_iter_t it;
	kdump_status st;

	step("attr_iter_start");
	st = kdump_attr_ref_iter_start(ctx, dir, &it);
	note_status(st);
	if (st != KDUMP_OK) { ++n_attr_err; return; }
	while (it.key) {
		kdump_attr_t a;
		size_t kl = strlen(it.key);
		size_t np = plen;
		if (plen + kl + 2 < 512) {
			if (plen) path[np++] = '.';
			memcpy(path + np, it.key, kl); np += kl; path[np] = 0;
		}
		++n_attrs;
		step("attr_ref_get");
		st = kdump_attr_ref_get(ctx, &it.pos, &a);
		note_status(st);
		if (st != KDUMP_OK) {
			++n_attr_err;
			if (n_attr_err <= 6) emit(" aerr:%s=%s", path, stname(st));
		} else if (a.type == KDUMP_DIRECTORY) {
			if (depth < 12) walk_attrs(ctx, &it.pos, depth + 1, path, np);
		} else if (a.type == KDUMP_BLOB && a.val.blob) {
			size_t i, sz;
			const unsigned char *p;
			step("blob_pin");
			p = kdump_blob_pin(a.val.blob);
			sz = kdump_blob_size(a.val.blob);
			for (i = 0; p && i < sz; ++i) blob_sum = blob_sum * 31 + p[i];
			blob_sum += sz;
			if (!strcmp(path, "file.eraseinfo.raw")) {
				emit(" erase=%zx:", sz);
				for (i = 0; p && i < sz && i < 64; ++i) emit("%02x", p[i]);
			}
			kdump_blob_unpin(a.val.blob);
		} else if (a.type == KDUMP_STRING && a.val.string) {
			volatile size_t l = strlen(a.val.string); (void)l;
		}
		path[plen] = 0;
		step("attr_iter_next");
		st = kdump_attr_iter_next(ctx, &it);
		note_status(st);
		if (st != KDUMP_OK) { ++n_attr_err; break; }
	}
	kdump_attr_iter_end(ctx, &it);
}

static void query_bmp(kdump_ctx_t *ctx, const char *key, kdump_addr_t maxpfn)
{
	kdump_attr_t a;
	kdump_status st;
	kdump_addr_t idx, probes[6];
	unsigned char *bits;
	kdump_addr_t last;
	unsigned i;

	step("get_attr(bitmap)");
	a.type = KDUMP_BITMAP;
	st = kdump_get_typed_attr(ctx, key, &a);
	note_status(st);
	if (st != KDUMP_OK || !a.val.bitmap)
		return;
	last = maxpfn ? (maxpfn - 1 < 4095 ? maxpfn - 1 : 4095) : 7;
	bits = malloc((last >> 3) + 1);
	step("bmp_get_bits");
	note_status(kdump_bmp_get_bits(a.val.bitmap, 0, last, bits));
	if (maxpfn > 16) {
		step("bmp_get_bits(tail)");
		note_status(kdump_bmp_get_bits(a.val.bitmap, maxpfn - 9, maxpfn + 6, bits));
	}
	free(bits);
	{
		/* ranges that start inside the map (in a later part of a file's window) */
		static const unsigned starts[] = { 1, 2, 3, 5, 6, 7, 9, 10, 12, 15, 17, 20, 22, 31, 39 };
		unsigned k;
		bits = malloc(8);
		for (k = 0; k < sizeof starts / sizeof starts[0]; ++k) {
			if (maxpfn && starts[k] >= maxpfn)
				break;
			step("bmp_get_bits(mid)");
			note_status(kdump_bmp_get_bits(a.val.bitmap, starts[k], starts[k] + 34, bits));
			step("bmp_get_bits(one)");
			note_status(kdump_bmp_get_bits(a.val.bitmap, starts[k], starts[k], bits));
		}
		free(bits);
	}
	probes[0] = 0; probes[1] = 1; probes[2] = maxpfn ? maxpfn - 1 : 0; probes[3] = maxpfn;
	probes[4] = maxpfn + 1; probes[5] = ~(kdump_addr_t)0;
	for (i = 0; i < 6; ++i) {
		idx = probes[i];
		step("bmp_find_set");
		note_status(kdump_bmp_find_set(a.val.bitmap, &idx));
		idx = probes[i];
		step("bmp_find_clear");
		note_status(kdump_bmp_find_clear(a.val.bitmap, &idx));
	}
}

static void read_pages(kdump_ctx_t *ctx, kdump_addrspace_t as, kdump_addr_t base,
		       size_t ps, kdump_addr_t maxpfn, unsigned npages)
{
	unsigned char *buf = malloc(2 * ps + 16);
	kdump_addr_t pfns[64];
	unsigned n = 0, i;
	size_t len;

	for (i = 0; i < npages && i < maxpfn && n < 48; ++i) pfns[n++] = i;
	if (maxpfn > npages) { pfns[n++] = maxpfn - 1; pfns[n++] = maxpfn / 2; }
	pfns[n++] = maxpfn; pfns[n++] = maxpfn + 1;
	pfns[n++] = (~(kdump_addr_t)0) / ps;
	for (i = 0; i < n; ++i) {
		len = ps;
		step("read(page)");
		note_status(kdump_read(ctx, as, base + pfns[i] * ps, buf, &len));
		if (i < 3 || i + 3 >= n) {
			/* crosses a page boundary */
			len = ps;
			step("read(straddle)");
			note_status(kdump_read(ctx, as, base + pfns[i] * ps + ps / 2 + 1, buf, &len));
			len = 7;
			step("read(short)");
			note_status(kdump_read(ctx, as, base + pfns[i] * ps + ps - 3, buf, &len));
		}
	}
	free(buf);
}

#define MAX_PRE 8
static const char *pre_key[MAX_PRE];
static unsigned long long pre_val[MAX_PRE];
static int n_pre;

static int child_main(int nfiles, int *fds, int mmap_on, unsigned npages)
{
	kdump_ctx_t *ctx;
	kdump_status st;
	kdump_attr_t a;
	kdump_attr_ref_t root;
	kdump_num_t ps = 0, maxpfn = 0;
	char path[520];
	struct sigaction sa;

	if (use_alarm) {
		memset(&sa, 0, sizeof sa);
		sa.sa_handler = on_alarm;
		sigaction(SIGALRM, &sa, NULL);
	}

	step("new");
	ctx = kdump_new();
	if (!ctx) { emit(" new=NULL"); return 0; }
	if (!mmap_on) {
		a.type = KDUMP_NUMBER; a.val.number = KDUMP_MMAP_NEVER;
		step("set_attr(mmap_policy)");
		st = kdump_set_attr(ctx, KDUMP_ATTR_FILE_MMAP_POLICY, &a);
		if (st != KDUMP_OK) emit(" mmap_policy=%s", stname(st));
	}
	{
		int i, nerr = 0;
		for (i = 0; i < n_pre; ++i) {
			a.type = KDUMP_NUMBER; a.val.number = pre_val[i];
			step("set_attr(pre-open)");
			st = kdump_set_attr(ctx, pre_key[i], &a);
			if ((unsigned)st > 9) emit(" BADSTATUS@pre-open");
			if (st != KDUMP_OK) ++nerr;
		}
		if (n_pre) emit(" pre=%d/%d", n_pre, nerr);
	}
	step("open");
	st = kdump_open_fdset(ctx, nfiles, fds);
	emit(" open=%s", stname(st));
	if ((unsigned)st > 9) emit(" BADSTATUS@open");
	if (st != KDUMP_OK) {
		char msg[400];
		const char *e = kdump_get_err(ctx);
		snprintf(msg, sizeof msg, "%s", e ? e : "(null)");
		sanitize(msg);
		emit(" err=%s", msg);
	} else {
		const char *s;
		step("get_attr(format)");
		if (kdump_get_string_attr(ctx, KDUMP_ATTR_FILE_FORMAT, &s) == KDUMP_OK) emit(" fmt=%s", s);
		if (kdump_get_string_attr(ctx, KDUMP_ATTR_ARCH_NAME, &s) == KDUMP_OK) emit(" arch=%s", s);
		st = kdump_get_number_attr(ctx, KDUMP_ATTR_PAGE_SIZE, &ps);
		emit(" ps=%s:%llx", stname(st), (unsigned long long)ps);
		st = kdump_get_number_attr(ctx, "max_pfn", &maxpfn);
		emit(" maxpfn=%s:%llx", stname(st), (unsigned long long)maxpfn);
	}
	/* attributes: also after a failed open (the tree must stay usable) */
	step("attr_ref");
	st = kdump_attr_ref(ctx, NULL, &root);
	if (st == KDUMP_OK) {
		path[0] = 0;
		walk_attrs(ctx, &root, 0, path, 0);
		kdump_attr_unref(ctx, &root);
	} else
		emit(" rootref=%s", stname(st));
	emit(" attrs=%lu/%lu", n_attrs, n_attr_err);
	emit_hist("ast");
	/* page maps */
	query_bmp(ctx, KDUMP_ATTR_FILE_PAGEMAP, maxpfn);
	query_bmp(ctx, KDUMP_ATTR_MEMORY_PAGEMAP, maxpfn);
	emit_hist("bmp");
	/* reads */
	{
		size_t rps = (ps >= 1 && ps <= 65536) ? (size_t)ps : 4096;
		read_pages(ctx, KDUMP_MACHPHYSADDR, 0, rps, maxpfn, npages);
		emit_hist("rdm");
		read_pages(ctx, KDUMP_KPHYSADDR, 0, rps, maxpfn, npages / 4 + 1);
		emit_hist("rdk");
		read_pages(ctx, KDUMP_KVADDR, 0xffffffff80000000ULL, rps, 2, 2);
		read_pages(ctx, KDUMP_KVADDR, 0xffff880000000000ULL, rps, 2, 2);
		read_pages(ctx, KDUMP_KVADDR, 0xc0000000ULL, rps, 2, 2);
		emit_hist("rdv");
	}
	{
		char *str = NULL;
		step("read_string");
		st = kdump_read_string(ctx, KDUMP_MACHPHYSADDR, 0, &str);
		note_status(st);
		if (st == KDUMP_OK) free(str);
		step("vmcoreinfo_raw");
		st = kdump_vmcoreinfo_raw(ctx, &str);
		note_status(st);
		if (st == KDUMP_OK) free(str);
		emit_hist("misc");
	}
	step("free");
	kdump_free(ctx);
	if (use_alarm)
		alarm(0);
	emit(" free=ok");
	return 0;
}

/* build one file from "<seed>[@trunc][+off:hex]..." ; returns fd (O_RDONLY) */
static int build_file(char *spec, int k)
{
	char *plus = strchr(spec, '+');
	char *at;
	char path[600];
	unsigned char *data;
	size_t len, cap;
	FILE *f;
	int fd;

	if (plus) *plus++ = 0;
	at = strchr(spec, '@');
	if (at) *at++ = 0;
	f = fopen(spec, "rb");
	if (!f) { perror(spec); return -1; }
	fseek(f, 0, SEEK_END); len = ftell(f); fseek(f, 0, SEEK_SET);
	cap = len + 65536;
	data = calloc(1, cap);
	if (fread(data, 1, len, f) != len) { fclose(f); free(data); return -1; }
	fclose(f);
	while (plus && *plus) {
		char *next = strchr(plus, '+');
		char *colon;
		size_t off, i, n;
		if (next) *next++ = 0;
		colon = strchr(plus, ':');
		if (colon) {
			*colon++ = 0;
			off = hx(plus);
			n = strlen(colon) / 2;
			if (off + n > cap) { data = realloc(data, off + n + 1); memset(data + cap, 0, off + n + 1 - cap); cap = off + n + 1; }
			for (i = 0; i < n; ++i)
				data[off + i] = (unsigned char)(hexval(colon[2*i]) << 4 | hexval(colon[2*i+1]));
			if (off + n > len) len = off + n;
		}
		plus = next;
	}
	if (at) { size_t t = hx(at); if (t < len) len = t; }
	snprintf(path, sizeof path, "%s/corrupt-%d-%d.bin", workdir, (int)getpid(), k);
	fd = open(path, O_RDWR | O_CREAT | O_TRUNC, 0600);
	if (fd < 0) { perror(path); free(data); return -1; }
	if (len && write(fd, data, len) != (ssize_t)len) { perror("write"); }
	free(data);
	close(fd);
	fd = open(path, O_RDONLY);
	unlink(path);
	return fd;
}

/* first sanitizer report in the child's stderr -> short token.  Alignment
 * reports are recoverable in this build: they are reported only if nothing
 * worse follows ("san=ubsan:...misaligned..."). */
static int frame_ok(const char *p)
{
	return strncmp(p, "__", 2) && strncmp(p, "mem", 3) && strncmp(p, "str", 3) &&
		!strstr(p, "interceptor") && strcmp(p, "pread") && strcmp(p, "pread64");
}

static void summarize_stderr(const char *path, char *out, size_t outsz)
{
	FILE *f = fopen(path, "r");
	char line[2048];
	char kind[160] = "", func[160] = "";
	char afuncs[8][64];
	int nafuncs = 0, i;
	int want_frame = 0;	/* 1: for kind, 2: for an alignment report */

	out[0] = 0;
	if (!f) return;
	while (fgets(line, sizeof line, f)) {
		char *p;
		if ((p = strstr(line, "runtime error: "))) {
			if (strstr(p, "misaligned"))
				want_frame = 2;
			else if (!kind[0]) {
				snprintf(kind, sizeof kind, "ubsan:%s", p + 15);
				want_frame = 1;
			}
		} else if (!kind[0] && (p = strstr(line, "ERROR: AddressSanitizer: "))) {
			char *e;
			p += 25;
			e = strpbrk(p, " \n");
			if (e) *e = 0;
			snprintf(kind, sizeof kind, "asan:%s", p);
			want_frame = 1;
		} else if (want_frame && (p = strstr(line, " in "))) {
			char *e;
			p += 4;
			e = strpbrk(p, " \n");
			if (e) *e = 0;
			if (frame_ok(p)) {
				if (want_frame == 1)
					snprintf(func, sizeof func, "%s", p);
				else {
					for (i = 0; i < nafuncs; ++i)
						if (!strcmp(afuncs[i], p)) break;
					if (i == nafuncs && nafuncs < 8)
						snprintf(afuncs[nafuncs++], 64, "%s", p);
				}
				want_frame = 0;
			}
		}
	}
	fclose(f);
	if (kind[0]) {
		char *nl = strchr(kind, '\n');
		if (nl) *nl = 0;
		sanitize(kind);
		if (strlen(kind) > 70) kind[70] = 0;
		snprintf(out, outsz, "%s@%s", kind, func[0] ? func : "?");
	} else if (nafuncs) {
		size_t n = snprintf(out, outsz, "ubsan:misaligned@");
		for (i = 0; i < nafuncs && n < outsz; ++i)
			n += snprintf(out + n, outsz - n, "%s%s", i ? "+" : "", afuncs[i]);
	}
}

static void do_file(char *args)
{
	char *save = NULL, *tok;
	char *opts = strtok_r(args, " ", &save);
	int fds[16], nf = 0, i;
	int mmap_on = 1;
	unsigned npages = 8;
	int pfd[2];
	pid_t pid;
	char errpath[600], buf[8192], summ[400];
	size_t got = 0;
	ssize_t r;
	int status = 0;

	call_limit = 5;
	n_pre = 0;
	if (opts) {
		char *s2 = NULL, *o;
		for (o = strtok_r(opts, ",", &s2); o; o = strtok_r(NULL, ",", &s2)) {
			if (!strncmp(o, "m=", 2)) mmap_on = atoi(o + 2);
			else if (!strncmp(o, "t=", 2)) call_limit = atoi(o + 2);
			else if (!strncmp(o, "n=", 2)) npages = atoi(o + 2);
			else if (!strncmp(o, "a=", 2) && n_pre < MAX_PRE) {
				char *c = strchr(o + 2, ':');
				if (c) {
					*c = 0;
					pre_key[n_pre] = o + 2;
					pre_val[n_pre] = hx(c + 1);
					++n_pre;
				}
			}
		}
	}
	while ((tok = strtok_r(NULL, " ", &save)) && nf < 16) {
		fds[nf] = build_file(tok, nf);
		if (fds[nf] < 0) { printf("F HARNESS-ERROR cannot build file\n"); return; }
		++nf;
	}
	if (!nf) { printf("F HARNESS-ERROR no file\n"); return; }
	snprintf(errpath, sizeof errpath, "%s/corrupt-%d.err", workdir, (int)getpid());
	if (pipe(pfd) < 0) { printf("F HARNESS-ERROR pipe\n"); return; }
	fflush(stdout);
	pid = fork();
	if (pid == 0) {
		int efd = open(errpath, O_WRONLY | O_CREAT | O_TRUNC, 0600);
		close(pfd[0]);
		if (efd >= 0) { dup2(efd, 2); close(efd); }
		out_fd = pfd[1];
		child_main(nf, fds, mmap_on, npages);
		_exit(0);
	}
	close(pfd[1]);
	while (got < sizeof buf - 1 && (r = read(pfd[0], buf + got, sizeof buf - 1 - got)) > 0)
		got += r;
	buf[got] = 0;
	close(pfd[0]);
	/* overall guard: per-call alarms bound each call; the walk itself is bounded */
	waitpid(pid, &status, 0);
	for (i = 0; i < nf; ++i) close(fds[i]);
	summarize_stderr(errpath, summ, sizeof summ);
	if (!getenv("CORRUPT_KEEP_ERR")) unlink(errpath);
	printf("F%s", buf);
	if (WIFSIGNALED(status))
		printf(" DIED sig=%d", WTERMSIG(status));
	else if (WEXITSTATUS(status) != 0)
		printf(" DIED exit=%d", WEXITSTATUS(status));
	if (summ[0])
		printf(" san=%s", summ);
	putchar('\n');
}

int main(int argc, char **argv)
{
	FILE *f;
	char *line;
	int ai = 1;

	if (argc > 2 && !strcmp(argv[1], "-w")) { workdir = argv[2]; ai = 3; }
	if (argc <= ai) { fprintf(stderr, "usage: corrupt_drv [-w workdir] casefile\n"); return 2; }
	f = fopen(argv[ai], "r");
	if (!f) { perror(argv[ai]); return 2; }
	setvbuf(stdout, NULL, _IOLBF, 0);
	signal(SIGPIPE, SIG_IGN);
	while ((line = verif_getline(f))) {
		if (line[0] == 'R' && line[1] == ' ')
			do_rle(line + 2);
		else if (line[0] == 'F' && line[1] == ' ')
			do_file(line + 2);
		else if (line[0] == 'S' && line[1] == ' ')
			do_sizes(line + 2);
		else
			printf("SKIP\n");
	}
	fclose(f);
	return 0;
}
