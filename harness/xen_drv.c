/* Correspondence driver, engine "xen" (C19).
 *
 * Case lines (hex numbers):
 *   I <junk> <okend> <pfn>:<ok>,... | <probe> ...
 *       white-box on pfn2idx_map_start/add/end/search of elfdump.c; <ok> is the
 *       answer realloc gives if that call allocates; <junk> is stored in the
 *       field pfn2idx_map_start leaves uninitialised.
 *       -> "B R<pfn>:<idx>:<len>,.. S<pfn>:<idx>,.. Q<idx>,.."  or  "F<consumed>"
 *   X <a|n>[:<delta>[:<d|n>]] <pfn>:<gmfn>,... | <as>:<addr> ...     (as: p = KPHYSADDR, m = MACHPHYSADDR)
 *       <delta> (hex) is added to the file offset 0x170 of .xen_p2m/.xen_pfn; 'n' = file.mmap_policy never
 *       end to end: an xc_core ELF64 file (sections .xen_pages and .xen_p2m or
 *       .xen_pfn) is written to a memfd and opened through the public API;
 *       every probe reads 8 bytes at <addr> in <as> (page k of .xen_pages holds
 *       the words k<<16 | offset) and converts <addr> to the other address
 *       space with addrxlat_fulladdr_conv (non-auto-translated dumps only).
 *       -> "O R<status>:<word> C<status>:<addr> ..."  or  "E<status>" if the open fails
 */
#include "common.h"
#include <unistd.h>
#include <sys/mman.h>
#include <elf.h>

static int fail_next_realloc;
static void *verif_realloc(void *p, size_t sz)
{
	if (fail_next_realloc) { fail_next_realloc = 0; return NULL; }
	return realloc(p, sz);
}
#define realloc verif_realloc
#include "src/kdumpfile/elfdump.c"
#undef realloc

static void whitebox(char *line)
{
	struct pfn2idx_map map;
	struct pfn2idx_range cur;
	char *save = NULL, *tok, *s2 = NULL, *p;
	char *bar = strchr(line, '|');
	kdump_status st = KDUMP_OK;
	uint64_t junk;
	int okend;
	size_t i;

	*bar = 0;
	strtok_r(line, " ", &save);			/* "I" */
	junk = hx(strtok_r(NULL, " ", &save));
	okend = strtok_r(NULL, " ", &save)[0] == '1';
	tok = strtok_r(NULL, " ", &save);		/* frames, or NULL */

	pfn2idx_map_start(&map, &cur);
	cur.pfn = junk;
	for (p = tok ? strtok_r(tok, ",", &s2) : NULL; p; p = strtok_r(NULL, ",", &s2)) {
		char *colon = strchr(p, ':');
		fail_next_realloc = colon[1] == '0';
		st = pfn2idx_map_add(&map, &cur, hx(p));
		fail_next_realloc = 0;
		if (st != KDUMP_OK)
			break;
	}
	if (st == KDUMP_OK) {
		fail_next_realloc = !okend;
		st = pfn2idx_map_end(&map, &cur);
		fail_next_realloc = 0;
	}
	if (st != KDUMP_OK) {
		printf("F%" PRIx64 "\n", (uint64_t)cur.idx);
		pfn2idx_map_free(&map);
		return;
	}
	printf("B R");
	for (i = 0; i < map.nranges; ++i) {
		printf("%s%" PRIx64 ":%" PRIx64 ":", i ? "," : "",
		       (uint64_t)map.ranges[i].pfn, (uint64_t)map.ranges[i].idx);
		pshx((long long)map.ranges[i].len);
	}
	printf(" S");
	for (i = 0; i < map.nsingles; ++i)
		printf("%s%" PRIx64 ":%" PRIx64, i ? "," : "",
		       (uint64_t)map.singles[i].pfn, (uint64_t)map.singles[i].idx);
	printf(" Q");
	save = NULL;
	i = 0;
	for (p = strtok_r(bar + 1, " ", &save); p; p = strtok_r(NULL, " ", &save))
		printf("%s%" PRIx64, i++ ? "," : "",
		       (uint64_t)pfn2idx_map_search(&map, hx(p)));
	putchar('\n');
	pfn2idx_map_free(&map);
}

/* ---- end to end ---------------------------------------------------------- */

#define PAGE_SHIFT_X 12
#define PAGE_SIZE_X (1UL << PAGE_SHIFT_X)

static int write_all(int fd, const void *buf, size_t len)
{
	const char *p = buf;
	while (len) {
		ssize_t n = write(fd, p, len);
		if (n <= 0) return -1;
		p += n; len -= n;
	}
	return 0;
}

static int make_xc_core(int nonauto, const uint64_t *pfn, const uint64_t *gmfn, size_t n, size_t delta)
{
	static const char strtab[] = "\0.shstrtab\0.xen_pages\0.xen_p2m\0.xen_pfn";
	/* offsets: 1 .shstrtab, 11 .xen_pages, 22 .xen_p2m, 31 .xen_pfn */
	Elf64_Ehdr eh;
	Elf64_Shdr sh[4];
	size_t mapsz = n * (nonauto ? 16 : 8);
	size_t off_str = sizeof eh + sizeof sh;
	/* 0x170 + delta: an unaligned section start makes entries straddle file-cache blocks */
	size_t off_map = ((off_str + sizeof strtab + 15) & ~(size_t)15) + delta;
	size_t off_pages = (off_map + mapsz + PAGE_SIZE_X - 1) & ~(PAGE_SIZE_X - 1);
	uint64_t *page = malloc(PAGE_SIZE_X);
	char *hdr = calloc(1, off_pages);
	size_t i, j;
	int fd = memfd_create("xc_core", 0);

	if (fd < 0 || !page || !hdr) { perror("memfd/alloc"); exit(2); }
	memset(&eh, 0, sizeof eh);
	memcpy(eh.e_ident, ELFMAG, SELFMAG);
	eh.e_ident[EI_CLASS] = ELFCLASS64;
	eh.e_ident[EI_DATA] = ELFDATA2LSB;
	eh.e_ident[EI_VERSION] = EV_CURRENT;
	eh.e_type = ET_CORE;
	eh.e_machine = EM_X86_64;
	eh.e_version = EV_CURRENT;
	eh.e_ehsize = sizeof eh;
	eh.e_phentsize = sizeof(Elf64_Phdr);
	eh.e_shentsize = sizeof(Elf64_Shdr);
	eh.e_shoff = sizeof eh;
	eh.e_shnum = 4;
	eh.e_shstrndx = 1;
	memset(sh, 0, sizeof sh);
	sh[1].sh_name = 1; sh[1].sh_type = SHT_STRTAB;
	sh[1].sh_offset = off_str; sh[1].sh_size = sizeof strtab;
	sh[2].sh_name = nonauto ? 22 : 31; sh[2].sh_type = SHT_PROGBITS;
	sh[2].sh_offset = off_map; sh[2].sh_size = mapsz;
	sh[3].sh_name = 11; sh[3].sh_type = SHT_PROGBITS;
	sh[3].sh_offset = off_pages; sh[3].sh_size = n * PAGE_SIZE_X;
	memcpy(hdr, &eh, sizeof eh);
	memcpy(hdr + sizeof eh, sh, sizeof sh);
	memcpy(hdr + off_str, strtab, sizeof strtab);
	for (i = 0; i < n; ++i) {
		if (nonauto) {
			memcpy(hdr + off_map + 16 * i, &pfn[i], 8);
			memcpy(hdr + off_map + 16 * i + 8, &gmfn[i], 8);
		} else
			memcpy(hdr + off_map + 8 * i, &pfn[i], 8);
	}
	if (write_all(fd, hdr, off_pages)) { perror("write"); exit(2); }
	for (i = 0; i < n; ++i) {
		for (j = 0; j < PAGE_SIZE_X / 8; ++j)
			page[j] = ((uint64_t)i << 16) | (j * 8);
		if (write_all(fd, page, PAGE_SIZE_X)) { perror("write"); exit(2); }
	}
	free(page);
	free(hdr);
	return fd;
}

static void endtoend(char *line)
{
	char *bar = strchr(line, '|');
	char *save = NULL, *s2 = NULL, *tok, *p;
	uint64_t *pfn = NULL, *gmfn = NULL;
	size_t n = 0, cap = 0;
	int nonauto, fd, first = 1, never = 0;
	size_t delta = 0;
	kdump_ctx_t *ctx;
	kdump_status st;
	addrxlat_ctx_t *axctx = NULL;
	addrxlat_sys_t *axsys = NULL;

	*bar = 0;
	strtok_r(line, " ", &save);			/* "X" */
	{
		/* mode: <a|n>[:<delta>[:<mmap policy: d|n>]] */
		char *mode = strtok_r(NULL, " ", &save), *c;
		nonauto = mode[0] == 'n';
		if ((c = strchr(mode, ':'))) {
			delta = hx(c + 1);
			if ((c = strchr(c + 1, ':')))
				never = c[1] == 'n';
		}
	}
	tok = strtok_r(NULL, " ", &save);
	for (p = tok ? strtok_r(tok, ",", &s2) : NULL; p; p = strtok_r(NULL, ",", &s2)) {
		if (n == cap) {
			cap = cap ? 2 * cap : 64;
			pfn = (realloc)(pfn, cap * sizeof *pfn);
			gmfn = (realloc)(gmfn, cap * sizeof *gmfn);
		}
		pfn[n] = hx(p);
		gmfn[n] = hx(strchr(p, ':') + 1);
		++n;
	}
	fd = make_xc_core(nonauto, pfn, gmfn, n, delta);
	free(pfn);
	free(gmfn);

	ctx = kdump_new();
	if (!ctx) { printf("E-nomem\n"); close(fd); return; }
	if (never) {
		kdump_attr_t a;
		a.type = KDUMP_NUMBER;
		a.val.number = KDUMP_MMAP_NEVER;
		kdump_set_attr(ctx, KDUMP_ATTR_FILE_MMAP_POLICY, &a);
	}
	st = kdump_open_fd(ctx, fd);
	if (st != KDUMP_OK) {
		printf("E%d\n", (int)st);
		kdump_free(ctx);
		close(fd);
		return;
	}
	/* the dump has no OS information; tell the x86-64 set-up what it cannot detect */
	kdump_set_number_attr(ctx, KDUMP_ATTR_XLAT_DEFAULT ".virt_bits", 48);
	st = kdump_get_addrxlat(ctx, &axctx, &axsys);
	if (st != KDUMP_OK && getenv("XEN_DRV_DEBUG"))
		fprintf(stderr, "kdump_get_addrxlat: %s\n", kdump_get_err(ctx));
	printf("O");
	save = NULL;
	for (p = strtok_r(bar + 1, " ", &save); p; p = strtok_r(NULL, " ", &save)) {
		int mach = p[0] == 'm';
		uint64_t addr = hx(p + 2), word = 0;
		size_t sz = sizeof word;
		kdump_status rst;
		addrxlat_fulladdr_t fa;
		addrxlat_status ast;

		rst = kdump_read(ctx, mach ? KDUMP_MACHPHYSADDR : KDUMP_KPHYSADDR,
				 addr, &word, &sz);
		printf(" R%d:%" PRIx64, (int)rst, rst == KDUMP_OK ? word : 0);
		fa.addr = addr;
		fa.as = mach ? ADDRXLAT_MACHPHYSADDR : ADDRXLAT_KPHYSADDR;
		if (!nonauto)
			;	/* no custom translation: conversions are not part of C19 */
		else if (st == KDUMP_OK) {
			ast = addrxlat_fulladdr_conv(&fa, mach ? ADDRXLAT_KPHYSADDR
						     : ADDRXLAT_MACHPHYSADDR, axctx, axsys);
			printf(" C%d:%" PRIx64, (int)ast, ast == ADDRXLAT_OK ? (uint64_t)fa.addr : 0);
		} else
			printf(" C?");
		first = 0;
	}
	(void)first;
	putchar('\n');
	if (axsys) addrxlat_sys_decref(axsys);
	if (axctx) addrxlat_ctx_decref(axctx);
	kdump_free(ctx);
	close(fd);
}

int main(int argc, char **argv)
{
	FILE *f = fopen(argv[1], "r");
	char *line;
	if (!f) { perror(argv[1]); return 2; }
	setvbuf(stdout, NULL, _IOLBF, 0);
	while ((line = verif_getline(f))) {
		if (line[0] == 'I')
			whitebox(line);
		else if (line[0] == 'X')
			endtoend(line);
		else
			printf("BAD-CASE\n");
	}
	fclose(f);
	return 0;
}
