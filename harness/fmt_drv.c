/* Correspondence driver, engine "fmt" (C01): opens dump files through the
 * public API only and prints geometry + per-read status/length/hash.
 *
 * case line:  <nfiles> <path>... [<letter>=<...> tokens for the model side, ignored here] <req>...
 *   G                     geometry attributes
 *   Z0 | Z1               file.zero_excluded := 0 | 1
 *   R<as>:<addr>:<len>    kdump_read; as = M (machphys) K (kphys) V (kvaddr)
 * output:     one token per request, "OPEN<status>" alone if the open fails
 *   G:<format>:<byte order>:<ptr size>:<page size>:<max_pfn>   ('-' = unset)
 *   Z
 *   R<status>:<bytes read>:<fnv1a32 of the bytes read>
 */
#include "fmt_body.h"
