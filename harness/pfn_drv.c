/* Correspondence driver, engine "pfn" (C07): white-box on pfn.c and bitmap.c.
 *
 * Case lines (numbers hex, bitmaps as hex byte strings, "-" = empty):
 *   K <fn> <al> <bytes> | <pfn> ...
 *       fn = cl|cm|sl|sm: skip_clear_lsb0, skip_clear_msb0, skip_set_lsb0, skip_set_msb0 on a
 *       buffer whose address is <al> mod 4 and which ends at the end of its allocation
 *       -> "K r,r,..."
 *   B <s|c> <start> <end> <bytes>          set_bits / clear_bits on a copy of <bytes>
 *       -> "B <bytes>"
 *   M <failcall> <map>;<map>;... | <op> ...
 *       map = <start_pfn>:<end_pfn>:<l|m>:<al>:<fileoff>:<elemsz>:<bytes>
 *       every map is filled by pfn_regions_from_bitmap (bitmap of (end_pfn+7)/8 bytes is
 *       required), the maps are sorted with sort_pfn_file_maps; the <failcall>-th realloc
 *       call of the case fails (0 = none).  ops:
 *         r:<map>:<pfn>      find_pfn_region on sorted map <map> -> index of the region or -1
 *         s:<idx>            find_mapped_pfn   -> "1:<idx'>" or "0"
 *         c:<idx>            find_unmapped_pfn -> "<idx'>"
 *         g:<first>:<last>:<fill>  get_pfn_map_bits into a buffer of ((last-first)>>3)+1 bytes
 *                            pre-filled with <fill> -> bytes
 *       -> "M <pfn>:<cnt>:<pos>,...;<regions of map 2>;... | <answers>"  or
 *          "E <maps built so far...>" when an allocation fails
 */
#include "common.h"

static unsigned long realloc_calls, fail_call;
static void *verif_realloc(void *p, size_t sz)
{
	if (++realloc_calls == fail_call)
		return NULL;
	return realloc(p, sz);
}
#define realloc verif_realloc
#include "src/kdumpfile/pfn.c"
#undef realloc
#include "src/kdumpfile/bitmap.c"

/* split in place; returns the number of fields (at most max) */
static int split(char *s, const char *sep, char **fld, int max)
{
	char *save = NULL, *p;
	int n = 0;
	for (p = strtok_r(s, sep, &save); p && n < max; p = strtok_r(NULL, sep, &save))
		fld[n++] = p;
	return n;
}

static int hexval(int c)
{
	return c <= '9' ? c - '0' : (c | 32) - 'a' + 10;
}

/* bytes placed at an address that is <al> mod 4 and flush with the end of the allocation */
static unsigned char *place_bytes(const char *hex, unsigned al, size_t *psize, void **palloc)
{
	size_t n = (hex[0] == '-') ? 0 : strlen(hex) / 2, i;
	unsigned char *base = malloc(n + al + 1), *p = base + al;
	if (!base) { perror("malloc"); exit(2); }
	for (i = 0; i < n; ++i)
		p[i] = hexval(hex[2 * i]) << 4 | hexval(hex[2 * i + 1]);
	/* keep the end flush: shrink so that the redzone starts right after the bitmap */
	base = (realloc)(base, n + al ? n + al : 1);
	*palloc = base;
	*psize = n;
	return base + al;
}

static void print_bytes(const unsigned char *p, size_t n)
{
	size_t i;
	if (!n) putchar('-');
	for (i = 0; i < n; ++i)
		printf("%02x", p[i]);
}

static void skip_case(char *line)
{
	char *bar = strchr(line, '|'), *save = NULL, *p;
	char *fn, *hex;
	unsigned al;
	size_t size;
	void *alloc;
	unsigned char *bm;
	int first = 1;

	*bar = 0;
	strtok_r(line, " ", &save);
	fn = strtok_r(NULL, " ", &save);
	al = hx(strtok_r(NULL, " ", &save));
	hex = strtok_r(NULL, " ", &save);
	bm = place_bytes(hex, al, &size, &alloc);
	printf("K ");
	save = NULL;
	for (p = strtok_r(bar + 1, " ", &save); p; p = strtok_r(NULL, " ", &save)) {
		kdump_pfn_t pfn = hx(p), r;
		if (fn[0] == 'c')
			r = fn[1] == 'l' ? skip_clear_lsb0(bm, size, pfn) : skip_clear_msb0(bm, size, pfn);
		else
			r = fn[1] == 'l' ? skip_set_lsb0(bm, size, pfn) : skip_set_msb0(bm, size, pfn);
		printf("%s%" PRIx64, first ? "" : ",", (uint64_t)r);
		first = 0;
	}
	putchar('\n');
	free(alloc);
}

static void bits_case(char *line)
{
	char *save = NULL, *op, *hex;
	size_t start, end, size;
	void *alloc;
	unsigned char *buf;

	strtok_r(line, " ", &save);
	op = strtok_r(NULL, " ", &save);
	start = hx(strtok_r(NULL, " ", &save));
	end = hx(strtok_r(NULL, " ", &save));
	hex = strtok_r(NULL, " ", &save);
	buf = place_bytes(hex, 0, &size, &alloc);
	if (op[0] == 's')
		set_bits(buf, start, end);
	else
		clear_bits(buf, start, end);
	printf("B ");
	print_bytes(buf, size);
	putchar('\n');
	free(alloc);
}

#define MAXMAPS 8

static void print_maps(const struct pfn_file_map *maps, size_t n)
{
	size_t i, j;
	for (i = 0; i < n; ++i) {
		if (i) putchar(';');
		if (!maps[i].nregions) putchar('-');
		for (j = 0; j < maps[i].nregions; ++j)
			printf("%s%" PRIx64 ":%" PRIx64 ":%" PRIx64, j ? "," : "",
			       (uint64_t)maps[i].regions[j].pfn, (uint64_t)maps[i].regions[j].cnt,
			       (uint64_t)maps[i].regions[j].pos);
	}
}

static void maps_case(char *line)
{
	char *bar = strchr(line, '|'), *save = NULL, *p, *mapstr;
	struct pfn_file_map maps[MAXMAPS];
	size_t nmaps = 0, i;
	kdump_errmsg_t *err = malloc(sizeof *err + 160);
	int failed = 0;

	*bar = 0;
	memset(maps, 0, sizeof maps);
	err_init(err, 160);
	strtok_r(line, " ", &save);
	fail_call = hx(strtok_r(NULL, " ", &save));
	realloc_calls = 0;
	mapstr = strtok_r(NULL, " ", &save);
	save = NULL;
	for (p = mapstr ? strtok_r(mapstr, ";", &save) : NULL; p && nmaps < MAXMAPS;
	     p = strtok_r(NULL, ";", &save)) {
		char *fld[7];
		size_t size;
		void *alloc;
		unsigned char *bm;
		kdump_status st;
		struct pfn_file_map *pfm = &maps[nmaps];

		if (split(p, ":", fld, 7) != 7) { printf("BAD-MAP\n"); goto out; }
		pfm->start_pfn = hx(fld[0]);
		pfm->end_pfn = hx(fld[1]);
		pfm->fidx = nmaps;
		bm = place_bytes(fld[6], hx(fld[3]), &size, &alloc);
		st = pfn_regions_from_bitmap(err, pfm, bm, fld[2][0] == 'm',
					     pfm->start_pfn, pfm->end_pfn,
					     (off_t)hx(fld[4]), (off_t)hx(fld[5]));
		free(alloc);
		++nmaps;
		if (st != KDUMP_OK) { failed = 1; break; }
	}
	fail_call = 0;
	if (failed) {
		printf("E ");
		print_maps(maps, nmaps);
		putchar('\n');
		goto out;
	}
	sort_pfn_file_maps(maps, nmaps);
	printf("M ");
	print_maps(maps, nmaps);
	printf(" |");
	save = NULL;
	for (p = strtok_r(bar + 1, " ", &save); p; p = strtok_r(NULL, " ", &save)) {
		char *fld[4];
		split(p, ":", fld, 4);
		putchar(' ');
		if (fld[0][0] == 'r') {
			const struct pfn_file_map *pfm = &maps[hx(fld[1])];
			const struct pfn_region *rgn = find_pfn_region(pfm, hx(fld[2]));
			if (rgn) printf("%zx", (size_t)(rgn - pfm->regions)); else printf("-1");
		} else if (fld[0][0] == 's') {
			kdump_pfn_t idx = hx(fld[1]);
			if (find_mapped_pfn(maps, nmaps, &idx))
				printf("1:%" PRIx64, (uint64_t)idx);
			else
				printf("0");
		} else if (fld[0][0] == 'c') {
			printf("%" PRIx64, (uint64_t)find_unmapped_pfn(maps, nmaps, hx(fld[1])));
		} else if (fld[0][0] == 'g') {
			kdump_addr_t f = hx(fld[1]), l = hx(fld[2]);
			size_t n = ((l - f) >> 3) + 1;
			unsigned char *buf = malloc(n);
			if (!buf) { perror("malloc"); exit(2); }
			memset(buf, hx(fld[3]), n);
			get_pfn_map_bits(maps, nmaps, f, l, buf);
			print_bytes(buf, n);
			free(buf);
		} else
			printf("?");
	}
	putchar('\n');
 out:
	err_cleanup(err);
	free(err);
	for (i = 0; i < nmaps; ++i)
		free(maps[i].regions);
}

int main(int argc, char **argv)
{
	FILE *f = fopen(argv[1], "r");
	char *line;
	if (!f) { perror(argv[1]); return 2; }
	setvbuf(stdout, NULL, _IOLBF, 0);
	while ((line = verif_getline(f))) {
		if (line[0] == 'K') skip_case(line);
		else if (line[0] == 'B') bits_case(line);
		else if (line[0] == 'M') maps_case(line);
		else printf("BAD-CASE\n");
	}
	fclose(f);
	return 0;
}
