/* Correspondence driver, engine "diskset" (C11): the extent walk of
 * sadump_read_page() (static in sadump.c, reached by #include).
 *
 * D <data_pos>:<data_len>:<fidx>,... | <pos> ...
 * The extents become sp->ext[]; every probe position becomes a one-page
 * region { pfn = i, cnt = 1, pos = <pos> } of sp->pfm, and page i is read
 * through sadump_read_page().  fcache_pread is intercepted at link level
 * (-Wl,--wrap=_kdumpfile_priv_fcache_pread) and reports which file index and
 * file position the page would be read from.
 * output: <pos>=<fidx>@<filepos> | <pos>=nodata | <pos>=st<status>
 */
#include "common.h"
#include "src/kdumpfile/sadump.c"

static int called;
static unsigned got_fidx;
static long long got_pos;

kdump_status wrap_fcache_pread(struct fcache *, void *, size_t, unsigned, off_t)
	__asm__("__wrap__kdumpfile_priv_fcache_pread");

kdump_status wrap_fcache_pread(struct fcache *fc, void *buf, size_t len, unsigned fidx, off_t pos)
{
	called = 1;
	got_fidx = fidx;
	got_pos = pos;
	memset(buf, 0, len);
	return KDUMP_OK;
}

static void do_case(char *rest)
{
	char *bar = strchr(rest, '|');
	char *save = NULL, *tok;
	struct sadump_disk_extents ext[16];
	struct pfn_region rgn[256];
	char *names[256];
	unsigned next = 0, nprobe = 0, i;
	kdump_ctx_t *ctx;
	struct sadump_priv *sp;
	static unsigned char page[4096];

	if (!bar) { printf("BAD-CASE\n"); return; }
	*bar++ = 0;
	for (tok = strtok_r(rest, ", ", &save); tok && next < 16; tok = strtok_r(NULL, ", ", &save)) {
		char *c1 = strchr(tok, ':'), *c2 = c1 ? strchr(c1 + 1, ':') : NULL;
		if (!c2)
			continue;
		ext[next].data_pos = shx(tok);
		ext[next].data_len = shx(c1 + 1);
		ext[next].fidx = (unsigned)hx(c2 + 1);
		++next;
	}
	for (tok = strtok_r(bar, " ", &save); tok && nprobe < 256; tok = strtok_r(NULL, " ", &save)) {
		names[nprobe] = tok;
		rgn[nprobe].pfn = nprobe;
		rgn[nprobe].cnt = 1;
		rgn[nprobe].pos = shx(tok);
		++nprobe;
	}
	ctx = kdump_new();
	sp = calloc(1, sizeof *sp + next * sizeof(sp->ext[0]));
	if (!ctx || !sp || !next) { printf("BAD-SETUP\n"); return; }
	sp->num_files = next;
	sp->block_size = 4096;
	memcpy(sp->ext, ext, next * sizeof ext[0]);
	sp->pfm.regions = rgn;
	sp->pfm.nregions = nprobe;
	ctx->shared->fmtdata = sp;
	set_page_size(ctx, 4096);
	set_max_pfn(ctx, nprobe);

	for (i = 0; i < nprobe; ++i) {
		struct page_io pio;
		kdump_status st;
		memset(&pio, 0, sizeof pio);
		pio.ctx = ctx;
		pio.addr.addr = (addrxlat_addr_t)i << 12;
		pio.addr.as = ADDRXLAT_MACHPHYSADDR;
		pio.chunk.data = page;
		called = 0;
		st = sadump_read_page(&pio);
		if (st == KDUMP_OK && called) {
			printf("%s%s=%x@", i ? " " : "", names[i], got_fidx);
			pshx(got_pos);
		} else if (st == KDUMP_ERR_NODATA)
			printf("%s%s=nodata", i ? " " : "", names[i]);
		else
			printf("%s%s=st%d", i ? " " : "", names[i], (int)st);
		clear_error(ctx);
	}
	putchar('\n');
	ctx->shared->fmtdata = NULL;
	free(sp);
	kdump_free(ctx);
}

int main(int argc, char **argv)
{
	FILE *f = fopen(argv[1], "r");
	char *line;
	if (!f) { perror(argv[1]); return 2; }
	setvbuf(stdout, NULL, _IOLBF, 0);
	while ((line = verif_getline(f))) {
		if (line[0] == 'D' && line[1] == ' ')
			do_case(line + 2);
		else
			printf("BAD-CASE\n");
	}
	fclose(f);
	return 0;
}
