/* Correspondence driver, engine "sysop" (C09): builds a translation system
 * through the public API (addrxlat_sys_new / addrxlat_map_set /
 * addrxlat_sys_set_map / addrxlat_sys_set_meth, callbacks via
 * addrxlat_ctx_add_cb) and runs addrxlat_op / addrxlat_fulladdr_conv on it.
 * the get-page callback answers with 256-byte regions in the
 * byte order of the page and may serve an address space by re-entering
 * addrxlat_fulladdr_conv; sys.c is #included only so that the read-capabilities callback can count
 * the records on ctx->inflight (struct inflight is private to sys.c): that
 * count is the nesting depth of addrxlat_op at the moment of a read.
 * Case format: see ml/eng_sysop.ml. */
#include "common.h"
#include "src/addrxlat/sys.c"

#define PAGE 4096ULL
#define REGION 256ULL		/* the get-page callback answers with 256-byte regions */
#define MAXPAGES 256

struct page { int as; uint64_t base; unsigned char *data; int big; };
static struct page pages[MAXPAGES];
static unsigned npages;
static unsigned char zeropage[PAGE];
static long long failst;
static int backing[64];			/* -1: the callback serves the space itself */
static addrxlat_sys_t *cur_sys;
static unsigned long rcaps;
static addrxlat_ctx_t *ctx;
static unsigned ncalls;
static addrxlat_fulladdr_t lastcall;
static long long opret;

static struct page *find_page(int as, uint64_t base, int create)
{
	unsigned i;
	for (i = 0; i < npages; ++i)
		if (pages[i].as == as && pages[i].base == base)
			return &pages[i];
	if (!create || npages == MAXPAGES)
		return NULL;
	pages[npages].as = as;
	pages[npages].base = base;
	pages[npages].data = calloc(1, PAGE);
	pages[npages].big = 0;
	return &pages[npages++];
}

static unsigned maxdepth;
static void note_depth(void)
{
	unsigned d = 0;
	struct inflight *pif;
	for (pif = ctx->inflight; pif; pif = pif->next)
		++d;
	if (d > maxdepth)
		maxdepth = d;
}

static addrxlat_status get_page(const addrxlat_cb_t *cb, addrxlat_buffer_t *buf)
{
	int as = buf->addr.as;
	uint64_t want = buf->addr.addr, at = want, shift = 0;
	struct page *pg;
	uint64_t base;

	note_depth();
	if (as >= 0 && as < 64 && backing[as] >= 0) {
		/* serve this space through another one: convert the requested address
		 * with the library (same context, same system), as a dump reader that
		 * can read only one space does; nothing is stored in the buffer before
		 * the answer is known */
		addrxlat_fulladdr_t fa = buf->addr;
		addrxlat_status st = addrxlat_fulladdr_conv(&fa, backing[as], ctx, cur_sys);
		if (st != ADDRXLAT_OK)
			return st;
		as = backing[as];
		at = fa.addr;
	}
	base = at & ~(REGION - 1);
	shift = at - base;
	pg = find_page(as, at & ~(PAGE - 1), 0);
	if (!pg && failst)
		return addrxlat_ctx_err(ctx, (addrxlat_status)failst, "no page at %d:%llx",
					as, (unsigned long long)base);
	buf->addr.addr = want - shift;
	buf->ptr = pg ? pg->data + (base & (PAGE - 1)) : zeropage;
	buf->size = REGION;
	buf->byte_order = pg && pg->big ? ADDRXLAT_BIG_ENDIAN : ADDRXLAT_LITTLE_ENDIAN;
	return ADDRXLAT_OK;
}

static unsigned long read_caps(const addrxlat_cb_t *cb)
{
	note_depth();
	return rcaps;
}

static addrxlat_status count_op(void *data, const addrxlat_fulladdr_t *addr)
{
	++ncalls;
	lastcall = *addr;
	return (addrxlat_status)opret;
}

struct custom { long long st; int as; uint64_t key; };
static addrxlat_status custom_first(addrxlat_step_t *step, addrxlat_addr_t addr)
{
	const struct custom *c = step->meth->param.custom.data;
	if (c->st)
		return addrxlat_ctx_err(step->ctx, (addrxlat_status)c->st, "custom method says no");
	step->base.as = c->as;
	step->base.addr = c->key - addr;
	step->remain = 0;
	step->elemsz = 0;
	return ADDRXLAT_OK;
}
static addrxlat_status custom_next(addrxlat_step_t *step)
{
	return ADDRXLAT_ERR_NOTIMPL;
}

#define MAXTOK 4096
static char *fld[64];
static int split(char *s, const char *sep)
{
	int n = 0; char *save = NULL, *p;
	/* keep empty trailing field out; fields are never empty in this format except after '=' */
	for (p = strtok_r(s, sep, &save); p && n < 64; p = strtok_r(NULL, sep, &save))
		fld[n++] = p;
	return n;
}

static void *allocs[64];
static unsigned nallocs;
static void *keep(void *p) { allocs[nallocs++] = p; return p; }

static void set_meth(addrxlat_sys_t *sys, unsigned slot, char *spec)
{
	addrxlat_meth_t m;
	int n;
	memset(&m, 0, sizeof m);
	n = split(spec, ":");
	switch (fld[0][0]) {
	case 'N': m.kind = ADDRXLAT_NOMETH; m.target_as = ADDRXLAT_NOADDR; break;
	case 'B': m.kind = (addrxlat_kind_t)17; m.target_as = ADDRXLAT_KPHYSADDR; break;
	case 'U': {
		struct custom *c = keep(malloc(sizeof *c));
		c->st = shx(fld[1]); c->as = (int)shx(fld[2]); c->key = hx(fld[3]);
		m.kind = ADDRXLAT_CUSTOM; m.target_as = ADDRXLAT_NOADDR;
		m.param.custom.first_step = custom_first;
		m.param.custom.next_step = custom_next;
		m.param.custom.data = c;
		break;
	}
	case 'L':
		m.kind = ADDRXLAT_LINEAR; m.target_as = (int)shx(fld[1]);
		m.param.linear.off = (addrxlat_off_t)hx(fld[2]);
		break;
	case 'P': {
		char *fl = fld[6]; int i, k;
		m.kind = ADDRXLAT_PGT; m.target_as = (int)shx(fld[1]);
		m.param.pgt.root.as = (int)shx(fld[2]);
		m.param.pgt.root.addr = hx(fld[3]);
		m.param.pgt.pf.pte_format = !strcmp(fld[4], "64") ? ADDRXLAT_PTE_PFN64 : ADDRXLAT_PTE_PFN32;
		m.param.pgt.pte_mask = hx(fld[5]);
		k = strcmp(fl, "-") ? split(fl, ".") : 0;
		m.param.pgt.pf.nfields = k;
		for (i = 0; i < k && i < ADDRXLAT_FIELDS_MAX; ++i)
			m.param.pgt.pf.fieldsz[i] = (unsigned short)hx(fld[i]);
		break;
	}
	case 'X': {
		char *fl = fld[6]; int i, k;
		m.kind = ADDRXLAT_PGT; m.target_as = (int)shx(fld[1]);
		m.param.pgt.root.as = (int)shx(fld[2]);
		m.param.pgt.root.addr = hx(fld[3]);
		m.param.pgt.pte_mask = hx(fld[4]);
		m.param.pgt.pf.pte_format = (addrxlat_pte_format_t)hx(fld[5]);
		k = strcmp(fl, "-") ? split(fl, ".") : 0;
		m.param.pgt.pf.nfields = k;
		for (i = 0; i < k && i < ADDRXLAT_FIELDS_MAX; ++i)
			m.param.pgt.pf.fieldsz[i] = (unsigned short)hx(fld[i]);
		break;
	}
	case 'K': {
		char *tbl = fld[3]; int i, k; char *el[32];
		m.kind = ADDRXLAT_LOOKUP; m.target_as = (int)shx(fld[1]);
		m.param.lookup.endoff = hx(fld[2]);
		k = strcmp(tbl, "-") ? split(tbl, ",") : 0;
		for (i = 0; i < k; ++i) el[i] = fld[i];
		m.param.lookup.nelem = k;
		m.param.lookup.tbl = keep(calloc(k ? k : 1, sizeof(addrxlat_lookup_elem_t)));
		for (i = 0; i < k; ++i) {
			char *dot = strchr(el[i], '.');
			*dot = 0;
			m.param.lookup.tbl[i].orig = hx(el[i]);
			m.param.lookup.tbl[i].dest = hx(dot + 1);
		}
		break;
	}
	case 'A':
		m.kind = ADDRXLAT_MEMARR; m.target_as = (int)shx(fld[1]);
		m.param.memarr.base.as = (int)shx(fld[2]);
		m.param.memarr.base.addr = hx(fld[3]);
		m.param.memarr.shift = (unsigned)hx(fld[4]);
		m.param.memarr.elemsz = (unsigned)hx(fld[5]);
		m.param.memarr.valsz = (unsigned)hx(fld[6]);
		break;
	default:
		fprintf(stderr, "bad method %s\n", spec); exit(2);
	}
	(void)n;
	addrxlat_sys_set_meth(sys, slot, &m);
}

static void set_map(addrxlat_sys_t *sys, unsigned idx, char *spec)
{
	addrxlat_map_t *map = addrxlat_map_new();
	char *sets[16]; int i, k;
	k = *spec ? split(spec, ",") : 0;
	for (i = 0; i < k; ++i) sets[i] = fld[i];
	for (i = 0; i < k; ++i) {
		addrxlat_range_t r;
		split(sets[i], ":");
		r.endoff = hx(fld[1]);
		r.meth = (addrxlat_sys_meth_t)shx(fld[2]);
		if (addrxlat_map_set(map, hx(fld[0]), &r) != ADDRXLAT_OK) {
			fprintf(stderr, "map_set failed\n"); exit(2);
		}
	}
	addrxlat_sys_set_map(sys, idx, map);
	addrxlat_map_decref(map);
}

int main(int argc, char **argv)
{
	FILE *f = fopen(argv[1], "r");
	char *line;
	if (!f) { perror(argv[1]); return 2; }
	setvbuf(stdout, NULL, _IOLBF, 0);
	while ((line = verif_getline(f))) {
		static char *tok[MAXTOK];
		int ntok = 0, i, first = 1, sysp = 1;
		unsigned long caps = 0;
		char *save = NULL, *p;
		addrxlat_cb_t *cb;
		addrxlat_sys_t *sys = addrxlat_sys_new();
		unsigned s;

		ctx = addrxlat_ctx_new();
		cb = addrxlat_ctx_add_cb(ctx);
		cb->get_page = get_page;
		cb->read_caps = read_caps;
		for (s = 0; s < ADDRXLAT_SYS_METH_NUM; ++s) {
			char none[] = "N";
			set_meth(sys, s, none);
		}
		failst = 0; rcaps = 0; opret = 0;
		for (s = 0; s < 64; ++s) backing[s] = -1;
		cur_sys = sys;
		for (p = strtok_r(line, " ", &save); p && ntok < MAXTOK; p = strtok_r(NULL, " ", &save))
			tok[ntok++] = p;
		/* pass 0: byte order of pages */
		for (i = 0; i < ntok; ++i) {
			char *t = tok[i];
			if (t[0] == 'E' && t[1] == ':') {
				struct page *pg;
				char *c1 = strchr(t + 2, ':');
				pg = find_page((int)shx(t + 2), hx(c1 + 1) & ~(PAGE - 1), 1);
				if (pg) pg->big = 1;
			}
		}
		/* pass 1: configuration */
		for (i = 0; i < ntok; ++i) {
			char *t = tok[i];
			switch (t[0]) {
			case 'B':
				if (t[1] == ':') {
					char *c1 = strchr(t + 2, ':');
					backing[hx(t + 2) & 63] = (int)hx(c1 + 1);
				}
				break;
			case 'C': caps = hx(t + 2); break;
			case 'R': rcaps = hx(t + 2); break;
			case 'O': opret = shx(t + 2); break;
			case 'F': failst = shx(t + 2); break;
			case 'S': sysp = t[2] != '0'; break;
			case 'M': set_map(sys, t[1] - '0', strchr(t, '=') + 1); break;
			case 'T': {
				char *eq = strchr(t, '=');
				*eq = 0;
				set_meth(sys, (unsigned)hx(t + 1), eq + 1);
				*eq = '=';
				break;
			}
			case 'G':
				split(t, ":");
				find_page((int)shx(fld[1]), hx(fld[2]), 1);
				break;
			case 'W': {
				struct page *pg; uint64_t a, v;
				split(t, ":");
				a = hx(fld[2]); v = hx(fld[3]);
				pg = find_page((int)shx(fld[1]), a & ~(PAGE - 1), 1);
				if (pg) {
					if (pg->big) v = __builtin_bswap64(v);
					memcpy(pg->data + (a & (PAGE - 1) & ~7ULL), &v, 8);
				}
				break;
			}
			default: break;
			}
		}
		/* pass 2: queries */
		for (i = 0; i < ntok; ++i) {
			char *t = tok[i];
			addrxlat_fulladdr_t fa;
			addrxlat_status st;
			if (t[0] != 'Q' && t[0] != 'V')
				continue;
			if (!first) putchar(';');
			first = 0;
			maxdepth = 0; ncalls = 0;
			if (t[0] == 'Q') {
				addrxlat_op_ctl_t ctl;
				split(t, ":");
				fa.as = (int)shx(fld[1]); fa.addr = hx(fld[2]);
				ctl.ctx = ctx; ctl.sys = sysp ? sys : NULL;
				ctl.op = count_op; ctl.data = NULL; ctl.caps = caps;
				st = addrxlat_op(&ctl, &fa);
				printf("st="); pshx((long long)st);
				printf(" n=%u a=", ncalls);
				if (ncalls) { pshx(lastcall.as); printf(":%" PRIx64, (uint64_t)lastcall.addr); }
				else putchar('-');
				printf(" d=%u", maxdepth);
			} else {
				int tas;
				split(t, ":");
				fa.as = (int)shx(fld[1]); fa.addr = hx(fld[2]); tas = (int)shx(fld[3]);
				{
					addrxlat_fulladdr_t before = fa;
					st = addrxlat_fulladdr_conv(&fa, tas, ctx, sysp ? sys : NULL);
					/* the operation is storeaddr: it ran iff the status is OK or *faddr changed */
					ncalls = (st == ADDRXLAT_OK || fa.addr != before.addr || fa.as != before.as);
				}
				printf("st="); pshx((long long)st);
				printf(" n=%u a=", ncalls);
				pshx(fa.as); printf(":%" PRIx64, (uint64_t)fa.addr);
				printf(" d=%u", maxdepth);
			}
		}
		putchar('\n');
		addrxlat_sys_decref(sys);
		addrxlat_ctx_decref(ctx);
		for (s = 0; s < npages; ++s) free(pages[s].data);
		npages = 0;
		for (s = 0; s < nallocs; ++s) free(allocs[s]);
		nallocs = 0;
	}
	fclose(f);
	return 0;
}
