/* Correspondence driver, engine "cb" (C17): callback layers of a translation
 * context through the public API (addrxlat_ctx_add_cb / addrxlat_ctx_del_cb /
 * addrxlat_ctx_get_cb).
 *
 *   case line: ops separated by blanks, on a fresh addrxlat_ctx_t; layers are numbered in
 *   creation order from 1 (0 = the context's own record)
 *      +            addrxlat_ctx_add_cb()              (priv stays NULL, hooks stay default)
 *      P<k>         layer k: cb->priv = its own tag
 *      O<k>:<h>     layer k: override hook h (0 get_page 1 read_caps 2 reg_value 3 sym_value
 *                   4 sym_sizeof 5 sym_offsetof 6 num_value) with an implementation that
 *                   knows it belongs to layer k and reports the tag behind the cb it was given
 *      -<k>         addrxlat_ctx_del_cb(layer k)
 *      I<h>         cb = addrxlat_ctx_get_cb(ctx); cb->hook(cb, ...)
 *   output: one token per I op: "<own>:<seen>" (layer whose implementation ran : tag of the
 *   private data it saw, -1 = NULL), "0:0" when the context's own default answered
 *   (ADDRXLAT_ERR_NODATA with its "No ... callback" message left in this very context,
 *   no implementation ran), "?<status>" otherwise.
 *
 *   line "K <dump file>": the translation context of a kdump_ctx_t that has the file open; the answers of all seven hooks before
 *   adding a layer, with an extra layer that overrides nothing, and after deleting it:
 *   "<7 answers> | <7 answers> | <7 answers>".
 */
#include "common.h"
#include <libkdumpfile/addrxlat.h>
#include <libkdumpfile/kdumpfile.h>
#include <fcntl.h>
#include <unistd.h>

#define MAXL 16
struct tag { int id; };
static struct tag *tags[MAXL];
static addrxlat_cb_t *layers[MAXL];
static int own_log, seen_log, ran;
static int base_wrote;	/* the context's own default hook left its message in this context */

static int seen_of(const addrxlat_cb_t *cb)
{
	return cb->priv ? ((struct tag *)cb->priv)->id : -1;
}

#define IMPLS(k) \
static addrxlat_status gp##k(const addrxlat_cb_t *cb, addrxlat_buffer_t *buf) \
{ own_log = k; seen_log = seen_of(cb); ran = 1; return ADDRXLAT_OK; } \
static unsigned long rc##k(const addrxlat_cb_t *cb) \
{ own_log = k; seen_log = seen_of(cb); ran = 1; return 0; } \
static addrxlat_status v1##k(const addrxlat_cb_t *cb, const char *n, addrxlat_addr_t *v) \
{ own_log = k; seen_log = seen_of(cb); ran = 1; *v = k; return ADDRXLAT_OK; } \
static addrxlat_status v2##k(const addrxlat_cb_t *cb, const char *o, const char *e, addrxlat_addr_t *v) \
{ own_log = k; seen_log = seen_of(cb); ran = 1; *v = k; return ADDRXLAT_OK; }
IMPLS(1) IMPLS(2) IMPLS(3) IMPLS(4) IMPLS(5) IMPLS(6) IMPLS(7) IMPLS(8)

#define ROW(k) { gp##k, rc##k, v1##k, v2##k }
static const struct {
	addrxlat_get_page_fn *gp; addrxlat_read_caps_fn *rc;
	addrxlat_cb_reg_value_fn *v1; addrxlat_cb_sym_offsetof_fn *v2;
} impls[] = { {0}, ROW(1), ROW(2), ROW(3), ROW(4), ROW(5), ROW(6), ROW(7), ROW(8) };

static void override(addrxlat_cb_t *cb, int k, int h)
{
	switch (h) {
	case 0: cb->get_page = impls[k].gp; break;
	case 1: cb->read_caps = impls[k].rc; break;
	case 2: cb->reg_value = impls[k].v1; break;
	case 3: cb->sym_value = impls[k].v1; break;
	case 4: cb->sym_sizeof = impls[k].v1; break;
	case 5: cb->sym_offsetof = impls[k].v2; break;
	case 6: cb->num_value = impls[k].v1; break;
	}
}

/* invoke hook h the way the library does; returns the status (or 0 for read_caps) */
static long invoke(addrxlat_ctx_t *ctx, int h, unsigned long long *val)
{
	const addrxlat_cb_t *cb = addrxlat_ctx_get_cb(ctx);
	addrxlat_addr_t v = 0;
	addrxlat_buffer_t buf;
	long st = 0;
	memset(&buf, 0, sizeof buf);
	buf.addr.as = ADDRXLAT_MACHPHYSADDR;
	switch (h) {
	case 0: st = cb->get_page(cb, &buf);
		if (st == ADDRXLAT_OK && buf.put_page) buf.put_page(&buf);
		break;
	case 1: v = cb->read_caps(cb); break;
	case 2: st = cb->reg_value(cb, "verif_reg", &v); break;
	case 3: st = cb->sym_value(cb, "verif_sym", &v); break;
	case 4: st = cb->sym_sizeof(cb, "verif_type", &v); break;
	case 5: st = cb->sym_offsetof(cb, "verif_type", "verif_member", &v); break;
	case 6: st = cb->num_value(cb, "verif_num", &v); break;
	}
	*val = v;
	base_wrote = (addrxlat_ctx_get_err(ctx) != NULL);
	addrxlat_ctx_clear_err(ctx);
	return st;
}

static void seven(addrxlat_ctx_t *ctx)
{
	int h;
	for (h = 0; h < 7; ++h) {
		unsigned long long v;
		long st = invoke(ctx, h, &v);
		printf("%s%ld:%llx", h ? "," : "", st, v);
	}
}

int main(int argc, char **argv)
{
	FILE *f = fopen(argv[1], "r");
	char *line;
	if (!f) { perror(argv[1]); return 2; }
	setvbuf(stdout, NULL, _IOLBF, 0);
	while ((line = verif_getline(f))) {
		char *save = NULL, *tok;
		addrxlat_ctx_t *ctx;
		int nl = 0, first = 1, i;
		if (line[0] == 'K') {
			kdump_ctx_t *k = kdump_new();
			addrxlat_sys_t *sys;
			addrxlat_cb_t *cb;
			int fd = open(line + 2, O_RDONLY);
			kdump_status st = KDUMP_ERR_SYSTEM;
			if (k && fd >= 0)
				st = kdump_open_fd(k, fd);
			if (st == KDUMP_OK) {
				/* let the Linux/x86-64 translation system come up without VMCOREINFO */
				kdump_attr_t a;
				a.type = KDUMP_STRING; a.val.string = "linux";
				st = kdump_set_attr(k, "addrxlat.ostype", &a);
				a.type = KDUMP_NUMBER; a.val.number = 48;
				if (st == KDUMP_OK) st = kdump_set_attr(k, "addrxlat.force.virt_bits", &a);
				a.type = KDUMP_ADDRESS; a.val.address = 0;
				if (st == KDUMP_OK) st = kdump_set_attr(k, "addrxlat.force.phys_base", &a);
			}
			if (st == KDUMP_OK)
				st = kdump_get_addrxlat(k, &ctx, &sys);
			if (st != KDUMP_OK) {
				printf("KDUMP-FAILED %s\n", k ? kdump_get_err(k) : "new");
				if (k) kdump_free(k);
				if (fd >= 0) close(fd);
				continue;
			}
			seven(ctx);
			printf(" | ");
			cb = addrxlat_ctx_add_cb(ctx);
			seven(ctx);
			printf(" | ");
			addrxlat_ctx_del_cb(ctx, cb);
			seven(ctx);
			putchar('\n');
			addrxlat_sys_decref(sys);
			addrxlat_ctx_decref(ctx);
			kdump_free(k);
			close(fd);
			continue;
		}
		ctx = addrxlat_ctx_new();
		if (!ctx) { printf("NEW-FAILED\n"); continue; }
		memset(layers, 0, sizeof layers);
		for (tok = strtok_r(line, " ", &save); tok; tok = strtok_r(NULL, " ", &save)) {
			int k = 0, h = 0;
			if (tok[0] == '+') {
				if (nl + 1 < MAXL) {
					++nl;
					layers[nl] = addrxlat_ctx_add_cb(ctx);
					tags[nl] = malloc(sizeof(struct tag));
					tags[nl]->id = nl;
				}
			} else if (tok[0] == 'P') {
				k = atoi(tok + 1);
				if (layers[k]) layers[k]->priv = tags[k];
			} else if (tok[0] == 'O') {
				sscanf(tok + 1, "%d:%d", &k, &h);
				if (layers[k]) override(layers[k], k, h);
			} else if (tok[0] == '-') {
				k = atoi(tok + 1);
				if (layers[k]) { addrxlat_ctx_del_cb(ctx, layers[k]); layers[k] = NULL; }
			} else if (tok[0] == 'I') {
				unsigned long long v;
				long st;
				h = atoi(tok + 1);
				ran = 0;
				st = invoke(ctx, h, &v);
				if (!first) putchar(' ');
				first = 0;
				if (ran) printf("%d:%d", own_log, seen_log);
				else if ((st == ADDRXLAT_ERR_NODATA && base_wrote) || (h == 1 && st == 0))
					printf("0:0");
				else printf("?%ld", st);
			}
		}
		putchar('\n');
		addrxlat_ctx_decref(ctx);	/* frees the remaining layers */
		for (i = 1; i <= nl; ++i) { free(tags[i]); tags[i] = NULL; }
	}
	fclose(f);
	return 0;
}
