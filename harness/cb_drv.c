/* Correspondence driver, engine "cb" (C17): callback layers of a translation
 * context through the public API (addrxlat_ctx_add_cb / addrxlat_ctx_del_cb /
 * addrxlat_ctx_get_cb).
 *
 *   case line: ops separated by blanks, on a fresh addrxlat_ctx_t; layers are numbered in
 *   creation order from 1 (0 = the context's own record)
 *      +            addrxlat_ctx_add_cb()              (priv stays NULL, hooks stay default)
 *      P<k>         layer k: cb->priv = its own tag
 *      O<k>:<h>     layer k: override hook h (0 get_page 1 read_caps 2 reg_value 3 sym_value
 *                   4 sym_sizeof 5 sym_offsetof 6 num_value) with an implementation that
 *                   knows it belongs to layer k and reports the tag behind the cb it was given
 *      -<k>         addrxlat_ctx_del_cb(layer k)
 *      I<h>         cb = addrxlat_ctx_get_cb(ctx); cb->hook(cb, ...)
 *   output: one token per I op: "<own>:<seen>" (layer whose implementation ran : tag of the
 *   private data it saw, -1 = NULL), "0:0" when the context's own default answered
 *   (ADDRXLAT_ERR_NODATA with its "No ... callback" message left in this very context,
 *   no implementation ran), "?<status>" otherwise.
 *
 *   line "C <op>...": a history on one context that interleaves reads through the read cache with
 *   layer operations: R<as>:<addr> (a memory-array translation step reading 8 bytes), + (add a layer
 *   that overrides nothing), -<pos> (delete the added layer at position pos, newest = 0); output
 *   "<status>:<value>" per R, then "gets= puts= double= unput=" after the context is destroyed.
 *   Further ops: B<mask> / V<mask> (first in the line): read capabilities of the base layer and the
 *   address spaces in which its memory exists (bit 0 KPHYSADDR, bit 1 MACHPHYSADDR); +c<mask>: add a
 *   layer that overrides read_caps with <mask>.  The context's system has identity maps between the
 *   two physical address spaces, so a read of a space outside the capabilities is converted.
 *   line "L <n> <ostype|-> <dump file> <kvaddr>...": a dump object with n empty layers stacked on its
 *   translation context before the file is opened; prints attributes, reads and hook answers (see below).
 *   line "K <dump file>": the translation context of a kdump_ctx_t that has the file open; the answers of all seven hooks before
 *   adding a layer, with an extra layer that overrides nothing, and after deleting it:
 *   "<7 answers> | <7 answers> | <7 answers>".
 */
#include "common.h"
#include <libkdumpfile/addrxlat.h>
#include <libkdumpfile/kdumpfile.h>
#include <fcntl.h>
#include <unistd.h>

#define MAXL 16
struct tag { int id; };
static struct tag *tags[MAXL];
static addrxlat_cb_t *layers[MAXL];
static int own_log, seen_log, ran;
static int base_wrote;	/* the context's own default hook left its message in this context */

static int seen_of(const addrxlat_cb_t *cb)
{
	return cb->priv ? ((struct tag *)cb->priv)->id : -1;
}

#define IMPLS(k) \
static addrxlat_status gp##k(const addrxlat_cb_t *cb, addrxlat_buffer_t *buf) \
{ own_log = k; seen_log = seen_of(cb); ran = 1; return ADDRXLAT_OK; } \
static unsigned long rc##k(const addrxlat_cb_t *cb) \
{ own_log = k; seen_log = seen_of(cb); ran = 1; return 0; } \
static addrxlat_status v1##k(const addrxlat_cb_t *cb, const char *n, addrxlat_addr_t *v) \
{ own_log = k; seen_log = seen_of(cb); ran = 1; *v = k; return ADDRXLAT_OK; } \
static addrxlat_status v2##k(const addrxlat_cb_t *cb, const char *o, const char *e, addrxlat_addr_t *v) \
{ own_log = k; seen_log = seen_of(cb); ran = 1; *v = k; return ADDRXLAT_OK; }
IMPLS(1) IMPLS(2) IMPLS(3) IMPLS(4) IMPLS(5) IMPLS(6) IMPLS(7) IMPLS(8)

#define ROW(k) { gp##k, rc##k, v1##k, v2##k }
static const struct {
	addrxlat_get_page_fn *gp; addrxlat_read_caps_fn *rc;
	addrxlat_cb_reg_value_fn *v1; addrxlat_cb_sym_offsetof_fn *v2;
} impls[] = { {0}, ROW(1), ROW(2), ROW(3), ROW(4), ROW(5), ROW(6), ROW(7), ROW(8) };

static void override(addrxlat_cb_t *cb, int k, int h)
{
	switch (h) {
	case 0: cb->get_page = impls[k].gp; break;
	case 1: cb->read_caps = impls[k].rc; break;
	case 2: cb->reg_value = impls[k].v1; break;
	case 3: cb->sym_value = impls[k].v1; break;
	case 4: cb->sym_sizeof = impls[k].v1; break;
	case 5: cb->sym_offsetof = impls[k].v2; break;
	case 6: cb->num_value = impls[k].v1; break;
	}
}

/* invoke hook h the way the library does; returns the status (or 0 for read_caps) */
static long invoke(addrxlat_ctx_t *ctx, int h, unsigned long long *val)
{
	const addrxlat_cb_t *cb = addrxlat_ctx_get_cb(ctx);
	addrxlat_addr_t v = 0;
	addrxlat_buffer_t buf;
	long st = 0;
	memset(&buf, 0, sizeof buf);
	buf.addr.as = ADDRXLAT_MACHPHYSADDR;
	switch (h) {
	case 0: st = cb->get_page(cb, &buf);
		if (st == ADDRXLAT_OK && buf.put_page) buf.put_page(&buf);
		break;
	case 1: v = cb->read_caps(cb); break;
	case 2: st = cb->reg_value(cb, "verif_reg", &v); break;
	case 3: st = cb->sym_value(cb, "verif_sym", &v); break;
	case 4: st = cb->sym_sizeof(cb, "verif_type", &v); break;
	case 5: st = cb->sym_offsetof(cb, "verif_type", "verif_member", &v); break;
	case 6: st = cb->num_value(cb, "verif_num", &v); break;
	}
	*val = v;
	base_wrote = (addrxlat_ctx_get_err(ctx) != NULL);
	addrxlat_ctx_clear_err(ctx);
	return st;
}

static void seven(addrxlat_ctx_t *ctx)
{
	int h;
	for (h = 0; h < 7; ++h) {
		unsigned long long v;
		long st = invoke(ctx, h, &v);
		printf("%s%ld:%llx", h ? "," : "", st, v);
	}
}

/* ---- cache histories ("C" lines): a base layer whose get_page hands out counted copies of
 * synthetic regions (the function of Hist/ReadCache.synth_get_page); put_page poisons the copy
 * and marks it released, so that a read after the put or a second put is visible ---- */
struct cpage { unsigned char *data; size_t size; int released; };
#define MAXCP 4096
static struct cpage cpages[MAXCP];
static int ncp;
static unsigned long c_gets, c_puts, c_double;
static unsigned long c_base_caps = 3, c_served = 3;

static void c_put_page(const addrxlat_buffer_t *buf)
{
	struct cpage *p = buf->priv;
	if (p->released) { ++c_double; return; }
	memset(p->data, 0xdd, p->size);
	p->released = 1;
	++c_puts;
}

static addrxlat_status c_get_page(const addrxlat_cb_t *cb, addrxlat_buffer_t *buf)
{
	uint64_t a = buf->addr.addr, base, size, blk, i;
	unsigned as = (unsigned)buf->addr.as;
	struct cpage *p;
	/* memory is there only in the address spaces of the "served" mask */
	if (as > 2 || !(c_served & (1UL << as))) return ADDRXLAT_ERR_NODATA;
	/* the same function as Cb/CbCache.cb_page_source (compared on probe addresses by the check) */
	blk = a / 0x100;
	if (blk % 8 == 3) return ADDRXLAT_ERR_NODATA;
	base = blk * 0x100; size = 0x100;
	if (ncp >= MAXCP) return ADDRXLAT_ERR_NOMEM;
	p = &cpages[ncp++];
	p->data = malloc(size); p->size = size; p->released = 0;
	for (i = 0; i < size; ++i)
		p->data[i] = (unsigned char)(((base + i) * 13 + (uint64_t)as * 3 + 1) & 0xff);
	++c_gets;
	buf->addr.addr = base;
	buf->size = size;
	buf->ptr = p->data;
	buf->byte_order = ADDRXLAT_LITTLE_ENDIAN;
	buf->put_page = c_put_page;
	buf->priv = p;
	return ADDRXLAT_OK;
}


static unsigned long c_read_caps(const addrxlat_cb_t *cb)
{
	return c_base_caps;
}

/* read_caps of a layer that overrides it: the mask is the layer's private data */
static unsigned long c_layer_caps(const addrxlat_cb_t *cb)
{
	return (unsigned long)(uintptr_t)cb->priv;
}

static void cache_history(char *line)
{
	addrxlat_ctx_t *ctx = addrxlat_ctx_new();
	addrxlat_cb_t *base, *added[MAXL];
	int nadded = 0, i;
	char *save = NULL, *tok;
	addrxlat_sys_t *sys = addrxlat_sys_new();
	ncp = 0; c_gets = c_puts = c_double = 0;
	c_base_caps = 3; c_served = 3;
	base = addrxlat_ctx_add_cb(ctx);
	base->get_page = c_get_page;
	base->read_caps = c_read_caps;
	{
		/* identity maps between the two physical address spaces, so that a read of a space that
		 * is not among the read capabilities is converted to the other one */
		int idx[2] = { ADDRXLAT_SYS_MAP_KPHYS_MACHPHYS, ADDRXLAT_SYS_MAP_MACHPHYS_KPHYS };
		int mi[2] = { ADDRXLAT_SYS_METH_KPHYS_MACHPHYS, ADDRXLAT_SYS_METH_MACHPHYS_KPHYS };
		for (i = 0; i < 2; ++i) {
			addrxlat_meth_t m; addrxlat_range_t r; addrxlat_map_t *map;
			memset(&m, 0, sizeof m);
			m.kind = ADDRXLAT_LINEAR; m.param.linear.off = 0;
			m.target_as = i ? ADDRXLAT_KPHYSADDR : ADDRXLAT_MACHPHYSADDR;
			addrxlat_sys_set_meth(sys, mi[i], &m);
			map = addrxlat_map_new();
			r.endoff = ADDRXLAT_ADDR_MAX; r.meth = mi[i];
			if (map && addrxlat_map_set(map, 0, &r) == ADDRXLAT_OK)
				addrxlat_sys_set_map(sys, idx[i], map);
			if (map) addrxlat_map_decref(map);
		}
	}
	strtok_r(line, " ", &save);
	for (tok = strtok_r(NULL, " ", &save); tok; tok = strtok_r(NULL, " ", &save)) {
		if (tok[0] == 'B') {
			c_base_caps = strtoul(tok + 1, NULL, 16);
		} else if (tok[0] == 'V') {
			c_served = strtoul(tok + 1, NULL, 16);
		} else if (tok[0] == '+') {
			if (nadded < MAXL) {
				/* newest first, like the model's stack */
				memmove(added + 1, added, nadded * sizeof added[0]);
				added[0] = addrxlat_ctx_add_cb(ctx);
				if (tok[1] == 'c') {
					/* a layer that overrides read_caps (and nothing else) */
					added[0]->priv = (void *)(uintptr_t)strtoul(tok + 2, NULL, 16);
					added[0]->read_caps = c_layer_caps;
				}
				++nadded;
			}
		} else if (tok[0] == '-') {
			int pos = atoi(tok + 1);
			if (pos < nadded) {
				addrxlat_ctx_del_cb(ctx, added[pos]);
				memmove(added + pos, added + pos + 1, (nadded - pos - 1) * sizeof added[0]);
				--nadded;
			}
		} else if (tok[0] == 'R') {
			/* one translation step that reads 8 bytes at <as>:<addr>: a memory-array method
			 * with shift 0, element size 1, value size 8 and base <as>:0 */
			unsigned as; unsigned long long addr;
			addrxlat_meth_t meth;
			addrxlat_step_t step;
			addrxlat_status st;
			if (sscanf(tok + 1, "%x:%llx", &as, &addr) != 2) { printf("? "); continue; }
			memset(&meth, 0, sizeof meth);
			meth.kind = ADDRXLAT_MEMARR;
			meth.target_as = ADDRXLAT_MACHPHYSADDR;
			meth.param.memarr.base.as = (addrxlat_addrspace_t)as;
			meth.param.memarr.base.addr = 0;
			meth.param.memarr.shift = 0;
			meth.param.memarr.elemsz = 1;
			meth.param.memarr.valsz = 8;
			memset(&step, 0, sizeof step);
			step.ctx = ctx; step.sys = sys; step.meth = &meth;
			step.base.addr = addr;
			st = addrxlat_walk(&step);
			printf("%d:%" PRIx64 " ", (int)st, st == ADDRXLAT_OK ? (uint64_t)step.base.addr : (uint64_t)0);
			addrxlat_ctx_clear_err(ctx);
		}
	}
	addrxlat_sys_decref(sys);
	addrxlat_ctx_decref(ctx);	/* cleanup_cache: puts what the slots still hold */
	{
		unsigned long unput = 0;
		for (i = 0; i < ncp; ++i) { if (!cpages[i].released) ++unput; free(cpages[i].data); }
		printf("gets=%lu puts=%lu double=%lu unput=%lu\n", c_gets, c_puts, c_double, unput);
	}
}

int main(int argc, char **argv)
{
	FILE *f = fopen(argv[1], "r");
	char *line;
	if (!f) { perror(argv[1]); return 2; }
	setvbuf(stdout, NULL, _IOLBF, 0);
	while ((line = verif_getline(f))) {
		char *save = NULL, *tok;
		addrxlat_ctx_t *ctx;
		alarm(5);	/* a case takes milliseconds; a spinning library is killed by SIGALRM */
		int nl = 0, first = 1, i;
		if (line[0] == 'C') { cache_history(line); continue; }
		if (line[0] == 'Y') {
			/* Y <as>:<addr>: what this driver's page source answers */
			unsigned as; unsigned long long addr;
			addrxlat_buffer_t b;
			memset(&b, 0, sizeof b);
			ncp = 0;
			c_served = 7;		/* the page source itself, in every address space */
			if (sscanf(line + 2, "%x:%llx", &as, &addr) != 2) { printf("?\n"); continue; }
			b.addr.as = (addrxlat_addrspace_t)as; b.addr.addr = addr;
			if (c_get_page(NULL, &b) != ADDRXLAT_OK) { printf("none\n"); continue; }
			{
				uint64_t v = 0; int i;
				for (i = 7; i >= 0; --i) v = (v << 8) | ((const unsigned char *)b.ptr)[i];
				printf("%" PRIx64 ":%zx:%" PRIx64 "\n", (uint64_t)b.addr.addr, b.size, v);
			}
			free(cpages[0].data); ncp = 0;
			continue;
		}
		if (line[0] == 'L') {
			/* L <n> <ostype|-> <dump file> <kvaddr> ...: a dump object with n layers that
			 * override nothing stacked on its translation context BEFORE the file is opened
			 * and the OS type set; prints what the application can observe of operations
			 * that make the libraries themselves invoke the hooks */
			static const char *const akeys[] = {
				"linux.uts.sysname", "linux.uts.nodename", "linux.uts.release",
				"linux.uts.version", "linux.uts.machine", "linux.uts.domainname",
				"linux.version_code", "linux.phys_base", "xen.phys_start", "xen.version_code",
				"cpu.0.reg.rip", "cpu.0.reg.pc", "arch.name", "arch.page_size",
			};
			char *sv = NULL, *nstr, *ost, *path, *a;
			kdump_ctx_t *k = kdump_new();
			kdump_status st;
			kdump_attr_t attr;
			unsigned i;
			int n, fd;
			strtok_r(line, " ", &sv);
			nstr = strtok_r(NULL, " ", &sv); ost = strtok_r(NULL, " ", &sv);
			path = strtok_r(NULL, " ", &sv);
			if (!k || !nstr || !ost || !path ||
			    kdump_get_addrxlat(k, &ctx, NULL) != KDUMP_OK) { printf("L-SETUP-FAILED\n"); continue; }
			for (n = atoi(nstr); n > 0; --n)
				if (!addrxlat_ctx_add_cb(ctx)) { printf("L-SETUP-FAILED\n"); break; }
			fd = open(path, O_RDONLY);
			st = fd < 0 ? KDUMP_ERR_SYSTEM : kdump_open_fd(k, fd);
			printf("open=%d", (int)st);
			if (st == KDUMP_OK && ost[0] != '-') {
				attr.type = KDUMP_STRING; attr.val.string = ost;
				printf(" ostype=%d", (int)kdump_set_attr(k, "addrxlat.ostype", &attr));
			}
			for (i = 0; i < sizeof akeys / sizeof akeys[0]; ++i) {
				st = kdump_get_attr(k, akeys[i], &attr);
				if (st != KDUMP_OK) printf(" %s=!%d", akeys[i], (int)st);
				else if (attr.type == KDUMP_STRING) {
					const char *c;
					printf(" %s=\"", akeys[i]);
					for (c = attr.val.string; *c; ++c) putchar(*c == ' ' ? '_' : *c);
					putchar('"');
				} else if (attr.type == KDUMP_NUMBER || attr.type == KDUMP_ADDRESS)
					printf(" %s=%" PRIx64, akeys[i], (uint64_t)attr.val.number);
				else printf(" %s=type%d", akeys[i], (int)attr.type);
			}
			{
				addrxlat_ctx_t *c2; addrxlat_sys_t *s2;
				st = kdump_get_addrxlat(k, &c2, &s2);
				printf(" xlat=%d", (int)st);
				if (st == KDUMP_OK) { addrxlat_ctx_decref(c2); addrxlat_sys_decref(s2); }
			}
			while ((a = strtok_r(NULL, " ", &sv))) {
				unsigned char buf[8];
				int as;
				for (as = 0; as < 3; ++as) {
					size_t len = sizeof buf;
					memset(buf, 0, sizeof buf);
					st = kdump_read(k, (kdump_addrspace_t)as, hx(a), buf, &len);
					printf(" r%d:%s=%d:%zu:%02x%02x%02x%02x%02x%02x%02x%02x", as, a, (int)st, len,
					       buf[0], buf[1], buf[2], buf[3], buf[4], buf[5], buf[6], buf[7]);
				}
			}
			printf(" hooks=");
			{
				static const char *const nm1[] = { 0, 0, "cr3", "init_uts_ns", "list_head", 0, "phys_base" };
				const addrxlat_cb_t *cb = addrxlat_ctx_get_cb(ctx);
				int h;
				for (h = 1; h < 7; ++h) {
					addrxlat_addr_t v = 0;
					long hs = 0;
					switch (h) {
					case 1: v = cb->read_caps(cb); break;
					case 2: hs = cb->reg_value(cb, nm1[h], &v); break;
					case 3: hs = cb->sym_value(cb, nm1[h], &v); break;
					case 4: hs = cb->sym_sizeof(cb, nm1[h], &v); break;
					case 5: hs = cb->sym_offsetof(cb, "list_head", "next", &v); break;
					case 6: hs = cb->num_value(cb, nm1[h], &v); break;
					}
					printf("%s%ld:%" PRIx64, h > 1 ? "," : "", hs, (uint64_t)v);
					addrxlat_ctx_clear_err(ctx);
				}
			}
			putchar('\n');
			addrxlat_ctx_decref(ctx);
			kdump_free(k);
			if (fd >= 0) close(fd);
			continue;
		}
		if (line[0] == 'K') {
			kdump_ctx_t *k = kdump_new();
			addrxlat_sys_t *sys;
			addrxlat_cb_t *cb;
			int fd = open(line + 2, O_RDONLY);
			kdump_status st = KDUMP_ERR_SYSTEM;
			if (k && fd >= 0)
				st = kdump_open_fd(k, fd);
			if (st == KDUMP_OK) {
				/* let the Linux/x86-64 translation system come up without VMCOREINFO */
				kdump_attr_t a;
				a.type = KDUMP_STRING; a.val.string = "linux";
				st = kdump_set_attr(k, "addrxlat.ostype", &a);
				a.type = KDUMP_NUMBER; a.val.number = 48;
				if (st == KDUMP_OK) st = kdump_set_attr(k, "addrxlat.force.virt_bits", &a);
				a.type = KDUMP_ADDRESS; a.val.address = 0;
				if (st == KDUMP_OK) st = kdump_set_attr(k, "addrxlat.force.phys_base", &a);
			}
			if (st == KDUMP_OK)
				st = kdump_get_addrxlat(k, &ctx, &sys);
			if (st != KDUMP_OK) {
				printf("KDUMP-FAILED %s\n", k ? kdump_get_err(k) : "new");
				if (k) kdump_free(k);
				if (fd >= 0) close(fd);
				continue;
			}
			seven(ctx);
			printf(" | ");
			cb = addrxlat_ctx_add_cb(ctx);
			seven(ctx);
			printf(" | ");
			addrxlat_ctx_del_cb(ctx, cb);
			seven(ctx);
			putchar('\n');
			addrxlat_sys_decref(sys);
			addrxlat_ctx_decref(ctx);
			kdump_free(k);
			close(fd);
			continue;
		}
		ctx = addrxlat_ctx_new();
		if (!ctx) { printf("NEW-FAILED\n"); continue; }
		memset(layers, 0, sizeof layers);
		for (tok = strtok_r(line, " ", &save); tok; tok = strtok_r(NULL, " ", &save)) {
			int k = 0, h = 0;
			if (tok[0] == '+') {
				if (nl + 1 < MAXL) {
					++nl;
					layers[nl] = addrxlat_ctx_add_cb(ctx);
					tags[nl] = malloc(sizeof(struct tag));
					tags[nl]->id = nl;
				}
			} else if (tok[0] == 'P') {
				k = atoi(tok + 1);
				if (layers[k]) layers[k]->priv = tags[k];
			} else if (tok[0] == 'O') {
				sscanf(tok + 1, "%d:%d", &k, &h);
				if (layers[k]) override(layers[k], k, h);
			} else if (tok[0] == '-') {
				k = atoi(tok + 1);
				if (layers[k]) { addrxlat_ctx_del_cb(ctx, layers[k]); layers[k] = NULL; }
			} else if (tok[0] == 'I') {
				unsigned long long v;
				long st;
				h = atoi(tok + 1);
				ran = 0;
				st = invoke(ctx, h, &v);
				if (!first) putchar(' ');
				first = 0;
				if (ran) printf("%d:%d", own_log, seen_log);
				else if ((st == ADDRXLAT_ERR_NODATA && base_wrote) || (h == 1 && st == 0))
					printf("0:0");
				else printf("?%ld", st);
			}
		}
		putchar('\n');
		addrxlat_ctx_decref(ctx);	/* frees the remaining layers */
		for (i = 1; i <= nl; ++i) { free(tags[i]); tags[i] = NULL; }
	}
	fclose(f);
	return 0;
}
