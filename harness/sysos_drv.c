/* Correspondence driver, engine "sysos" (C08).
 *
 * Case kinds (one line each, blank-separated, numbers hex):
 *   lay <call>...            white box: sys_set_layout / sys_set_physmaps on a fresh sys
 *       call = S<map>:<first>-<last>-<meth>-<act>[,<region>...]  |  P<maxaddr>
 *       output: "<status>..." then the dump of all maps and methods
 *   scan <fn> <fmt> <f0,f1,..> <root_as> <root> <pte_mask> <tgt_as> <bo> <addr> <limit> <off> <cell>...
 *       white box: fn = lm | hm | lu | hl : lowest_mapped / highest_mapped / lowest_unmapped /
 *       highest_linear of step.c on a page-table method over the case's memory
 *       output: "<status> <addr>[ <as>:<base>]"
 *   os <token>...          public API: addrxlat_sys_os_init for arch=x86_64 on a synthesised image
 *       os=<l|x|n> ver=<v> pb=<phys_base> root=<as>:<addr> vb=<virt_bits> xx=<xen_xlat>   options ("-" = unset)
 *       S:<sym>=<val> | S:<sym>!<st>   R:<reg>=..   N:<num>=..    callbacks (absent name: NODATA)
 *       caps=<mask: 1 kphys, 2 machphys, 4 kv>  bo=<byte order>  rp=<hint for the spec, ignored here>
 *       Q:<kvaddr>  P:<kphysaddr>      queries      <cell>...  memory
 *       output: "<status>" + dump + per query
 *         " q<addr>=<kv st>[:<kphys>]/<hw st>[:<kphys>]"  through MAP_KV_PHYS / MAP_HW (+ conversion to KPHYSADDR)
 *         " p<addr>=<st>[:<kvaddr>]/<st>[:<kphys>]"       through MAP_KPHYS_DIRECT and back through MAP_KV_PHYS
 *   ia32dm <vmalloc_start|->   white box: the map part of sys_ia32 for Linux (temporary layout, final map,
 *       set_linux_directmap with VMALLOC_START found through vmlist, or not at all); output: status + dump
 *   lindm <first> <last> <off>  white box: arm.c map_direct on a fresh system; output: status + dump
 *   cell = <as>:<addr>=<value> | <as>:<addr>!<status> | <as>:<addr>~<len> (zero-filled region)
 *
 * Dump: "M<i>=<endoff>:<meth>,...;" for every non-NULL map ("M<i>=-;" when NULL),
 *       "m<i>=L:<tgt>:<off>" / "m<i>=P:<root_as>:<root>:<mask>:<fmt>:<f0>,<f1>.." /
 *       "m<i>=A:<as>:<base>:<shift>:<elemsz>:<valsz>:<tgt>" for every method whose kind is set.
 */
#include "common.h"
#include <endian.h>
#include "addrxlat-priv.h"
/* white box for the static layout functions of ia32.c and arm.c (both are left out of the
 * library sources this driver is linked with) */
#include "src/addrxlat/ia32.c"
#undef PGD_PSE_HIGH_SHIFT
#undef PGD_PSE_HIGH_BITS
#undef PGD_PSE_HIGH_MASK
#undef pgd_pse_high
#undef PHYSADDR_BITS_MAX_NONPAE
#undef PHYSADDR_MASK_NONPAE
#undef PHYSADDR_BITS_MAX_PAE
#undef PHYSADDR_MASK_PAE
#undef _PAGE_BIT_PRESENT
#undef _PAGE_BIT_PSE
#undef _PAGE_PRESENT
#undef _PAGE_PSE
#undef VIRTADDR_MAX
#undef PAGE_SHIFT
#undef PAGE_MASK
#undef PAGE_SHIFT_2M
#undef PAGE_MASK_2M
#undef PAGE_SHIFT_4M
#undef PAGE_MASK_4M
#undef LINUX_DIRECTMAP
#undef XEN_DIRECTMAP
#define get_linux_pgtroot arm_get_linux_pgtroot
#include "src/addrxlat/arm.c"

static long long sx(const char *s)
{
	return (*s == '-') ? (long long)(0 - strtoull(s + 1, NULL, 16)) : (long long)strtoull(s, NULL, 16);
}

/* ---- sparse memory served by the read callback ---- */
#define MAXCELLS 60000
struct cell { int as; uint64_t addr; int kind; long long st; uint64_t val; uint64_t len; unsigned char buf[16]; };
static struct cell cells[MAXCELLS];
static int ncells;
static int byte_order = 2;
static int ptewidth = 8;
static unsigned long caps_mask;
static unsigned char zerobuf[16];

static unsigned long read_caps(const addrxlat_cb_t *cb)
{
	return caps_mask;
}

static addrxlat_status get_page(const addrxlat_cb_t *cb, addrxlat_buffer_t *buf)
{
	addrxlat_ctx_t *ctx = cb->priv;
	int i;
	for (i = 0; i < ncells; ++i)
		if (cells[i].kind != 2 && cells[i].as == (int)buf->addr.as && cells[i].addr == buf->addr.addr)
			break;
	if (i == ncells)
		for (i = 0; i < ncells; ++i)
			if (cells[i].kind == 2 && cells[i].as == (int)buf->addr.as &&
			    buf->addr.addr - cells[i].addr < cells[i].len)
				break;
	if (i == ncells)
		return addrxlat_ctx_err(ctx, ADDRXLAT_ERR_NODATA, "No data");
	if (cells[i].kind == 1)
		return addrxlat_ctx_err(ctx, (addrxlat_status)cells[i].st, "Injected failure");
	buf->size = 1;		/* one-address window: memory is keyed by exact address */
	buf->byte_order = byte_order == 0 ? ADDRXLAT_BIG_ENDIAN :
		byte_order == 1 ? ADDRXLAT_LITTLE_ENDIAN : ADDRXLAT_HOST_ENDIAN;
	if (cells[i].kind == 2) {
		buf->ptr = zerobuf;
		return ADDRXLAT_OK;
	}
	memset(cells[i].buf, 0, sizeof cells[i].buf);
	if (byte_order != 0) {
		/* little endian (host is little endian): one encoding serves 32- and 64-bit reads */
		uint64_t v = htole64(cells[i].val);
		memcpy(cells[i].buf, &v, 8);
	} else if (ptewidth == 4) {
		uint32_t v = htobe32((uint32_t)cells[i].val);
		memcpy(cells[i].buf, &v, 4);
	} else {
		uint64_t v = htobe64(cells[i].val);
		memcpy(cells[i].buf, &v, 8);
	}
	buf->ptr = cells[i].buf;
	return ADDRXLAT_OK;
}

static int parse_cells(char **tok, int n)
{
	int i;
	ncells = 0;
	for (i = 0; i < n && ncells < MAXCELLS; ++i) {
		char *c = strchr(tok[i], ':'), *e;
		struct cell *ce = &cells[ncells];
		if (!c) return -1;
		*c++ = 0;
		ce->as = (int)sx(tok[i]);
		if ((e = strchr(c, '='))) { *e++ = 0; ce->kind = 0; ce->val = hx(e); }
		else if ((e = strchr(c, '!'))) { *e++ = 0; ce->kind = 1; ce->st = sx(e); }
		else if ((e = strchr(c, '~'))) { *e++ = 0; ce->kind = 2; ce->len = hx(e); }
		else return -1;
		ce->addr = hx(c);
		++ncells;
	}
	return 0;
}

static addrxlat_ctx_t *new_ctx(void)
{
	addrxlat_ctx_t *ctx = addrxlat_ctx_new();
	addrxlat_cb_t *cb = addrxlat_ctx_add_cb(ctx);
	cb->priv = ctx; cb->get_page = get_page; cb->read_caps = read_caps;
	return ctx;
}

static int parse_pgt(char **tok, addrxlat_meth_t *meth)
{
	addrxlat_param_pgt_t *pgt = &meth->param.pgt;
	char *s2 = NULL, *q;
	memset(meth, 0, sizeof *meth);
	meth->kind = ADDRXLAT_PGT;
	pgt->pf.pte_format = addrxlat_pte_format(tok[0]);
	pgt->pf.nfields = 0;
	if (strcmp(tok[1], "-"))
		for (q = strtok_r(tok[1], ",", &s2); q && pgt->pf.nfields < ADDRXLAT_FIELDS_MAX;
		     q = strtok_r(NULL, ",", &s2))
			pgt->pf.fieldsz[pgt->pf.nfields++] = (unsigned short)hx(q);
	pgt->root.as = (addrxlat_addrspace_t)sx(tok[2]);
	pgt->root.addr = hx(tok[3]);
	pgt->pte_mask = hx(tok[4]);
	meth->target_as = (addrxlat_addrspace_t)sx(tok[5]);
	byte_order = (int)hx(tok[6]);
	ptewidth = 1 << addrxlat_pteval_shift(pgt->pf.pte_format) == 4 ? 4 : 8;
	return 0;
}

/* scan <fn> <fmt> <fields> <root_as> <root> <mask> <tgt> <bo> <addr> <limit> <off> cells */
static void do_scan(char **tok, int n)
{
	addrxlat_ctx_t *ctx;
	addrxlat_sys_t *sys;
	struct os_init_data ctl;
	static const struct sys_region all[] = {
		{ 0, ADDRXLAT_ADDR_MAX, ADDRXLAT_SYS_METH_PGT, SYS_ACT_NONE }, SYS_REGION_END };
	addrxlat_step_t step;
	addrxlat_addr_t addr, limit, off;
	addrxlat_status st;
	const char *fn = tok[0];

	if (n < 11 || parse_cells(tok + 11, n - 11)) { puts("BADCASE"); return; }
	caps_mask = ADDRXLAT_CAPS(ADDRXLAT_KPHYSADDR) | ADDRXLAT_CAPS(ADDRXLAT_MACHPHYSADDR) |
		ADDRXLAT_CAPS(ADDRXLAT_KVADDR);
	ctx = new_ctx();
	sys = addrxlat_sys_new();
	parse_pgt(tok + 1, &sys->meth[ADDRXLAT_SYS_METH_PGT]);
	memset(&ctl, 0, sizeof ctl);
	ctl.sys = sys; ctl.ctx = ctx;
	sys_set_layout(&ctl, ADDRXLAT_SYS_MAP_KV_PHYS, all);
	addr = hx(tok[8]); limit = hx(tok[9]); off = hx(tok[10]);
	memset(&step, 0, sizeof step);
	step.ctx = ctx; step.sys = sys; step.meth = &sys->meth[ADDRXLAT_SYS_METH_PGT];
	if (!strcmp(fn, "lm")) st = lowest_mapped(&step, &addr, limit);
	else if (!strcmp(fn, "hm")) st = highest_mapped(&step, &addr, limit);
	else if (!strcmp(fn, "lu")) st = lowest_unmapped(&step, &addr, limit);
	else st = highest_linear(&step, &addr, limit, off);
	printf("%d", (int)st);
	if (st == ADDRXLAT_OK || st == ADDRXLAT_ERR_NOTPRESENT)
		printf(" %" PRIx64, (uint64_t)addr);
	if (st == ADDRXLAT_OK && (!strcmp(fn, "lm") || !strcmp(fn, "hm"))) {
		putchar(' '); pshx((long long)(int)step.base.as);
		printf(":%" PRIx64, (uint64_t)step.base.addr);
	}
	putchar('\n');
	addrxlat_sys_decref(sys);
	addrxlat_ctx_decref(ctx);
}

/* ---- os ---- */
struct named { char kind; const char *name; int err; long long st; uint64_t val; };
static struct named names[64];
static int nnames;

static addrxlat_status lookup_cb(const addrxlat_cb_t *cb, char kind, const char *name, addrxlat_addr_t *val)
{
	addrxlat_ctx_t *ctx = cb->priv;
	int i;
	for (i = 0; i < nnames; ++i)
		if (names[i].kind == kind && !strcmp(names[i].name, name)) {
			if (names[i].err)
				return addrxlat_ctx_err(ctx, (addrxlat_status)names[i].st, "Injected failure");
			*val = names[i].val;
			return ADDRXLAT_OK;
		}
	return addrxlat_ctx_err(ctx, ADDRXLAT_ERR_NODATA, "No such name: %s", name);
}
static addrxlat_status sym_cb(const addrxlat_cb_t *cb, const char *name, addrxlat_addr_t *val)
{ return lookup_cb(cb, 'S', name, val); }
static addrxlat_status reg_cb(const addrxlat_cb_t *cb, const char *name, addrxlat_addr_t *val)
{ return lookup_cb(cb, 'R', name, val); }
static addrxlat_status num_cb(const addrxlat_cb_t *cb, const char *name, addrxlat_addr_t *val)
{ return lookup_cb(cb, 'N', name, val); }
static addrxlat_status sizeof_cb(const addrxlat_cb_t *cb, const char *name, addrxlat_addr_t *val)
{ return lookup_cb(cb, 'Z', name, val); }
static addrxlat_status offsetof_cb(const addrxlat_cb_t *cb, const char *obj, const char *elem, addrxlat_addr_t *val)
{
	char nm[128];
	snprintf(nm, sizeof nm, "%s.%s", obj, elem);
	return lookup_cb(cb, 'O', nm, val);
}

static void dump_sys(const addrxlat_sys_t *sys);

/* translate through one map by hand, then convert to the target space */
static void xlat_via(addrxlat_ctx_t *ctx, addrxlat_sys_t *sys, addrxlat_sys_map_t mapidx,
		     addrxlat_addrspace_t target, uint64_t addr, int *pst, uint64_t *pres)
{
	addrxlat_map_t *map = addrxlat_sys_get_map(sys, mapidx);
	addrxlat_sys_meth_t mi;
	addrxlat_step_t step;
	addrxlat_status st;

	*pres = addr;
	if (!map) { *pst = ADDRXLAT_ERR_NOMETH; return; }
	mi = addrxlat_map_search(map, addr);
	if (mi < 0) { *pst = ADDRXLAT_ERR_NOMETH; return; }
	memset(&step, 0, sizeof step);
	step.ctx = ctx; step.sys = sys; step.meth = addrxlat_sys_get_meth(sys, mi);
	step.base.as = ADDRXLAT_NOADDR; step.base.addr = addr;
	st = addrxlat_walk(&step);
	if (st == ADDRXLAT_OK)
		st = addrxlat_fulladdr_conv(&step.base, target, ctx, sys);
	*pst = (int)st;
	if (st == ADDRXLAT_OK) *pres = step.base.addr;
}

static void do_os(char **tok, int n)
{
	addrxlat_ctx_t *ctx;
	addrxlat_cb_t *cb;
	addrxlat_sys_t *sys;
	addrxlat_opt_t opts[12], opts2[14];
	int hist = 0;
	addrxlat_fulladdr_t root;
	unsigned optc = 0;
	static char *celltok[MAXCELLS];
	static char *qtok[512];
	int ncelltok = 0, nq = 0, i;
	addrxlat_status st;

	nnames = 0; caps_mask = 0; byte_order = 1; ptewidth = 8;
	{
		const char *arch = "x86_64";
		for (i = 0; i < n; ++i)
			if (!strncmp(tok[i], "arch=", 5)) arch = tok[i] + 5;
		addrxlat_opt_arch(&opts[optc++], arch);
	}
	for (i = 0; i < n; ++i) {
		char *t = tok[i];
		if (!strncmp(t, "arch=", 5)) ;
		else if (!strncmp(t, "ps=", 3)) {
			if (t[3] != '-') addrxlat_opt_page_shift(&opts[optc++], hx(t + 3));
		} else if (!strncmp(t, "pbits=", 6)) {
			if (t[6] != '-') addrxlat_opt_phys_bits(&opts[optc++], hx(t + 6));
		} else if (!strncmp(t, "fmt=", 4) || !strncmp(t, "fs=", 3) || !strncmp(t, "tg=", 3)) ;
		else if (!strncmp(t, "os=", 3)) {
			if (t[3] == 'l') addrxlat_opt_os_type(&opts[optc++], "linux");
			else if (t[3] == 'x') addrxlat_opt_os_type(&opts[optc++], "xen");
		} else if (!strncmp(t, "ver=", 4)) {
			if (t[4] != '-') addrxlat_opt_version_code(&opts[optc++], hx(t + 4));
		} else if (!strncmp(t, "pb=", 3)) {
			if (t[3] != '-') addrxlat_opt_phys_base(&opts[optc++], hx(t + 3));
		} else if (!strncmp(t, "vb=", 3)) {
			if (t[3] != '-') addrxlat_opt_virt_bits(&opts[optc++], hx(t + 3));
		} else if (!strncmp(t, "hist=", 5)) {
			hist = (int)hx(t + 5);
		} else if (!strncmp(t, "xx=", 3)) {
			if (t[3] != '-') addrxlat_opt_xen_xlat(&opts[optc++], hx(t + 3));
		} else if (!strncmp(t, "root=", 5)) {
			if (t[5] != '-') {
				char *c = strchr(t + 5, ':');
				*c = 0;
				root.as = (addrxlat_addrspace_t)sx(t + 5); root.addr = hx(c + 1);
				addrxlat_opt_rootpgt(&opts[optc++], &root);
			}
		} else if (!strncmp(t, "caps=", 5)) {
			unsigned long m = hx(t + 5);
			caps_mask = ((m & 1) ? ADDRXLAT_CAPS(ADDRXLAT_KPHYSADDR) : 0) |
				((m & 2) ? ADDRXLAT_CAPS(ADDRXLAT_MACHPHYSADDR) : 0) |
				((m & 4) ? ADDRXLAT_CAPS(ADDRXLAT_KVADDR) : 0);
		} else if (!strncmp(t, "bo=", 3)) byte_order = (int)hx(t + 3);
		else if (!strncmp(t, "rp=", 3) || !strncmp(t, "nf=", 3) || !strncmp(t, "dm=", 3)) ;
		else if ((t[0] == 'S' || t[0] == 'R' || t[0] == 'N' || t[0] == 'Z' || t[0] == 'O') && t[1] == ':' && nnames < 64) {
			char *e;
			names[nnames].kind = t[0]; names[nnames].name = t + 2;
			if ((e = strchr(t + 2, '='))) { *e++ = 0; names[nnames].err = 0; names[nnames].val = hx(e); }
			else if ((e = strchr(t + 2, '!'))) { *e++ = 0; names[nnames].err = 1; names[nnames].st = sx(e); }
			else continue;
			++nnames;
		} else if ((t[0] == 'Q' || t[0] == 'P') && t[1] == ':') {
			if (nq < 512) qtok[nq++] = t;
		} else if (ncelltok < MAXCELLS)
			celltok[ncelltok++] = t;
	}
	if (parse_cells(celltok, ncelltok)) { puts("BADCASE"); return; }
	ctx = addrxlat_ctx_new();
	cb = addrxlat_ctx_add_cb(ctx);
	cb->priv = ctx; cb->get_page = get_page; cb->read_caps = read_caps;
	cb->sym_value = sym_cb; cb->reg_value = reg_cb; cb->num_value = num_cb;
	cb->sym_sizeof = sizeof_cb; cb->sym_offsetof = offsetof_cb;
	sys = addrxlat_sys_new();
	/* hist=n: the same object has been used before: n earlier initialisations, alternately as a
	 * Xen PV kernel (xen_xlat=1: M2P memory array and p2m methods) and as the case itself */
	for (i = 0; i < hist; ++i) {
		if (i % 2 == 0) {
			int k, have = 0;
			memcpy(opts2, opts, sizeof opts);
			for (k = 0; k < optc; ++k)
				if (opts2[k].idx == ADDRXLAT_OPT_xen_xlat) { addrxlat_opt_xen_xlat(&opts2[k], 1); have = 1; }
			k = optc;
			if (!have) addrxlat_opt_xen_xlat(&opts2[k++], 1);
			addrxlat_opt_xen_p2m_mfn(&opts2[k++], 0x1234);
			addrxlat_sys_os_init(sys, ctx, k, opts2);
		} else
			addrxlat_sys_os_init(sys, ctx, optc, opts);
		addrxlat_ctx_clear_err(ctx);
	}
	st = addrxlat_sys_os_init(sys, ctx, optc, opts);
	printf("%d", (int)st);
	dump_sys(sys);
	for (i = 0; i < nq; ++i) {
		uint64_t a = hx(qtok[i] + 2), r1, r2;
		int s1, s2;
		if (qtok[i][0] == 'Q') {
			xlat_via(ctx, sys, ADDRXLAT_SYS_MAP_KV_PHYS, ADDRXLAT_KPHYSADDR, a, &s1, &r1);
			xlat_via(ctx, sys, ADDRXLAT_SYS_MAP_HW, ADDRXLAT_KPHYSADDR, a, &s2, &r2);
			printf(" q%" PRIx64 "=%d", a, s1);
			if (!s1) printf(":%" PRIx64, r1);
			printf("/%d", s2);
			if (!s2) printf(":%" PRIx64, r2);
		} else {
			xlat_via(ctx, sys, ADDRXLAT_SYS_MAP_KPHYS_DIRECT, ADDRXLAT_KVADDR, a, &s1, &r1);
			printf(" p%" PRIx64 "=%d", a, s1);
			if (!s1) {
				printf(":%" PRIx64, r1);
				xlat_via(ctx, sys, ADDRXLAT_SYS_MAP_KV_PHYS, ADDRXLAT_KPHYSADDR, r1, &s2, &r2);
				printf("/%d", s2);
				if (!s2) printf(":%" PRIx64, r2);
			}
		}
	}
	/* every range of the forward and of the reverse map: both ends, one page inside, the middle */
	{
		static const addrxlat_sys_map_t which[2] = { ADDRXLAT_SYS_MAP_KV_PHYS, ADDRXLAT_SYS_MAP_KPHYS_DIRECT };
		int w;
		for (w = 0; w < 2; ++w) {
			addrxlat_map_t *map = addrxlat_sys_get_map(sys, which[w]);
			size_t j, nr = map ? addrxlat_map_len(map) : 0;
			const addrxlat_range_t *r = map ? addrxlat_map_ranges(map) : NULL;
			uint64_t first = 0;
			for (j = 0; j < nr && j < 16; ++j) {
				uint64_t e = r[j].endoff, pts[5];
				int np = 0, k;
				if (r[j].meth >= 0) {
					pts[np++] = first; pts[np++] = first + e;
					if (e >= 0x2000) { pts[np++] = first + 0x1000; pts[np++] = first + e - 0x1000; }
					pts[np++] = first + e / 2;
				}
				for (k = 0; k < np; ++k) {
					uint64_t a = pts[k], r1, r2; int s1, s2;
					if (w == 0) {
						xlat_via(ctx, sys, ADDRXLAT_SYS_MAP_KV_PHYS, ADDRXLAT_KPHYSADDR, a, &s1, &r1);
						xlat_via(ctx, sys, ADDRXLAT_SYS_MAP_HW, ADDRXLAT_KPHYSADDR, a, &s2, &r2);
						printf(" q%" PRIx64 "=%d", a, s1);
						if (!s1) printf(":%" PRIx64, r1);
						printf("/%d", s2);
						if (!s2) printf(":%" PRIx64, r2);
					} else {
						xlat_via(ctx, sys, ADDRXLAT_SYS_MAP_KPHYS_DIRECT, ADDRXLAT_KVADDR, a, &s1, &r1);
						printf(" p%" PRIx64 "=%d", a, s1);
						if (!s1) {
							printf(":%" PRIx64, r1);
							xlat_via(ctx, sys, ADDRXLAT_SYS_MAP_KV_PHYS, ADDRXLAT_KPHYSADDR, r1, &s2, &r2);
							printf("/%d", s2);
							if (!s2) printf(":%" PRIx64, r2);
						}
					}
				}
				first += e + 1;
			}
		}
	}
	putchar('\n');
	addrxlat_sys_decref(sys);
	addrxlat_ctx_decref(ctx);
}

static void dump_sys(const addrxlat_sys_t *sys)
{
	unsigned i;
	for (i = 0; i < ADDRXLAT_SYS_MAP_NUM; ++i) {
		const addrxlat_map_t *map = sys->map[i];
		printf(" M%u=", i);
		if (!map)
			putchar('-');
		else {
			size_t j, n = addrxlat_map_len(map);
			const addrxlat_range_t *r = addrxlat_map_ranges(map);
			for (j = 0; j < n; ++j) {
				printf("%s%" PRIx64 ":", j ? "," : "", (uint64_t)r[j].endoff);
				pshx((long long)r[j].meth);
			}
		}
		putchar(';');
	}
	for (i = 0; i < ADDRXLAT_SYS_METH_NUM; ++i) {
		const addrxlat_meth_t *m = &sys->meth[i];
		unsigned j;
		switch (m->kind) {
		case ADDRXLAT_NOMETH:
			break;
		case ADDRXLAT_LINEAR:
			printf(" m%u=L:%d:", i, (int)m->target_as);
			pshx((long long)m->param.linear.off);
			break;
		case ADDRXLAT_PGT:
			printf(" m%u=P:%d:%" PRIx64 ":%" PRIx64 ":%s:", i, (int)m->param.pgt.root.as,
			       (uint64_t)m->param.pgt.root.addr, (uint64_t)m->param.pgt.pte_mask,
			       addrxlat_pte_format_name(m->param.pgt.pf.pte_format));
			for (j = 0; j < m->param.pgt.pf.nfields; ++j)
				printf("%s%x", j ? "," : "", (unsigned)m->param.pgt.pf.fieldsz[j]);
			printf(":%d", (int)m->target_as);
			break;
		case ADDRXLAT_MEMARR:
			printf(" m%u=A:%d:%" PRIx64 ":%x:%x:%x:%d", i, (int)m->param.memarr.base.as,
			       (uint64_t)m->param.memarr.base.addr, m->param.memarr.shift,
			       m->param.memarr.elemsz, m->param.memarr.valsz, (int)m->target_as);
			break;
		default:
			printf(" m%u=?%d", i, (int)m->kind);
		}
	}
}

static void do_ia32dm(char **tok, int n)
{
	addrxlat_ctx_t *ctx;
	addrxlat_cb_t *cb;
	addrxlat_sys_t *sys = addrxlat_sys_new();
	struct os_init_data ctl;
	addrxlat_map_t *newmap;
	addrxlat_range_t range;
	addrxlat_status st;
	static char c1[64], c2[64];
	char *ct[2] = { c1, c2 };

	nnames = 0; caps_mask = ADDRXLAT_CAPS(ADDRXLAT_KVADDR); byte_order = 1; ptewidth = 8; ncells = 0;
	if (n >= 1 && strcmp(tok[0], "-")) {
		/* VMALLOC_START is found through "vmlist": *(u32 *)vmlist -> vm_struct, ->addr */
		names[0].kind = 'S'; names[0].name = "vmlist"; names[0].err = 0; names[0].val = 0xc0001000;
		names[1].kind = 'O'; names[1].name = "vm_struct.addr"; names[1].err = 0; names[1].val = 4;
		nnames = 2;
		strcpy(c1, "2:c0001000=c0002000");
		snprintf(c2, sizeof c2, "2:c0002004=%s", tok[0]);
		parse_cells(ct, 2);
	}
	ctx = addrxlat_ctx_new();
	cb = addrxlat_ctx_add_cb(ctx);
	cb->priv = ctx; cb->get_page = get_page; cb->read_caps = read_caps;
	cb->sym_value = sym_cb; cb->reg_value = reg_cb; cb->num_value = num_cb;
	cb->sym_sizeof = sizeof_cb; cb->sym_offsetof = offsetof_cb;
	memset(&ctl, 0, sizeof ctl);
	ctl.sys = sys; ctl.ctx = ctx; ctl.os_type = OS_LINUX;
	st = sys_set_layout(&ctl, ADDRXLAT_SYS_MAP_KV_PHYS, linux_directmap);
	if (st == ADDRXLAT_OK) {
		range.meth = ADDRXLAT_SYS_METH_PGT;
		range.endoff = UINT32_MAX;
		newmap = internal_map_new();
		internal_map_set(newmap, 0, &range);
		st = set_linux_directmap(&ctl, newmap);
		if (st == ADDRXLAT_OK) {
			internal_map_decref(sys->map[ADDRXLAT_SYS_MAP_KV_PHYS]);
			sys->map[ADDRXLAT_SYS_MAP_KV_PHYS] = newmap;
		} else
			internal_map_decref(newmap);
	}
	printf("%d", (int)st);
	dump_sys(sys);
	putchar('\n');
	addrxlat_sys_decref(sys);
	addrxlat_ctx_decref(ctx);
}

static void do_lindm(char **tok, int n)
{
	addrxlat_ctx_t *ctx = addrxlat_ctx_new();
	addrxlat_sys_t *sys = addrxlat_sys_new();
	struct os_init_data ctl;
	addrxlat_status st;
	if (n < 3) { puts("BADCASE"); return; }
	memset(&ctl, 0, sizeof ctl);
	ctl.sys = sys; ctl.ctx = ctx;
	st = map_direct(&ctl, hx(tok[0]), hx(tok[1]), (addrxlat_off_t)sx(tok[2]));
	printf("%d", (int)st);
	dump_sys(sys);
	putchar('\n');
	addrxlat_sys_decref(sys);
	addrxlat_ctx_decref(ctx);
}

static void do_lay(char **tok, int n)
{
	addrxlat_ctx_t *ctx = addrxlat_ctx_new();
	addrxlat_sys_t *sys = addrxlat_sys_new();
	struct os_init_data ctl;
	int i;

	memset(&ctl, 0, sizeof ctl);
	ctl.sys = sys; ctl.ctx = ctx;
	for (i = 0; i < n; ++i) {
		addrxlat_status st;
		if (tok[i][0] == 'P') {
			st = sys_set_physmaps(&ctl, hx(tok[i] + 1));
		} else {
			struct sys_region layout[17];
			int nr = 0;
			char *c = strchr(tok[i], ':'), *save = NULL, *p;
			unsigned idx = (unsigned)hx(tok[i] + 1);
			if (!c) { printf("BADCASE"); break; }
			for (p = strtok_r(c + 1, ",", &save); p && nr < 16; p = strtok_r(NULL, ",", &save)) {
				char *f[4]; int k = 0; char *s2 = NULL, *q;
				for (q = strtok_r(p, "-", &s2); q && k < 4; q = strtok_r(NULL, "-", &s2))
					f[k++] = q;
				if (k != 4) continue;
				layout[nr].first = hx(f[0]); layout[nr].last = hx(f[1]);
				layout[nr].meth = (addrxlat_sys_meth_t)hx(f[2]);
				layout[nr].act = (enum sys_action)hx(f[3]);
				++nr;
			}
			layout[nr].first = layout[nr].last = 0;
			layout[nr].meth = ADDRXLAT_SYS_METH_NUM; layout[nr].act = SYS_ACT_NONE;
			st = sys_set_layout(&ctl, (addrxlat_sys_map_t)idx, layout);
		}
		printf("%s%d", i ? "," : "", (int)st);
	}
	dump_sys(sys);
	putchar('\n');
	addrxlat_sys_decref(sys);
	addrxlat_ctx_decref(ctx);
}

int main(int argc, char **argv)
{
	FILE *f = fopen(argv[1], "r");
	char *line;
	if (!f) { perror(argv[1]); return 2; }
	setvbuf(stdout, NULL, _IOLBF, 0);
	while ((line = verif_getline(f))) {
		static char *tok[MAXCELLS + 64]; char *save = NULL, *p;
		int n = 0;
		for (p = strtok_r(line, " ", &save); p && n < MAXCELLS + 64; p = strtok_r(NULL, " ", &save))
			tok[n++] = p;
		if (n >= 1 && !strcmp(tok[0], "lay"))
			do_lay(tok + 1, n - 1);
		else if (n >= 2 && !strcmp(tok[0], "scan"))
			do_scan(tok + 1, n - 1);
		else if (n >= 2 && !strcmp(tok[0], "os"))
			do_os(tok + 1, n - 1);
		else if (n >= 2 && !strcmp(tok[0], "ia32dm"))
			do_ia32dm(tok + 1, n - 1);
		else if (n >= 2 && !strcmp(tok[0], "lindm"))
			do_lindm(tok + 1, n - 1);
		else
			puts("BADCASE");
	}
	fclose(f);
	return 0;
}
