/* Shared helpers for the correspondence drivers (C side). */
#ifndef VERIF_COMMON_H
#define VERIF_COMMON_H
#include <stdio.h>
#include <stdlib.h>
#include <string.h>
#include <stdint.h>
#include <inttypes.h>

/* read one line of arbitrary length; returns NULL at EOF; strips '\n' */
static char *verif_getline(FILE *f)
{
	static char *buf; static size_t cap;
	ssize_t n = getline(&buf, &cap, f);
	if (n < 0) return NULL;
	while (n > 0 && (buf[n-1] == '\n' || buf[n-1] == '\r')) buf[--n] = 0;
	return buf;
}
static inline uint64_t hx(const char *s) { return strtoull(s, NULL, 16); }
/* signed hex: "-1" -> -1 */
static inline long long shx(const char *s)
{
	return (*s == '-') ? -(long long)strtoull(s + 1, NULL, 16) : (long long)strtoull(s, NULL, 16);
}
static inline void pshx(long long v)
{
	if (v < 0) printf("-%llx", (unsigned long long)-v); else printf("%llx", (unsigned long long)v);
}
#endif
