/* libFuzzer entry for engine "corrupt" (C03, thorough tier): every input is
 * offered as a dump file to the same sequence of public API calls as in
 * corrupt_drv.c (open, attributes, page maps, reads), in-process, under
 * ASan+UBSan; hangs are caught by libFuzzer's -timeout. */
#define _GNU_SOURCE
#define main corrupt_drv_main
#include "corrupt_drv.c"
#undef main
#include <sys/mman.h>

int LLVMFuzzerTestOneInput(const uint8_t *data, size_t size)
{
	static int devnull = -1;
	int fd;

	if (devnull < 0) {
		devnull = open("/dev/null", O_WRONLY);
		use_alarm = 0;
	}
	out_fd = devnull;
	fd = memfd_create("corrupt-fuzz", 0);
	if (fd < 0)
		return 0;
	if (size && write(fd, data, size) != (ssize_t)size) {
		close(fd);
		return 0;
	}
	n_attrs = n_attr_err = 0;
	memset(hist, 0, sizeof hist);
	/* the first byte's parity chooses the mmap policy, so that both paths are explored */
	child_main(1, &fd, size ? (data[size - 1] & 1) : 1, 6);
	close(fd);
	return 0;
}
