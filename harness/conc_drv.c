/* Engine "conc" (C05): 2..8 real threads on clones of one dump.
 *
 * Hooks used (guard LIBKDUMPFILE_VERIF): verif_lock_event (hooks/01),
 * verif_cache_refsum (hooks/02), verif_cache_event (hooks/03).  The driver is
 * white box only to learn addresses (shared->lock, shared->cache_lock, the
 * three caches); everything it does goes through the public API, except the
 * "stress" mode which drives read.c's cache_get_page/cache_put_page pair.
 *
 * One case per line:
 *
 *   R <file> <nthreads> <cachesize> <nreads> <seed> <flags> [hot=<page>,<page>,...]
 *       flags: 1 = touch lazily validated attributes before the threads start
 *              2 = threads also do page-map queries and attribute gets
 *              4 = clones share the translation (KDUMP_CLONE_XLAT)
 *              8 = threads also WRITE attributes with side effects (cache.size,
 *                  file.mmap_policy, arch.page_size re-set, file.zero_excluded = 0)
 *                  through kdump_set_attr, kdump_set_sub_attr and kdump_attr_ref_set
 *      32 = fill failures: the format handlers' file reads (fcache_pread / fcache_get_chunk,
 *           ld --wrap) fail at random in the reader threads; the threads read a small hot set of pages so
 *           that failing fills hit entries other threads are attached to
 *      16 = the main thread's open / clone / free calls are recorded, too
 *           (printed as an extra thread after the readers)
 *   C <file> <nthreads> <iterations>
 *       clone/free storm: threads clone (sharing the translation) and free concurrently;
 *       output: N=<n> iters=<k> xlatref=<refcnt of the translation object> expected=<live contexts>
 *   S <file> <nthreads> <iterations> <addr>
 *       stress: every thread repeats a cache hit + put of one page
 *
 * Output (one line):
 *   R: N=<n> cap=<c> | <events of thread 0> | ... | ok=.. busy=.. bad=.. err=.. refsum=<p>,<m>,<r>
 *        nolock=<count>[:<first>] badbusy=<count> joined=<count> writes=<n> injected=<n>
 *        postbusy=<n> persist=<n>   (after quiescence the main thread re-reads every page through
 *        the base context: postbusy = reads refused as BUSY although nothing is in flight,
 *        persist = pages whose bytes/status differ from the reference — wrong data that stays)
 *   S: N=<n> iters=<k> refsum=<p> expected=0
 *
 * Events (one token each, per thread, in program order):
 *   L<l> U<l>      mutex lock / unlock        l: 1 = cache_lock, 3.. = other mutexes
 *   r<l> w<l> u<l> rwlock read / write / unlock   l: 2 = shared->lock, others as numbered
 *   G<c>:<e>       cache_get_entry returned entry e (offset of the entry in the cache
 *                  object; suffix :j = the entry is in flight for another thread),
 *                  G<c>:-:<refsum> = busy (NULL) with the sum of references then
 *   I<c>:<e> D<c>:<e> P<c>:<e>   cache_insert / cache_discard / cache_put_entry
 *       c: 1 = page cache, 2 = file cache (mmap regions), 3 = file cache (read pages)
 *   a suffix '!' on a cache token = the calling thread did not hold cache_lock
 *   Xi Xd          xlat_incref / xlat_decref of the shared translation object (hooks/04);
 *                  suffix '!' = without shared->lock held for writing
 *   A<id> ... Z<id>  a public API call made by the thread (ids = Conc/ApiLock.v api_table):
 *       the lock events in between are checked against the lock class the entry point
 *       must use (read / write / write after read)
 */
#include "common.h"
#include <fcntl.h>
#include <unistd.h>
#include <pthread.h>
#include <sched.h>
#include <errno.h>
#include "kdumpfile-priv.h"

extern unsigned long verif_cache_refsum(struct cache *cache);

#define MAXT 16
#define MAXLOCKS 8
#define EVBUF (1 << 22)

struct tstate {
	int id;
	char *ev;		/* event text */
	size_t len, cap;
	const void *held[16];
	int nheld;
	unsigned nolock, joined, xlat_nolock;
	int wrheld;		/* holds shared->lock in write mode (exclusive section) */
	char first_nolock[32];
};

static __thread struct tstate *me;
static struct tstate main_ts;
static volatile int recording;

static const void *lock_ids[MAXLOCKS];	/* index = id; [1] cache_lock [2] shared lock */
static int nlock_ids = 3;
static pthread_mutex_t idlock = PTHREAD_MUTEX_INITIALIZER;
static struct cache *caches[4];		/* [1] page [2] mmap [3] read */
static struct kdump_shared *g_shared;	/* the page cache is re-allocated by cache.size writes */

static int lock_id(const void *l)
{
	int i;
	for (i = 1; i < nlock_ids; ++i)
		if (lock_ids[i] == l) return i;
	pthread_mutex_lock(&idlock);
	for (i = 1; i < nlock_ids; ++i)
		if (lock_ids[i] == l) break;
	if (i == nlock_ids && nlock_ids < MAXLOCKS)
		lock_ids[nlock_ids++] = l;
	pthread_mutex_unlock(&idlock);
	return i;
}

static void emit(struct tstate *t, const char *s)
{
	size_t n = strlen(s);
	if (t->len + n + 2 > t->cap) return;	/* full: drop (reported by length) */
	memcpy(t->ev + t->len, s, n);
	t->len += n;
	t->ev[t->len++] = ' ';
}

void verif_lock_event(int kind, const void *lock)
{
	struct tstate *t = me;
	char b[24];
	int i;
	if (!t || !recording) return;
	switch (kind) {
	case 0: case 2: case 3:
		if (t->nheld < 16) t->held[t->nheld++] = lock;
		break;
	default:
		for (i = t->nheld - 1; i >= 0; --i)
			if (t->held[i] == lock) {
				t->held[i] = t->held[--t->nheld];
				break;
			}
	}
	if (lock == lock_ids[2]) {
		if (kind == 3) t->wrheld = 1;
		else if (kind == 4) t->wrheld = 0;
	}
	snprintf(b, sizeof b, "%c%d", "LUrwu"[kind], lock_id(lock));
	emit(t, b);
}

/* hooks/04: the reference counter of the shared translation object (kdump_xlat.refcnt, with
 * the list of contexts that use it) changes: the caller must hold shared->lock for writing */
void verif_xlat_event(int kind, const void *xlat)
{
	struct tstate *t = me;
	(void)xlat;
	if (!t || !recording) return;
	if (!t->wrheld) {
		++t->xlat_nolock;
		emit(t, kind ? "Xd!" : "Xi!");
	} else
		emit(t, kind ? "Xd" : "Xi");
}

static int cache_id(struct cache *c)
{
	int i;
	if (g_shared && g_shared->cache == c) return 1;
	for (i = 1; i <= 3; ++i)
		if (caches[i] == c) return i;
	return 0;
}

void verif_cache_event(int fn, struct cache *cache, struct cache_entry *entry)
{
	struct tstate *t = me;
	char b[64];
	int i, haslock = 0, c;
	if (!t || !recording) return;
	/* inside a write section of shared->lock the thread is alone (C05_writers_exclusive):
	 * cache accesses of open / attribute hooks there need no cache_lock and are not traced */
	if (t->wrheld) return;
	c = cache_id(cache);
	for (i = 0; i < t->nheld; ++i)
		if (t->held[i] == lock_ids[1]) haslock = 1;
	if (!haslock && fn != 4) {
		if (!t->nolock++)
			snprintf(t->first_nolock, sizeof t->first_nolock, "%c%d", "GIDP"[fn], c);
	}
	if (fn == 0)
		return;			/* the result event (4) carries the token */
	if (fn == 4) {
		if (entry) {
			/* not valid but already referenced: another thread's in-flight entry */
			int joined = !cache_entry_valid(entry) && entry->refcnt > 0;
			if (joined) ++t->joined;
			snprintf(b, sizeof b, "G%d:%lx%s%s", c,
				 (unsigned long)((char *)entry - (char *)cache),
				 joined ? ":j" : "", haslock ? "" : "!");
		}
		else
			snprintf(b, sizeof b, "G%d:-:%lx%s", c,
				 haslock ? verif_cache_refsum(cache) : 0UL, haslock ? "" : "!");
	} else
		snprintf(b, sizeof b, "%c%d:%lx%s", " IDP"[fn], c,
			 (unsigned long)((char *)entry - (char *)cache), haslock ? "" : "!");
	emit(t, b);
}

/* fill-failure injection: the format handlers' file reads (fcache_pread, fcache_get_chunk;
 * ld --wrap of the internal symbols) fail at random in the reader threads, as a failing
 * pread(2)/mmap(2) would make them fail */
static __thread int inject_on;
static __thread unsigned inject_state, inject_count;
static int inject_now(void)
{
	if (!inject_on) return 0;
	inject_state = inject_state * 1103515245u + 12345u;
	if (((inject_state >> 16) % 6) != 0) return 0;
	++inject_count;
	return 1;
}
extern kdump_status __real__kdumpfile_priv_fcache_pread(struct fcache *fc, void *buf, size_t len,
						       unsigned fidx, off_t pos);
kdump_status __wrap__kdumpfile_priv_fcache_pread(struct fcache *fc, void *buf, size_t len,
						unsigned fidx, off_t pos)
{
	if (inject_now()) { errno = EIO; return KDUMP_ERR_SYSTEM; }
	return __real__kdumpfile_priv_fcache_pread(fc, buf, len, fidx, pos);
}
extern kdump_status __real__kdumpfile_priv_fcache_get_chunk(struct fcache *fc, struct fcache_chunk *fch,
							   size_t len, unsigned fidx, off_t pos);
kdump_status __wrap__kdumpfile_priv_fcache_get_chunk(struct fcache *fc, struct fcache_chunk *fch,
						    size_t len, unsigned fidx, off_t pos)
{
	if (inject_now()) { errno = EIO; return KDUMP_ERR_SYSTEM; }
	return __real__kdumpfile_priv_fcache_get_chunk(fc, fch, len, fidx, pos);
}

/* bracket a public API call in the calling thread's trace */
static void api_mark(char c, int id)
{
	char b[16];
	if (!me || !recording) return;
	snprintf(b, sizeof b, "%c%d", c, id);
	emit(me, b);
}
#define API(id, call) (api_mark('A', (id)), (call), api_mark('Z', (id)))
#define APIV(id, var, call) do { api_mark('A', (id)); (var) = (call); api_mark('Z', (id)); } while (0)

/* ------------------------------------------------------------------------ */

struct job {
	struct tstate ts;
	kdump_ctx_t *ctx;
	unsigned nreads, seed, flags;
	unsigned npages;
	unsigned char *ref;		/* npages * 4096 reference bytes */
	int *refst;			/* reference status per page */
	unsigned long ok, busy, bad, err, writes, injected;
	unsigned cap0;
	unsigned hot[8], nhot;
	char firstbad[96];
	pthread_barrier_t *bar;
	/* stress */
	unsigned long iters;
	kdump_addr_t addr;
};

static unsigned lcg(unsigned *s) { *s = *s * 1103515245u + 12345u; return (*s >> 8) & 0xffffff; }

static void *reader(void *arg)
{
	struct job *j = arg;
	unsigned s = j->seed * 7919u + j->ts.id * 104729u + 1;
	unsigned char buf[4096 + 64];
	unsigned i;

	me = &j->ts;
	if (j->flags & 32) { inject_on = 1; inject_state = s * 31u + 7; inject_count = 0; }
	pthread_barrier_wait(j->bar);
	for (i = 0; i < j->nreads; ++i) {
		unsigned pg = lcg(&s) % j->npages;
		unsigned kind = lcg(&s) % 8;
		size_t len = 4096, off = 0, got;
		unsigned inj0 = inject_count;
		kdump_status st;
		if ((j->flags & 32) && j->nhot) pg = j->hot[lcg(&s) % j->nhot];
		if ((j->flags & 8) && ((kind == 4 && (lcg(&s) % 3) == 0) || ((j->flags & 32) && kind == 3))) {
			/* attribute writes with side effects, through the three write entry points;
			 * with fill-failure injection only cache.size (re-allocates the page cache) */
			unsigned w = lcg(&s) % ((j->flags & 32) ? 3 : 6);
			kdump_attr_t a;
			kdump_attr_ref_t ref;
			kdump_status ws;
			a.type = KDUMP_NUMBER;
			switch (w) {
			case 0:
				a.val.number = j->cap0 + (lcg(&s) % 3);
				APIV(20, ws, kdump_set_attr(j->ctx, "cache.size", &a));
				break;
			case 1:
				APIV(4, ws, kdump_attr_ref(j->ctx, "cache", &ref));
				if (ws == KDUMP_OK) {
					a.val.number = j->cap0 + (lcg(&s) % 3);
					APIV(21, ws, kdump_set_sub_attr(j->ctx, &ref, "size", &a));
					kdump_attr_unref(j->ctx, &ref);
				}
				break;
			case 2:
				APIV(4, ws, kdump_attr_ref(j->ctx, "cache.size", &ref));
				if (ws == KDUMP_OK) {
					a.val.number = j->cap0 + (lcg(&s) % 3);
					APIV(22, ws, kdump_attr_ref_set(j->ctx, &ref, &a));
					kdump_attr_unref(j->ctx, &ref);
				}
				break;
			case 3:
				a.val.number = lcg(&s) % 3;	/* NEVER, ALWAYS, TRY */
				if (a.val.number == 1) a.val.number = 2;
				APIV(20, ws, kdump_set_attr(j->ctx, KDUMP_ATTR_FILE_MMAP_POLICY, &a));
				break;
			case 4:
				a.val.number = 4096;
				APIV(20, ws, kdump_set_attr(j->ctx, KDUMP_ATTR_PAGE_SIZE, &a));
				break;
			default:
				APIV(5, ws, kdump_attr_ref(j->ctx, "file", &ref));
				if (ws == KDUMP_OK) {
					a.val.number = 0;
					APIV(21, ws, kdump_set_sub_attr(j->ctx, &ref, "zero_excluded", &a));
					kdump_attr_unref(j->ctx, &ref);
				}
			}
			(void)ws;
			++j->writes;
			continue;
		}
		if ((j->flags & 2) && kind == 7) {
			kdump_attr_t a;
			kdump_status qs;
			a.type = KDUMP_BITMAP;
			APIV(3, qs, kdump_get_typed_attr(j->ctx, lcg(&s) & 1 ? KDUMP_ATTR_MEMORY_PAGEMAP
							 : KDUMP_ATTR_FILE_PAGEMAP, &a));
			if (qs == KDUMP_OK) {
				kdump_addr_t idx = pg;
				unsigned char bits[8];
				API(11, kdump_bmp_find_set(a.val.bitmap, &idx));
				API(10, kdump_bmp_get_bits(a.val.bitmap, pg, pg + 63, bits));
				idx = pg;
				API(12, kdump_bmp_find_clear(a.val.bitmap, &idx));
			}
			a.type = KDUMP_NUMBER;
			API(3, kdump_get_typed_attr(j->ctx, "max_pfn", &a));
			API(2, kdump_get_attr(j->ctx, "arch.name", &a));
			{
				kdump_attr_ref_t ref, sub;
				kdump_attr_iter_t it;
				char *raw = NULL;
				APIV(4, qs, kdump_attr_ref(j->ctx, "linux.uts", &ref));
				if (qs == KDUMP_OK) {
					APIV(5, qs, kdump_sub_attr_ref(j->ctx, &ref, "release", &sub));
					if (qs == KDUMP_OK) {
						API(6, kdump_attr_ref_get(j->ctx, &sub, &a));
						kdump_attr_unref(j->ctx, &sub);
					}
					APIV(8, qs, kdump_attr_ref_iter_start(j->ctx, &ref, &it));
					if (qs == KDUMP_OK) {
						if (it.key) API(9, kdump_attr_iter_next(j->ctx, &it));
						kdump_attr_iter_end(j->ctx, &it);
					}
					kdump_attr_unref(j->ctx, &ref);
				}
				APIV(7, qs, kdump_attr_iter_start(j->ctx, "arch", &it));
				if (qs == KDUMP_OK) kdump_attr_iter_end(j->ctx, &it);
				APIV(13, qs, kdump_vmcoreinfo_raw(j->ctx, &raw));
				if (qs == KDUMP_OK) free(raw);
			}
			continue;
		}
		if (kind == 5) { off = 4096 - 32; len = 64; }		/* crosses into the next page */
		if (kind == 6) { off = lcg(&s) % 4000; len = 8; }
		if (pg + 1 >= j->npages && kind == 5) { off = 0; len = 64; }
		got = len;
		APIV(0, st, kdump_read(j->ctx, KDUMP_MACHPHYSADDR, (kdump_addr_t)pg * 4096 + off, buf, &got));
		if (st == KDUMP_ERR_BUSY) { ++j->busy; continue; }
		/* expected: bytes up to the first page that failed in the reference run */
		{
			size_t want = 0, p = pg, o = off, left = len;
			int wst = KDUMP_OK;
			while (left) {
				size_t part = 4096 - o < left ? 4096 - o : left;
				if (j->refst[p] != KDUMP_OK) { wst = j->refst[p]; break; }
				want += part; left -= part; o = 0; ++p;
			}
			if (inject_count != inj0 && st == KDUMP_ERR_SYSTEM && got <= want &&
			    !memcmp(buf, j->ref + (size_t)pg * 4096 + off, got)) {
				++j->injected;		/* an injected I/O error, reported as such */
				continue;
			}
			if (st != wst || got != want ||
			    memcmp(buf, j->ref + (size_t)pg * 4096 + off, want)) {
				if (!j->bad++) {
					size_t d = 0;
					while (d < want && d < got &&
					       buf[d] == j->ref[(size_t)pg * 4096 + off + d]) ++d;
					snprintf(j->firstbad, sizeof j->firstbad,
						 "page=%x,off=%zx,len=%zx,status=%d/%d,got=%zx/%zx,firstdiff=%zx",
						 pg, off, len, (int)st, wst, got, want, d);
				}
			}
			else if (st == KDUMP_OK) ++j->ok;
			else ++j->err;
		}
	}
	inject_on = 0;
	me = NULL;
	return NULL;
}

static kdump_status never_read(struct page_io *pio) { (void)pio; return KDUMP_ERR_SYSTEM; }

static void *hammer(void *arg)
{
	struct job *j = arg;
	unsigned long i;
	pthread_barrier_wait(j->bar);
	for (i = 0; i < j->iters; ++i) {
		struct page_io pio;
		pio.ctx = j->ctx;
		pio.addr.addr = j->addr;
		pio.addr.as = ADDRXLAT_MACHPHYSADDR;
		if (cache_get_page(&pio, never_read) == KDUMP_OK)
			cache_put_page(&pio);
	}
	return NULL;
}

static kdump_ctx_t *open_file(const char *path, int *fd)
{
	kdump_ctx_t *ctx = kdump_new();
	*fd = open(path, O_RDONLY);
	if (!ctx || *fd < 0 || kdump_open_fd(ctx, *fd) != KDUMP_OK) {
		if (ctx) kdump_free(ctx);
		return NULL;
	}
	return ctx;
}

static void run_readers(char **f, int nf)
{
	static struct job jobs[MAXT];
	pthread_t th[MAXT];
	pthread_barrier_t bar;
	int nthreads = atoi(f[2]), cap = atoi(f[3]), fd, fd2, i;
	unsigned nreads = atoi(f[4]), seed = atoi(f[5]), flags = atoi(f[6]);
	kdump_ctx_t *base, *fresh, *clones[MAXT];
	kdump_num_t maxpfn = 0;
	unsigned npages;
	unsigned char *ref;
	int *refst;
	unsigned long ok = 0, busy = 0, bad = 0, err = 0, nolock = 0, badbusy = 0, joined = 0;
	const char *first = "";
	char firstbad[96] = "";

	if (nthreads < 1 || nthreads > MAXT) { printf("BADCASE\n"); return; }
	/* reference answers from a separate, fresh context */
	fresh = open_file(f[1], &fd2);
	if (!fresh) { printf("OPENFAIL\n"); return; }
	kdump_get_number_attr(fresh, "max_pfn", &maxpfn);
	npages = maxpfn > 256 ? 256 : (unsigned)maxpfn;
	if (!npages) npages = 1;
	ref = calloc(npages, 4096);
	refst = calloc(npages, sizeof *refst);
	for (i = 0; i < (int)npages; ++i) {
		size_t got = 4096;
		refst[i] = kdump_read(fresh, KDUMP_MACHPHYSADDR, (kdump_addr_t)i * 4096, ref + (size_t)i * 4096, &got);
	}
	kdump_free(fresh);
	close(fd2);

	/* the base context; with flag 16 the main thread's API calls are recorded as well */
	memset(&main_ts, 0, sizeof main_ts);
	main_ts.id = nthreads;
	main_ts.cap = 1 << 16;
	main_ts.ev = malloc(main_ts.cap);
	base = kdump_new();
	fd = open(f[1], O_RDONLY);
	if (!base || fd < 0) { printf("OPENFAIL\n"); return; }
	g_shared = base->shared;
	lock_ids[1] = &base->shared->cache_lock;
	lock_ids[2] = &base->shared->lock;
	nlock_ids = 3;
	caches[1] = caches[2] = caches[3] = NULL;
	if (flags & 16) { me = &main_ts; recording = 1; }
	{
		kdump_status os;
		const char *name = f[1];
		APIV(26, os, kdump_set_filenames(base, 1, &name));	/* names are informational */
		APIV(25, os, kdump_open_fd(base, fd));
		if (os != KDUMP_OK) { recording = 0; me = NULL; printf("OPENFAIL\n"); kdump_free(base); return; }
	}
	recording = 0;
	kdump_set_number_attr(base, "cache.size", cap);
	if (flags & 1) {
		kdump_attr_t a;
		kdump_num_t n;
		kdump_addr_t idx = 0;
		a.type = KDUMP_BITMAP;
		if (kdump_get_typed_attr(base, KDUMP_ATTR_MEMORY_PAGEMAP, &a) == KDUMP_OK)
			kdump_bmp_find_set(a.val.bitmap, &idx);
		if (kdump_get_typed_attr(base, KDUMP_ATTR_FILE_PAGEMAP, &a) == KDUMP_OK)
			kdump_bmp_find_set(a.val.bitmap, &idx);
		kdump_get_number_attr(base, "max_pfn", &n);
	}
	caches[2] = base->shared->fcache->cache;
	caches[3] = base->shared->fcache->fbcache;

	pthread_barrier_init(&bar, NULL, nthreads);
	for (i = 0; i < nthreads; ++i) {
		struct job *j = &jobs[i];
		memset(j, 0, sizeof *j);
		if (flags & 16) recording = 1;
		APIV(23, clones[i], kdump_clone(base, (flags & 4) ? KDUMP_CLONE_XLAT : 0));
		recording = 0;
		j->ctx = clones[i];
		j->cap0 = cap;
		j->ts.id = i;
		j->ts.cap = EVBUF;
		j->ts.ev = malloc(EVBUF);
		j->nreads = nreads; j->seed = seed; j->flags = flags;
		j->npages = npages; j->ref = ref; j->refst = refst; j->bar = &bar;
		if (nf == 8) {
			/* hot pages named by the case: hot=<p>,<p>,... (hex) */
			char hb[128], *q;
			snprintf(hb, sizeof hb, "%s", strncmp(f[7], "hot=", 4) ? "" : f[7] + 4);
			for (q = strtok(hb, ","); q && j->nhot < 8; q = strtok(NULL, ",")) {
				unsigned hp = (unsigned)strtoul(q, NULL, 16);
				if (hp < npages) j->hot[j->nhot++] = hp;
			}
		}
		if (!j->nhot) {
			unsigned p;
			for (p = 0; p < npages && j->nhot < (unsigned)nthreads + 2 && j->nhot < 8; ++p)
				if (refst[p] == KDUMP_OK) j->hot[j->nhot++] = p;
		}
	}
	me = NULL;
	recording = 1;
	for (i = 0; i < nthreads; ++i)
		pthread_create(&th[i], NULL, reader, &jobs[i]);
	for (i = 0; i < nthreads; ++i)
		pthread_join(th[i], NULL);
	recording = 0;

	{
		unsigned long rs1 = verif_cache_refsum(base->shared->cache),
			rs2 = verif_cache_refsum(base->shared->fcache->cache),
			rs3 = verif_cache_refsum(base->shared->fcache->fbcache), writes = 0,
			injected = 0, postbusy = 0, persist = 0, xlat_nolock = 0;
		/* after quiescence: nothing is in flight, so no read may be refused, and every page
		 * (cached or not) must still read as in the reference run */
		{
			unsigned p;
			unsigned char pb[4096];
			for (p = 0; p < npages; ++p) {
				size_t got = 4096;
				kdump_status ps = kdump_read(base, KDUMP_MACHPHYSADDR, (kdump_addr_t)p * 4096, pb, &got);
				if (ps == KDUMP_ERR_BUSY) ++postbusy;
				else if ((int)ps != refst[p] ||
					 (ps == KDUMP_OK && memcmp(pb, ref + (size_t)p * 4096, 4096))) {
					if (!persist++ && !firstbad[0])
						snprintf(firstbad, sizeof firstbad, "persistent:page=%x,status=%d/%d", p, (int)ps, refst[p]);
				}
			}
		}
		/* free everything (recorded with flag 16) before printing */
		if (flags & 16) { me = &main_ts; recording = 1; }
		for (i = 0; i < nthreads; ++i)
			API(24, kdump_free(clones[i]));
		API(24, kdump_free(base));
		recording = 0;
		me = NULL;
		g_shared = NULL;
		close(fd);

		printf("N=%d cap=%d", nthreads, cap);
		for (i = 0; i < nthreads; ++i) {
			struct job *j = &jobs[i];
			j->ts.ev[j->ts.len] = 0;
			printf(" | %s", j->ts.len ? j->ts.ev : "-");
			if (j->ts.len + 64 > j->ts.cap) printf("TRUNCATED");
			ok += j->ok; busy += j->busy; bad += j->bad; err += j->err; writes += j->writes; injected += j->injected;
			if (j->ts.nolock && !nolock) first = j->ts.first_nolock;
			joined += j->ts.joined;
			xlat_nolock += j->ts.xlat_nolock;
			if (j->bad && !firstbad[0]) snprintf(firstbad, sizeof firstbad, "%s", j->firstbad);
			nolock += j->ts.nolock;
			free(j->ts.ev);
		}
		main_ts.ev[main_ts.len] = 0;
		xlat_nolock += main_ts.xlat_nolock;
		printf(" | %s", main_ts.len ? main_ts.ev : "-");
		free(main_ts.ev);
		/* a read may only be refused when the cache is smaller than the number of threads */
		if (busy && cap >= nthreads) badbusy = busy;
		printf(" | ok=%lu busy=%lu bad=%lu%s%s err=%lu refsum=%lu,%lu,%lu nolock=%lu%s%s badbusy=%lu joined=%lu writes=%lu injected=%lu postbusy=%lu persist=%lu xlatnolock=%lu\n",
		       ok, busy, bad, (bad || persist) ? ":" : "", firstbad, err, rs1, rs2, rs3,
		       nolock, nolock ? ":" : "", first, badbusy, joined, writes, injected, postbusy, persist, xlat_nolock);
	}
	free(ref); free(refst);
	pthread_barrier_destroy(&bar);
}

/* clone/free storm: every thread repeatedly clones its context (flags 0: sharing the translation)
 * and frees the clone; at quiescence the translation object's reference counter must equal the
 * number of live contexts (1: the base) */
static void *cloner(void *arg)
{
	struct job *j = arg;
	unsigned long i;
	pthread_barrier_wait(j->bar);
	for (i = 0; i < j->iters; ++i) {
		kdump_ctx_t *c = kdump_clone(j->ctx, 0);	/* 0 = the clone shares the translation */
		if (c) kdump_free(c);
	}
	return NULL;
}

static void run_clonestorm(char **f)
{
	static struct job jobs[MAXT];
	pthread_t th[MAXT];
	pthread_barrier_t bar;
	int nthreads = atoi(f[2]), fd, i;
	unsigned long iters = strtoul(f[3], NULL, 0);
	kdump_ctx_t *base = open_file(f[1], &fd), *mine[MAXT];
	if (!base || nthreads < 1 || nthreads > MAXT) { printf("OPENFAIL\n"); return; }
	pthread_barrier_init(&bar, NULL, nthreads);
	for (i = 0; i < nthreads; ++i) {
		memset(&jobs[i], 0, sizeof jobs[i]);
		mine[i] = kdump_clone(base, 0);	/* each thread works on its own clone */
		jobs[i].ctx = mine[i];
		jobs[i].iters = iters;
		jobs[i].bar = &bar;
		pthread_create(&th[i], NULL, cloner, &jobs[i]);
	}
	for (i = 0; i < nthreads; ++i)
		pthread_join(th[i], NULL);
	printf("N=%d iters=%lu xlatref=%lu expected=%d\n", nthreads, iters,
	       (unsigned long)base->xlat->refcnt, 1 + nthreads);
	for (i = 0; i < nthreads; ++i)
		kdump_free(mine[i]);
	kdump_free(base);
	close(fd);
	pthread_barrier_destroy(&bar);
}

static void run_stress(char **f)
{
	static struct job jobs[MAXT];
	pthread_t th[MAXT];
	pthread_barrier_t bar;
	int nthreads = atoi(f[2]), fd, i;
	unsigned long iters = strtoul(f[3], NULL, 0);
	kdump_addr_t addr = hx(f[4]);
	kdump_ctx_t *base, *clones[MAXT];
	unsigned char buf[64];
	size_t got = sizeof buf;

	base = open_file(f[1], &fd);
	if (!base) { printf("OPENFAIL\n"); return; }
	if (kdump_read(base, KDUMP_MACHPHYSADDR, addr, buf, &got) != KDUMP_OK) {
		printf("WARMFAIL\n");
		kdump_free(base);
		return;
	}
	pthread_barrier_init(&bar, NULL, nthreads);
	for (i = 0; i < nthreads; ++i) {
		memset(&jobs[i], 0, sizeof jobs[i]);
		clones[i] = kdump_clone(base, 0);
		jobs[i].ctx = clones[i];
		jobs[i].iters = iters;
		jobs[i].addr = addr & ~(kdump_addr_t)4095;
		jobs[i].bar = &bar;
		pthread_create(&th[i], NULL, hammer, &jobs[i]);
	}
	for (i = 0; i < nthreads; ++i)
		pthread_join(th[i], NULL);
	printf("N=%d iters=%lu refsum=%lu expected=0\n", nthreads, iters,
	       verif_cache_refsum(base->shared->cache));
	for (i = 0; i < nthreads; ++i)
		kdump_free(clones[i]);
	kdump_free(base);
	close(fd);
}

int main(int argc, char **argv)
{
	FILE *in;
	char *line;
	setvbuf(stdout, NULL, _IOLBF, 0);
	if (argc < 2 || !(in = fopen(argv[1], "r"))) {
		fprintf(stderr, "usage: conc_drv <casefile>\n");
		return 2;
	}
	while ((line = verif_getline(in))) {
		char *f[10], *p;
		int nf = 0;
		line = strdup(line);
		for (p = strtok(line, " "); p && nf < 9; p = strtok(NULL, " "))
			f[nf++] = p;
		if ((nf == 7 || nf == 8) && !strcmp(f[0], "R"))
			run_readers(f, nf);
		else if (nf == 5 && !strcmp(f[0], "S"))
			run_stress(f);
		else if (nf == 4 && !strcmp(f[0], "C"))
			run_clonestorm(f);
		else
			printf("BADCASE\n");
		free(line);
	}
	fclose(in);
	return 0;
}
