/* End-to-end stage of C16 (engine "errmsg-api"): public-API calls on real dump files; after
 * EVERY call the driver reports the returned status, whether the context's error string is
 * non-empty, and (once kdump_get_addrxlat() has handed it out) whether the translation
 * context's error string is non-empty.
 *
 *   case line: <dump file> <op> <op> ...        (one kdump_ctx_t per line)
 *      o                 kdump_open_fdset(ctx, 1, &fd)
 *      a<key>            kdump_get_attr
 *      n<key>=<hex>      kdump_set_attr, number          u<key>=<hex>  address
 *      s<key>=<text>     kdump_set_attr, string          c<key>        clear (KDUMP_NIL)
 *      x                 kdump_get_addrxlat
 *      r<as>:<addr>:<len>   kdump_read                   t<as>:<addr>  kdump_read_string
 *      b<key>:<idx>      bitmap attribute: kdump_get_attr, then kdump_bmp_find_set,
 *                        kdump_bmp_find_clear, kdump_bmp_get_bits (error string of the bitmap)
 *      v                 kdump_vmcoreinfo_raw      l<key> kdump_vmcoreinfo_line
 *      y<sym>            kdump_vmcoreinfo_symbol
 *      i<dir>            kdump_attr_iter_start / _next ... / _end over a directory
 *   output per op: "<status>,<msg>,<xmsg>" (hex status; msg/xmsg 0|1, xmsg '-' before x);
 *   ops that make several calls join their triples with '/'.
 */
#include "common.h"
#include <fcntl.h>
#include <unistd.h>
#include <libkdumpfile/kdumpfile.h>
#include <libkdumpfile/addrxlat.h>

static kdump_ctx_t *ctx;
static addrxlat_ctx_t *ax;
static addrxlat_sys_t *axsys;

static void report(kdump_status st)
{
	const char *e = kdump_get_err(ctx);
	printf("%x,%d,", (unsigned)st, e && *e ? 1 : 0);
	if (ax) {
		const char *x = addrxlat_ctx_get_err(ax);
		printf("%d", x && *x ? 1 : 0);
	} else
		putchar('-');
}

static void report_bmp(kdump_status st, kdump_bmp_t *bmp)
{
	const char *e = kdump_bmp_get_err(bmp);
	printf("/%x,%d,-", (unsigned)st, e && *e ? 1 : 0);
}

int main(int argc, char **argv)
{
	FILE *f = fopen(argv[1], "r");
	char *line;
	if (!f) { perror(argv[1]); return 2; }
	setvbuf(stdout, NULL, _IOLBF, 0);
	while ((line = verif_getline(f))) {
		alarm(10);	/* a case takes milliseconds; a spinning library is killed by SIGALRM */
		char *save = NULL, *path, *tok;
		int fd, first = 1;
		path = strtok_r(line, " ", &save);
		if (!path) { putchar('\n'); continue; }
		fd = open(path, O_RDONLY);
		ctx = kdump_new();
		ax = NULL; axsys = NULL;
		if (fd < 0 || !ctx) { printf("SETUP-FAILED\n"); continue; }
		for (tok = strtok_r(NULL, " ", &save); tok; tok = strtok_r(NULL, " ", &save)) {
			char *arg = tok + 1, *eq;
			kdump_attr_t attr;
			kdump_status st;
			if (!first) putchar(' ');
			first = 0;
			switch (tok[0]) {
			case 'o':
				report(kdump_open_fdset(ctx, 1, &fd));
				break;
			case 'a':
				report(kdump_get_attr(ctx, arg, &attr));
				break;
			case 'n': case 'u': case 's':
				eq = strchr(arg, '=');
				if (!eq) { printf("?"); break; }
				*eq++ = 0;
				if (tok[0] == 'n') { attr.type = KDUMP_NUMBER; attr.val.number = hx(eq); }
				else if (tok[0] == 'u') { attr.type = KDUMP_ADDRESS; attr.val.address = hx(eq); }
				else { attr.type = KDUMP_STRING; attr.val.string = eq; }
				report(kdump_set_attr(ctx, arg, &attr));
				break;
			case 'c':
				attr.type = KDUMP_NIL;
				report(kdump_set_attr(ctx, arg, &attr));
				break;
			case 'x': {
				addrxlat_ctx_t *a2; addrxlat_sys_t *s2;
				st = kdump_get_addrxlat(ctx, &a2, &s2);
				if (st == KDUMP_OK) {
					if (ax) addrxlat_ctx_decref(ax);
					if (axsys) addrxlat_sys_decref(axsys);
					ax = a2; axsys = s2;
				}
				report(st);
				break;
			}
			case 'r': {
				unsigned as; unsigned long long addr, len;
				size_t sz; unsigned char *buf;
				if (sscanf(arg, "%x:%llx:%llx", &as, &addr, &len) != 3) { printf("?"); break; }
				sz = len; buf = malloc(sz ? sz : 1);
				report(kdump_read(ctx, (kdump_addrspace_t)as, addr, buf, &sz));
				free(buf);
				break;
			}
			case 't': {
				unsigned as; unsigned long long addr; char *str = NULL;
				if (sscanf(arg, "%x:%llx", &as, &addr) != 2) { printf("?"); break; }
				st = kdump_read_string(ctx, (kdump_addrspace_t)as, addr, &str);
				if (st == KDUMP_OK) free(str);
				report(st);
				break;
			}
			case 'b': {
				char *colon = strchr(arg, ':');
				kdump_addr_t idx = colon ? hx(colon + 1) : 0, i2;
				unsigned char raw[8];
				if (colon) *colon = 0;
				st = kdump_get_attr(ctx, arg, &attr);
				report(st);
				if (st == KDUMP_OK && attr.type == KDUMP_BITMAP) {
					kdump_bmp_t *bmp = attr.val.bitmap;
					i2 = idx; report_bmp(kdump_bmp_find_set(bmp, &i2), bmp);
					i2 = idx; report_bmp(kdump_bmp_find_clear(bmp, &i2), bmp);
					report_bmp(kdump_bmp_get_bits(bmp, idx, idx + 63, raw), bmp);
				}
				break;
			}
			case 'v': {
				char *raw = NULL;
				st = kdump_vmcoreinfo_raw(ctx, &raw);
				if (st == KDUMP_OK) free(raw);
				report(st);
				break;
			}
			case 'l': {
				char *val = NULL;
				st = kdump_vmcoreinfo_line(ctx, arg, &val);
				if (st == KDUMP_OK) free(val);
				report(st);
				break;
			}
			case 'y': {
				kdump_addr_t val;
				report(kdump_vmcoreinfo_symbol(ctx, arg, &val));
				break;
			}
			case 'i': {
				kdump_attr_iter_t it;
				int n = 0;
				st = kdump_attr_iter_start(ctx, arg, &it);
				report(st);
				if (st != KDUMP_OK) break;
				while (it.key && n++ < 64) {
					st = kdump_attr_iter_next(ctx, &it);
					putchar('/'); report(st);
					if (st != KDUMP_OK) break;
				}
				kdump_attr_iter_end(ctx, &it);
				break;
			}
			default:
				printf("?");
			}
		}
		putchar('\n');
		if (ax) addrxlat_ctx_decref(ax);
		if (axsys) addrxlat_sys_decref(axsys);
		kdump_free(ctx);
		close(fd);
	}
	fclose(f);
	return 0;
}
