/* White-box variant of fmt_drv.c for LKCD dumps (C01_lkcd_index_sound): after
 * every read and geometry request the real PFN index of lkcd.c is printed,
 *   |I:<last_offset>:<end_offset>:<max_pfn>:s<slot>[<idx3>@<filepos>,<offs>...;...]...
 * (slot = pfn >> 12, blocks in list order, offs[0..n-1]), to be compared with
 * the block list of the Coq model Fmt/LkcdIndexModel.v.
 */
#include "src/kdumpfile/lkcd.c"

static void dump_lkcd_index(kdump_ctx_t *ctx)
{
	struct lkcd_priv *lp;
	unsigned i1, i2, k;

	if (ctx->shared->ops != &lkcd_ops)
		return;
	lp = ctx->shared->fmtdata;
	printf("|I:%llx:%llx:%llx:", (unsigned long long)lp->last_offset,
	       (unsigned long long)lp->end_offset, (unsigned long long)lp->max_pfn);
	for (i1 = 0; i1 < lp->l1_size; ++i1) {
		struct pfn_block **l2 = lp->pfn_level1[i1];
		if (!l2)
			continue;
		for (i2 = 0; i2 < PFN_IDX2_SIZE; ++i2) {
			struct pfn_block *b = l2[i2];
			if (!b)
				continue;
			printf("s%x[", (i1 << PFN_IDX2_BITS) | i2);
			for (; b; b = b->next) {
				printf("%x@%llx", (unsigned)b->idx3, (unsigned long long)b->filepos);
				for (k = 0; k < b->n; ++k)
					printf(",%x", (unsigned)b->offs[k]);
				printf(";");
			}
			printf("]");
		}
	}
}

#define FMT_AFTER_REQUEST(ctx) dump_lkcd_index(ctx)
#include "fmt_body.h"
