/* Pure-libaddrxlat stage of C16 (engine "errmsg-ax"): histories of public calls on ONE
 * addrxlat_ctx_t / addrxlat_sys_t; after EVERY call the driver prints the returned status and the
 * context's error string.
 *
 *   case line: ops separated by blanks
 *      L<k>:<addr>  addrxlat_launch with method k      S  addrxlat_step (on the last launched state)
 *      W<k>:<addr>  addrxlat_walk with method k
 *         methods: 0 none  1 linear  2 x86-64 page tables rooted at MACHPHYS:2000  3 lookup
 *                  4 memory array with an unsupported value size  5 memory array (8-byte values)
 *                  6 custom, first step fails with a custom status  7 custom, next step fails
 *                  8 page tables without a root address
 *      O<as>:<addr>:<caps>:<f>  addrxlat_op, capability mask <caps>, the operation callback fails iff f=1
 *      F<as>:<addr>:<to>        addrxlat_fulladdr_conv
 *      I<n>         addrxlat_sys_os_init with option set n (0 none, 1 unknown arch, 2 x86_64 only,
 *                   3 x86_64 linux, 4 x86_64 linux 3.4 with root page table, 5 x86_64 xen, 6 s390x linux,
 *                   7 aarch64 linux without page size)
 *                   8..15 Linux on riscv64/39, riscv64/48, aarch64, x86_64, ia32, arm, ppc64, s390x with a
 *                   root page table at MACHPHYS:1000)
 *      P<addr>      addrxlat_walk with the system's own page-table method (ADDRXLAT_SYS_METH_PGT)
 *      N<hex>       what the num_value callback answers for PAGE_OFFSET from now on (0: not known)
 *      M<n>         setters: 0 KV->KPHYS linear map  1 identity KPHYS<->MACHPHYS maps  2 drop all maps
 *                   3 page-table method without root  4 page-table method rooted at MACHPHYS:2000
 *      G<n>         what the get_page callback does from now on: 0 serve synthetic pages,
 *                   1 fail with ADDRXLAT_ERR_NODATA and a message, 2 fail with a custom status, no message,
 *                   3 empty page tables, 4/5/6 tables whose even entries point to the table at 0x1000
 *                   (x86-64 / riscv64 / aarch64 encoding) and whose odd entries are not present
 *      E<status>    addrxlat_ctx_err(ctx, status, "direct message #n")      C  addrxlat_ctx_clear_err
 *   output per op: "<status>,<hex of addrxlat_ctx_get_err() or ->"  (void calls print status "v")
 */
#include "common.h"
#include <unistd.h>
#include <libkdumpfile/addrxlat.h>

static addrxlat_ctx_t *ctx;
static addrxlat_sys_t *sys;
static int gp_mode;
static unsigned long msgno;
static unsigned char pagebuf[4][0x1000] __attribute__((aligned(8)));
static addrxlat_addr_t page_offset;	/* answer of num_value("PAGE_OFFSET"); 0 = not known */
static int pageslot;

static addrxlat_status my_get_page(const addrxlat_cb_t *cb, addrxlat_buffer_t *buf)
{
	uint64_t base = buf->addr.addr & ~0xfffULL, i;
	unsigned char *p;
	if (gp_mode == 1)
		return addrxlat_ctx_err(ctx, ADDRXLAT_ERR_NODATA, "page callback message #%lu", ++msgno);
	if (gp_mode == 2)
		return (addrxlat_status)-5;
	p = pagebuf[pageslot++ & 3];
	if (gp_mode >= 3) {
		/* page-table pages: 3 all entries empty; 4/5/6 even entries point back to the page at
		 * 0x1000 as a next-level table (x86-64 / riscv64 / aarch64 encoding), odd entries empty */
		static const uint64_t ent[] = { 0, 0x1067, 0x401, 0x1003 };
		uint64_t *q = (uint64_t *)p;
		for (i = 0; i < 0x200; ++i)
			q[i] = (i & 1) ? 0 : ent[gp_mode - 3];
	} else
	for (i = 0; i < 0x1000; ++i)
		p[i] = (unsigned char)(((base + i) * 13 + 1) & 0xff);
	buf->addr.addr = base;
	buf->size = 0x1000;
	buf->ptr = p;
	buf->byte_order = ADDRXLAT_LITTLE_ENDIAN;
	return ADDRXLAT_OK;
}
static unsigned long my_read_caps(const addrxlat_cb_t *cb)
{
	return ADDRXLAT_CAPS(ADDRXLAT_MACHPHYSADDR);
}

static addrxlat_status my_num_value(const addrxlat_cb_t *cb, const char *name, addrxlat_addr_t *val)
{
	if (page_offset && !strcmp(name, "PAGE_OFFSET")) { *val = page_offset; return ADDRXLAT_OK; }
	return cb->next->num_value(cb->next, name, val);
}

static addrxlat_status cust_first_fail(addrxlat_step_t *step, addrxlat_addr_t addr)
{
	return addrxlat_ctx_err(step->ctx, (addrxlat_status)-7, "custom first step message #%lu", ++msgno);
}
static addrxlat_status cust_first_ok(addrxlat_step_t *step, addrxlat_addr_t addr)
{
	step->base.as = ADDRXLAT_KPHYSADDR; step->base.addr = 0;
	step->remain = 2; step->elemsz = 1; step->idx[0] = addr & 0xfff; step->idx[1] = addr >> 12;
	return ADDRXLAT_OK;
}
static addrxlat_status cust_next_fail(addrxlat_step_t *step)
{
	return addrxlat_ctx_err(step->ctx, ADDRXLAT_ERR_INVALID, "custom next step message #%lu", ++msgno);
}

static const addrxlat_lookup_elem_t lookup_tbl[] = { { 0x1000, 0x5000 }, { 0x3000, 0x9000 } };

static void make_meth(addrxlat_meth_t *m, int k)
{
	static const addrxlat_paging_form_t pf = {
		.pte_format = ADDRXLAT_PTE_X86_64, .nfields = 5, .fieldsz = { 12, 9, 9, 9, 9 } };
	memset(m, 0, sizeof *m);
	m->target_as = ADDRXLAT_KPHYSADDR;
	switch (k) {
	default: m->kind = ADDRXLAT_NOMETH; break;
	case 1: m->kind = ADDRXLAT_LINEAR; m->param.linear.off = 0x1000; break;
	case 2: case 8:
		m->kind = ADDRXLAT_PGT; m->target_as = ADDRXLAT_MACHPHYSADDR;
		m->param.pgt.root.as = k == 2 ? ADDRXLAT_MACHPHYSADDR : ADDRXLAT_NOADDR;
		m->param.pgt.root.addr = 0x2000; m->param.pgt.pte_mask = 0; m->param.pgt.pf = pf;
		break;
	case 3: m->kind = ADDRXLAT_LOOKUP; m->param.lookup.endoff = 0xfff;
		m->param.lookup.nelem = 2; m->param.lookup.tbl = lookup_tbl; break;
	case 4: case 5:
		m->kind = ADDRXLAT_MEMARR; m->target_as = ADDRXLAT_MACHPHYSADDR;
		m->param.memarr.base.as = ADDRXLAT_MACHPHYSADDR; m->param.memarr.base.addr = 0;
		m->param.memarr.shift = 12; m->param.memarr.elemsz = 8;
		m->param.memarr.valsz = k == 4 ? 3 : 8; break;
	case 6: m->kind = ADDRXLAT_CUSTOM; m->param.custom.first_step = cust_first_fail;
		m->param.custom.next_step = cust_next_fail; break;
	case 7: m->kind = ADDRXLAT_CUSTOM; m->param.custom.first_step = cust_first_ok;
		m->param.custom.next_step = cust_next_fail; break;
	}
}

static addrxlat_status op_cb(void *data, const addrxlat_fulladdr_t *addr)
{
	if (*(int *)data)
		return addrxlat_ctx_err(ctx, ADDRXLAT_ERR_INVALID, "operation callback message #%lu", ++msgno);
	return ADDRXLAT_OK;
}

static void report(long long st, int isvoid)
{
	const char *e = addrxlat_ctx_get_err(ctx);
	if (isvoid) putchar('v'); else pshx(st);
	putchar(',');
	if (!e || !*e) putchar('-');
	else for (; *e; ++e) printf("%02x", (unsigned char)*e);
}

static void set_maps(int n)
{
	addrxlat_meth_t m;
	addrxlat_range_t r;
	addrxlat_map_t *map;
	switch (n) {
	case 0:
		make_meth(&m, 1);
		addrxlat_sys_set_meth(sys, ADDRXLAT_SYS_METH_DIRECT, &m);
		map = addrxlat_map_new();
		r.endoff = ADDRXLAT_ADDR_MAX; r.meth = ADDRXLAT_SYS_METH_DIRECT;
		if (map && addrxlat_map_set(map, 0, &r) == ADDRXLAT_OK)
			addrxlat_sys_set_map(sys, ADDRXLAT_SYS_MAP_KV_PHYS, map);
		if (map) addrxlat_map_decref(map);	/* the system holds its own reference */
		break;
	case 1: {
		int idx[2] = { ADDRXLAT_SYS_MAP_KPHYS_MACHPHYS, ADDRXLAT_SYS_MAP_MACHPHYS_KPHYS };
		int mi[2] = { ADDRXLAT_SYS_METH_KPHYS_MACHPHYS, ADDRXLAT_SYS_METH_MACHPHYS_KPHYS };
		int i;
		for (i = 0; i < 2; ++i) {
			memset(&m, 0, sizeof m);
			m.kind = ADDRXLAT_LINEAR; m.param.linear.off = 0;
			m.target_as = i ? ADDRXLAT_KPHYSADDR : ADDRXLAT_MACHPHYSADDR;
			addrxlat_sys_set_meth(sys, mi[i], &m);
			map = addrxlat_map_new();
			r.endoff = ADDRXLAT_ADDR_MAX; r.meth = mi[i];
			if (map && addrxlat_map_set(map, 0, &r) == ADDRXLAT_OK)
				addrxlat_sys_set_map(sys, idx[i], map);
			if (map) addrxlat_map_decref(map);
		}
		break;
	}
	case 2: {
		int i;
		for (i = 0; i < ADDRXLAT_SYS_MAP_NUM; ++i)
			addrxlat_sys_set_map(sys, i, NULL);
		break;
	}
	case 3: make_meth(&m, 8); addrxlat_sys_set_meth(sys, ADDRXLAT_SYS_METH_PGT, &m); break;
	case 4: make_meth(&m, 2); addrxlat_sys_set_meth(sys, ADDRXLAT_SYS_METH_PGT, &m); break;
	}
}

static addrxlat_status os_init(int n)
{
	addrxlat_opt_t o[6];
	addrxlat_fulladdr_t root = { 0x2000, ADDRXLAT_MACHPHYSADDR };
	unsigned c = 0;
	switch (n) {
	case 1: addrxlat_opt_arch(&o[c++], "verif-unknown"); break;
	case 2: addrxlat_opt_arch(&o[c++], "x86_64"); break;
	case 3: addrxlat_opt_arch(&o[c++], "x86_64"); addrxlat_opt_os_type(&o[c++], "linux"); break;
	case 4: addrxlat_opt_arch(&o[c++], "x86_64"); addrxlat_opt_os_type(&o[c++], "linux");
		addrxlat_opt_version_code(&o[c++], ADDRXLAT_VER_LINUX(3, 4, 0));
		addrxlat_opt_rootpgt(&o[c++], &root); break;
	case 5: addrxlat_opt_arch(&o[c++], "x86_64"); addrxlat_opt_os_type(&o[c++], "xen"); break;
	case 6: addrxlat_opt_arch(&o[c++], "s390x"); addrxlat_opt_os_type(&o[c++], "linux"); break;
	case 7: addrxlat_opt_arch(&o[c++], "aarch64"); addrxlat_opt_os_type(&o[c++], "linux"); break;
	/* 8..15: Linux on <arch> with a root page table at MACHPHYS:1000 (what the page source's
	 * self-referencing tables point to), page size 4K and the architecture's usual virt_bits */
	case 8: case 9: case 10: case 11: case 12: case 13: case 14: case 15: {
		static const char *const arch[] = { "riscv64", "riscv64", "aarch64", "x86_64", "ia32", "arm",
						    "ppc64", "s390x" };
		static const unsigned vbits[] = { 39, 48, 39, 48, 32, 32, 0, 0 };
		static addrxlat_fulladdr_t r2 = { 0x1000, ADDRXLAT_MACHPHYSADDR };
		addrxlat_opt_arch(&o[c++], arch[n - 8]); addrxlat_opt_os_type(&o[c++], "linux");
		if (vbits[n - 8]) addrxlat_opt_virt_bits(&o[c++], vbits[n - 8]);
		addrxlat_opt_page_shift(&o[c++], 12);
		addrxlat_opt_rootpgt(&o[c++], &r2);
		break;
	}
	}
	return addrxlat_sys_os_init(sys, ctx, c, o);
}

int main(int argc, char **argv)
{
	FILE *f = fopen(argv[1], "r");
	char *line;
	if (!f) { perror(argv[1]); return 2; }
	setvbuf(stdout, NULL, _IOLBF, 0);
	while ((line = verif_getline(f))) {
		alarm(5);	/* a case takes milliseconds; a spinning library is killed by SIGALRM */
		char *save = NULL, *tok;
		addrxlat_cb_t *cb;
		addrxlat_meth_t meth;
		addrxlat_step_t step;
		int first = 1, launched = 0;
		ctx = addrxlat_ctx_new();
		sys = addrxlat_sys_new();
		if (!ctx || !sys) { printf("SETUP-FAILED\n"); continue; }
		cb = addrxlat_ctx_add_cb(ctx);
		cb->get_page = my_get_page;
		cb->read_caps = my_read_caps;
		cb->num_value = my_num_value;
		gp_mode = 0; msgno = 0; page_offset = 0;
		memset(&step, 0, sizeof step);
		for (tok = strtok_r(line, " ", &save); tok; tok = strtok_r(NULL, " ", &save)) {
			unsigned a = 0, b = 0, c2 = 0; unsigned long long addr = 0;
			if (!first) putchar(' ');
			first = 0;
			switch (tok[0]) {
			case 'L': case 'W':
				if (sscanf(tok + 1, "%u:%llx", &a, &addr) != 2) { printf("?"); break; }
				make_meth(&meth, (int)a);
				memset(&step, 0, sizeof step);
				step.ctx = ctx; step.sys = sys; step.meth = &meth;
				if (tok[0] == 'L') { report(addrxlat_launch(&step, addr), 0); launched = 1; }
				else { step.base.addr = addr; report(addrxlat_walk(&step), 0); launched = 0; }
				break;
			case 'S':
				if (!launched) { make_meth(&meth, 1); step.ctx = ctx; step.sys = sys;
						 step.meth = &meth; addrxlat_launch(&step, 0x1234); launched = 1; }
				report(addrxlat_step(&step), 0);
				break;
			case 'O': {
				addrxlat_op_ctl_t ctl; addrxlat_fulladdr_t fa; int fail;
				if (sscanf(tok + 1, "%x:%llx:%x:%x", &a, &addr, &b, &c2) != 4) { printf("?"); break; }
				fail = (int)c2; fa.as = (addrxlat_addrspace_t)a; fa.addr = addr;
				ctl.ctx = ctx; ctl.sys = sys; ctl.op = op_cb; ctl.data = &fail; ctl.caps = b;
				report(addrxlat_op(&ctl, &fa), 0);
				break;
			}
			case 'F': {
				addrxlat_fulladdr_t fa;
				if (sscanf(tok + 1, "%x:%llx:%x", &a, &addr, &b) != 3) { printf("?"); break; }
				fa.as = (addrxlat_addrspace_t)a; fa.addr = addr;
				report(addrxlat_fulladdr_conv(&fa, (addrxlat_addrspace_t)b, ctx, sys), 0);
				break;
			}
			case 'I': report(os_init(atoi(tok + 1)), 0); launched = 0; break;
			case 'P':
				/* walk with the translation system's own page-table method */
				addr = strtoull(tok + 1, NULL, 16);
				memset(&step, 0, sizeof step);
				step.ctx = ctx; step.sys = sys;
				step.meth = addrxlat_sys_get_meth(sys, ADDRXLAT_SYS_METH_PGT);
				step.base.addr = addr;
				report(addrxlat_walk(&step), 0); launched = 0;
				break;
			case 'N': page_offset = strtoull(tok + 1, NULL, 16); report(0, 1); break;
			case 'M': set_maps(atoi(tok + 1)); report(0, 1); break;
			case 'G': gp_mode = atoi(tok + 1); report(0, 1); break;
			case 'E': {
				long long st = shx(tok + 1);
				report(addrxlat_ctx_err(ctx, (addrxlat_status)st, "direct message #%lu", ++msgno), 0);
				break;
			}
			case 'C': addrxlat_ctx_clear_err(ctx); report(0, 1); break;
			default: printf("?");
			}
		}
		putchar('\n');
		addrxlat_sys_decref(sys);
		addrxlat_ctx_decref(ctx);
	}
	fclose(f);
	return 0;
}
