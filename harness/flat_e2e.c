/* Correspondence driver, engine "flat-e2e" (C11): public API only.
 *
 * One case per line:
 *   <mmap-policy> <npfn> <pagesize> <file> [<file> ...] | <addr>:<len> ...
 * The files are opened as one set with kdump_open_fdset() in the order given.
 * Output (one line): the open status, every attribute of the tree (type and
 * value; bitmaps as raw bits over [0, npfn+64] plus find_set / find_clear from
 * a set of start indices; blobs by length and hash), every page frame
 * 0..npfn read through kdump_read(KDUMP_MACHPHYSADDR) (status, length, hash)
 * and the extra reads of the case.  The orchestrator compares these lines
 * between a plain dump and its re-packaged twins.
 */
#include "common.h"
#include <unistd.h>
#include <fcntl.h>
#include <libkdumpfile/kdumpfile.h>

static unsigned long long fnv(const unsigned char *p, size_t n)
{
	unsigned long long h = 1469598103934665603ULL;
	while (n--) {
		h ^= *p++;
		h *= 1099511628211ULL;
	}
	return h;
}

static unsigned long long npfn;

static void show_bitmap(kdump_bmp_t *bmp, const char *tag)
{
	size_t nbytes = (npfn + 64) / 8 + 1;
	unsigned char *raw = calloc(1, nbytes);
	kdump_status st;
	unsigned long long i;

	st = kdump_bmp_get_bits(bmp, 0, nbytes * 8 - 1, raw);
	printf("bits%d:", (int)st);
	if (st == KDUMP_OK)
		for (i = 0; i < nbytes; ++i)
			printf("%02x", raw[i]);
	/* sub-ranges that do not start at a byte or file boundary */
	for (i = 1; i + 9 < npfn + 64; i += 7) {
		memset(raw, 0, nbytes);
		st = kdump_bmp_get_bits(bmp, i, i + 9, raw);
		printf(";%s.get(%llx..%llx)=%d:%02x%02x", tag, i, i + 9, (int)st, raw[0], raw[1]);
	}
	for (i = 0; i <= npfn + 2; ++i) {
		kdump_addr_t idx = i;
		st = kdump_bmp_find_set(bmp, &idx);
		printf(";%s.find_set(%llx)=%d:%llx", tag, i, (int)st, st == KDUMP_OK ? (unsigned long long)idx : 0ULL);
		idx = i;
		st = kdump_bmp_find_clear(bmp, &idx);
		printf(";%s.find_clear(%llx)=%d:%llx", tag, i, (int)st, st == KDUMP_OK ? (unsigned long long)idx : 0ULL);
	}
	free(raw);
}

static void show_attrs(kdump_ctx_t *ctx, kdump_attr_ref_t *dir, const char *path)
{
	kdump_attr_iter_t it;
	kdump_status st;

	st = kdump_attr_ref_iter_start(ctx, dir, &it);
	if (st != KDUMP_OK) {
		printf(";A %s=itererr%d", path, (int)st);
		return;
	}
	while (it.key) {
		char sub[512];
		kdump_attr_t attr;

		snprintf(sub, sizeof sub, "%s%s%s", path, *path ? "." : "", it.key);
		if (!kdump_attr_ref_isset(&it.pos)) {
			printf(";A %s=unset", sub);
		} else if ((st = kdump_attr_ref_get(ctx, &it.pos, &attr)) != KDUMP_OK) {
			printf(";A %s=err%d", sub, (int)st);
		} else {
			switch (attr.type) {
			case KDUMP_DIRECTORY:
				show_attrs(ctx, &it.pos, sub);
				break;
			case KDUMP_NUMBER:
				printf(";A %s=n:%llx", sub, (unsigned long long)attr.val.number);
				break;
			case KDUMP_ADDRESS:
				printf(";A %s=a:%llx", sub, (unsigned long long)attr.val.address);
				break;
			case KDUMP_STRING: {
				const char *s;
				printf(";A %s=s:", sub);
				for (s = attr.val.string; *s; ++s)
					if (*s == ';' || *s == '\n' || *s == '\r' || *s == '%')
						printf("%%%02x", (unsigned char)*s);
					else
						putchar(*s);
				break;
			}
			case KDUMP_BITMAP:
			{
				char tag[540];
				snprintf(tag, sizeof tag, "M %s", sub);
				printf(";A %s=b:", sub);
				show_bitmap(attr.val.bitmap, tag);
			}
				break;
			case KDUMP_BLOB: {
				size_t sz = kdump_blob_size(attr.val.blob);
				unsigned char *d = kdump_blob_pin(attr.val.blob);
				printf(";A %s=B:%zx:%llx", sub, sz, fnv(d, sz));
				kdump_blob_unpin(attr.val.blob);
				break;
			}
			default:
				printf(";A %s=type%d", sub, (int)attr.type);
			}
		}
		st = kdump_attr_iter_next(ctx, &it);
		if (st != KDUMP_OK) {
			printf(";A %s=nexterr%d", path, (int)st);
			break;
		}
	}
	kdump_attr_iter_end(ctx, &it);
}

static void do_case(char *line)
{
	char *bar = strchr(line, '|');
	char *save = NULL, *tok;
	int fds[16];
	unsigned nfds = 0, i;
	unsigned long long policy, pagesize;
	kdump_ctx_t *ctx;
	kdump_status st;
	unsigned char *buf;

	if (bar)
		*bar++ = 0;
	tok = strtok_r(line, " ", &save);
	policy = tok ? hx(tok) : 0;
	tok = strtok_r(NULL, " ", &save);
	npfn = tok ? hx(tok) : 0;
	tok = strtok_r(NULL, " ", &save);
	pagesize = tok ? hx(tok) : 4096;
	while ((tok = strtok_r(NULL, " ", &save)) && nfds < 16) {
		fds[nfds] = open(tok, O_RDONLY);
		if (fds[nfds] < 0) {
			printf("BAD-FILE %s\n", tok);
			return;
		}
		++nfds;
	}
	ctx = kdump_new();
	if (!ctx) {
		printf("BAD-SETUP\n");
		return;
	}
	{
		kdump_attr_t a;
		a.type = KDUMP_NUMBER;
		a.val.number = policy;
		kdump_set_attr(ctx, "file.mmap_policy", &a);
	}
	st = kdump_open_fdset(ctx, nfds, fds);
	printf("open=%d", (int)st);
	if (st == KDUMP_OK) {
		kdump_attr_ref_t root;
		unsigned long long pfn;

		if (kdump_attr_ref(ctx, NULL, &root) == KDUMP_OK) {
			show_attrs(ctx, &root, "");
			kdump_attr_unref(ctx, &root);
		}
		buf = malloc(pagesize * 3 + 16);
		for (pfn = 0; pfn <= npfn; ++pfn) {
			size_t len = pagesize;
			st = kdump_read(ctx, KDUMP_MACHPHYSADDR, pfn * pagesize, buf, &len);
			printf(";R%llx=%d:%zx:%llx", pfn, (int)st, len, fnv(buf, len));
		}
		if (bar)
			for (tok = strtok_r(bar, " ", &save); tok; tok = strtok_r(NULL, " ", &save)) {
				char *c = strchr(tok, ':');
				unsigned long long addr = hx(tok);
				size_t len = c ? hx(c + 1) : 1, want;
				if (len > pagesize * 3)
					len = pagesize * 3;
				want = len;
				st = kdump_read(ctx, KDUMP_MACHPHYSADDR, addr, buf, &len);
				printf(";X%llx:%zx=%d:%zx:%llx", addr, want, (int)st, len, fnv(buf, len));
			}
		free(buf);
		/* the attribute tree again: lazily computed values must not have changed */
		if (kdump_attr_ref(ctx, "file.pagemap", &root) == KDUMP_OK) {
			kdump_attr_t attr;
			if (kdump_attr_ref_isset(&root) &&
			    kdump_attr_ref_get(ctx, &root, &attr) == KDUMP_OK) {
				if (attr.type == KDUMP_BITMAP) {
					printf(";A2 file.pagemap=b:");
					show_bitmap(attr.val.bitmap, "M2 file.pagemap");
				}
			}
			kdump_attr_unref(ctx, &root);
		}
	}
	putchar('\n');
	kdump_free(ctx);
	for (i = 0; i < nfds; ++i)
		close(fds[i]);
}

int main(int argc, char **argv)
{
	FILE *f = fopen(argv[1], "r");
	char *line;
	if (!f) { perror(argv[1]); return 2; }
	setvbuf(stdout, NULL, _IOLBF, 0);
	while ((line = verif_getline(f)))
		do_case(line);
	fclose(f);
	return 0;
}
