/* Correspondence driver for engine "attr" (C13).
 *
 * Every history runs on a fresh context prepared by setup() through the public
 * API.  The private header is used only by "--tree" to print the initial
 * dictionary (including attributes without a value, which the API cannot list).
 *
 * usage: attr_drv --tree            print "TREE ..." for the setup context
 *        attr_drv --fresh <file>    print the set attributes of a new context that opened <file>
 *        attr_drv [--files f0,f1,...] <casefile>
 * Case format and canonical output: see ml/eng_attr.ml.
 */
#define _GNU_SOURCE
#include "common.h"
#include <unistd.h>
#include <fcntl.h>
#include <signal.h>
#include <sys/wait.h>
#include "kdumpfile-priv.h"

#define MAXCTX 16
#define MAXSLOT 32
#define MAXBLOB 64

static kdump_blob_t *blobs[MAXBLOB];
static const char *files[8];
static int nfiles;

static unsigned char *unhex(const char *s, size_t *plen)
{
	size_t n, i;
	unsigned char *b;
	if (!strcmp(s, "-")) { *plen = 0; return calloc(1, 1); }
	n = strlen(s) / 2;
	b = malloc(n + 1);
	for (i = 0; i < n; ++i) {
		unsigned v;
		sscanf(s + 2 * i, "%2x", &v);
		b[i] = v;
	}
	b[n] = 0;
	*plen = n;
	return b;
}

static void phex(const void *p, size_t n)
{
	const unsigned char *b = p;
	size_t i;
	if (!n) { putchar('-'); return; }
	for (i = 0; i < n; ++i) printf("%02x", b[i]);
}

static char tychar(kdump_attr_type_t t)
{
	switch (t) {
	case KDUMP_NIL: return 'N';
	case KDUMP_DIRECTORY: return 'd';
	case KDUMP_NUMBER: return 'n';
	case KDUMP_ADDRESS: return 'a';
	case KDUMP_STRING: return 's';
	case KDUMP_BITMAP: return 'm';
	case KDUMP_BLOB: return 'b';
	}
	return '?';
}

static kdump_blob_t *get_blob(unsigned id)
{
	if (id >= MAXBLOB) id = MAXBLOB - 1;
	if (!blobs[id]) {
		char buf[32];
		int n = snprintf(buf, sizeof buf, "blob-%u", id);
		blobs[id] = kdump_blob_new_dup(buf, n);
	}
	return blobs[id];
}

static void pval(const kdump_attr_t *a)
{
	unsigned i;
	switch (a->type) {
	case KDUMP_NUMBER: printf("%llx", (unsigned long long) a->val.number); break;
	case KDUMP_ADDRESS: printf("%llx", (unsigned long long) a->val.address); break;
	case KDUMP_STRING: phex(a->val.string, strlen(a->val.string)); break;
	case KDUMP_BLOB:
		for (i = 0; i < MAXBLOB; ++i)
			if (blobs[i] == a->val.blob) { printf("%x", i); return; }
		printf("?");
		break;
	case KDUMP_BITMAP: printf("?"); break;
	default: putchar('-');
	}
}

/* "<st>:<ty>:<val>" */
static void pget(kdump_status st, const kdump_attr_t *a)
{
	if (st != KDUMP_OK) { printf("%d:N:-", (int) st); return; }
	printf("0:%c:", tychar(a->type));
	pval(a);
}

static int mkattr(kdump_attr_t *a, const char *ty, const char *val, unsigned char **tofree)
{
	size_t n;
	*tofree = NULL;
	switch (*ty) {
	case 'N': a->type = KDUMP_NIL; break;
	case 'd': a->type = KDUMP_DIRECTORY; break;
	case 'n': a->type = KDUMP_NUMBER; a->val.number = hx(val); break;
	case 'a': a->type = KDUMP_ADDRESS; a->val.address = hx(val); break;
	case 's': a->type = KDUMP_STRING; *tofree = unhex(val, &n); a->val.string = (char *) *tofree; break;
	case 'b': a->type = KDUMP_BLOB; a->val.blob = get_blob(hx(val));
		kdump_blob_incref(a->val.blob);	/* the attribute steals one reference */
		break;
	case 'm': a->type = KDUMP_BITMAP; a->val.bitmap = NULL; break;
	default: return -1;
	}
	return 0;
}

/* the reference stolen by a set that did not store the blob must be dropped by nobody:
   check_set_attr fails before set_attr for a type mismatch (nothing stolen) */
static void after_set(kdump_status st, const kdump_attr_t *a)
{
	if (a->type == KDUMP_BLOB && st != KDUMP_OK)
		kdump_blob_decref(a->val.blob);
}

static char *keystr(const char *hexkey, unsigned char **tofree)
{
	size_t n;
	*tofree = NULL;
	if (!strcmp(hexkey, "@")) return NULL;
	*tofree = unhex(hexkey, &n);
	return (char *) *tofree;
}

static const char VMCI[] = "NUMBER(x)=1\nSYMBOL(s.t)=ff\nLENGTH(l)=3\nKEY=value\n";

/* variant "P": a prepared context; "F": a new context, nothing set (addrxlat has no
 * value although addrxlat.default / addrxlat.force have one); "B<n>": a new context
 * whose VMCOREINFO has the n lines K0=v0 ... K<n-1>=v<n-1> (thousands of sibling
 * attributes with prefix-related keys, sharing the 1024 hash buckets) */
/* "Y<n>": a chain of three dictionaries: c1 = clone(ctx, XLAT), c2 = clone(c1, XLAT); the n
 * VMCOREINFO lines and file.set.0..2 are created through the leaf c2.  "Z<n>": mixed flags,
 * c1 = clone(ctx, XLAT), c2 = clone(c1, 0), c3 = clone(c2, XLAT), created through c3.  The clones
 * stay alive as contexts 1.. of the history. */
static kdump_ctx_t *chain[4];
static int nchain;

static kdump_ctx_t *setup(const char *variant)
{
	kdump_ctx_t *ctx = kdump_new();
	kdump_attr_t a;
	nchain = 0;
	if (!ctx) return NULL;
	if (variant[0] == 'F')
		return ctx;
	if (variant[0] == 'Y' || variant[0] == 'Z') {
		int n = atoi(variant + 1), i;
		char *txt = malloc(24 * (size_t) n + 1), *q = txt;
		kdump_ctx_t *leaf;
		chain[nchain++] = kdump_clone(ctx, KDUMP_CLONE_XLAT);
		chain[nchain] = kdump_clone(chain[nchain - 1], variant[0] == 'Y' ? KDUMP_CLONE_XLAT : 0); ++nchain;
		if (variant[0] == 'Z') { chain[nchain] = kdump_clone(chain[nchain - 1], KDUMP_CLONE_XLAT); ++nchain; }
		leaf = chain[nchain - 1];
		for (i = 0; i < n; ++i) q += sprintf(q, "K%d=v%d\n", i, i);
		a.type = KDUMP_BLOB;
		a.val.blob = kdump_blob_new_dup(txt, q - txt);
		free(txt);
		kdump_set_attr(leaf, "linux.vmcoreinfo.raw", &a);
		kdump_set_number_attr(leaf, "file.set.number", 3);
		return ctx;
	}
	if (variant[0] == 'B' || variant[0] == 'X') {
		int n = atoi(variant + 1), i;
		/* "X<n>": the attributes are created through a KDUMP_CLONE_XLAT clone, which is
		 * freed before the history starts */
		kdump_ctx_t *via = variant[0] == 'X' ? kdump_clone(ctx, KDUMP_CLONE_XLAT) : ctx;
		char *txt = malloc(24 * (size_t) n + 1), *q = txt;
		kdump_blob_t *b;
		for (i = 0; i < n; ++i) q += sprintf(q, "K%d=v%d\n", i, i);
		b = kdump_blob_new_dup(txt, q - txt);
		free(txt);
		a.type = KDUMP_BLOB;
		a.val.blob = b;
		kdump_set_attr(via, "linux.vmcoreinfo.raw", &a);
		if (via != ctx) {
			kdump_set_number_attr(via, "file.set.number", 3);
			kdump_free(via);
		}
		return ctx;
	}
	kdump_set_number_attr(ctx, "file.set.number", 2);
	a.type = KDUMP_BLOB;
	if (!blobs[0]) blobs[0] = kdump_blob_new_dup(VMCI, sizeof VMCI - 1);
	kdump_blob_incref(blobs[0]);
	a.val.blob = blobs[0];
	kdump_set_attr(ctx, "linux.vmcoreinfo.raw", &a);
	kdump_set_string_attr(ctx, "addrxlat.ostype", "linux");
	kdump_set_number_attr(ctx, "arch.byte_order", KDUMP_LITTLE_ENDIAN);
	kdump_set_string_attr(ctx, "linux.uts.sysname", "Linux");
	kdump_set_number_attr(ctx, "addrxlat.force.phys_bits", 40);
	return ctx;
}

static int is_variant(const char *t)
{
	return (t[0] == 'P' || t[0] == 'F') ? t[1] == 0
		: ((t[0] == 'B' || t[0] == 'X' || t[0] == 'Y' || t[0] == 'Z') && t[1] >= '0' && t[1] <= '9');
}

/* ---- white-box dump of the whole dictionary ---- */
static void tree_node(const struct attr_data *d)
{
	const struct attr_data *c;
	unsigned n = 0;
	kdump_attr_t a;
	printf(" ");
	phex(d->template->key, strlen(d->template->key));
	a.type = d->template->type;
	printf(":%c:%d%d:", tychar(a.type), d->flags.isset, d->flags.persist);
	if (d->flags.isset && a.type != KDUMP_DIRECTORY) { a.val = *attr_value(d); pval(&a); }
	else putchar('-');
	if (a.type == KDUMP_DIRECTORY)
		for (c = d->dir; c; c = c->next) ++n;
	printf(":%u", n);
	if (a.type == KDUMP_DIRECTORY)
		for (c = d->dir; c; c = c->next) tree_node(c);
}

/* ---- listing of the set attributes through iterators ---- */
static int first_ent;
static void dump_tree(kdump_ctx_t *ctx, const kdump_attr_ref_t *dir, const char *prefix)
{
	kdump_attr_iter_t it;
	if (kdump_attr_ref_iter_start(ctx, dir, &it) != KDUMP_OK)
		return;
	while (it.key) {
		size_t kl = strlen(it.key), pl = strlen(prefix);
		char *path = malloc(pl + 2 * kl + 4), *q;
		kdump_attr_t v;
		kdump_status st;
		size_t i;
		strcpy(path, prefix);
		q = path + pl;
		if (pl) *q++ = '.';
		if (!kl) *q++ = '-';
		for (i = 0; i < kl; ++i) q += sprintf(q, "%02x", (unsigned char) it.key[i]);
		*q = 0;
		if (!first_ent) putchar(',');
		first_ent = 0;
		st = kdump_attr_ref_get(ctx, &it.pos, &v);
		printf("%s=", path);
		if (st != KDUMP_OK) printf("E%d", (int) st);
		else { putchar(tychar(v.type)); pval(&v); }
		if (st == KDUMP_OK && v.type == KDUMP_DIRECTORY) dump_tree(ctx, &it.pos, path);
		free(path);
		if (kdump_attr_iter_next(ctx, &it) != KDUMP_OK)
			break;
	}
	kdump_attr_iter_end(ctx, &it);
}

static void dump_all(kdump_ctx_t *ctx)
{
	kdump_attr_ref_t root;
	first_ent = 1;
	if (kdump_attr_ref(ctx, NULL, &root) == KDUMP_OK) {
		dump_tree(ctx, &root, "");
		kdump_attr_unref(ctx, &root);
	}
	if (first_ent) putchar('-');
}

/* ---- "CHAIN ...": white-box view of the dictionaries behind clones ---- */
static char *attr_path_str(const struct attr_data *d)
{
	const struct attr_data *st[64];
	int n = 0, i;
	size_t len = 2;
	char *r, *q;
	for (; d && d->parent && n < 64; d = d->parent) st[n++] = d;
	if (!n) return strdup("-");
	for (i = 0; i < n; ++i) len += 2 * strlen(st[i]->template->key) + 2;
	q = r = malloc(len);
	for (i = n - 1; i >= 0; --i) {
		const char *k = st[i]->template->key;
		if (!*k) *q++ = '-';
		for (; *k; ++k) q += sprintf(q, "%02x", (unsigned char) *k);
		if (i) *q++ = '.';
	}
	*q = 0;
	return r;
}

static int cmpstr(const void *a, const void *b)
{
	return strcmp(*(char *const *) a, *(char *const *) b);
}

/* print the paths hashed in DICT, sorted; report entries whose parent is in another table */
static void chain_table(const char *tag, struct attr_dict *dict, int misplaced)
{
	struct attr_data **ent = NULL, *d;
	char **names;
	size_t n = 0, cap = 0, i, j;
	unsigned h;
	for (h = 0; h < ATTR_HASH_SIZE; ++h)
		hlist_for_each_entry(d, &dict->attr.table[h], list) {
			if (n == cap) { cap = cap ? 2 * cap : 256; ent = realloc(ent, cap * sizeof *ent); }
			ent[n++] = d;
		}
	names = malloc((n + 1) * sizeof *names);
	for (i = 0; i < n; ++i) names[i] = attr_path_str(ent[i]);
	if (misplaced)
		for (i = 0; i < n; ++i) {
			if (!ent[i]->parent) continue;
			for (j = 0; j < n; ++j) if (ent[j] == ent[i]->parent) break;
			if (j == n) printf(" M:%s", names[i]);
		}
	qsort(names, n, sizeof *names, cmpstr);
	printf(" %s", tag);
	for (i = 0; i < n; ++i) { printf("%s%s", i ? "," : "", names[i]); free(names[i]); }
	free(names);
	free(ent);
}

/* the keys whose values are set, cleared and compared through every level
 * (same order as chain_watched in ml/eng_attr.ml) */
static const struct { const char *key; kdump_attr_type_t type; } chain_keys[] = {
	{ "addrxlat.force.phys_base", KDUMP_ADDRESS }, { "addrxlat.force.page_shift", KDUMP_NUMBER },
	{ "addrxlat.force.virt_bits", KDUMP_NUMBER }, { "addrxlat.force.rootpgt.addr", KDUMP_ADDRESS },
	{ "addrxlat.default.phys_base", KDUMP_ADDRESS }, { "addrxlat.default.phys_bits", KDUMP_NUMBER },
	{ "addrxlat.default.rootpgt.as", KDUMP_NUMBER }, { "max_pfn", KDUMP_NUMBER },
	{ "xen.phys_start", KDUMP_ADDRESS }, { "xen.p2m_mfn", KDUMP_ADDRESS },
	{ "file.zero_excluded", KDUMP_NUMBER },
};
#define NCHAINKEYS ((int) (sizeof chain_keys / sizeof chain_keys[0]))

static void chain_value(kdump_ctx_t *ctx, const char *key, int first)
{
	kdump_attr_t a;
	kdump_status st = kdump_get_attr(ctx, key, &a);
	if (!first) putchar(',');
	if (st == KDUMP_ERR_NODATA || st == KDUMP_ERR_NOKEY) putchar('-');
	else if (st != KDUMP_OK) printf("E%d", (int) st);
	else if (a.type == KDUMP_NUMBER) printf("%llu", (unsigned long long) a.val.number);
	else if (a.type == KDUMP_ADDRESS) printf("%llu", (unsigned long long) a.val.address);
	else if (a.type == KDUMP_STRING) printf("%d", a.val.string[0] == 'v' ? atoi(a.val.string + 1) : -1);
	else putchar('?');
}

static void run_chain_case(char **ops, int nops)
{
	kdump_ctx_t *ctx[MAXCTX] = { 0 };
	struct attr_dict *dreg[MAXCTX + 1] = { 0 };
	int nctx = 1, ndreg = 1, i, k;
	ctx[0] = kdump_new();
	dreg[0] = ctx[0]->dict;
	chain_table("I:", dreg[0], 0);
	for (i = 0; i < nops; ++i) {
		char *f[6] = { 0 };
		int nf = 0, c;
		char *p = ops[i];
		while (nf < 6) { f[nf++] = p; p = strchr(p, ':'); if (!p) break; *p++ = 0; }
		c = nf > 1 ? atoi(f[1]) : 0;
		if (c < 0 || c >= nctx) {	/* a malformed (shrunk) history: the slot is taken, as in the model */
			if ((f[0][0] == 'X' || f[0][0] == 'N') && nctx < MAXCTX) ctx[nctx++] = NULL;
			continue;
		}
		if (!strcmp(f[0], "X") || !strcmp(f[0], "N")) {
			if (nctx >= MAXCTX) continue;
			ctx[nctx] = ctx[c] ? kdump_clone(ctx[c], f[0][0] == 'X' ? KDUMP_CLONE_XLAT : 0) : NULL;
			if (ctx[nctx] && f[0][0] == 'X') {
				for (k = 0; k < ndreg; ++k)	/* a reused address */
					if (dreg[k] == ctx[nctx]->dict) dreg[k] = NULL;
				dreg[ndreg++] = ctx[nctx]->dict;
			}
			++nctx;
		} else if (!strcmp(f[0], "V") && nf == 4) {
			int j = atoi(f[2]), n = atoi(f[3]);
			char *txt = malloc(24 * (size_t) n + 1), *q = txt;
			kdump_attr_t a;
			if (!ctx[c]) { free(txt); continue; }
			for (k = j; k < j + n; ++k) q += sprintf(q, "K%d=v%d\n", k, k);
			a.type = KDUMP_BLOB;
			a.val.blob = kdump_blob_new_dup(txt, q - txt);
			free(txt);
			if (kdump_set_attr(ctx[c], "linux.vmcoreinfo.raw", &a) != KDUMP_OK)
				printf(" E:V");
		} else if (!strcmp(f[0], "S") && nf == 3) {
			if (!ctx[c]) continue;
			if (kdump_set_number_attr(ctx[c], "file.set.number", atoi(f[2])) != KDUMP_OK)
				printf(" E:S");
		} else if ((!strcmp(f[0], "A") && nf == 4) || (!strcmp(f[0], "U") && nf == 3)) {
			int ki = atoi(f[2]);
			kdump_attr_t a;
			if (!ctx[c] || ki < 0 || ki >= NCHAINKEYS) continue;
			a.type = f[0][0] == 'U' ? KDUMP_NIL : chain_keys[ki].type;
			if (a.type == KDUMP_NUMBER) a.val.number = strtoull(f[3], NULL, 10);
			else if (a.type == KDUMP_ADDRESS) a.val.address = strtoull(f[3], NULL, 10);
			if (kdump_set_attr(ctx[c], chain_keys[ki].key, &a) != KDUMP_OK)
				printf(" E:%s%d", f[0], ki);
		} else if (!strcmp(f[0], "F")) {
			if (!ctx[c]) continue;
			kdump_free(ctx[c]);
			ctx[c] = NULL;
		}
	}
	for (i = 0; i < nctx; ++i) {	/* the values that every level shows */
		char key[64];
		if (!ctx[i]) continue;
		printf(" G%d:", i);
		for (k = 0; k < NCHAINKEYS; ++k) chain_value(ctx[i], chain_keys[k].key, k == 0);
		printf(" L%d:", i);
		for (k = 0; k < 53; ++k) {
			sprintf(key, "linux.vmcoreinfo.lines.K%d", k);
			chain_value(ctx[i], key, k == 0);
		}
	}
	{
		int reach[MAXCTX + 1] = { 0 };
		for (i = 0; i < nctx; ++i) {
			struct attr_dict *d;
			if (!ctx[i]) continue;
			printf(" K%d:", i);
			for (d = ctx[i]->dict; d; d = d->fallback) {
				for (k = 0; k < ndreg; ++k) if (dreg[k] == d) break;
				printf("%s%d", d == ctx[i]->dict ? "" : ">", k < ndreg ? k : -1);
				if (k < ndreg) reach[k] = 1;
			}
		}
		for (k = 0; k < ndreg; ++k)
			if (reach[k]) {
				char tag[16];
				sprintf(tag, "D%d:", k);
				chain_table(tag, dreg[k], 1);
			}
	}
	fflush(stdout);
	for (i = 0; i < nctx; ++i)
		if (ctx[i]) kdump_free(ctx[i]);
}

static int forked;	/* we are the child that continues a history after a re-open */

static void run_case(char **ops, int nops)
{
	kdump_ctx_t *ctx[MAXCTX] = { 0 };
	kdump_attr_ref_t ref[MAXSLOT];
	int refset[MAXSLOT] = { 0 };
	kdump_attr_iter_t iter[MAXSLOT];
	int iterset[MAXSLOT] = { 0 };
	char *iterdir[MAXSLOT] = { 0 };		/* path of the directory, if started by path */
	int nctx = 1, i, first = 0;
	const char *variant = "P";

	if (nops && is_variant(ops[0])) { variant = ops[0]; first = 1; }
	ctx[0] = setup(variant);
	for (i = 0; i < nchain; ++i)
		ctx[nctx++] = chain[i];
	for (i = first; i < nops; ++i) {
		char *f[8] = { 0 };
		int nf = 0;
		char *p = ops[i];
		kdump_status st;
		kdump_attr_t a;
		unsigned char *t1 = NULL, *t2 = NULL;
		if (i > first) putchar(' ');
		while (nf < 8) {
			f[nf++] = p;
			p = strchr(p, ':');
			if (!p) break;
			*p++ = 0;
		}
#define CTX(ix) (atoi(f[ix]) >= 0 && atoi(f[ix]) < MAXCTX ? ctx[atoi(f[ix])] : NULL)
#define SLOT(ix) (atoi(f[ix]) & (MAXSLOT - 1))
		if (!strcmp(f[0], "S") && nf == 5) {
			kdump_ctx_t *c = CTX(1);
			if (!c || mkattr(&a, f[3], f[4], &t2)) { printf("BAD"); continue; }
			st = kdump_set_attr(c, keystr(f[2], &t1), &a);
			after_set(st, &a);
			printf("%d", (int) st);
		} else if (!strcmp(f[0], "SF") && nf == 6) {
			/* a set whose post-set hook fails: a VMCOREINFO blob whose first row the
			 * parser rejects; the value is stored all the same (the reference is stolen) */
			kdump_ctx_t *c = CTX(1);
			unsigned id = hx(f[4]);
			if (!c || f[3][0] != 'b' || id >= MAXBLOB) { printf("BAD"); continue; }
			if (!blobs[id]) blobs[id] = kdump_blob_new_dup(".X=1\nKEY=value\n", 15);
			a.type = KDUMP_BLOB;
			a.val.blob = blobs[id];
			kdump_blob_incref(a.val.blob);
			st = kdump_set_attr(c, keystr(f[2], &t1), &a);
			printf("%d", (int) st);
		} else if (!strcmp(f[0], "G") && nf == 3) {
			kdump_ctx_t *c = CTX(1);
			if (!c) { printf("BAD"); continue; }
			st = kdump_get_attr(c, keystr(f[2], &t1), &a);
			pget(st, &a);
		} else if (!strcmp(f[0], "R") && nf == 4) {
			kdump_ctx_t *c = CTX(1);
			if (!c) { printf("BAD"); continue; }
			st = kdump_attr_ref(c, keystr(f[3], &t1), &ref[SLOT(2)]);
			if (st == KDUMP_OK) refset[SLOT(2)] = 1;
			printf("%d", (int) st);
		} else if (!strcmp(f[0], "SR") && nf == 5) {
			kdump_ctx_t *c = CTX(1);
			kdump_attr_ref_t nr;
			if (!c || !refset[SLOT(3)]) { printf("BAD"); continue; }
			st = kdump_sub_attr_ref(c, &ref[SLOT(3)], keystr(f[4], &t1), &nr);
			if (st == KDUMP_OK) { ref[SLOT(2)] = nr; refset[SLOT(2)] = 1; }
			printf("%d", (int) st);
		} else if (!strcmp(f[0], "RG") && nf == 3) {
			kdump_ctx_t *c = CTX(1);
			if (!c || !refset[SLOT(2)]) { printf("BAD"); continue; }
			st = kdump_attr_ref_get(c, &ref[SLOT(2)], &a);
			pget(st, &a);
		} else if (!strcmp(f[0], "RS") && nf == 5) {
			kdump_ctx_t *c = CTX(1);
			if (!c || !refset[SLOT(2)] || mkattr(&a, f[3], f[4], &t2)) { printf("BAD"); continue; }
			st = kdump_attr_ref_set(c, &ref[SLOT(2)], &a);
			after_set(st, &a);
			printf("%d", (int) st);
		} else if (!strcmp(f[0], "SS") && nf == 6) {
			kdump_ctx_t *c = CTX(1);
			if (!c || !refset[SLOT(2)] || mkattr(&a, f[4], f[5], &t2)) { printf("BAD"); continue; }
			st = kdump_set_sub_attr(c, &ref[SLOT(2)], keystr(f[3], &t1), &a);
			after_set(st, &a);
			printf("%d", (int) st);
		} else if (!strcmp(f[0], "RI") && nf == 2) {
			if (!refset[SLOT(1)]) { printf("BAD"); continue; }
			printf("%c:%d", tychar(kdump_attr_ref_type(&ref[SLOT(1)])),
			       kdump_attr_ref_isset(&ref[SLOT(1)]) ? 1 : 0);
		} else if ((!strcmp(f[0], "I") && nf == 4) || (!strcmp(f[0], "IR") && nf == 4) ||
			   (!strcmp(f[0], "IN") && nf == 3)) {
			kdump_ctx_t *c = CTX(1);
			int is = SLOT(2);
			if (!c) { printf("BAD"); continue; }
			if (f[0][1] == 0) {
				char *k = keystr(f[3], &t1);
				st = kdump_attr_iter_start(c, k, &iter[is]);
				free(iterdir[is]);
				iterdir[is] = strdup(k ? k : "");
				if (k && *k == '.') memmove(iterdir[is], iterdir[is] + 1, strlen(iterdir[is]));
			} else if (f[0][1] == 'R') {
				if (!refset[SLOT(3)]) { printf("BAD"); continue; }
				st = kdump_attr_ref_iter_start(c, &ref[SLOT(3)], &iter[is]);
				free(iterdir[is]);
				iterdir[is] = NULL;
			} else {
				if (!iterset[is]) { printf("NOITER"); continue; }
				st = kdump_attr_iter_next(c, &iter[is]);
			}
			if (f[0][1] != 'N') iterset[is] = (st == KDUMP_OK);	/* a failed start: slot not started */
			printf("%d:", (int) st);
			if (st != KDUMP_OK || !iter[is].key)
				printf("end:0:N:-");
			else {
				phex(iter[is].key, strlen(iter[is].key));
				putchar(':');
				st = kdump_attr_ref_get(c, &iter[is].pos, &a);
				pget(st, &a);
			}
		} else if ((!strcmp(f[0], "IS") || !strcmp(f[0], "IK")) && nf == 5) {
			/* set or clear the attribute the iterator stands on */
			kdump_ctx_t *c = CTX(1);
			int is = SLOT(2);
			if (!c) { printf("BAD"); continue; }
			if (!iterset[is] || !iter[is].key) { printf("NOITER"); continue; }
			if (mkattr(&a, f[3], f[4], &t2)) { printf("BAD"); continue; }
			if (f[0][1] == 'S')
				st = kdump_attr_ref_set(c, &iter[is].pos, &a);
			else {
				char *path;
				if (!iterdir[is]) { printf("BAD"); continue; }
				path = malloc(strlen(iterdir[is]) + strlen(iter[is].key) + 2);
				sprintf(path, "%s%s%s", iterdir[is], *iterdir[is] ? "." : "", iter[is].key);
				st = kdump_set_attr(c, path, &a);
				free(path);
			}
			after_set(st, &a);
			printf("%d", (int) st);
		} else if (!strcmp(f[0], "C") && nf == 3) {
			kdump_ctx_t *c = CTX(1);
			if (!c || nctx >= MAXCTX) { printf("BAD"); continue; }
			ctx[nctx] = kdump_clone(c, atoi(f[2]) ? KDUMP_CLONE_XLAT : 0);
			if (!ctx[nctx]) { printf("CLONE-FAILED"); continue; }
			printf("c%d", nctx++);
		} else if (!strcmp(f[0], "F") && nf == 2) {
			int ci = atoi(f[1]);
			if (ci <= 0 || ci >= MAXCTX || !ctx[ci]) { printf("BAD"); continue; }
			kdump_free(ctx[ci]);
			ctx[ci] = NULL;
			printf("0");
		} else if (!strcmp(f[0], "O") && (nf == 2 || nf == 3)) {
			/* re-open (through context f[2], default 0): continue in a child so that a
			 * corrupted lock cannot hang the run */
			int fi = atoi(f[1]), fd, wst;
			pid_t pid;
			kdump_ctx_t *oc = nf == 3 ? CTX(2) : ctx[0];
			if (fi < 0 || fi >= nfiles || !oc) { printf("BAD"); continue; }
			fflush(stdout);
			pid = forked ? 0 : fork();
			if (pid > 0) {
				/* parent: the child prints the rest of the line */
				waitpid(pid, &wst, 0);
				if (!WIFEXITED(wst) || WEXITSTATUS(wst))
					printf("%sHANG-OR-CRASH-%d", "", WIFSIGNALED(wst) ? WTERMSIG(wst) : WEXITSTATUS(wst));
				goto out;
			}
			forked = 1;
			alarm(3);
			fd = open(files[fi], O_RDONLY);
			st = kdump_set_number_attr(oc, "file.fd", fd);
			printf("O%d{", (int) st);
			dump_all(ctx[0]);
			putchar('}');
			fflush(stdout);
		} else
			printf("BADOP");
		free(t1); free(t2);
	}
 out:
	if (forked) {
		fflush(stdout);
		_exit(0);	/* no kdump_free after a re-open: see known finding */
	}
	if (nchain) {
		for (i = 1; i < MAXCTX; ++i)		/* the middle of a chain first */
			if (ctx[i]) kdump_free(ctx[i]);
		if (ctx[0]) kdump_free(ctx[0]);
	} else
		for (i = MAXCTX - 1; i >= 0; --i)
			if (ctx[i]) kdump_free(ctx[i]);
	for (i = 0; i < MAXSLOT; ++i)
		free(iterdir[i]);
}

int main(int argc, char **argv)
{
	FILE *f;
	char *line;
	int ai = 1;
	setvbuf(stdout, NULL, _IOLBF, 0);
	if (argc > 1 && !strcmp(argv[1], "--tree")) {
		const char *variant = argc > 2 ? argv[2] : "P";
		kdump_ctx_t *ctx = setup(variant);
		printf("TREE %s", variant);
		tree_node(gattr(ctx, GKI_dir_root));
		putchar('\n');
		fflush(stdout);
		if (nchain) _exit(0);	/* freeing is part of the histories, not of the dump */
		kdump_free(ctx);
		if (blobs[0]) kdump_blob_decref(blobs[0]);
		return 0;
	}
	if (argc > 2 && !strcmp(argv[1], "--fresh")) {
		kdump_ctx_t *ctx = kdump_new();
		int fd = open(argv[2], O_RDONLY);
		kdump_status st = kdump_set_number_attr(ctx, "file.fd", fd);
		if (st != KDUMP_OK) { printf("OPEN-FAILED-%d %s\n", (int) st, kdump_get_err(ctx)); return 1; }
		dump_all(ctx);
		putchar('\n');
		kdump_free(ctx);
		close(fd);
		return 0;
	}
	if (argc > ai + 1 && !strcmp(argv[ai], "--files")) {
		char *s = argv[ai + 1], *save, *t;
		for (t = strtok_r(s, ",", &save); t && nfiles < 8; t = strtok_r(NULL, ",", &save))
			files[nfiles++] = t;
		ai += 2;
	}
	f = argc > ai ? fopen(argv[ai], "r") : stdin;
	if (!f) { perror("open"); return 2; }
	while ((line = verif_getline(f))) {
		char **w = NULL;
		int nw = 0, cap = 0;
		char *tok, *save;
		if (!strncmp(line, "TREE", 4)) { puts("tree"); continue; }
		if (!strncmp(line, "FRESH", 5)) { puts("fresh"); continue; }
		for (tok = strtok_r(line, " ", &save); tok; tok = strtok_r(NULL, " ", &save)) {
			if (nw == cap) { cap = cap ? 2 * cap : 64; w = realloc(w, cap * sizeof *w); }
			w[nw++] = tok;
		}
		if (nw && !strcmp(w[0], "CHAIN")) run_chain_case(w + 1, nw - 1);
		else run_case(w, nw);
		putchar('\n');
		free(w);
	}
	{
		int i;
		for (i = 0; i < MAXBLOB; ++i)
			if (blobs[i]) kdump_blob_decref(blobs[i]);
	}
	return 0;
}
