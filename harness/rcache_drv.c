/* Correspondence driver, engine "rcache": replays histories of get_cache_buf /
 * do_read64 / bury_cache_buffer on the real read cache of an addrxlat context.
 * The get_page callback serves synthetic regions (the same function as
 * ReadCache.synth_get_page) and can be told to call get_cache_buf itself
 * before answering (op N). */
#include "common.h"
#include "src/addrxlat/ctx.c"

struct pg { struct pg *next, **pprev; unsigned char *data; };
static struct pg *pages;
static unsigned long n_gets, n_puts;
static addrxlat_ctx_t *the_ctx;

static int nest_pending, nest_status;
static addrxlat_fulladdr_t nest_addr;

static void my_put_page(const addrxlat_buffer_t *buf)
{
	struct pg *p = buf->priv;
	*p->pprev = p->next;
	if (p->next) p->next->pprev = p->pprev;
	free(p->data); free(p);
	++n_puts;
}

/* the same function as ReadCache.synth_get_page / synth_byte: the layout depends on
 * the low 16 bits of the address only (so every region has look-alikes 2^16, 2^31,
 * 2^32, ... away), the bytes depend on the whole address */
static unsigned char synth_byte(unsigned as, uint64_t a)
{
	return (unsigned char)((a * 13 + (uint64_t)as * 3 + 1 + (a >> 16) * 7 + (a >> 31) * 5
				+ (a >> 32) * 11 + (a >> 63) * 17) & 0xff);
}

static addrxlat_status my_get_page(const addrxlat_cb_t *cb, addrxlat_buffer_t *buf)
{
	uint64_t a, base, size, blk, i;
	unsigned as;
	int fail;
	struct pg *p;

	a = buf->addr.addr; as = (unsigned)buf->addr.as;
	if (nest_pending) {
		addrxlat_buffer_t *nb;
		nest_pending = 0;
		nest_status = (int)get_cache_buf(the_ctx, &nest_addr, &nb);
		clear_error(the_ctx);
	}
	if ((a / 0x8000) % 2 == 0) {
		blk = a / 0x1000; fail = (blk % 8 == 5);
		base = blk * 0x1000; size = 0x1000;
	} else {
		blk = a / 0x100; fail = (blk % 8 == 3);
		base = blk * 0x100; size = 0x100;
	}
	if (fail) {
		/* like libkdumpfile's own callback (vtop.c addrxlat_get_page): the buffer
		 * metadata is filled in before the read is attempted */
		buf->addr.addr = base;
		buf->size = size;
		return ADDRXLAT_ERR_NODATA;
	}
	p = malloc(sizeof *p);
	p->data = malloc(size);
	for (i = 0; i < size; ++i)
		p->data[i] = synth_byte(as, base + i);
	p->next = pages; p->pprev = &pages;
	if (pages) pages->pprev = &p->next;
	pages = p;
	++n_gets;

	buf->addr.addr = base;
	buf->size = size;
	buf->ptr = p->data;
	buf->byte_order = ADDRXLAT_LITTLE_ENDIAN;
	buf->put_page = my_put_page;
	buf->priv = p;
	return ADDRXLAT_OK;
}

static unsigned long my_read_caps(const addrxlat_cb_t *cb)
{
	return ~0UL;
}

static void show_slots(addrxlat_ctx_t *ctx)
{
	struct read_cache_slot *s = ctx->cache.mru;
	int i;
	putchar('[');
	/* the address of an empty slot (size 0) is dead state -- no address hits it -- and a
	 * failing callback may or may not have written it: printed as 0 */
	for (i = 0; i < READ_CACHE_SLOTS; ++i, s = s->next)
		printf("%s%d:%x:%" PRIx64 ":%zx:%d", i ? "," : "",
		       (int)(s - ctx->cache.slot), (unsigned)s->buffer.addr.as,
		       s->buffer.size ? (uint64_t)s->buffer.addr.addr : (uint64_t)0,
		       s->buffer.size, s->buffer.ptr ? 0 : 1);
	putchar(']');
}

int main(int argc, char **argv)
{
	FILE *f = fopen(argv[1], "r");
	char *line;
	if (!f) { perror(argv[1]); return 2; }
	setvbuf(stdout, NULL, _IOLBF, 0);
	while ((line = verif_getline(f))) {
		addrxlat_ctx_t *ctx = addrxlat_ctx_new();
		addrxlat_cb_t *cb = addrxlat_ctx_add_cb(ctx);
		char *save = NULL, *tok;
		struct pg *p;
		unsigned long left = 0;

		cb->get_page = my_get_page;
		cb->read_caps = my_read_caps;
		the_ctx = ctx; n_gets = n_puts = 0; pages = NULL;
		for (tok = strtok_r(line, " ", &save); tok; tok = strtok_r(NULL, " ", &save)) {
			char *fld[6]; int nf = 0; char *s2 = NULL, *q;
			addrxlat_fulladdr_t fa;
			addrxlat_status st;
			for (q = strtok_r(tok, ":", &s2); q && nf < 6; q = strtok_r(NULL, ":", &s2))
				fld[nf++] = q;
			fa.as = (addrxlat_addrspace_t)hx(fld[1]); fa.addr = hx(fld[2]);
			if (fld[0][0] == 'G') {
				addrxlat_buffer_t *buf;
				st = get_cache_buf(ctx, &fa, &buf);
				if (st == ADDRXLAT_OK)
					printf("G0=%" PRIx64 ":%x", (uint64_t)buf->addr.addr,
					       (unsigned)((const unsigned char *)buf->ptr)[0]);
				else
					printf("G%d", (int)st);
			} else if (fld[0][0] == 'N') {
				addrxlat_buffer_t *buf;
				nest_addr.as = (addrxlat_addrspace_t)hx(fld[3]); nest_addr.addr = hx(fld[4]);
				nest_pending = 1; nest_status = -1;
				st = get_cache_buf(ctx, &fa, &buf);
				if (nest_pending) { nest_pending = 0; printf("N%d/-", (int)st); }
				else printf("N%d/%d", (int)st, nest_status);
			} else if (fld[0][0] == 'R') {
				uint64_t val = 0;
				st = do_read64(ctx, &fa, &val);
				if (st == ADDRXLAT_OK) printf("R0=%" PRIx64, val);
				else printf("R%d", (int)st);
			} else if (fld[0][0] == 'B') {
				bury_cache_buffer(&ctx->cache, &fa);
				putchar('B');
			}
			clear_error(ctx);
			show_slots(ctx);
			putchar(' ');
		}
		addrxlat_ctx_decref(ctx);	/* cleanup_cache */
		for (p = pages; p; ) { struct pg *n = p->next; free(p->data); free(p); p = n; ++left; }
		pages = NULL;
		printf("L%lx:%lx:%lx\n", n_gets, n_puts, left);
	}
	fclose(f);
	return 0;
}
