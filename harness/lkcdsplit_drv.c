/* Correspondence driver, engine "lkcdsplit": split_pfn_block() of the LKCD
 * incremental PFN index on hand-built blocks (white box, no dump file).
 *
 * One case per line (hex):
 *     filepos idx3 off0,off1,...,offn-1 | idx [| follower fail]
 * `-` stands for an empty offs list.  follower: `-` (block->next = NULL) or
 * the idx3 of a dummy block that follows (n = 0, filepos = FOLLOW_POS + idx3);
 * fail: `-` or letters: m = the ctx_malloc of the tail block fails, t = the
 * realloc of the tail's offs fails, h = the realloc of the head's offs fails,
 * n / u = the ctx_malloc / the realloc of the offs of a second or later tail
 * block fails (only a tree with fixes/84 allocates more than one),
 * A = the block is built with alloc = PFN_IDX3_SIZE (zero filled) instead of
 * alloc = n.
 *
 * Output: "<status>[Z] blk;blk;..." with blk = "filepos:idx3:off,off,..." (`-`
 * for no entries), the chain starting at the block.  `Z` = the head's offs
 * were passed to realloc(ptr, 0), which frees them and returns NULL, so
 * realloc_pfn_offs keeps the freed pointer in block->offs.  A block whose n
 * exceeds its alloc is printed with the allocated entries only and the suffix
 * ":n=<n>".
 */
#include "common.h"

static void *verif_realloc(void *ptr, size_t size);
#define realloc verif_realloc
#define ctx_malloc verif_ctx_malloc
#include "src/kdumpfile/lkcd.c"
#undef ctx_malloc
#undef realloc
INTERNAL_DECL(void *, ctx_malloc,
	      (size_t size, kdump_ctx_t *ctx, const char *desc));

#define FOLLOW_POS 0x7000000000ULL

static int fail_m, fail_t, fail_h, fail_n, fail_u;
static unsigned n_malloc, n_tail;
static void *freed_by_realloc0;

static void *verif_realloc(void *ptr, size_t size)
{
	if (ptr && !size) {
		/* glibc (and ASan): free(ptr), return NULL; this is not a failure
		 * that could be injected, it always happens */
		freed_by_realloc0 = ptr;
		free(ptr);
		return NULL;
	}
	if (!ptr && (n_tail++ ? fail_u : fail_t))
		return NULL;
	if (ptr && fail_h)
		return NULL;
	return realloc(ptr, size);
}

void *verif_ctx_malloc(size_t size, kdump_ctx_t *ctx, const char *desc)
{
	if (n_malloc++ ? fail_n : fail_m) {
		set_error(ctx, KDUMP_ERR_SYSTEM, "Cannot allocate %s (%zu bytes)", desc, size);
		return NULL;
	}
	return ctx_malloc(size, ctx, desc);
}

static void show_chain(struct pfn_block *b)
{
	int first = 1;
	for (; b; b = b->next) {
		unsigned i, lim = b->n < b->alloc ? b->n : b->alloc;
		if (freed_by_realloc0 && b->offs == freed_by_realloc0)
			lim = 0;
		printf("%s%llx:%x:", first ? "" : ";", (unsigned long long)b->filepos, (unsigned)b->idx3);
		first = 0;
		if (!lim)
			putchar('-');
		for (i = 0; i < lim; ++i)
			printf("%s%x", i ? "," : "", (unsigned)b->offs[i]);
		if (b->n > b->alloc && !(freed_by_realloc0 && b->offs == freed_by_realloc0))
			printf(":n=%x", (unsigned)b->n);
	}
}

int main(int argc, char **argv)
{
	FILE *f = fopen(argv[1], "r");
	kdump_ctx_t *ctx;
	char *line;

	if (!f) { perror(argv[1]); return 2; }
	setvbuf(stdout, NULL, _IOLBF, 0);
	ctx = kdump_new();
	if (!ctx) { fprintf(stderr, "kdump_new failed\n"); return 2; }
	while ((line = verif_getline(f))) {
		char *part[3] = { NULL, NULL, NULL }, *save = NULL, *q;
		char *w[3] = { NULL, NULL, NULL }, *o[2] = { NULL, NULL };
		struct pfn_block *block, *follow = NULL, *b;
		size_t n = 0, alloc, i;
		unsigned short idx;
		int big = 0, np = 0;
		kdump_status st;

		for (q = strtok_r(line, "|", &save); q && np < 3; q = strtok_r(NULL, "|", &save))
			part[np++] = q;
		if (np < 2) { puts("BAD"); continue; }
		save = NULL;
		for (i = 0, q = strtok_r(part[0], " ", &save); q && i < 3; q = strtok_r(NULL, " ", &save))
			w[i++] = q;
		if (i < 3) { puts("BAD"); continue; }
		idx = (unsigned short)hx(part[1]);
		fail_m = fail_t = fail_h = fail_n = fail_u = 0;
		if (part[2]) {
			save = NULL;
			for (i = 0, q = strtok_r(part[2], " ", &save); q && i < 2; q = strtok_r(NULL, " ", &save))
				o[i++] = q;
		}
		if (o[1]) {
			big = strchr(o[1], 'A') != NULL;
		}

		block = malloc(sizeof *block);
		block->filepos = (off_t)hx(w[0]);
		block->idx3 = (uint32_t)hx(w[1]);
		if (strcmp(w[2], "-"))
			for (n = 1, q = w[2]; *q; ++q)
				if (*q == ',') ++n;
		alloc = big ? PFN_IDX3_SIZE : n;
		block->offs = malloc(alloc * sizeof(uint32_t));	/* malloc(0) is a unique pointer */
		memset(block->offs, 0, alloc * sizeof(uint32_t));
		if (n) {
			save = NULL;
			for (i = 0, q = strtok_r(w[2], ",", &save); q && i < n; q = strtok_r(NULL, ",", &save))
				block->offs[i++] = (uint32_t)hx(q);
		}
		block->n = (unsigned short)n;
		block->alloc = (unsigned short)alloc;
		block->next = NULL;
		if (o[0] && strcmp(o[0], "-")) {
			follow = malloc(sizeof *follow);
			follow->idx3 = (uint32_t)hx(o[0]);
			follow->filepos = (off_t)(FOLLOW_POS + follow->idx3);
			follow->n = follow->alloc = 0;
			follow->offs = NULL;
			follow->next = NULL;
			block->next = follow;
		}
		if (o[1]) {
			fail_m = strchr(o[1], 'm') != NULL;
			fail_t = strchr(o[1], 't') != NULL;
			fail_h = strchr(o[1], 'h') != NULL;
			fail_n = strchr(o[1], 'n') != NULL;
			fail_u = strchr(o[1], 'u') != NULL;
		}
		freed_by_realloc0 = NULL;
		n_malloc = n_tail = 0;

		st = split_pfn_block(ctx, block, idx);
		fail_m = fail_t = fail_h = fail_n = fail_u = 0;
		clear_error(ctx);

		printf("%d%s ", (int)st, freed_by_realloc0 ? "Z" : "");
		show_chain(block);
		putchar('\n');

		for (b = block; b; ) {
			struct pfn_block *nx = b->next;
			if (!(freed_by_realloc0 && b->offs == freed_by_realloc0))
				free(b->offs);
			free(b);
			b = nx;
		}
	}
	kdump_free(ctx);
	fclose(f);
	return 0;
}
