/* Correspondence driver, engine "cache" (C06): replays client histories on the
 * real src/kdumpfile/cache.c and prints, after every operation, the result
 * and the complete cache state obtained by following the real next/prev
 * pointers.  Same input and output format as ml/eng_cache.ml.
 *
 * The client: every successful cache_get_entry() creates a handle; a handle
 * on an entry that was not valid is pending (buffer is being filled: the
 * driver writes a garbage pattern into it) until cache_insert() (the driver
 * writes the key into the buffer first, which stands for "the data of this
 * key") or cache_discard(); other handles are plain until cache_put_entry().
 */
#include "common.h"
#include "src/kdumpfile/cache.c"

/* a lone cache.c needs these two from the rest of the library (only
 * cache_set_attrs uses them; it is not exercised here) */
kdump_status
set_attr(kdump_ctx_t *ctx, struct attr_data *attr,
	 struct attr_flags flags, kdump_attr_value_t *pval)
{
	return KDUMP_OK;
}
kdump_status
set_error(kdump_ctx_t *ctx, kdump_status ret, const char *msgfmt, ...)
{
	return ret;
}

#define GARBAGE   UINT64_C(0xfefefefefefefefe)
#define STALE_KEY UINT64_C(0xdead0000)
#define MAXH 65536

static struct cache *cache;
static unsigned pend[MAXH], npend, plain[MAXH], nplain;
static unsigned ev_idx[64], ev_ref[64], nev;

static void
cleanup_cb(void *data, struct cache_entry *ce)
{
	if (nev < 64) {
		ev_idx[nev] = ce - cache->ce;
		ev_ref[nev] = ce->refcnt;
		++nev;
	}
}

static void
print_list(const char *name, const unsigned *l, unsigned n)
{
	unsigned i;
	printf(" %s=", name);
	for (i = 0; i < n; ++i)
		printf("%s%u", i ? "," : "", l[i]);
}

static void
show_state(void)
{
	unsigned n = 2 * cache->cap, nring, i, idx, start;
	static unsigned char *seen;
	static unsigned *order;
	const char *bad = NULL;

	seen = realloc(seen, n);
	order = realloc(order, n * sizeof *order);
	memset(seen, 0, n);
	printf("cap=%u split=%u np=%u ngp=%u nq=%u ngq=%u dp=%u nin=%u",
	       cache->cap, cache->split, cache->nprec, cache->ngprec,
	       cache->nprobe, cache->ngprobe, cache->dprobe, cache->ninflight);

	/* main ring, in next order from ce[split].next */
	nring = cache->ninflight <= n ? n - cache->ninflight : 0;
	if (cache->split >= n)
		bad = "split-out-of-range";
	start = idx = bad ? 0 : cache->ce[cache->split].next;
	for (i = 0; !bad && i < nring; ++i) {
		if (idx >= n) { bad = "index-out-of-range"; break; }
		if (seen[idx]) { bad = "entry-visited-twice"; break; }
		seen[idx] = 1;
		order[i] = idx;
		if (cache->ce[idx].next >= n ||
		    cache->ce[cache->ce[idx].next].prev != idx) {
			bad = "next-prev-mismatch"; break;
		}
		idx = cache->ce[idx].next;
	}
	if (!bad && nring && idx != start)
		bad = "ring-does-not-close";
	if (!bad && nring && order[nring - 1] != cache->split)
		bad = "split-not-last";
	if (bad)
		printf(" ring=BAD(%s)", bad);
	else
		print_list("ring", order, nring);

	/* in-flight ring, from cache->inflight */
	bad = NULL;
	idx = start = cache->inflight;
	for (i = 0; i < cache->ninflight && i < n; ++i) {
		if (idx >= n) { bad = "index-out-of-range"; break; }
		if (seen[idx]) { bad = "entry-visited-twice"; break; }
		seen[idx] = 1;
		order[i] = idx;
		if (cache->ce[idx].next >= n ||
		    cache->ce[cache->ce[idx].next].prev != idx) {
			bad = "next-prev-mismatch"; break;
		}
		idx = cache->ce[idx].next;
	}
	if (!bad && cache->ninflight && idx != start)
		bad = "ring-does-not-close";
	if (bad)
		printf(" infl=BAD(%s)", bad);
	else
		print_list("infl", order, cache->ninflight <= n ? cache->ninflight : 0);

	printf(" ent=");
	for (i = 0; i < n; ++i) {
		struct cache_entry *ce = &cache->ce[i];
		long buf = -1;
		if (ce->data) {
			size_t off = (char *)ce->data - (char *)cache->data;
			buf = (off % cache->elemsize == 0 &&
			       off / cache->elemsize < cache->cap)
				? (long)(off / cache->elemsize) : -2;
		}
		printf("%s%" PRIx64 ":%d:%u:%ld:", i ? ";" : "",
		       (uint64_t)ce->key, (int)ce->state, ce->refcnt, buf);
		if (buf >= 0 && *(uint64_t *)ce->data != GARBAGE)
			printf("%" PRIx64, *(uint64_t *)ce->data);
		else
			putchar('-');
	}
	printf(" hm=%" PRIx64 ",%" PRIx64,
	       (uint64_t)cache->hits.number, (uint64_t)cache->misses.number);
	print_list("pend", pend, npend);
	print_list("plain", plain, nplain);

	/* the raw pointer members, for the pointer-level model */
	printf(" raw=%u nx=", cache->inflight);
	for (i = 0; i < n; ++i)
		printf("%s%u", i ? "," : "", cache->ce[i].next);
	printf(" pv=");
	for (i = 0; i < n; ++i)
		printf("%s%u", i ? "," : "", cache->ce[i].prev);
}

static void
show_ev(void)
{
	unsigned i;
	printf(" ev=");
	for (i = 0; i < nev; ++i)
		printf("%s%u/%u", i ? "," : "", ev_idx[i], ev_ref[i]);
}

static void
drop_first(unsigned *l, unsigned *n, unsigned e)
{
	unsigned i;
	for (i = 0; i < *n; ++i)
		if (l[i] == e) {
			memmove(l + i, l + i + 1, (*n - i - 1) * sizeof *l);
			--*n;
			return;
		}
}

int
main(int argc, char **argv)
{
	FILE *f = argc > 1 ? fopen(argv[1], "r") : NULL;
	char *line;

	if (!f) { perror(argc > 1 ? argv[1] : "case file"); return 2; }
	setvbuf(stdout, NULL, _IOLBF, 0);
	while ((line = verif_getline(f))) {
		char *save = NULL, *tok;
		unsigned cap, i;
		int dead = 0;

		tok = strtok_r(line, " ", &save);
		if (!tok) { putchar('\n'); continue; }
		cap = strtoul(tok, NULL, 10);	/* a trailing 'u' (model variant) is ignored */
		cache = cache_alloc(cap, sizeof(uint64_t));
		if (!cache) { printf("ALLOC-FAILED\n"); continue; }
		set_cache_entry_cleanup(cache, cleanup_cb, NULL);
		/* key and state are indeterminate after cache_alloc and are
		 * never read before being assigned; give them the values the
		 * model prints */
		for (i = 0; i < 2 * cap; ++i) {
			cache->ce[i].key = STALE_KEY + i;
			cache->ce[i].state = cs_valid;
		}
		cache->inflight = 0;	/* indeterminate until the first add_inflight */
		for (i = 0; i < cap; ++i)
			((uint64_t *)cache->data)[i] = GARBAGE;
		npend = nplain = 0;
		printf("init # ");
		show_state();

		while ((tok = strtok_r(NULL, " ", &save))) {
			struct cache_entry *ce;
			unsigned j, e;

			printf(" | ");
			if (dead) { putchar('-'); continue; }
			nev = 0;
			switch (tok[0]) {
			case 'g': {
				uint64_t key = hx(tok + 2);
				ce = cache_get_entry(cache, key);
				printf("get:%" PRIx64 " ", key);
				if (!ce) {
					printf("busy");
					break;
				}
				e = ce - cache->ce;
				if (cache_entry_valid(ce)) {
					printf("e%u:hit", e);
					if (nplain < MAXH) plain[nplain++] = e;
				} else {
					printf("e%u:fill", e);
					if (!ce->data) {
						/* the caller would write through NULL */
						printf(" NULL-BUFFER");
						dead = 1;
						continue;
					}
					*(uint64_t *)ce->data = GARBAGE;
					if (npend < MAXH) pend[npend++] = e;
				}
				break;
			}
			case 'i':
			case 'd':
				if (!npend) { printf("skip"); continue; }
				j = strtoul(tok + 2, NULL, 10) % npend;
				e = pend[j];
				ce = &cache->ce[e];
				drop_first(pend, &npend, e);
				if (tok[0] == 'i') {
					if (ce->data)
						*(uint64_t *)ce->data = ce->key;
					cache_insert(cache, ce);
					if (nplain < MAXH) plain[nplain++] = e;
					printf("ins:%u done", e);
				} else {
					cache_discard(cache, ce);
					printf("dis:%u done", e);
				}
				break;
			case 'p':
				if (!nplain) { printf("skip"); continue; }
				j = strtoul(tok + 2, NULL, 10) % nplain;
				e = plain[j];
				drop_first(plain, &nplain, e);
				cache_put_entry(cache, &cache->ce[e]);
				printf("put:%u done", e);
				break;
			case 'f':
				if (npend || nplain) { printf("skip"); continue; }
				cache_flush(cache);
				printf("flush done");
				break;
			case 'r': {
				/* def_realloc_caches: allocate the new cache, then
				 * free the old one (cleanup callback on its cached
				 * entries) */
				struct cache *old = cache, *new;
				unsigned ncap = strtoul(tok + 2, NULL, 10);
				if (npend || nplain || !ncap) { printf("skip"); continue; }
				new = cache_alloc(ncap, sizeof(uint64_t));
				if (!new) { printf("ALLOC-FAILED"); dead = 1; continue; }
				cache_free(old);	/* cleanup_cb still indexes the old cache */
				cache = new;
				set_cache_entry_cleanup(cache, cleanup_cb, NULL);
				for (i = 0; i < 2 * ncap; ++i) {
					cache->ce[i].key = STALE_KEY + i;
					cache->ce[i].state = cs_valid;
				}
				cache->inflight = 0;
				for (i = 0; i < ncap; ++i)
					((uint64_t *)cache->data)[i] = GARBAGE;
				printf("realloc:%u done", ncap);
				break;
			}
			default:
				printf("BAD-OP");
				continue;
			}
			show_ev();
			printf(" # ");
			show_state();
		}
		putchar('\n');
		set_cache_entry_cleanup(cache, NULL, NULL);
		cache_free(cache);
	}
	fclose(f);
	return 0;
}
