/* Correspondence driver, engine "errmsg-status" (C16): the status plumbing of
 * libkdumpfile on a real kdump_ctx_t.
 *
 *   case line: one op
 *      S:<signed hex>       addrxlat2kdump(s) and kdump2addrxlat(s)
 *      X:<status>:<hex text>:<hex old|->   a message with '%' sequences crossing the library boundary:
 *                           addrxlat2kdump (text in the translation context, old in the dump context) and
 *                           kdump2addrxlat (the other way round); output "<a2k status> <hex kdump string>
 *                           <xlat string left?> <k2a status> <hex xlat string> <kdump string left?>"
 *      O:<s0>,<s1>,...      open_dump()'s probe loop with the probe results scripted
 *                           (exactly ARRAY_SIZE(formats) results, hex; ffffffff = KDUMP_NOPROBE)
 *      V:<nrows>            kdump_set_attr("linux.vmcoreinfo.raw", blob of <nrows> lines)
 *      P:<k>                init_cpu_prstatus() with the k-th allocation failing (-1: none)
 *   output: S: "<a2k status> <msg> <k2a status> <msg>"
 *           O,V: "<status> <msg>"     P: "<status> <msg> <number of allocations asked>"
 *   where <msg> is 1 iff the context's error string is non-empty after the call.
 *
 * Built with -Dmalloc=verif_malloc -Dcalloc=verif_calloc -Drealloc=verif_realloc over all
 * library sources; open.c is #included so that the (non-const) formats[] table can be
 * pointed at scripted probes.
 */
#include "common.h"
#include <unistd.h>
#include <errno.h>
#include "src/kdumpfile/open.c"
#include <fcntl.h>

#undef malloc
#undef calloc
#undef realloc
extern void *malloc(size_t);
extern void *calloc(size_t, size_t);
extern void *realloc(void *, size_t);

static long fail_at = -1;	/* index of the allocation that fails */
static long n_alloc;

static int should_fail(void)
{
	long i = n_alloc++;
	return fail_at >= 0 && i == fail_at;
}
void *verif_malloc(size_t n) { return should_fail() ? NULL : malloc(n); }
void *verif_calloc(size_t n, size_t m) { return should_fail() ? NULL : calloc(n, m); }
void *verif_realloc(void *p, size_t n) { return should_fail() ? NULL : realloc(p, n); }

#define NFMT (sizeof(formats) / sizeof(formats[0]))
static kdump_status script[32];

#define FAKE(i) \
static kdump_status fake_probe_##i(kdump_ctx_t *ctx) \
{ \
	if (script[i] == KDUMP_OK) return KDUMP_OK; \
	return set_error(ctx, script[i], "scripted probe %d says %u", i, (unsigned)script[i]); \
}
FAKE(0) FAKE(1) FAKE(2) FAKE(3) FAKE(4) FAKE(5) FAKE(6) FAKE(7) FAKE(8) FAKE(9) FAKE(10)
FAKE(11) FAKE(12) FAKE(13) FAKE(14) FAKE(15)
static struct format_ops fake_ops[16] = {
#define OPS(i) { .name = "fake" #i, .probe = fake_probe_##i }
	OPS(0), OPS(1), OPS(2), OPS(3), OPS(4), OPS(5), OPS(6), OPS(7), OPS(8), OPS(9), OPS(10),
	OPS(11), OPS(12), OPS(13), OPS(14), OPS(15)
};

static int msgflag(kdump_ctx_t *ctx)
{
	const char *e = kdump_get_err(ctx);
	return e && *e;
}
static int xmsgflag(kdump_ctx_t *ctx)
{
	const char *e = addrxlat_ctx_get_err(ctx->xlatctx);
	return e && *e;
}

int main(int argc, char **argv)
{
	FILE *f = fopen(argv[1], "r");
	char *line;
	char tmpl[] = "/tmp/verif-status-XXXXXX";
	int fd;
	size_t i;
	if (!f) { perror(argv[1]); return 2; }
	fd = mkstemp(tmpl);
	if (fd < 0) { perror("mkstemp"); return 2; }
	unlink(tmpl);
	if (ftruncate(fd, 65536)) { perror("ftruncate"); return 2; }
	setvbuf(stdout, NULL, _IOLBF, 0);
	if (NFMT > 16) { fprintf(stderr, "too many formats\n"); return 2; }
	while ((line = verif_getline(f))) {
		alarm(10);	/* a case takes milliseconds; a spinning library is killed by SIGALRM */
		kdump_ctx_t *ctx;
		fail_at = -1;
		ctx = kdump_new();
		if (!ctx) { fprintf(stderr, "kdump_new failed\n"); return 2; }
		if (line[0] == 'S') {
			long long s = shx(line + 2);
			kdump_status k;
			addrxlat_status a;
			int m1, m2;
			kdump_clear_err(ctx);
			addrxlat_ctx_err(ctx->xlatctx, ADDRXLAT_ERR_NOTIMPL, "lower-level text");
			k = addrxlat2kdump(ctx, (addrxlat_status)s);
			m1 = msgflag(ctx);
			kdump_clear_err(ctx);
			addrxlat_ctx_clear_err(ctx->xlatctx);
			if ((kdump_status)s != KDUMP_OK)
				kdump_err(ctx, (kdump_status)s, "upper-level text");
			a = kdump2addrxlat(ctx, (kdump_status)s);
			m2 = xmsgflag(ctx);
			printf("%x %d ", (unsigned)k, m1);
			pshx((long long)a);
			printf(" %d\n", m2);
		} else if (line[0] == 'X') {
			/* X:<status>:<hex text>:<hex old|->: a message crossing the library boundary in both
			 * directions.  The texts contain '%' sequences; they must arrive byte for byte. */
			char *sv = NULL, *f1, *f2, *f3;
			char text[256], old[256];
			long long s;
			kdump_status k; addrxlat_status a;
			const char *e;
			size_t n;
			strtok_r(line, ":", &sv);
			f1 = strtok_r(NULL, ":", &sv); f2 = strtok_r(NULL, ":", &sv); f3 = strtok_r(NULL, ":", &sv);
			if (!f1 || !f2 || !f3) { printf("?\n"); kdump_free(ctx); continue; }
			s = shx(f1);
			for (n = 0; f2[2 * n] && f2[2 * n + 1] && n < 255; ++n) { unsigned v; sscanf(f2 + 2 * n, "%2x", &v); text[n] = (char)v; }
			text[n] = 0;
			n = 0;
			if (f3[0] != '-')
				for (; f3[2 * n] && f3[2 * n + 1] && n < 255; ++n) { unsigned v; sscanf(f3 + 2 * n, "%2x", &v); old[n] = (char)v; }
			old[n] = 0;
			/* up: addrxlat -> kdumpfile */
			kdump_clear_err(ctx); addrxlat_ctx_clear_err(ctx->xlatctx);
			if (old[0]) kdump_err(ctx, KDUMP_ERR_CORRUPT, "%s", old);
			addrxlat_ctx_err(ctx->xlatctx, (addrxlat_status)s, "%s", text);
			errno = ENOMEM;	/* a system-class status on an empty chain gets strerror(errno) innermost */
			k = addrxlat2kdump(ctx, (addrxlat_status)s);
			printf("%x ", (unsigned)k);
			e = kdump_get_err(ctx);
			if (!e || !*e) putchar('-'); else for (; *e; ++e) printf("%02x", (unsigned char)*e);
			printf(" %d ", xmsgflag(ctx));
			/* down: kdumpfile -> addrxlat */
			kdump_clear_err(ctx); addrxlat_ctx_clear_err(ctx->xlatctx);
			if (old[0]) addrxlat_ctx_err(ctx->xlatctx, ADDRXLAT_ERR_INVALID, "%s", old);
			if ((kdump_status)s != KDUMP_OK) kdump_err(ctx, (kdump_status)s, "%s", text);
			a = kdump2addrxlat(ctx, (kdump_status)s);
			pshx((long long)a);
			putchar(' ');
			e = addrxlat_ctx_get_err(ctx->xlatctx);
			if (!e || !*e) putchar('-'); else for (; *e; ++e) printf("%02x", (unsigned char)*e);
			printf(" %d\n", msgflag(ctx));
		} else if (line[0] == 'O') {
			char *save = NULL, *tok;
			kdump_status st;
			for (i = 0; i < 16; ++i) script[i] = KDUMP_NOPROBE;
			i = 0;
			for (tok = strtok_r(line + 2, ",", &save); tok && i < 16; tok = strtok_r(NULL, ",", &save))
				script[i++] = (kdump_status)hx(tok);
			if (i != NFMT) { printf("FORMATS %zu\n", (size_t)NFMT); kdump_free(ctx); continue; }
			for (i = 0; i < NFMT; ++i) formats[i] = &fake_ops[i];
			st = kdump_set_number_attr(ctx, KDUMP_ATTR_FILE_FD, fd);
			printf("%x %d\n", (unsigned)st, msgflag(ctx));
		} else if (line[0] == 'V') {
			unsigned n = strtoul(line + 2, NULL, 10), r;
			char *data = malloc(64 * n + 1);
			size_t len = 0;
			kdump_attr_t attr;
			kdump_status st;
			for (r = 0; r < n; ++r)
				len += sprintf(data + len, "VERIFK%u=%u\n", r, r);
			attr.type = KDUMP_BLOB;
			attr.val.blob = kdump_blob_new_dup(data, len);
			free(data);
			if (!attr.val.blob) { fprintf(stderr, "blob\n"); return 2; }
			st = kdump_set_attr(ctx, "linux.vmcoreinfo.raw", &attr);
			printf("%x %d\n", (unsigned)st, msgflag(ctx));
			/* the attribute owns the blob reference now */
		} else if (line[0] == 'P') {
			static const char data[16] = "0123456789abcdef";
			long k = strtol(line + 2, NULL, 10);
			kdump_status st;
			kdump_clear_err(ctx);
			n_alloc = 0;
			fail_at = k;
			st = init_cpu_prstatus(ctx, 0, data, sizeof data);
			fail_at = -1;
			printf("%x %d %ld\n", (unsigned)st, msgflag(ctx), n_alloc);
		} else
			printf("?\n");
		kdump_free(ctx);
	}
	fclose(f);
	close(fd);
	return 0;
}
