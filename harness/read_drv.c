/* Correspondence driver, engine "read" (C12): kdump_read() / kdump_read_string()
 * through the public API on synthetic dump files.
 *
 *   case line:  <mode>[x] <path> <item> <item> ...     (x: set addrxlat.ostype=linux and
 *                                                        forced virt_bits/phys_base first)
 *   mode P (probe), items <as>:<first page addr>:<npages>:<page size>
 *        one full-page kdump_read() per page; output per page "<as>:<addr>:<status>:<hex or ->"
 *        ("short<n>" instead of the hex when the call succeeds with *plength = n != page size)
 *   mode R (read), items <as>:<addr>:<len>          (one context, reads in order)
 *        output per item "<status>,<*plength>,<untouched>,<msg>,<hex of buffer[0..*plength)>"
 *        untouched = 1 iff buffer[*plength..len) still holds the fill pattern
 *   mode S (string), items <as>:<addr>:<k>   k = index of the realloc that fails (-1: none)
 *        output per item "<status>,<msg>,<leak>,<hex of the string or ->"
 *        leak = 1 iff LeakSanitizer finds a block lost during this call
 *   as: 0 KVADDR, 1 KPHYSADDR, 2 MACHPHYSADDR (kdump_addrspace_t values); numbers hex.
 *   msg = 1 iff kdump_get_err() is a non-empty string after the call.
 *
 * read.c is #included with realloc/free renamed (the only allocations in read.c are those
 * of read_string_locked), so that a realloc can be made to fail and every block it hands
 * out is tracked: a block that is neither returned nor freed when kdump_read_string()
 * returns is a leak (the driver then frees it itself).
 */
#include "common.h"
#include <fcntl.h>
#include <unistd.h>

static long fail_at = -1, n_realloc;
#define MAXLIVE 64
static void *live[MAXLIVE];
static size_t live_sz[MAXLIVE];
static int nlive;
static size_t reg_del(void *p)
{
	int i;
	for (i = 0; i < nlive; ++i)
		if (live[i] == p) {
			size_t sz = live_sz[i];
			--nlive;
			live[i] = live[nlive]; live_sz[i] = live_sz[nlive];
			return sz;
		}
	fprintf(stderr, "free/realloc of an untracked block\n");
	abort();
}
static void *verif_realloc(void *p, size_t n)
{
	long i = n_realloc++;
	void *q;
	if (fail_at >= 0 && i == fail_at)
		return NULL;
	/* always move: a stale pointer into the old block must not go unnoticed */
	q = malloc(n ? n : 1);
	if (!q) abort();
	if (p) {
		size_t old = reg_del(p);
		memcpy(q, p, old < n ? old : n);
		free(p);
	}
	if (nlive >= MAXLIVE) abort();
	live[nlive] = q; live_sz[nlive] = n; ++nlive;
	return q;
}
static void verif_free(void *p)
{
	if (p) { reg_del(p); free(p); }
}
#define realloc verif_realloc
#define free verif_free
#include "src/kdumpfile/read.c"
#undef realloc
#undef free

static int msgflag(kdump_ctx_t *ctx)
{
	const char *e = kdump_get_err(ctx);
	return e && *e;
}

static void hexout(const unsigned char *p, size_t n)
{
	static const char d[] = "0123456789abcdef";
	size_t i;
	if (!n) { putchar('-'); return; }
	for (i = 0; i < n; ++i) { putchar(d[p[i] >> 4]); putchar(d[p[i] & 15]); }
}

int main(int argc, char **argv)
{
	FILE *f = fopen(argv[1], "r");
	char *line;
	if (!f) { perror(argv[1]); return 2; }
	setvbuf(stdout, NULL, _IOLBF, 0);
	while ((line = verif_getline(f))) {
		alarm(20);	/* a case takes milliseconds; a spinning library is killed by SIGALRM */
		char *save = NULL, *mode, *path, *tok;
		kdump_ctx_t *ctx;
		kdump_status st;
		int fd, first = 1;
		mode = strtok_r(line, " ", &save);
		path = strtok_r(NULL, " ", &save);
		if (!mode || !path) { putchar('\n'); continue; }
		fd = open(path, O_RDONLY);
		if (fd < 0) { printf("OPEN-FAILED errno\n"); continue; }
		ctx = kdump_new();
		if (!ctx) { printf("NEW-FAILED\n"); close(fd); continue; }
		st = kdump_open_fd(ctx, fd);
		if (st != KDUMP_OK) {
			printf("OPEN-FAILED %d %s\n", (int)st, kdump_get_err(ctx));
			kdump_free(ctx); close(fd); continue;
		}
		if (mode[1] == 'x') {
			/* enough for the Linux/x86-64 translation system to come up without a
			 * VMCOREINFO: KPHYSADDR <-> MACHPHYSADDR and the kernel direct mapping */
			kdump_attr_t a;
			a.type = KDUMP_STRING; a.val.string = "linux";
			st = kdump_set_attr(ctx, "addrxlat.ostype", &a);
			a.type = KDUMP_NUMBER; a.val.number = 48;
			if (st == KDUMP_OK) st = kdump_set_attr(ctx, "addrxlat.force.virt_bits", &a);
			a.type = KDUMP_ADDRESS; a.val.address = 0;
			if (st == KDUMP_OK) st = kdump_set_attr(ctx, "addrxlat.force.phys_base", &a);
			if (st != KDUMP_OK) {
				printf("XLAT-SETUP-FAILED %d %s\n", (int)st, kdump_get_err(ctx));
				kdump_free(ctx); close(fd); continue;
			}
		}
		for (tok = strtok_r(NULL, " ", &save); tok; tok = strtok_r(NULL, " ", &save)) {
			char *s2 = NULL;
			char *f0 = strtok_r(tok, ":", &s2), *f1 = strtok_r(NULL, ":", &s2),
			     *f2 = strtok_r(NULL, ":", &s2), *f3 = strtok_r(NULL, ":", &s2);
			kdump_addrspace_t as = (kdump_addrspace_t)hx(f0);
			kdump_addr_t addr = hx(f1);
			if (!first) putchar(' ');
			first = 0;
			if (mode[0] == 'P') {
				size_t np = hx(f2), ps = hx(f3), i;
				unsigned char *buf = malloc(ps);
				for (i = 0; i < np; ++i) {
					size_t len = ps;
					memset(buf, 0x5a, ps);
					st = kdump_read(ctx, as, addr + i * ps, buf, &len);
					if (i) putchar(' ');
					printf("%x:%" PRIx64 ":%x:", (unsigned)as, (uint64_t)(addr + i * ps), (unsigned)st);
					if (st == KDUMP_OK && len == ps) hexout(buf, ps);
					else if (st == KDUMP_OK) printf("short%zx", len);
					else putchar('-');
				}
				free(buf);
			} else if (mode[0] == 'R') {
				size_t want = hx(f2), len = want, i;
				unsigned char *buf = malloc(want ? want : 1);
				int untouched = 1;
				memset(buf, 0xa5, want);
				st = kdump_read(ctx, as, addr, buf, &len);
				for (i = len; i < want; ++i)
					if (buf[i] != 0xa5) untouched = 0;
				printf("%x,%zx,%d,%d,", (unsigned)st, len, len <= want ? untouched : 0, msgflag(ctx));
				hexout(buf, len <= want ? len : 0);
				free(buf);
			} else if (mode[0] == 'S') {
				char *str = NULL;
				int leak;
				fail_at = -1;
				if (f2[0] != '-') fail_at = (long)hx(f2);
				n_realloc = 0;
				st = kdump_read_string(ctx, as, addr, &str);
				fail_at = -1;
				printf("%x,%d,", (unsigned)st, msgflag(ctx));
				if (st == KDUMP_OK && str) {
					reg_del(str);		/* now owned by the caller */
					leak = nlive;
					printf("%d,", leak ? 1 : 0);
					hexout((unsigned char *)str, strlen(str));
					free(str);
				} else {
					leak = nlive;
					printf("%d,-", leak ? 1 : 0);
				}
				while (nlive) free(live[--nlive]);
			}
		}
		putchar('\n');
		kdump_free(ctx);
		close(fd);
	}
	fclose(f);
	return 0;
}
