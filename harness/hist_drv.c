/* Engine "hist" (C04): the property evaluated on the implementation itself.
 *
 * Public API only.  One case per line:
 *
 *   <file>[,<file>...] [ostype=<s>] | op op op ...
 *
 * The history is run on ONE context ("H" answers); then every observing
 * operation is run again, each on a FRESHLY opened context that is given
 * only the configuration in force at that point (the value of
 * file.zero_excluded, unset if the history never set it) -- "F" answers.  Output: one line per case,
 *
 *   H r1 r2 ... | F r1 r2 ...
 *
 * The orchestrator compares the two halves token by token.  Operations:
 *
 *   R:<as>:<addr>:<len>      kdump_read            -> R<status>:<nread>:<hash>
 *   S:<as>:<addr>            kdump_read_string     -> S<status>:<len>:<hash>
 *   Bg:<map>:<first>:<last>  kdump_bmp_get_bits    -> Bg<status>:<hex bytes>
 *   Bs:<map>:<idx>           kdump_bmp_find_set    -> Bs<status>:<idx>
 *   Bc:<map>:<idx>           kdump_bmp_find_clear  -> Bc<status>:<idx>
 *        map: f = file.pagemap, m = memory.pagemap
 *   A:<key>                  kdump_get_attr        -> A<status>:<type>:<value>
 *   T                        whole attribute tree  -> T<count>:<hash>
 *   C:<n>                    cache.size = n        -> C<status>   (configuration)
 *   M:<p>                    file.mmap_policy = p  -> M<status>   (configuration)
 *   Z:<0|1>                  file.zero_excluded    -> Z<status>   (configuration)
 *
 * All numbers hexadecimal.  The only attributes left out of A/T are the ones
 * the property text exempts (cache hit/miss counters) and the configuration
 * attributes the history itself sets (cache.size, file.mmap_policy).
 *
 * With VERIF_HIST_VERBOSE=1 byte strings are printed in full instead of
 * hashed (used by --replay).
 */
#include "common.h"
#include <fcntl.h>
#include <unistd.h>
#include <libkdumpfile/kdumpfile.h>

static int verbose;

static uint64_t fnv(uint64_t h, const void *p, size_t n)
{
	const unsigned char *s = p;
	while (n--) { h ^= *s++; h *= 0x100000001b3ULL; }
	return h;
}
#define FNV0 0xcbf29ce484222325ULL

static void out_bytes(const void *p, size_t n)
{
	if (verbose) {
		const unsigned char *s = p;
		size_t i;
		for (i = 0; i < n; ++i) printf("%02x", s[i]);
		if (!n) printf("-");
	} else
		printf("%" PRIx64, fnv(FNV0, p, n));
}

#define MAXF 8
struct cfg {
	int nfds; int fds[MAXF];
	const char *ostype;
	int zero_excluded;	/* -1 = never set */
};

static kdump_ctx_t *open_ctx(const struct cfg *c, kdump_status *st)
{
	kdump_ctx_t *ctx = kdump_new();
	if (!ctx) { *st = KDUMP_ERR_SYSTEM; return NULL; }
	if (c->ostype && *c->ostype)
		kdump_set_string_attr(ctx, KDUMP_ATTR_OSTYPE, c->ostype);
	*st = kdump_open_fdset(ctx, c->nfds, c->fds);
	if (*st == KDUMP_OK && c->zero_excluded >= 0)
		kdump_set_number_attr(ctx, KDUMP_ATTR_ZERO_EXCLUDED, c->zero_excluded);
	return ctx;
}

static int exempt(const char *path)
{
	static const char *const ex[] = {
		"cache.hits", "cache.misses", "cache.size",
		"file.mmap_cache.hits", "file.mmap_cache.misses",
		"file.read_cache.hits", "file.read_cache.misses",
		"file.mmap_policy", NULL };
	int i;
	for (i = 0; ex[i]; ++i)
		if (!strcmp(path, ex[i])) return 1;
	return 0;
}

/* canonical value of one attribute; returns hash contribution */
static uint64_t attr_value(kdump_ctx_t *ctx, const char *path, kdump_attr_t *a,
			   int print, unsigned *count);

static uint64_t bmp_value(kdump_bmp_t *bmp, int print)
{
	unsigned char bits[64];
	kdump_addr_t idx = 0;
	uint64_t h = FNV0;
	kdump_status s = kdump_bmp_get_bits(bmp, 0, 8 * sizeof bits - 1, bits);
	h = fnv(h, &s, sizeof s);
	if (s == KDUMP_OK) h = fnv(h, bits, sizeof bits);
	s = kdump_bmp_find_set(bmp, &idx);
	h = fnv(h, &s, sizeof s);
	if (s == KDUMP_OK) h = fnv(h, &idx, sizeof idx);
	if (print) printf("bmp:%" PRIx64, h);
	return h;
}

static uint64_t dir_value(kdump_ctx_t *ctx, const char *path, int print, unsigned *count)
{
	kdump_attr_iter_t it;
	uint64_t h = FNV0;
	unsigned n = 0;
	kdump_status s = kdump_attr_iter_start(ctx, *path ? path : NULL, &it);
	if (s != KDUMP_OK) {
		if (print) printf("dir!%d", (int)s);
		return fnv(h, &s, sizeof s);
	}
	while (it.key) {
		char sub[512];
		kdump_attr_t a;
		if (*path) snprintf(sub, sizeof sub, "%s.%s", path, it.key);
		else snprintf(sub, sizeof sub, "%s", it.key);
		if (!exempt(sub)) {
			uint64_t v;
			s = kdump_attr_ref_get(ctx, &it.pos, &a);
			h = fnv(h, it.key, strlen(it.key) + 1);
			h = fnv(h, &s, sizeof s);
			if (s == KDUMP_OK) {
				if (verbose && !print) printf("\n#   %s = ", sub);
				v = attr_value(ctx, sub, &a, verbose && !print, count);
				h = fnv(h, &v, sizeof v);
			} else if (verbose && !print)
				printf("\n#   %s ! status %d", sub, (int)s);
			++n;
		}
		s = kdump_attr_iter_next(ctx, &it);
		if (s != KDUMP_OK) break;
	}
	kdump_attr_iter_end(ctx, &it);
	if (print) printf("dir:%x:%" PRIx64, n, h);
	return fnv(h, &n, sizeof n);
}

static uint64_t attr_value(kdump_ctx_t *ctx, const char *path, kdump_attr_t *a,
			   int print, unsigned *count)
{
	uint64_t h = FNV0;
	int t = a->type;
	if (count) ++*count;
	h = fnv(h, &t, sizeof t);
	switch (a->type) {
	case KDUMP_NUMBER:
		if (print) printf("n:%" PRIx64, (uint64_t)a->val.number);
		return fnv(h, &a->val.number, sizeof a->val.number);
	case KDUMP_ADDRESS:
		if (print) printf("a:%" PRIx64, (uint64_t)a->val.address);
		return fnv(h, &a->val.address, sizeof a->val.address);
	case KDUMP_STRING:
		if (print) { printf("s:"); out_bytes(a->val.string, strlen(a->val.string)); }
		return fnv(h, a->val.string, strlen(a->val.string));
	case KDUMP_BITMAP: {
		uint64_t v = bmp_value(a->val.bitmap, print);
		return fnv(h, &v, sizeof v);
	}
	case KDUMP_BLOB: {
		size_t sz;
		void *p = kdump_blob_pin(a->val.blob);
		sz = kdump_blob_size(a->val.blob);
		h = fnv(h, &sz, sizeof sz);
		if (p) h = fnv(h, p, sz);
		if (print) { printf("b:%zx:", sz); out_bytes(p ? p : "", p ? sz : 0); }
		kdump_blob_unpin(a->val.blob);
		return h;
	}
	case KDUMP_DIRECTORY: {
		uint64_t v = dir_value(ctx, path, print, count);
		return fnv(h, &v, sizeof v);
	}
	default:
		if (print) printf("nil");
		return h;
	}
}

static kdump_bmp_t *get_map(kdump_ctx_t *ctx, char which, kdump_status *st)
{
	kdump_attr_t a;
	a.type = KDUMP_BITMAP;
	*st = kdump_get_typed_attr(ctx, which == 'm' ? KDUMP_ATTR_MEMORY_PAGEMAP
				   : KDUMP_ATTR_FILE_PAGEMAP, &a);
	return *st == KDUMP_OK ? a.val.bitmap : NULL;
}

/* run one operation; returns 1 if it is an observing operation */
static int is_config(const char *op) { return op[0] == 'C' || op[0] == 'M' || op[0] == 'Z'; }

static void run_op(kdump_ctx_t *ctx, struct cfg *cfg, const char *op)
{
	char buf[256], *f[6];
	int nf = 0;
	char *p;
	kdump_status s;

	snprintf(buf, sizeof buf, "%s", op);
	for (p = strtok(buf, ":"); p && nf < 6; p = strtok(NULL, ":"))
		f[nf++] = p;
	if (!nf) { printf("?"); return; }

	if (!strcmp(f[0], "R") && nf == 4) {
		size_t len = hx(f[3]), got = len;
		unsigned char *b = malloc(len + 1);
		memset(b, 0xa5, len + 1);
		s = kdump_read(ctx, (kdump_addrspace_t)hx(f[1]), hx(f[2]), b, &got);
		printf("R%d:%zx:", (int)s, got);
		out_bytes(b, got <= len ? got : 0);
		if (b[len] != 0xa5) printf(":OVERRUN");
		free(b);
	} else if (!strcmp(f[0], "S") && nf == 3) {
		char *str = NULL;
		s = kdump_read_string(ctx, (kdump_addrspace_t)hx(f[1]), hx(f[2]), &str);
		printf("S%d:", (int)s);
		if (s == KDUMP_OK && str) {
			printf("%zx:", strlen(str));
			out_bytes(str, strlen(str));
			free(str);
		} else
			printf("-");
	} else if (!strcmp(f[0], "Bg") && nf == 4) {
		kdump_bmp_t *bmp = get_map(ctx, f[1][0], &s);
		kdump_addr_t first = hx(f[2]), last = hx(f[3]);
		if (!bmp) { printf("Bg!%d", (int)s); return; }
		if (last < first || last - first > 4095) { printf("Bg?"); return; }
		{
			size_t n = (last - first) / 8 + 1, i;
			unsigned char *raw = malloc(n);
			memset(raw, 0x5a, n);
			s = kdump_bmp_get_bits(bmp, first, last, raw);
			printf("Bg%d:", (int)s);
			if (s == KDUMP_OK)
				for (i = 0; i < n; ++i) printf("%02x", raw[i]);
			free(raw);
		}
	} else if ((!strcmp(f[0], "Bs") || !strcmp(f[0], "Bc")) && nf == 3) {
		kdump_bmp_t *bmp = get_map(ctx, f[1][0], &s);
		kdump_addr_t idx = hx(f[2]);
		if (!bmp) { printf("%s!%d", f[0], (int)s); return; }
		s = f[0][1] == 's' ? kdump_bmp_find_set(bmp, &idx)
			: kdump_bmp_find_clear(bmp, &idx);
		printf("%s%d:%" PRIx64, f[0], (int)s, s == KDUMP_OK ? (uint64_t)idx : 0);
	} else if (!strcmp(f[0], "A") && nf == 2) {
		kdump_attr_t a;
		if (exempt(f[1])) { printf("A-"); return; }
		s = kdump_get_attr(ctx, f[1], &a);
		printf("A%d:", (int)s);
		if (s == KDUMP_OK) attr_value(ctx, f[1], &a, 1, NULL);
	} else if (!strcmp(f[0], "T")) {
		unsigned count = 0;
		uint64_t h = dir_value(ctx, "", 0, &count);
		if (verbose) printf("\n# ");
		printf("T%x:%" PRIx64, count, h);
	} else if (!strcmp(f[0], "C") && nf == 2) {
		s = kdump_set_number_attr(ctx, "cache.size", hx(f[1]));
		printf("C%d", (int)s);
	} else if (!strcmp(f[0], "M") && nf == 2) {
		s = kdump_set_number_attr(ctx, KDUMP_ATTR_FILE_MMAP_POLICY, hx(f[1]));
		printf("M%d", (int)s);
	} else if (!strcmp(f[0], "Z") && nf == 2) {
		cfg->zero_excluded = (int)hx(f[1]);
		s = kdump_set_number_attr(ctx, KDUMP_ATTR_ZERO_EXCLUDED, cfg->zero_excluded);
		printf("Z%d", (int)s);
	} else
		printf("?");
}

#define MAXOPS 4096
int main(int argc, char **argv)
{
	FILE *in;
	char *line;

	setvbuf(stdout, NULL, _IOLBF, 0);
	verbose = getenv("VERIF_HIST_VERBOSE") != NULL;
	if (argc < 2 || !(in = fopen(argv[1], "r"))) {
		fprintf(stderr, "usage: hist_drv <casefile>\n");
		return 2;
	}
	while ((line = verif_getline(in))) {
		static char *ops[MAXOPS];
		static int zstate[MAXOPS];
		struct cfg cfg;
		char *hdr, *body, *p, *tok;
		int nops = 0, i;
		kdump_ctx_t *ctx;
		kdump_status st;

		line = strdup(line);
		memset(&cfg, 0, sizeof cfg);
		cfg.ostype = "";
		hdr = line;
		body = strchr(line, '|');
		if (!body) { printf("BADCASE\n"); free(line); continue; }
		*body++ = 0;

		/* header */
		tok = strtok(hdr, " ");
		while (tok) {
			if (!strncmp(tok, "ostype=", 7))
				cfg.ostype = tok + 7;
			else {
				char *q = tok, *e;
				while (q && *q && cfg.nfds < MAXF) {
					e = strchr(q, ',');
					if (e) *e++ = 0;
					cfg.fds[cfg.nfds] = open(q, O_RDONLY);
					if (cfg.fds[cfg.nfds] < 0) { perror(q); }
					++cfg.nfds;
					q = e;
				}
			}
			tok = strtok(NULL, " ");
		}
		for (p = strtok(body, " "); p && nops < MAXOPS; p = strtok(NULL, " "))
			ops[nops++] = p;

		/* history on one context */
		cfg.zero_excluded = -1;
		ctx = open_ctx(&cfg, &st);
		printf("H");
		if (st != KDUMP_OK) printf(" OPEN%d", (int)st);
		else for (i = 0; i < nops; ++i) {
			printf(" ");
			run_op(ctx, &cfg, ops[i]);
			zstate[i] = cfg.zero_excluded;
		}
		if (ctx) kdump_free(ctx);

		/* every observing operation on a fresh context */
		printf(" | F");
		if (st != KDUMP_OK) printf(" OPEN%d", (int)st);
		else for (i = 0; i < nops; ++i) {
			printf(" ");
			if (is_config(ops[i])) {
				printf("%c0", ops[i][0]);
				continue;
			}
			cfg.zero_excluded = i ? zstate[i - 1] : -1;
			ctx = open_ctx(&cfg, &st);
			if (st != KDUMP_OK) printf("OPEN%d", (int)st);
			else run_op(ctx, &cfg, ops[i]);
			if (ctx) kdump_free(ctx);
		}
		printf("\n");
		for (i = 0; i < cfg.nfds; ++i)
			if (cfg.fds[i] >= 0) close(cfg.fds[i]);
		free(line);
	}
	fclose(in);
	return 0;
}
