/* Correspondence driver for engine "derived" (C14).
 *
 * Real contexts, public API only for every operation; the private header is
 * used to *read* the flags and stored values of arch.page_size/page_shift
 * (persist flag, value kept after a clear), nothing else.
 *
 * Case formats and canonical output: see ml/eng_derived.ml.
 */
#define _GNU_SOURCE
#include "common.h"
#include <unistd.h>
#include <sys/mman.h>
#include <elf.h>
#include <endian.h>
#include "kdumpfile-priv.h"

static unsigned char *unhex(const char *s, size_t *plen)
{
	size_t n, i;
	unsigned char *b;
	if (!strcmp(s, "-")) { *plen = 0; return calloc(1, 1); }
	n = strlen(s) / 2;
	b = malloc(n + 1);
	for (i = 0; i < n; ++i) {
		unsigned v;
		sscanf(s + 2 * i, "%2x", &v);
		b[i] = v;
	}
	b[n] = 0;
	*plen = n;
	return b;
}

static void phex(const void *p, size_t n)
{
	const unsigned char *b = p;
	size_t i;
	if (!n) { putchar('-'); return; }
	for (i = 0; i < n; ++i) printf("%02x", b[i]);
}

static void pview(kdump_ctx_t *ctx, enum global_keyidx idx)
{
	struct attr_data *a = gattr(ctx, idx);
	printf("%d.%d.%llx", a->flags.isset, a->flags.persist,
	       (unsigned long long) attr_value(a)->number);
}

static void ppage(kdump_ctx_t *ctx)
{
	pview(ctx, GKI_page_size); putchar('/'); pview(ctx, GKI_page_shift);
}

static kdump_status clear_key(kdump_ctx_t *ctx, const char *key)
{
	kdump_attr_t a;
	a.type = KDUMP_NIL;
	return kdump_set_attr(ctx, key, &a);
}

/* preorder listing of the set attributes below a directory */
static int first_ent;
static void dump_tree(kdump_ctx_t *ctx, const kdump_attr_ref_t *dir, const char *prefix)
{
	kdump_attr_iter_t it;
	if (kdump_attr_ref_iter_start(ctx, dir, &it) != KDUMP_OK)
		return;
	while (it.key) {
		size_t kl = strlen(it.key), pl = strlen(prefix);
		char *path = malloc(pl + 2 * kl + 4), *q;
		kdump_attr_t v;
		kdump_status st;
		size_t i;
		strcpy(path, prefix);
		q = path + pl;
		if (pl) *q++ = '.';
		if (!kl) *q++ = '-';
		for (i = 0; i < kl; ++i) q += sprintf(q, "%02x", (unsigned char) it.key[i]);
		*q = 0;
		if (!first_ent) putchar(',');
		first_ent = 0;
		st = kdump_attr_ref_get(ctx, &it.pos, &v);
		printf("%s=", path);
		if (st != KDUMP_OK) printf("E%d", (int) st);
		else switch (v.type) {
		case KDUMP_DIRECTORY: putchar('d'); dump_tree(ctx, &it.pos, path); break;
		case KDUMP_STRING: putchar('s'); phex(v.val.string, strlen(v.val.string)); break;
		case KDUMP_NUMBER: printf("n%llx", (unsigned long long) v.val.number); break;
		case KDUMP_ADDRESS: printf("a%llx", (unsigned long long) v.val.address); break;
		default: printf("T%d", (int) v.type);
		}
		free(path);
		if (kdump_attr_iter_next(ctx, &it) != KDUMP_OK)
			break;
	}
	kdump_attr_iter_end(ctx, &it);
}

static void dump_dir(kdump_ctx_t *ctx, const char *os, const char *tag, const char *name)
{
	char key[64];
	kdump_attr_ref_t ref;
	kdump_attr_t v;
	snprintf(key, sizeof key, "%s.vmcoreinfo.%s", os, name);
	printf("%s%d[", tag, kdump_get_attr(ctx, key, &v) == KDUMP_OK);
	first_ent = 1;
	if (kdump_attr_ref(ctx, key, &ref) == KDUMP_OK) {
		dump_tree(ctx, &ref, "");
		kdump_attr_unref(ctx, &ref);
	}
	putchar(']');
}

static void dump_vmci(kdump_ctx_t *ctx, const char *os)
{
	kdump_attr_t v;
	putchar('{');
	dump_dir(ctx, os, "L", "lines"); putchar(';');
	dump_dir(ctx, os, "TL", "LENGTH"); putchar(';');
	dump_dir(ctx, os, "TN", "NUMBER"); putchar(';');
	dump_dir(ctx, os, "TO", "OFFSET"); putchar(';');
	dump_dir(ctx, os, "TS", "SIZE"); putchar(';');
	dump_dir(ctx, os, "TY", "SYMBOL"); putchar(';');
	putchar('P'); ppage(ctx); putchar(';');
	if (kdump_get_attr(ctx, "linux.uts.release", &v) == KDUMP_OK) {
		printf("REL1:"); phex(v.val.string, strlen(v.val.string));
	} else
		printf("REL0:-");
	putchar(';');
	if (kdump_get_attr(ctx, "linux.phys_base", &v) == KDUMP_OK)
		printf("PB%llx", (unsigned long long) v.val.address);
	else
		printf("PBu");
	putchar('}');
}

/* read a numeric attribute through a fresh reference (no by-key read) */
static kdump_status get_by_ref(kdump_ctx_t *ctx, const char *key, kdump_num_t *n)
{
	kdump_attr_ref_t ref;
	kdump_attr_t a;
	kdump_status st = kdump_attr_ref(ctx, key, &ref);
	if (st != KDUMP_OK) return st;
	st = kdump_attr_ref_get(ctx, &ref, &a);
	kdump_attr_unref(ctx, &ref);
	if (st == KDUMP_OK) *n = a.val.number;
	return st;
}

/* ... through the iterator position of its directory; an attribute without a value is
 * not yielded: KDUMP_ERR_NODATA, as a by-key read would say */
static kdump_status get_by_iter(kdump_ctx_t *ctx, const char *key, kdump_num_t *n)
{
	char dir[96];
	const char *leaf = strrchr(key, '.');
	kdump_attr_iter_t it;
	kdump_attr_t a;
	kdump_status st;
	snprintf(dir, sizeof dir, "%.*s", (int) (leaf - key), key);
	st = kdump_attr_iter_start(ctx, dir, &it);
	if (st != KDUMP_OK) return st;
	st = KDUMP_ERR_NODATA;
	while (it.key) {
		if (!strcmp(it.key, leaf + 1)) {
			st = kdump_attr_ref_get(ctx, &it.pos, &a);
			if (st == KDUMP_OK) *n = a.val.number;
			break;
		}
		if (kdump_attr_iter_next(ctx, &it) != KDUMP_OK) break;
	}
	kdump_attr_iter_end(ctx, &it);
	return st;
}

static kdump_status set_by_ref(kdump_ctx_t *ctx, const char *key, kdump_num_t v)
{
	kdump_attr_ref_t ref;
	kdump_attr_t a;
	kdump_status st = kdump_attr_ref(ctx, key, &ref);
	if (st != KDUMP_OK) return st;
	a.type = KDUMP_NUMBER;
	a.val.number = v;
	st = kdump_attr_ref_set(ctx, &ref, &a);
	kdump_attr_unref(ctx, &ref);
	return st;
}

static const char *osname(const char *s) { return *s == 'l' ? "linux" : "xen"; }

static void set_ostype(kdump_ctx_t *ctx, const char *os)
{
	kdump_set_string_attr(ctx, "addrxlat.ostype", osname(os));
}

static void run_ctx(char **ops, int nops)
{
	kdump_ctx_t *ctx = kdump_new();
	int i;
	for (i = 0; i < nops; ++i) {
		char *op = ops[i];
		char *a1 = strchr(op, ':'), *a2 = NULL;
		kdump_status st;
		if (i) putchar(' ');
		if (a1) { *a1++ = 0; a2 = strchr(a1, ':'); if (a2) *a2++ = 0; }
		if (!strcmp(op, "PS") || !strcmp(op, "PH")) {
			st = kdump_set_number_attr(ctx, op[1] == 'S' ? "arch.page_size" : "arch.page_shift", hx(a1));
			printf("%d/", (int) st); ppage(ctx);
		} else if (!strcmp(op, "CS") || !strcmp(op, "CH")) {
			st = clear_key(ctx, op[1] == 'S' ? "arch.page_size" : "arch.page_shift");
			printf("%d/", (int) st); ppage(ctx);
		} else if (!strcmp(op, "REL")) {
			size_t n; unsigned char *s = unhex(a1, &n);
			st = kdump_set_string_attr(ctx, "linux.uts.release", (char *) s);
			free(s);
			printf("%d", (int) st);
		} else if (!strcmp(op, "CREL")) {
			printf("%d", (int) clear_key(ctx, "linux.uts.release"));
		} else if (!strcmp(op, "VC") || !strcmp(op, "VCR") || !strcmp(op, "VCI")) {
			kdump_num_t n = 0;
			st = op[2] == 'R' ? get_by_ref(ctx, "linux.version_code", &n)
				: op[2] == 'I' ? get_by_iter(ctx, "linux.version_code", &n)
				: kdump_get_number_attr(ctx, "linux.version_code", &n);
			printf("%d:%llx", (int) st, st == KDUMP_OK ? (unsigned long long) n : 0ULL);
		} else if (!strcmp(op, "RAW")) {
			size_t n; unsigned char *s = unhex(a2, &n);
			char key[64];
			kdump_attr_t a;
			a.type = KDUMP_BLOB;
			a.val.blob = kdump_blob_new_dup(n ? s : NULL, n);
			free(s);
			snprintf(key, sizeof key, "%s.vmcoreinfo.raw", osname(a1));
			st = kdump_set_attr(ctx, key, &a);
			printf("R%d", (int) st); dump_vmci(ctx, osname(a1));
		} else if (!strcmp(op, "CRAW")) {
			char key[64];
			snprintf(key, sizeof key, "%s.vmcoreinfo.raw", osname(a1));
			st = clear_key(ctx, key);
			printf("R%d", (int) st); dump_vmci(ctx, osname(a1));
		} else if (!strcmp(op, "QR")) {
			char *raw = NULL;
			set_ostype(ctx, a1);
			st = kdump_vmcoreinfo_raw(ctx, &raw);
			printf("%d:", (int) st);
			if (st == KDUMP_OK) { phex(raw, strlen(raw)); free(raw); } else putchar('-');
		} else if (!strcmp(op, "QL")) {
			size_t n; unsigned char *k = unhex(a2, &n);
			char *val = NULL;
			set_ostype(ctx, a1);
			st = kdump_vmcoreinfo_line(ctx, (char *) k, &val);
			free(k);
			printf("%d:", (int) st);
			if (st == KDUMP_OK) { phex(val, strlen(val)); free(val); } else putchar('-');
		} else if (!strcmp(op, "QS")) {
			size_t n; unsigned char *k = unhex(a2, &n);
			kdump_addr_t addr = 0;
			set_ostype(ctx, a1);
			st = kdump_vmcoreinfo_symbol(ctx, (char *) k, &addr);
			free(k);
			printf("%d:%llx", (int) st, st == KDUMP_OK ? (unsigned long long) addr : 0ULL);
		} else
			printf("BADOP");
	}
	kdump_free(ctx);
}

/* ---- registers: an ELF core with one NT_PRSTATUS note, in memory ---- */
static uint16_t f16(int be, uint16_t x) { return be ? htobe16(x) : htole16(x); }
static uint32_t f32(int be, uint32_t x) { return be ? htobe32(x) : htole32(x); }
static uint64_t f64(int be, uint64_t x) { return be ? htobe64(x) : htole64(x); }

static int make_core(int machine, int cls, int be, const unsigned char *blob, size_t len)
{
	static unsigned char buf[0x4000];
	size_t noteoff = 0x200, notesz, pos;
	uint32_t nh[3];
	int fd;
	memset(buf, 0, sizeof buf);
	if (len > 8000) len = 8000;
	notesz = 12 + 8 + ((len + 3) & ~3UL);
	if (cls == 2) {
		Elf64_Ehdr *eh = (Elf64_Ehdr *) buf;
		Elf64_Phdr *ph = (Elf64_Phdr *) (buf + 64);
		memcpy(eh->e_ident, ELFMAG, SELFMAG);
		eh->e_ident[EI_CLASS] = ELFCLASS64;
		eh->e_ident[EI_DATA] = be ? ELFDATA2MSB : ELFDATA2LSB;
		eh->e_ident[EI_VERSION] = EV_CURRENT;
		eh->e_type = f16(be, ET_CORE);
		eh->e_machine = f16(be, machine);
		eh->e_version = f32(be, EV_CURRENT);
		eh->e_phoff = f64(be, 64);
		eh->e_ehsize = f16(be, sizeof *eh);
		eh->e_phentsize = f16(be, sizeof *ph);
		eh->e_phnum = f16(be, 2);
		ph->p_type = f32(be, PT_NOTE);
		ph->p_offset = f64(be, noteoff);
		ph->p_filesz = f64(be, notesz);
		ph->p_memsz = f64(be, notesz);
		ph[1].p_type = f32(be, PT_LOAD);	/* the format wants some content */
		ph[1].p_offset = f64(be, 0x3000);
		ph[1].p_filesz = f64(be, 0x1000);
		ph[1].p_memsz = f64(be, 0x1000);
	} else {
		Elf32_Ehdr *eh = (Elf32_Ehdr *) buf;
		Elf32_Phdr *ph = (Elf32_Phdr *) (buf + 52);
		memcpy(eh->e_ident, ELFMAG, SELFMAG);
		eh->e_ident[EI_CLASS] = ELFCLASS32;
		eh->e_ident[EI_DATA] = be ? ELFDATA2MSB : ELFDATA2LSB;
		eh->e_ident[EI_VERSION] = EV_CURRENT;
		eh->e_type = f16(be, ET_CORE);
		eh->e_machine = f16(be, machine);
		eh->e_version = f32(be, EV_CURRENT);
		eh->e_phoff = f32(be, 52);
		eh->e_ehsize = f16(be, sizeof *eh);
		eh->e_phentsize = f16(be, sizeof *ph);
		eh->e_phnum = f16(be, 2);
		ph->p_type = f32(be, PT_NOTE);
		ph->p_offset = f32(be, noteoff);
		ph->p_filesz = f32(be, notesz);
		ph->p_memsz = f32(be, notesz);
		ph[1].p_type = f32(be, PT_LOAD);
		ph[1].p_offset = f32(be, 0x3000);
		ph[1].p_filesz = f32(be, 0x1000);
		ph[1].p_memsz = f32(be, 0x1000);
	}
	pos = noteoff;
	nh[0] = f32(be, 5); nh[1] = f32(be, len); nh[2] = f32(be, NT_PRSTATUS);
	memcpy(buf + pos, nh, 12); pos += 12;
	memcpy(buf + pos, "CORE\0\0\0\0", 8); pos += 8;
	memcpy(buf + pos, blob, len); pos += (len + 3) & ~3UL;
	fd = memfd_create("verif-core", 0);
	if (fd < 0) return -1;
	(void) pos;
	if (write(fd, buf, sizeof buf) < 0) { close(fd); return -1; }
	return fd;
}

#define MAXDEFS 128
static void run_reg(char **w, int nw)
{
	int machine = atoi(w[0]), cls = atoi(w[1]), be = atoi(w[2]);
	size_t bloblen;
	unsigned char *blob = unhex(w[3], &bloblen);
	char *names[MAXDEFS];
	int ndefs = 0, i, fd;
	kdump_ctx_t *ctx;
	kdump_status st;
	char *d, *save;
	for (d = strtok_r(w[4], ",", &save); d && ndefs < MAXDEFS; d = strtok_r(NULL, ",", &save)) {
		char *c = strchr(d, ':');
		if (c) *c = 0;
		names[ndefs++] = d;
	}
	fd = make_core(machine, cls, be, blob, bloblen);
	free(blob);
	ctx = kdump_new();
	st = kdump_open_fd(ctx, fd);
	if (st != KDUMP_OK) {
		printf("OPEN-FAILED-%d", (int) st);
		fprintf(stderr, "open failed: %s\n", kdump_get_err(ctx));
		kdump_free(ctx); close(fd);
		return;
	}
	for (i = 5; i < nw; ++i) {
		char *op = w[i];
		char *a1 = strchr(op, ':'), *a2 = NULL;
		char key[96];
		kdump_attr_t a;
		if (i > 5) putchar(' ');
		if (a1) { *a1++ = 0; a2 = strchr(a1, ':'); if (a2) *a2++ = 0; }
		if (!strcmp(op, "G") || !strcmp(op, "S") || !strcmp(op, "C") || !strcmp(op, "GR") ||
		    !strcmp(op, "GI") || !strcmp(op, "SR")) {
			int r = atoi(a1);
			if (r < 0 || r >= ndefs) { printf("BADREG"); continue; }
			snprintf(key, sizeof key, "cpu.0.%s", names[r]);
		}
		if (!strcmp(op, "G")) {
			kdump_num_t n = 0;
			st = kdump_get_number_attr(ctx, key, &n);
			printf("%d:%llx", (int) st, st == KDUMP_OK ? (unsigned long long) n : 0ULL);
		} else if (!strcmp(op, "GR") || !strcmp(op, "GI")) {
			/* the same read through a reference / an iterator position */
			kdump_num_t n = 0;
			st = op[1] == 'R' ? get_by_ref(ctx, key, &n) : get_by_iter(ctx, key, &n);
			printf("%d:%llx", (int) st, st == KDUMP_OK ? (unsigned long long) n : 0ULL);
		} else if (!strcmp(op, "SR")) {
			printf("%d", (int) set_by_ref(ctx, key, hx(a2)));
		} else if (!strcmp(op, "S")) {
			printf("%d", (int) kdump_set_number_attr(ctx, key, hx(a2)));
		} else if (!strcmp(op, "C")) {
			printf("%d", (int) clear_key(ctx, key));
		} else if (!strcmp(op, "W")) {
			size_t n, off = strtoul(a1, NULL, 10); unsigned char *b = unhex(a2, &n);
			a.type = KDUMP_BLOB;
			st = kdump_get_typed_attr(ctx, "cpu.0.PRSTATUS", &a);
			if (st == KDUMP_OK && off + n <= kdump_blob_size(a.val.blob)) {
				unsigned char *p = kdump_blob_pin(a.val.blob);
				memcpy(p + off, b, n);
				kdump_blob_unpin(a.val.blob);
				printf("0");
			} else
				printf("3");
			free(b);
		} else if (!strcmp(op, "Z")) {
			size_t n; unsigned char *b = unhex(a1, &n);
			a.type = KDUMP_BLOB;
			st = kdump_get_typed_attr(ctx, "cpu.0.PRSTATUS", &a);
			if (st == KDUMP_OK) {
				if (!n) { free(b); b = NULL; }
				printf("%d", (int) kdump_blob_set(a.val.blob, b, n));
			} else {
				free(b);
				printf("3");
			}
		} else if (!strcmp(op, "P")) {
			size_t n; unsigned char *b = unhex(a1, &n);
			a.type = KDUMP_BLOB;
			a.val.blob = kdump_blob_new_dup(n ? b : NULL, n);
			free(b);
			printf("%d", (int) kdump_set_attr(ctx, "cpu.0.PRSTATUS", &a));
		} else if (!strcmp(op, "X")) {
			printf("%d", (int) clear_key(ctx, "cpu.0.PRSTATUS"));
		} else if (!strcmp(op, "B")) {
			a.type = KDUMP_BLOB;
			st = kdump_get_typed_attr(ctx, "cpu.0.PRSTATUS", &a);
			printf("%d:", (int) st);
			if (st == KDUMP_OK) {
				void *p = kdump_blob_pin(a.val.blob);
				phex(p, kdump_blob_size(a.val.blob));
				kdump_blob_unpin(a.val.blob);
			} else
				putchar('-');
		} else if (!strcmp(op, "O")) {
			printf("%d", (int) kdump_set_number_attr(ctx, "arch.byte_order",
				atoi(a1) ? KDUMP_BIG_ENDIAN : KDUMP_LITTLE_ENDIAN));
		} else
			printf("BADOP");
	}
	kdump_free(ctx);
	close(fd);
}

int main(int argc, char **argv)
{
	FILE *f = argc > 1 ? fopen(argv[1], "r") : stdin;
	char *line;
	if (!f) { perror("open"); return 2; }
	setvbuf(stdout, NULL, _IOLBF, 0);
	while ((line = verif_getline(f))) {
		char **w = NULL;
		int nw = 0, cap = 0;
		char *tok, *save;
		for (tok = strtok_r(line, " ", &save); tok; tok = strtok_r(NULL, " ", &save)) {
			if (nw == cap) { cap = cap ? 2 * cap : 64; w = realloc(w, cap * sizeof *w); }
			w[nw++] = tok;
		}
		if (nw >= 1 && !strcmp(w[0], "CTX"))
			run_ctx(w + 1, nw - 1);
		else if (nw >= 6 && !strcmp(w[0], "REG"))
			run_reg(w + 1, nw - 1);
		else
			printf("BADCASE");
		putchar('\n');
		free(w);
	}
	return 0;
}
