/* Correspondence / enumeration driver, engine "oom" (C18).
 *
 * One case per input line:   <scenario> <n> [args...]
 * The scenario's *target* calls run with "fail the n-th library allocation"
 * (n = 0: never, used to count the allocations).  Each case runs in a forked
 * child so that a crash or a sanitizer report costs one case only.
 *
 * Output, one line per case (tokens):
 *   <scenario> <n> rc=<exit|sig> nalloc=<allocations seen in the target window>
 *     fail=<site>/<caller>|-     failing call's return addresses (hex)
 *     res=<ok|reported|missed:<call>=<status>|nofail>
 *     held=<n>[:names]           locks held when the target returned
 *     leak=<site*count,...>|-    tracked blocks alive after everything was freed
 *     surv=<ok|what failed>      survivors usable and freeable
 *     san=<-|kind@function>      first sanitizer report of the child
 *     ev=<event string>|-        events inside the window (white-box scenarios)
 *     shape=<...>                scenario parameters the model needs
 */
#include "common.h"
#include <fcntl.h>
#include <signal.h>
#include <sys/wait.h>
#include <sys/stat.h>
#include "oom.h"
#include "kdumpfile-priv.h"

static char outbuf[1 << 20];
static size_t outlen;
static void out(const char *fmt, ...)
{
	va_list ap;
	int on = oom_track;
	oom_track = 0;
	va_start(ap, fmt);
	outlen += vsnprintf(outbuf + outlen, sizeof outbuf - outlen, fmt, ap);
	va_end(ap);
	if (outlen >= sizeof outbuf) outlen = sizeof outbuf - 1;
	oom_track = on;
}

/* -------- window control -------- */
static unsigned long want_fail;
static char missed[256];
static int tolerated_shrink;     /* a realloc that only shrinks failed and the call went on (nothing was needed) */
static int any_call_failed_ok;   /* a call saw the injected failure and reported it */
static void win_open(void)  { oom_track = 1; oom_inject = 1; oom_fail_at = want_fail; }
static void win_close(void) { oom_inject = 0; oom_track = 0; }
#define LIB(stmt) do { oom_track = 1; stmt; oom_track = 0; } while (0)

/* a call returning kdump_status inside the window */
static int is_nomem_class(kdump_status st) { return st == KDUMP_ERR_SYSTEM || st == KDUMP_ERR_ADDRXLAT; }
static kdump_status chk_status(const char *name, kdump_status st, unsigned long failed_before)
{
	if (oom_failed_calls != failed_before) {
		if (is_nomem_class(st)) any_call_failed_ok = 1;
		else if (oom_fail_shrink && st == KDUMP_OK) tolerated_shrink = 1;
		else if (!missed[0]) snprintf(missed, sizeof missed, "%s=%d", name, (int)st);
	}
	return st;
}
#define CALL(name, expr) ({ unsigned long fb_ = oom_failed_calls; kdump_status st_ = (expr); chk_status(name, st_, fb_); })
static void chk_ptr(const char *name, const void *p, unsigned long failed_before)
{
	if (oom_failed_calls != failed_before) {
		if (!p) any_call_failed_ok = 1;
		else if (!missed[0]) snprintf(missed, sizeof missed, "%s=nonnull", name);
	}
}
#define CALLP(name, expr) ({ unsigned long fb_ = oom_failed_calls; void *p_ = (expr); chk_ptr(name, p_, fb_); p_; })

static int held_at_return;
static char held_names[256];
static void note_held(void)
{
	int i;
	held_at_return = oom_locks_held();
	held_names[0] = 0;
	for (i = 0; i < oom_nlocks; ++i)
		if (oom_locks[i].rd + oom_locks[i].wr) {
			size_t l = strlen(held_names);
			snprintf(held_names + l, sizeof held_names - l, "%s%s%s", l ? "," : "",
				 oom_locks[i].name ? oom_locks[i].name : "lock",
				 oom_locks[i].wr ? "(w)" : "(r)");
		}
}

static char surv[256] = "ok";
static void surv_fail(const char *fmt, ...)
{
	va_list ap;
	if (strcmp(surv, "ok")) return;
	va_start(ap, fmt); vsnprintf(surv, sizeof surv, fmt, ap); va_end(ap);
	for (char *p = surv; *p; ++p) if (*p == ' ') *p = '_';
}

/* -------- helpers on contexts -------- */
unsigned long verif_cache_refsum(struct cache *cache);       /* hooks/02 */
static int open_policy = -1, open_cache_size;                 /* "never:<n>" variant of a scenario */
/* no cache entry may stay referenced after a call, whether it failed or not */
static void note_refs(kdump_ctx_t *c, const char *who)
{
	struct kdump_shared *sh = c->shared;
	unsigned long pg = sh->cache ? verif_cache_refsum(sh->cache) : 0, mm = 0, rd = 0;
	if (sh->fcache) { mm = verif_cache_refsum(sh->fcache->cache); rd = verif_cache_refsum(sh->fcache->fbcache); }
	if (pg + mm + rd)
		surv_fail("%s leaves cache entries referenced: page=%lu mmap=%lu read=%lu", who, pg, mm, rd);
}
static void parse_open_mode(const char *m)
{
	if (!strncmp(m, "never:", 6)) { open_policy = KDUMP_MMAP_NEVER; open_cache_size = atoi(m + 6); }
}
static kdump_ctx_t *open_ctx(const char *path, int *pfd)
{
	kdump_ctx_t *ctx;
	kdump_status st;
	int fd = open(path, O_RDONLY);
	if (fd < 0) { perror(path); _exit(4); }
	LIB(ctx = kdump_new());
	if (!ctx) { fprintf(stderr, "setup: kdump_new failed\n"); _exit(4); }
	if (open_policy >= 0) {
		LIB(st = kdump_set_number_attr(ctx, "file.mmap_policy", open_policy));
		if (st == KDUMP_OK && open_cache_size) LIB(st = kdump_set_number_attr(ctx, "cache.size", open_cache_size));
		if (st != KDUMP_OK) { fprintf(stderr, "setup: open mode: %s\n", kdump_get_err(ctx)); _exit(4); }
	}
	LIB(st = kdump_open_fd(ctx, fd));
	if (st != KDUMP_OK) { fprintf(stderr, "setup: open %s: %s\n", path, kdump_get_err(ctx)); _exit(4); }
	*pfd = fd;
	return ctx;
}
static void name_ctx_locks(kdump_ctx_t *ctx)
{
	oom_name_lock(&ctx->shared->lock, "shared");
	oom_name_lock(&ctx->shared->cache_lock, "cache");
}
static void set_xlat(kdump_ctx_t *ctx, unsigned long long rootpgt)
{
	kdump_status st = KDUMP_OK;
	LIB(st = kdump_set_number_attr(ctx, KDUMP_ATTR_XLAT_FORCE ".rootpgt.as", ADDRXLAT_MACHPHYSADDR));
	if (st == KDUMP_OK)
		LIB(st = kdump_set_address_attr(ctx, KDUMP_ATTR_XLAT_FORCE ".rootpgt.addr", rootpgt));
	if (st == KDUMP_OK)
		LIB(st = kdump_set_number_attr(ctx, KDUMP_ATTR_XLAT_FORCE ".virt_bits", 48));
	if (st != KDUMP_OK) { fprintf(stderr, "setup: set_xlat: %s\n", kdump_get_err(ctx)); _exit(4); }
}
static void set_rootpgt(kdump_ctx_t *ctx, unsigned long long rootpgt)
{
	LIB(kdump_set_number_attr(ctx, KDUMP_ATTR_XLAT_FORCE ".rootpgt.as", ADDRXLAT_MACHPHYSADDR));
	LIB(kdump_set_address_attr(ctx, KDUMP_ATTR_XLAT_FORCE ".rootpgt.addr", rootpgt));
}
/* read [addr, addr+len) and compare with a reference context opened afresh */
static void compare_read(kdump_ctx_t *ctx, const char *path, kdump_addrspace_t as,
			 unsigned long long addr, size_t len, unsigned long long rootpgt, const char *who)
{
	unsigned char *a = __real_malloc(len ? len : 1), *b = __real_malloc(len ? len : 1);
	size_t la = len, lb = len;
	kdump_status sa, sb;
	int fd;
	kdump_ctx_t *ref = open_ctx(path, &fd);
	if (as == KDUMP_KVADDR) set_xlat(ref, rootpgt);
	LIB(sb = kdump_read(ref, as, addr, b, &lb));
	LIB(sa = kdump_read(ctx, as, addr, a, &la));
	if (sa != sb) surv_fail("%s: read status %d, fresh context gives %d (%s)", who, sa, sb, kdump_get_err(ctx));
	else if (la != lb) surv_fail("%s: read length %zu vs %zu", who, la, lb);
	else if (memcmp(a, b, la)) surv_fail("%s: read bytes differ from a fresh context", who);
	LIB(kdump_free(ref));
	close(fd);
	__real_free(a); __real_free(b);
}

static unsigned long long argull(char **av, int i) { return strtoull(av[i], NULL, 0); }
static kdump_addrspace_t as_of(const char *s)
{
	if (!strcmp(s, "KPHYSADDR")) return KDUMP_KPHYSADDR;
	if (!strcmp(s, "MACHPHYSADDR")) return KDUMP_MACHPHYSADDR;
	if (!strcmp(s, "KVADDR")) return KDUMP_KVADDR;
	return (kdump_addrspace_t)strtoul(s, NULL, 0);
}

/* -------- shapes the model needs (white-box walks of the attribute tree) -------- */
static void shape_subtree(const struct attr_data *a)
{
	/* preorder: D<isset>( children ) | S<isset> string | V<isset> number/address | O other */
	const struct attr_data *c;
	switch (a->template->type) {
	case KDUMP_DIRECTORY:
		out("D%d(", attr_isset(a));
		for (c = a->dir; c; c = c->next) shape_subtree(c);
		out(")");
		break;
	case KDUMP_STRING: out("S%d", attr_isset(a)); break;
	case KDUMP_NUMBER: case KDUMP_ADDRESS: out("V%d", attr_isset(a)); break;
	default: out("O%d", attr_isset(a)); break;
	}
}

static unsigned long sys_digest(addrxlat_sys_t *sys);

/* ======================= scenarios ======================= */
static void sc_new(char **av, int ac)
{
	kdump_ctx_t *ctx;
	win_open();
	ctx = CALLP("kdump_new", kdump_new());
	note_held();
	win_close();
	out(" shape=nr_global:%d", (int)NR_GLOBAL_ATTRS);
	if (ctx) {
		/* option templates of addrxlat.default in creation order: is it a directory */
		const struct attr_data *c; char bits[64]; int nb = 0, i;
		for (c = dgattr(ctx->dict, GKI_dir_xlat_default)->dir; c && nb < 63; c = c->next)
			bits[nb++] = c->template->type == KDUMP_DIRECTORY ? '1' : '0';
		out(";opts:");
		for (i = nb; i-- > 0; ) out("%c", bits[i]);
	}
	if (ctx) {
		const char *s;
		kdump_status st;
		LIB(st = kdump_set_string_attr(ctx, "addrxlat.default.arch", "x86_64"));
		if (st != KDUMP_OK) surv_fail("new context: cannot set an attribute");
		LIB(kdump_free(ctx));
	}
}

static void sc_clone(char **av, int ac)
{
	unsigned long flags = strtoul(av[0], NULL, 0);
	const char *path = av[1];
	unsigned long long rootpgt = ac > 2 ? argull(av, 2) : 0;
	int fd, slot, nslot = 0;
	kdump_ctx_t *ctx = open_ctx(path, &fd), *cl;
	static const enum global_keyidx globals[] = { GKI_dir_xlat_default, GKI_dir_xlat_force, GKI_ostype };
	if (rootpgt) set_xlat(ctx, rootpgt);
	name_ctx_locks(ctx);
	for (slot = 0; slot < PER_CTX_SLOTS; ++slot) if (ctx->shared->per_ctx_size[slot]) ++nslot;
	out(" shape=slots:%d;flags:%lu;", nslot, flags);
	if (flags & KDUMP_CLONE_XLAT) {
		/* per attribute: number of ancestors (below the root) that do not exist in
		 * the clone yet at that time, then the subtree's shape */
		const struct attr_data *done[64]; int ndone = 0;
		unsigned i;
		for (i = 0; i < 3; ++i) {
			const struct attr_data *a = dgattr(ctx->dict, globals[i]), *p;
			int above = 0, j;
			for (p = a->parent; p && p->parent; p = p->parent) {
				for (j = 0; j < ndone; ++j) if (done[j] == p) break;
				if (j == ndone) { ++above; if (ndone < 64) done[ndone++] = p; }
			}
			if (ndone < 64) done[ndone++] = a;
			out("p%d:", above);
			shape_subtree(a);
			out(";");
		}
	}
	win_open();
	cl = CALLP("kdump_clone", kdump_clone(ctx, flags));
	note_held();
	win_close();
	if (!held_at_return) {
		note_refs(ctx, "kdump_clone");
		/* survivors: the original still reads, can be cloned again, both can be freed */
		compare_read(ctx, path, KDUMP_MACHPHYSADDR, 0, 64, rootpgt, "original after clone");
		if (cl) {
			compare_read(cl, path, KDUMP_MACHPHYSADDR, 0, 64, rootpgt, "clone");
			LIB(kdump_free(cl));
		} else {
			kdump_ctx_t *again;
			LIB(again = kdump_clone(ctx, flags));
			if (!again) surv_fail("second kdump_clone without failure returns NULL");
			else LIB(kdump_free(again));
		}
		LIB(kdump_free(ctx));
	} else
		surv_fail("skipped: lock still held");
	close(fd);
}

static int reopen_after_failure;
static void sc_open(char **av, int ac)
{
	const char *path = av[0];
	kdump_ctx_t *ctx;
	kdump_status st;
	struct stat st0, st1;
	off_t pos0, pos1;
	int fd = open(path, O_RDONLY);
	if (fd < 0) { perror(path); _exit(4); }
	LIB(ctx = kdump_new());
	if (!ctx) _exit(4);
	name_ctx_locks(ctx);
	fstat(fd, &st0); pos0 = lseek(fd, 0, SEEK_CUR);
	win_open();
	st = CALL("kdump_open_fd", kdump_open_fd(ctx, fd));
	note_held();
	win_close();
	fstat(fd, &st1); pos1 = lseek(fd, 0, SEEK_CUR);
	if (pos0 != pos1 || st0.st_size != st1.st_size) surv_fail("descriptor repositioned");
	if (!held_at_return) {
		note_refs(ctx, "kdump_open_fd");
		if (st != KDUMP_OK && reopen_after_failure) {
			/* the context survives a failed open: opening again must work */
			LIB(st = kdump_open_fd(ctx, fd));
			if (st != KDUMP_OK) surv_fail("re-open after failed open: %s", kdump_get_err(ctx));
		}
		if (st == KDUMP_OK)
			compare_read(ctx, path, KDUMP_MACHPHYSADDR, 0, 64, 0, "after open");
		/* the file set directory must be well-formed whatever happened: no attribute twice
		 * (the iteration shows the attributes that have a value) */
		{
			kdump_attr_iter_t it; kdump_status s2; int nfd = 0, nname = 0, nother = 0;
			LIB(s2 = kdump_attr_iter_start(ctx, "file.set.0", &it));
			if (s2 == KDUMP_OK) {
				while (it.key) {
					if (!strcmp(it.key, "fd")) ++nfd; else if (!strcmp(it.key, "name")) ++nname; else ++nother;
					LIB(s2 = kdump_attr_iter_next(ctx, &it));
					if (s2 != KDUMP_OK) break;
				}
				LIB(kdump_attr_iter_end(ctx, &it));
				if (nfd > 1 || nname > 1)
					surv_fail("file.set.0 has %d fd and %d name attributes", nfd, nname);
			} else
				LIB(kdump_clear_err(ctx));
		}
		LIB(kdump_free(ctx));
	} else
		surv_fail("skipped: lock still held");
	close(fd);
}

static void sc_reopen(char **av, int ac) { reopen_after_failure = 1; sc_open(av, ac); }

/* a second dump opened in a context that has one open already (first A, then B under
 * failure): the first format's resources must be released whatever happens; after a failed
 * open of B the context must still open B (and read what a fresh context reads) */
static void sc_reopen2(char **av, int ac)
{
	const char *patha = av[0], *pathb = av[1];
	int fda, fdb;
	kdump_ctx_t *ctx = open_ctx(patha, &fda), *cl = NULL;
	kdump_status st;
	unsigned char buf[64]; size_t l = sizeof buf;
	fdb = open(pathb, O_RDONLY);
	if (fdb < 0) { perror(pathb); _exit(4); }
	LIB(kdump_read(ctx, KDUMP_MACHPHYSADDR, 0x1000, buf, &l));
	if (ac > 2 && atoi(av[2])) LIB(cl = kdump_clone(ctx, atoi(av[2]) - 1));
	name_ctx_locks(ctx);
	win_open();
	st = CALL("kdump_open_fd", kdump_open_fd(ctx, fdb));
	note_held();
	win_close();
	if (!held_at_return) {
		note_refs(ctx, "kdump_open_fd (second dump)");
		if (st != KDUMP_OK) {
			LIB(st = kdump_open_fd(ctx, fdb));
			if (st != KDUMP_OK) surv_fail("second dump cannot be opened after the failed attempt: %s", kdump_get_err(ctx));
		}
		if (st == KDUMP_OK) {
			compare_read(ctx, pathb, KDUMP_MACHPHYSADDR, 0x1000, 64, 0, "after re-open");
			if (cl) compare_read(cl, pathb, KDUMP_MACHPHYSADDR, 0x1000, 64, 0, "clone after re-open");
		}
		if (cl) LIB(kdump_free(cl));
		LIB(kdump_free(ctx));
	} else
		surv_fail("skipped: lock still held");
	close(fda); close(fdb);
}

static void sc_read(char **av, int ac)
{
	const char *path = av[0];
	kdump_addrspace_t as = as_of(av[1]);
	unsigned long long addr = argull(av, 2), rootpgt = ac > 4 ? argull(av, 4) : 0;
	size_t len = argull(av, 3), l = len;
	unsigned char *buf = __real_malloc(len + 1);
	int fd;
	kdump_ctx_t *ctx = open_ctx(path, &fd);
	kdump_status st;
	if (as == KDUMP_KVADDR) set_xlat(ctx, rootpgt);
	name_ctx_locks(ctx);
	win_open();
	st = CALL("kdump_read", kdump_read(ctx, as, addr, buf, &l));
	if (st != KDUMP_OK && getenv("OOM_VERBOSE")) fprintf(stderr, "kdump_read: %s\n", kdump_get_err(ctx));
	note_held();
	win_close();
	if (!held_at_return) {
		note_refs(ctx, "kdump_read");
		compare_read(ctx, path, as, addr, len, rootpgt, "read after failed read");
		LIB(kdump_free(ctx));
	} else
		surv_fail("skipped: lock still held");
	close(fd);
	__real_free(buf);
}

static void sc_readstr(char **av, int ac)
{
	const char *path = av[0];
	kdump_addrspace_t as = as_of(av[1]);
	unsigned long long addr = argull(av, 2);
	int fd, i;
	kdump_ctx_t *ctx;
	kdump_status st;
	char *s = NULL;
	unsigned long long rootpgt = ac > 3 ? argull(av, 3) : 0;
	if (ac > 4) parse_open_mode(av[4]);
	ctx = open_ctx(path, &fd);
	if (as == KDUMP_KVADDR) set_xlat(ctx, rootpgt);
	name_ctx_locks(ctx);
	win_open();
	st = CALL("kdump_read_string", kdump_read_string(ctx, as, addr, &s));
	note_held();
	win_close();
	if (st == KDUMP_OK) LIB(free(s));
	if (!held_at_return) note_refs(ctx, "kdump_read_string");
	if (!held_at_return && ac > 4) {
		/* the caches are small: entries lost by the failed call would make these BUSY */
		for (i = 0; i < 24 && !strcmp(surv, "ok"); ++i) {
			char *t = NULL; kdump_status s2;
			LIB(s2 = kdump_read_string(ctx, KDUMP_MACHPHYSADDR, (i % 6) * 0x1000ULL, &t));
			if (s2 == KDUMP_OK) LIB(free(t));
			else if (s2 == KDUMP_ERR_BUSY) surv_fail("read_string #%d after the failed one: %s", i, kdump_get_err(ctx));
		}
	}
	if (!held_at_return) {
		compare_read(ctx, path, as, addr, 16, rootpgt, "read after read_string");
		LIB(kdump_free(ctx));
	}
	close(fd);
}

static void sc_attrs(char **av, int ac)
{
	const char *path = av[0];
	static const char vmci[] = "OSRELEASE=1.2.3-oom\nPAGESIZE=4096\nSYMBOL(swapper_pg_dir)=ffffffff81c0a000\n"
		"LENGTH(mem_section)=2048\nNUMBER(phys_base)=16\nOFFSET(page.flags)=0\nSIZE(page)=64\n";
	int fd;
	kdump_ctx_t *ctx = open_ctx(path, &fd);
	kdump_attr_t attr;
	kdump_attr_ref_t ref;
	kdump_attr_iter_t it;
	kdump_status st;
	kdump_blob_t *blob;
	const char *s;
	kdump_num_t num;
	name_ctx_locks(ctx);
	win_open();
	st = CALL("set_string", kdump_set_string_attr(ctx, "addrxlat.default.arch", "x86_64"));
	st = CALL("set_string(replace)", kdump_set_string_attr(ctx, "addrxlat.default.arch", "a longer value"));
	st = CALL("set_number(cache.size)", kdump_set_number_attr(ctx, "cache.size", 4));
	blob = CALLP("blob_new_dup", kdump_blob_new_dup(vmci, sizeof vmci - 1));
	if (blob) {
		attr.type = KDUMP_BLOB; attr.val.blob = blob;
		kdump_blob_incref(blob);	/* set_attr steals one reference, also on failure */
		st = CALL("set_attr(linux.vmcoreinfo.raw)", kdump_set_attr(ctx, "linux.vmcoreinfo.raw", &attr));
		kdump_blob_decref(blob);
		CALL("get_string(lines)", kdump_get_string_attr(ctx, "linux.vmcoreinfo.lines.OSRELEASE", &s));
	}
	st = CALL("attr_ref", kdump_attr_ref(ctx, "linux.uts", &ref));
	if (st == KDUMP_OK) {
		attr.type = KDUMP_STRING; attr.val.string = "node2";
		CALL("set_sub_attr", kdump_set_sub_attr(ctx, &ref, "nodename", &attr));
		kdump_attr_unref(ctx, &ref);
	}
	st = CALL("iter_start", kdump_attr_iter_start(ctx, "linux.vmcoreinfo.lines", &it));
	if (st == KDUMP_OK) {
		while (it.key && CALL("iter_next", kdump_attr_iter_next(ctx, &it)) == KDUMP_OK)
			;
		kdump_attr_iter_end(ctx, &it);
	}
	CALL("clear_attr", kdump_clear_attr(ctx, "linux.uts.nodename"));
	CALL("get_string", kdump_get_string_attr(ctx, "addrxlat.default.arch", &s));
	CALL("get_number", kdump_get_number_attr(ctx, "cache.size", &num));
	note_held();
	win_close();
	if (!held_at_return) {
		note_refs(ctx, "attribute calls");
		LIB(st = kdump_set_string_attr(ctx, "linux.uts.domainname", "after"));
		if (st != KDUMP_OK) surv_fail("set after failure: %s", kdump_get_err(ctx));
		LIB(st = kdump_get_string_attr(ctx, "linux.uts.domainname", &s));
		if (st != KDUMP_OK || strcmp(s, "after")) surv_fail("get after failure");
		compare_read(ctx, path, KDUMP_MACHPHYSADDR, 0, 64, 0, "read after attribute ops");
		LIB(kdump_free(ctx));
	}
	close(fd);
}

static void sc_pagemap(char **av, int ac)
{
	const char *path = av[0];
	int fd;
	kdump_ctx_t *ctx = open_ctx(path, &fd);
	kdump_attr_t attr;
	kdump_status st;
	static unsigned char bits[0x3000 / 8];
	kdump_addr_t idx = 0;
	static const char *keys[] = { "memory.pagemap", "file.pagemap" };
	unsigned i;
	name_ctx_locks(ctx);
	win_open();
	for (i = 0; i < 2; ++i) {
		st = CALL(keys[i], kdump_get_attr(ctx, keys[i], &attr));
		if (st == KDUMP_OK && attr.type == KDUMP_BITMAP) {
			CALL("bmp_get_bits", kdump_bmp_get_bits(attr.val.bitmap, 0, 0x2fff, bits));
			idx = 0;
			CALL("bmp_find_set", kdump_bmp_find_set(attr.val.bitmap, &idx));
			idx = 0;
			kdump_bmp_find_clear(attr.val.bitmap, &idx);
		}
	}
	note_held();
	win_close();
	if (!held_at_return) {
		note_refs(ctx, "page map calls");
		LIB(st = kdump_get_attr(ctx, "memory.pagemap", &attr));
		if (st == KDUMP_OK) {
			idx = 0;
			LIB(st = kdump_bmp_find_set(attr.val.bitmap, &idx));
			if (st != KDUMP_OK) surv_fail("find_set after failure: %s", kdump_bmp_get_err(attr.val.bitmap));
		}
		compare_read(ctx, path, KDUMP_MACHPHYSADDR, 0, 64, 0, "read after pagemap");
		LIB(kdump_free(ctx));
	}
	close(fd);
}

static void sc_vmcoreinfo(char **av, int ac)
{
	const char *path = av[0];
	int fd;
	kdump_ctx_t *ctx = open_ctx(path, &fd);
	kdump_status st;
	char *raw = NULL, *line = NULL;
	kdump_addr_t sym;
	name_ctx_locks(ctx);
	win_open();
	st = CALL("vmcoreinfo_raw", kdump_vmcoreinfo_raw(ctx, &raw));
	if (st == KDUMP_OK) free(raw);
	st = CALL("vmcoreinfo_line", kdump_vmcoreinfo_line(ctx, "OSRELEASE", &line));
	if (st == KDUMP_OK) free(line);
	CALL("vmcoreinfo_symbol", kdump_vmcoreinfo_symbol(ctx, "swapper_pg_dir", &sym));
	note_held();
	win_close();
	if (!held_at_return) {
		note_refs(ctx, "vmcoreinfo calls");
		compare_read(ctx, path, KDUMP_MACHPHYSADDR, 0, 64, 0, "read after vmcoreinfo");
		LIB(kdump_free(ctx));
	}
	close(fd);
}

/* utsname <path> <rootpgt>: setting the OS type on a dump that has no utsname of its own but a
 * VMCOREINFO with SYMBOL(init_uts_ns): the post-set hook resolves the symbol through the
 * translation callbacks, sets the translation up and reads struct new_utsname through it */
static void sc_utsname(char **av, int ac)
{
	static const char vmci[] = "PAGESIZE=4096\nSYMBOL(init_uts_ns)=fc\n";
	const char *path = av[0];
	int fd;
	kdump_ctx_t *ctx = open_ctx(path, &fd);
	kdump_status st, st2 = KDUMP_OK;
	kdump_attr_t attr;
	kdump_blob_t *blob;
	const char *rel = NULL;
	set_xlat(ctx, argull(av, 1));
	LIB(blob = kdump_blob_new_dup(vmci, sizeof vmci - 1));
	if (!blob) _exit(4);
	attr.type = KDUMP_BLOB; attr.val.blob = blob;
	LIB(st = kdump_set_attr(ctx, "linux.vmcoreinfo.raw", &attr));      /* takes the reference */
	if (st != KDUMP_OK) { fprintf(stderr, "setup: vmcoreinfo: %s\n", kdump_get_err(ctx)); _exit(4); }
	name_ctx_locks(ctx);
	win_open();
	st = CALL("set addrxlat.ostype", kdump_set_string_attr(ctx, "addrxlat.ostype", "linux"));
	note_held();
	win_close();
	if (!held_at_return) {
		note_refs(ctx, "set addrxlat.ostype");
		LIB(st2 = kdump_get_string_attr(ctx, "linux.uts.release", &rel));
		out(" shape=st:%d;uts:%s", (int)st, st2 == KDUMP_OK ? rel : "-");
		if (st == KDUMP_OK && (st2 != KDUMP_OK || strcmp(rel, "5.6.7-res")))
			surv_fail("addrxlat.ostype was set but linux.uts.release is %s", st2 == KDUMP_OK ? rel : "unset");
		if (st != KDUMP_OK) {
			/* the same call again: reported, not judged (see design.d/C18.md) */
			LIB(st = kdump_set_string_attr(ctx, "addrxlat.ostype", "linux"));
			LIB(st2 = kdump_get_string_attr(ctx, "linux.uts.release", &rel));
			out(";retry:%d/%d", (int)st, (int)st2);
			LIB(kdump_clear_err(ctx));
		}
		LIB(kdump_free(ctx));
	}
	close(fd);
}

/* kdump_get_addrxlat: initialises the translation system of the dump's architecture / OS */
static void sc_getxlat(char **av, int ac)
{
	const char *path = av[0];
	int fd, fd2;
	kdump_ctx_t *ctx = open_ctx(path, &fd), *ref;
	addrxlat_ctx_t *ax = NULL; addrxlat_sys_t *sys = NULL;
	kdump_status st, st2, st3;
	const char *ostype = ac > 1 && strcmp(av[1], "-") ? av[1] : NULL;
	unsigned long long rootpgt = ac > 2 ? argull(av, 2) : 0;
	if (rootpgt) set_rootpgt(ctx, rootpgt);
	name_ctx_locks(ctx);
	win_open();
	/* setting the OS type re-reads the utsname through the translation: the set-up runs here */
	if (ostype) CALL("set addrxlat.ostype", kdump_set_string_attr(ctx, "addrxlat.ostype", ostype));
	st = CALL("kdump_get_addrxlat", kdump_get_addrxlat(ctx, &ax, &sys));
	note_held();
	win_close();
	if (st == KDUMP_OK) { LIB(addrxlat_sys_decref(sys)); LIB(addrxlat_ctx_decref(ax)); }
	if (!held_at_return) {
		note_refs(ctx, "kdump_get_addrxlat");
		unsigned long d1 = 0, d2 = 0;
		ref = open_ctx(path, &fd2);
		if (rootpgt) set_rootpgt(ref, rootpgt);
		if (ostype) LIB(kdump_set_string_attr(ref, "addrxlat.ostype", ostype));
		LIB(st3 = kdump_get_addrxlat(ref, &ax, &sys));
		if (st3 == KDUMP_OK) { d2 = sys_digest(sys); LIB(addrxlat_sys_decref(sys)); LIB(addrxlat_ctx_decref(ax)); }
		if (ostype) LIB(kdump_set_string_attr(ctx, "addrxlat.ostype", ostype));
		LIB(st2 = kdump_get_addrxlat(ctx, &ax, &sys));
		if (st2 == KDUMP_OK) { d1 = sys_digest(sys); LIB(addrxlat_sys_decref(sys)); LIB(addrxlat_ctx_decref(ax)); }
		/* only where a fresh context can set the translation up at all: a context whose
		 * set-up fails for another reason is (by design) not set up again on the next call */
		if (oom_failed_calls && st3 == KDUMP_OK) {
			if (st2 != st3) surv_fail("kdump_get_addrxlat repeated gives status %d, a fresh context %d (%s)", st2, st3, kdump_get_err(ctx));
			else if (d1 != d2) surv_fail("kdump_get_addrxlat repeated builds a different translation system");
		}
		out(" shape=st:%d;ref:%d", (int)st, (int)st3);
		LIB(kdump_free(ref)); close(fd2);
		LIB(kdump_free(ctx));
	}
	close(fd);
}

static void sc_free(char **av, int ac)
{
	const char *path = av[0];
	int fd;
	kdump_ctx_t *ctx = open_ctx(path, &fd), *cl;
	unsigned char buf[64]; size_t l = sizeof buf;
	LIB(cl = kdump_clone(ctx, KDUMP_CLONE_XLAT));
	LIB(kdump_read(ctx, KDUMP_MACHPHYSADDR, 0, buf, &l));
	win_open();
	kdump_free(ctx);
	if (cl) kdump_free(cl);
	note_held();
	win_close();
	close(fd);
}

/* ---- white-box scenarios: internal constructors, event trace compared with the model ---- */
static void sc_wb_xlat(char **av, int ac)
{
	int clone = atoi(av[0]);
	struct kdump_xlat *orig = NULL, *x;
	if (clone) { LIB(orig = xlat_new()); if (!orig) _exit(4); orig->xlat_caps = 5; }
	win_open();
	x = clone ? CALLP("xlat_clone", xlat_clone(orig)) : CALLP("xlat_new", xlat_new());
	note_held();
	win_close();
	if (x) {
		if (clone && (!x->dirty || x->xlat_caps != 5)) surv_fail("clone lacks caps/dirty");
		LIB(xlat_decref(x));
	}
	if (orig) LIB(xlat_decref(orig));
}

static void sc_wb_fcache_new(char **av, int ac)
{
	unsigned nfds = atoi(av[0]), n = atoi(av[1]), order = atoi(av[2]);
	int fds[8] = { 0, 0, 0, 0, 0, 0, 0, 0 };
	struct fcache *fc;
	win_open();
	fc = CALLP("fcache_new", fcache_new(nfds, fds, n, order));
	note_held();
	win_close();
	if (fc) LIB(fcache_decref(fc));
}

/* wb_chunk <prefetch order> <pos> <len>: fcache_get_chunk over a chunk that crosses file-cache
 * block boundaries, read(2) cache only; the blocks are cached beforehand in the given order
 * (digits = block numbers), so that their buffers are not adjacent and the chunk has to be
 * copied out.  Whatever allocation fails, no cache entry may stay referenced. */
static void sc_wb_chunk(char **av, int ac)
{
	char path[] = "/tmp/res-oomchunk-XXXXXX";
	int fd = mkstemp(path), i;
	size_t pgsz = sysconf(_SC_PAGESIZE);
	off_t pos = argull(av, 1); size_t len = argull(av, 2), k;
	struct fcache *fc; struct fcache_chunk fch; struct fcache_entry fce;
	kdump_status st;
	unsigned long refs;
	unlink(path);
	{
		char *pg = __real_malloc(pgsz);
		for (i = 0; i < 6; ++i) { memset(pg, 'a' + i, pgsz); if (write(fd, pg, pgsz) < 0) _exit(4); }
		__real_free(pg);
	}
	LIB(fc = fcache_new(1, &fd, 8, 0));
	if (!fc) _exit(4);
	fc->mmap_policy.number = KDUMP_MMAP_NEVER;
	for (i = 0; av[0][i] >= '0' && av[0][i] <= '5'; ++i) {
		LIB(st = fcache_get(fc, &fce, 0, (off_t)(av[0][i] - '0') * pgsz));
		if (st != KDUMP_OK) _exit(4);
		LIB(fcache_put(&fce));
	}
	win_open();
	{
		unsigned long fb = oom_failed_calls;
		st = fcache_get_chunk(fc, &fch, len, 0, pos);
		if (oom_failed_calls != fb) {
			if (st == KDUMP_ERR_SYSTEM) any_call_failed_ok = 1;
			else if (!missed[0]) snprintf(missed, sizeof missed, "fcache_get_chunk=%d", (int)st);
		}
	}
	note_held();
	win_close();
	out(" shape=st:%d;geom:%s", (int)st, st != KDUMP_OK ? "-" : fch.nent > MAX_EMBED_FCES ? "array" : fch.nent ? "embed" : "copy");
	if (st == KDUMP_OK) {
		for (k = 0; k < len; ++k)
			if (((unsigned char *)fch.data)[k] != 'a' + (pos + k) / pgsz) { surv_fail("chunk data differ at %zu", k); break; }
		LIB(fcache_put_chunk(&fch));
	}
	refs = verif_cache_refsum(fc->cache) + verif_cache_refsum(fc->fbcache);
	if (refs) surv_fail("fcache_get_chunk (status %d) leaves %lu cache entries referenced", (int)st, refs);
	else {
		/* the cache is still usable: the same chunk can be had now */
		LIB(st = fcache_get_chunk(fc, &fch, len, 0, pos));
		if (st != KDUMP_OK) surv_fail("fcache_get_chunk repeated: status %d", (int)st);
		else LIB(fcache_put_chunk(&fch));
	}
	LIB(fcache_decref(fc));
	close(fd);
}

static void sc_wb_cache_alloc(char **av, int ac)
{
	unsigned n = atoi(av[0]); size_t size = argull(av, 1);
	struct cache *c;
	win_open();
	c = CALLP("cache_alloc", cache_alloc(n, size));
	note_held();
	win_close();
	if (c) LIB(cache_free(c));
}

static void sc_wb_pfn_regions(char **av, int ac)
{
	unsigned long cnt = argull(av, 0), i, added = 0;
	struct pfn_file_map map;
	memset(&map, 0, sizeof map);
	win_open();
	for (i = 0; i < cnt; ++i) {
		struct pfn_region rgn = { .pfn = 2 * added, .cnt = 1, .pos = i << 12 };
		struct pfn_region *old = map.regions;
		size_t oldn = map.nregions;
		struct pfn_region *r = CALLP("add_pfn_region", add_pfn_region(&map, &rgn));
		if (!r) {
			if (map.regions != old || map.nregions != oldn)
				surv_fail("map changed by a failed add_pfn_region");
		}
		if (r) ++added;
	}
	note_held();
	win_close();
	for (i = 0; i < map.nregions; ++i)
		if (map.regions[i].pfn != 2 * i) { surv_fail("region %lu corrupted", i); break; }
	if (added != map.nregions || added + oom_failed_calls != cnt) surv_fail("regions lost");
	out(" shape=nregions:%zu", map.nregions);
	LIB(free(map.regions));
}

static void sc_wb_dict(char **av, int ac)
{
	int clone = atoi(av[0]);
	kdump_ctx_t *ctx;
	struct attr_dict *d;
	LIB(ctx = kdump_new());
	if (!ctx) _exit(4);
	name_ctx_locks(ctx);
	out(" shape=nr_global:%d", (int)NR_GLOBAL_ATTRS);
	win_open();
	d = clone ? CALLP("attr_dict_clone", attr_dict_clone(ctx->dict))
		  : CALLP("attr_dict_new", attr_dict_new(ctx->shared));
	note_held();
	win_close();
	if (d) LIB(attr_dict_decref(d));
	LIB(kdump_free(ctx));
}

/* create_attr_path(dict, root, path, tmpl) then, on failure, again without failure */
static void sc_wb_create_path(char **av, int ac)
{
	const char *path = av[0];
	static const struct attr_template tmpl = { .type = KDUMP_NUMBER };
	kdump_ctx_t *ctx;
	struct attr_data *a, *root;
	const char *p;
	int missing = 0, plen;
	LIB(ctx = kdump_new());
	if (!ctx) _exit(4);
	root = dgattr(ctx->dict, GKI_dir_root);
	/* number of trailing components that do not exist yet */
	for (plen = strlen(path); plen > 0; ) {
		if (lookup_dir_attr(ctx->dict, root, path, plen)) break;
		++missing;
		p = memrchr(path, '.', plen);
		plen = p ? p - path : 0;
	}
	out(" shape=missing:%d", missing);
	win_open();
	a = CALLP("create_attr_path", create_attr_path(ctx->dict, root, path, strlen(path), &tmpl));
	note_held();
	win_close();
	if (!a) {
		if (lookup_attr(ctx->dict, path) && attr_isset(lookup_attr(ctx->dict, path)))
			surv_fail("path visible after failed create");
		LIB(a = create_attr_path(ctx->dict, root, path, strlen(path), &tmpl));
		if (!a) surv_fail("retry failed");
	}
	if (a && lookup_attr(ctx->dict, path) != a) surv_fail("created attribute not found by lookup");
	LIB(kdump_free(ctx));
}

/* clone_attr_path(clone dict, attribute of the original) */
static void sc_wb_clone_path(char **av, int ac)
{
	const char *key = av[0];
	kdump_ctx_t *ctx;
	struct attr_dict *d;
	struct attr_data *orig, *a;
	const struct attr_data *p;
	int depth = 0;
	LIB(ctx = kdump_new());
	if (!ctx) _exit(4);
	LIB(kdump_set_string_attr(ctx, "addrxlat.default.arch", "x86_64"));
	LIB(kdump_set_number_attr(ctx, "addrxlat.default.rootpgt.as", 1));
	LIB(kdump_set_string_attr(ctx, "linux.uts.sysname", "Linux"));
	LIB(kdump_set_string_attr(ctx, "linux.uts.nodename", "node"));
	LIB(d = attr_dict_clone(ctx->dict));
	if (!d) _exit(4);
	orig = lookup_attr(ctx->dict, key);
	if (!orig) { fprintf(stderr, "no attribute %s\n", key); _exit(4); }
	for (p = orig->parent; p && p->parent; p = p->parent) ++depth;
	out(" shape=p%d:", depth);
	shape_subtree(orig);
	win_open();
	a = CALLP("clone_attr_path", clone_attr_path(d, orig));
	note_held();
	win_close();
	if (!a) {
		/* the clone dictionary must still be usable: the same clone again */
		LIB(a = clone_attr_path(d, orig));
		if (!a) surv_fail("retry failed");
	}
	if (a) {
		struct attr_data *f = lookup_attr(d, key);
		if (f != a) surv_fail("cloned attribute not found by lookup in the clone");
	}
	LIB(attr_dict_decref(d));
	LIB(kdump_free(ctx));
}

/* addrxlat_map_set histories (the interface's one atomicity promise): the ops a:e:m
 * (hex start, end offset, method; -1 = none) are applied in order to a new map, with
 * the n-th allocation of the whole history failing.  Every step reports its status and
 * the exposed range list afterwards; a step that reported NOMEM must have left the
 * list bit-identical (checked here and, by the orchestrator, with the C10 spec). */
static void sc_wb_map_seq(char **av, int ac)
{
	addrxlat_map_t *map;
	char *save = NULL, *t;
	LIB(map = addrxlat_map_new());
	if (!map) _exit(4);
	out(" mapsteps=");
	win_open();
	for (t = strtok_r(av[0], ",", &save); t; t = strtok_r(NULL, ",", &save)) {
		unsigned long long a, e; long long m;
		addrxlat_range_t r, *before = NULL;
		const addrxlat_range_t *rg;
		size_t nb, i, n;
		addrxlat_status st;
		unsigned long fb = oom_failed_calls;
		if (sscanf(t, "%llx:%llx:%lld", &a, &e, &m) != 3) _exit(5);
		nb = addrxlat_map_len(map);
		oom_track = 0;
		before = __real_malloc((nb + 1) * sizeof *before);
		memcpy(before, addrxlat_map_ranges(map), nb * sizeof *before);
		oom_track = 1;
		r.endoff = e; r.meth = (addrxlat_sys_meth_t)m;
		st = addrxlat_map_set(map, a, &r);
		if (oom_failed_calls != fb) {
			if (st == ADDRXLAT_ERR_NOMEM) any_call_failed_ok = 1;
			else if (!missed[0]) snprintf(missed, sizeof missed, "addrxlat_map_set=%d", (int)st);
		}
		n = addrxlat_map_len(map); rg = addrxlat_map_ranges(map);
		if (st != ADDRXLAT_OK && (n != nb || memcmp(before, rg, n * sizeof *rg)))
			surv_fail("map changed by a failed addrxlat_map_set (%zu -> %zu ranges)", nb, n);
		out("S%d=", (int)st);
		for (i = 0; i < n; ++i) {
			out("%s%llx:", i ? "," : "", (unsigned long long)rg[i].endoff);
			if ((long long)rg[i].meth < 0) out("-%llx", (unsigned long long)-(long long)rg[i].meth);
			else out("%llx", (unsigned long long)rg[i].meth);
		}
		out(";");
		oom_track = 0; __real_free(before); oom_track = 1;
	}
	note_held();
	win_close();
	LIB(addrxlat_map_decref(map));
}

/* addrxlat_sys_os_init, pure libaddrxlat (no callbacks: every read / symbol lookup fails
 * with NODATA, which the OS set-up code must cope with).  Options: comma separated
 * arch=,ostype=,osver=,page_shift=,virt_bits=,phys_bits=,phys_base=,xen_xlat=,rootpgt=<as>:<addr>.
 * Reports the status and a digest of the resulting system (maps' range lists, method kinds);
 * after a failed call the same call is repeated without failure and must give what a fresh
 * system gives. */
static unsigned long sys_digest(addrxlat_sys_t *sys)
{
	unsigned long h = 1469598103UL; unsigned i; size_t j;
	for (i = 0; i < ADDRXLAT_SYS_MAP_NUM; ++i) {
		const addrxlat_map_t *m = addrxlat_sys_get_map(sys, i);
		size_t n = m ? addrxlat_map_len(m) : 0;
		const addrxlat_range_t *r = m ? addrxlat_map_ranges(m) : NULL;
		h = h * 1099511 + n + (m ? 7 : 3);
		for (j = 0; j < n; ++j) h = (h * 1099511 + r[j].endoff) * 31 + (unsigned long)r[j].meth;
	}
	for (i = 0; i < ADDRXLAT_SYS_METH_NUM; ++i) {
		const addrxlat_meth_t *m = addrxlat_sys_get_meth(sys, i);
		h = h * 1099511 + (unsigned long)m->kind * 131 + m->target_as;
	}
	return h;
}
static int parse_sys_opts(char *spec, addrxlat_opt_t *opts, addrxlat_fulladdr_t *root)
{
	char *save = NULL, *t; int n = 0;
	for (t = strtok_r(spec, ",", &save); t && n < 12; t = strtok_r(NULL, ",", &save)) {
		char *v = strchr(t, '=');
		if (!v) continue;
		*v++ = 0;
		if (!strcmp(t, "arch")) addrxlat_opt_arch(&opts[n++], v);
		else if (!strcmp(t, "ostype")) addrxlat_opt_os_type(&opts[n++], v);
		else if (!strcmp(t, "osver")) addrxlat_opt_version_code(&opts[n++], strtoul(v, NULL, 0));
		else if (!strcmp(t, "page_shift")) addrxlat_opt_page_shift(&opts[n++], strtoul(v, NULL, 0));
		else if (!strcmp(t, "virt_bits")) addrxlat_opt_virt_bits(&opts[n++], strtoul(v, NULL, 0));
		else if (!strcmp(t, "phys_bits")) addrxlat_opt_phys_bits(&opts[n++], strtoul(v, NULL, 0));
		else if (!strcmp(t, "phys_base")) addrxlat_opt_phys_base(&opts[n++], strtoull(v, NULL, 0));
		else if (!strcmp(t, "xen_xlat")) addrxlat_opt_xen_xlat(&opts[n++], strtoul(v, NULL, 0));
		else if (!strcmp(t, "xen_p2m_mfn")) addrxlat_opt_xen_p2m_mfn(&opts[n++], strtoul(v, NULL, 0));
		else if (!strcmp(t, "rootpgt")) {
			root->as = (addrxlat_addrspace_t)strtoul(v, &v, 0);
			root->addr = strtoull(v + 1, NULL, 0);
			addrxlat_opt_rootpgt(&opts[n++], root);
		}
	}
	return n;
}
/* memory image and symbol data of a scenario file (lib/kdv/xlatcfg.py) */
struct xmem { unsigned long long addr; size_t len; unsigned char *buf; };
struct xsym { char kind; char a1[64], a2[64]; unsigned long long val; };
static struct xmem xmems[256]; static int nxmem;
static struct xsym xsyms[256]; static int nxsym;
static unsigned long xmem_as = ADDRXLAT_MACHPHYSADDR;
static addrxlat_ctx_t *xcb_ctx;

static unsigned long x_read_caps(const addrxlat_cb_t *cb) { return ADDRXLAT_CAPS(xmem_as); }
static addrxlat_status x_get_page(const addrxlat_cb_t *cb, addrxlat_buffer_t *buf)
{
	int i;
	if (buf->addr.as != xmem_as)
		return addrxlat_ctx_err(xcb_ctx, ADDRXLAT_ERR_INVALID, "Unexpected address space");
	for (i = 0; i < nxmem; ++i)
		if (xmems[i].addr <= buf->addr.addr && xmems[i].addr + xmems[i].len >= buf->addr.addr + 4) {
			buf->addr.addr = xmems[i].addr; buf->ptr = xmems[i].buf; buf->size = xmems[i].len;
			buf->byte_order = ADDRXLAT_HOST_ENDIAN;
			return ADDRXLAT_OK;
		}
	return addrxlat_ctx_err(xcb_ctx, ADDRXLAT_ERR_NODATA, "No data");
}
static addrxlat_status x_sym(char kind, const char *a1, const char *a2, addrxlat_addr_t *val)
{
	int i;
	/* "Y ERR <name> - 0": the callback fails for this name (with something else than NODATA) */
	for (i = 0; i < nxsym; ++i)
		if (xsyms[i].kind == 'E' && !strcmp(xsyms[i].a1, a1))
			return addrxlat_ctx_err(xcb_ctx, ADDRXLAT_ERR_NOTIMPL, "Callback refuses %s", a1);
	for (i = 0; i < nxsym; ++i)
		if (xsyms[i].kind == kind && !strcmp(xsyms[i].a1, a1) && (!a2 || !strcmp(xsyms[i].a2, a2))) {
			*val = xsyms[i].val; return ADDRXLAT_OK;
		}
	return ADDRXLAT_ERR_NODATA;
}
static addrxlat_status x_reg(const addrxlat_cb_t *cb, const char *n, addrxlat_addr_t *v) { return x_sym('R', n, NULL, v); }
static addrxlat_status x_val(const addrxlat_cb_t *cb, const char *n, addrxlat_addr_t *v) { return x_sym('V', n, NULL, v); }
static addrxlat_status x_size(const addrxlat_cb_t *cb, const char *n, addrxlat_addr_t *v) { return x_sym('S', n, NULL, v); }
static addrxlat_status x_off(const addrxlat_cb_t *cb, const char *o, const char *e, addrxlat_addr_t *v) { return x_sym('O', o, e, v); }
static addrxlat_status x_num(const addrxlat_cb_t *cb, const char *n, addrxlat_addr_t *v) { return x_sym('N', n, NULL, v); }

/* load "O/A/M/Y" lines; returns the option spec */
static char *load_xcfg(const char *path)
{
	FILE *f = fopen(path, "r");
	char *line = NULL, *spec = NULL; size_t cap = 0; ssize_t n;
	if (!f) { perror(path); _exit(4); }
	while ((n = getline(&line, &cap, f)) > 0) {
		while (n && (line[n - 1] == '\n' || line[n - 1] == '\r')) line[--n] = 0;
		if (line[0] == 'O') spec = strdup(line + 2);
		else if (line[0] == 'A') xmem_as = strtoul(line + 2, NULL, 0);
		else if (line[0] == 'M' && nxmem < 256) {
			char *p; size_t i, l;
			xmems[nxmem].addr = strtoull(line + 2, &p, 16);
			while (*p == ' ') ++p;
			l = strlen(p) / 2;
			xmems[nxmem].buf = malloc(l ? l : 1); xmems[nxmem].len = l;
			for (i = 0; i < l; ++i) {
				int hi = p[2 * i], lo = p[2 * i + 1];
				hi = hi <= '9' ? hi - '0' : (hi | 32) - 'a' + 10;
				lo = lo <= '9' ? lo - '0' : (lo | 32) - 'a' + 10;
				xmems[nxmem].buf[i] = (unsigned char)(hi * 16 + lo);
			}
			++nxmem;
		} else if (line[0] == 'Y' && nxsym < 256) {
			char kind[16];
			if (sscanf(line + 2, "%15s %63s %63s %llx", kind, xsyms[nxsym].a1, xsyms[nxsym].a2, &xsyms[nxsym].val) == 4) {
				xsyms[nxsym].kind = kind[0] == 'S' ? 'S' : kind[0];   /* REG VALUE SIZEOF OFFSETOF NUMBER */
				++nxsym;
			}
		}
	}
	free(line); fclose(f);
	return spec ? spec : strdup("");
}

/* "objects that existed before the call are still usable": translate probe addresses from every
 * range of every map of the system (start, middle, end of the range) and walk every defined
 * method directly; only "does not crash / hang" and a digest of the results are of interest */
static unsigned long sys_use(addrxlat_ctx_t *ax, addrxlat_sys_t *sys)
{
	static const addrxlat_addrspace_t goal[ADDRXLAT_SYS_MAP_NUM] = {
		[ADDRXLAT_SYS_MAP_HW] = ADDRXLAT_MACHPHYSADDR, [ADDRXLAT_SYS_MAP_KV_PHYS] = ADDRXLAT_KPHYSADDR,
		[ADDRXLAT_SYS_MAP_KPHYS_DIRECT] = ADDRXLAT_KVADDR, [ADDRXLAT_SYS_MAP_MACHPHYS_KPHYS] = ADDRXLAT_KPHYSADDR,
		[ADDRXLAT_SYS_MAP_KPHYS_MACHPHYS] = ADDRXLAT_MACHPHYSADDR };
	static const addrxlat_addrspace_t src[ADDRXLAT_SYS_MAP_NUM] = {
		[ADDRXLAT_SYS_MAP_HW] = ADDRXLAT_KVADDR, [ADDRXLAT_SYS_MAP_KV_PHYS] = ADDRXLAT_KVADDR,
		[ADDRXLAT_SYS_MAP_KPHYS_DIRECT] = ADDRXLAT_KPHYSADDR, [ADDRXLAT_SYS_MAP_MACHPHYS_KPHYS] = ADDRXLAT_MACHPHYSADDR,
		[ADDRXLAT_SYS_MAP_KPHYS_MACHPHYS] = ADDRXLAT_KPHYSADDR };
	unsigned long h = 77; unsigned i; size_t j; int k;
	for (i = 0; i < ADDRXLAT_SYS_MAP_NUM; ++i) {
		const addrxlat_map_t *m = addrxlat_sys_get_map(sys, i);
		size_t n = m ? addrxlat_map_len(m) : 0;
		const addrxlat_range_t *r = m ? addrxlat_map_ranges(m) : NULL;
		addrxlat_addr_t base = 0;
		for (j = 0; j < n; ++j) {
			addrxlat_addr_t pr[4] = { base, base + 0x123, base + r[j].endoff / 2, base + r[j].endoff };
			for (k = 0; k < 4 && n <= 64; ++k) {
				addrxlat_fulladdr_t fa; addrxlat_status s;
				fa.as = src[i]; fa.addr = pr[k];
				LIB(s = addrxlat_fulladdr_conv(&fa, goal[i], ax, sys));
				h = (h * 1099511 + (unsigned long)s) * 31 + (s == ADDRXLAT_OK ? fa.addr : 0);
				LIB(addrxlat_ctx_clear_err(ax));
				if (r[j].meth != ADDRXLAT_SYS_METH_NONE && i != ADDRXLAT_SYS_MAP_HW) {
					addrxlat_step_t step; memset(&step, 0, sizeof step);
					step.ctx = ax; step.sys = sys; step.meth = addrxlat_sys_get_meth(sys, r[j].meth);
					LIB(s = addrxlat_launch(&step, pr[k]));
					if (s == ADDRXLAT_OK) LIB(s = addrxlat_walk(&step));
					h = (h * 1099511 + (unsigned long)s) * 31 + (s == ADDRXLAT_OK ? step.base.addr : 0);
					LIB(addrxlat_ctx_clear_err(ax));
				}
			}
			base += r[j].endoff + 1;
		}
	}
	/* methods that are defined but (no longer / not yet) referenced by a map */
	for (i = 0; i < ADDRXLAT_SYS_METH_NUM; ++i) {
		static const addrxlat_addr_t pa[] = { 0, 0x123, 0x10456, 0x1234560, 0xf000000000000123ULL, 0xf000000000010456ULL,
			0xc000000001234560ULL, 0xffffffff80000000ULL };
		const addrxlat_meth_t *m = addrxlat_sys_get_meth(sys, i);
		if (m->kind == ADDRXLAT_NOMETH || m->kind == ADDRXLAT_CUSTOM) continue;
		for (k = 0; k < (int)(sizeof pa / sizeof pa[0]); ++k) {
			addrxlat_step_t step; addrxlat_status s; memset(&step, 0, sizeof step);
			step.ctx = ax; step.sys = sys; step.meth = m;
			LIB(s = addrxlat_launch(&step, pa[k]));
			if (s == ADDRXLAT_OK) LIB(s = addrxlat_walk(&step));
			h = (h * 1099511 + (unsigned long)s) * 31 + (s == ADDRXLAT_OK ? step.base.addr : 0);
			LIB(addrxlat_ctx_clear_err(ax));
		}
	}
	return h;
}

static void sc_wb_sys_os(char **av, int ac)
{
	addrxlat_ctx_t *ax; addrxlat_sys_t *sys, *ref;
	addrxlat_opt_t opts[12]; addrxlat_fulladdr_t root;
	char *spec;
	int n;
	addrxlat_status st, st2, st3;
	unsigned long fb;
	/* either an option list or @<scenario file> with memory image and symbols */
	spec = av[0][0] == '@' ? load_xcfg(av[0] + 1) : strdup(av[0]);
	n = parse_sys_opts(spec, opts, &root);
	LIB(ax = addrxlat_ctx_new()); LIB(sys = addrxlat_sys_new()); LIB(ref = addrxlat_sys_new());
	if (!ax || !sys || !ref) _exit(4);
	if (av[0][0] == '@') {
		addrxlat_cb_t *cb;
		LIB(cb = addrxlat_ctx_add_cb(ax));
		if (!cb) _exit(4);
		xcb_ctx = ax;
		cb->get_page = x_get_page; cb->read_caps = x_read_caps; cb->reg_value = x_reg;
		cb->sym_value = x_val; cb->sym_sizeof = x_size; cb->sym_offsetof = x_off; cb->num_value = x_num;
	}
	win_open();
	fb = oom_failed_calls;
	st = addrxlat_sys_os_init(sys, ax, n, opts);
	if (oom_failed_calls != fb) {
		if (st == ADDRXLAT_ERR_NOMEM) any_call_failed_ok = 1;
		else if (!missed[0]) snprintf(missed, sizeof missed, "addrxlat_sys_os_init=%d", (int)st);
	}
	note_held();
	win_close();
	LIB(st3 = addrxlat_sys_os_init(ref, ax, n, opts));
	out(" shape=st:%d;ref:%d;digest:%lx", (int)st, (int)st3, st == ADDRXLAT_OK ? sys_digest(sys) : 0UL);
	if (st != ADDRXLAT_OK && oom_failed_calls != fb) {
		/* the partially built system is still an object of the caller's: use it */
		(void)sys_use(ax, sys);          /* under the case watchdog */
		LIB(st2 = addrxlat_sys_os_init(sys, ax, n, opts));
		if (st2 != st3) surv_fail("os_init repeated after the failure gives status %d, a fresh system %d", st2, st3);
		else if (st2 == ADDRXLAT_OK && sys_digest(sys) != sys_digest(ref))
			surv_fail("os_init repeated after the failure builds a different system");
		else if (st2 == ADDRXLAT_OK && sys_use(ax, sys) != sys_use(ax, ref))
			surv_fail("os_init repeated after the failure builds a system that translates differently");
	} else if (st == ADDRXLAT_OK && st3 == ADDRXLAT_OK && sys_digest(sys) != sys_digest(ref))
		surv_fail("two identical os_init calls build different systems");
	LIB(addrxlat_sys_decref(sys)); LIB(addrxlat_sys_decref(ref)); LIB(addrxlat_ctx_decref(ax));
}

/* wb_sys_meth <variant bits> @<scenario file>: the life of a translation system whose methods
 * the application replaces: os_init; bit0: addrxlat_sys_set_meth() over every method the set-up
 * defined with a table of its own (LOOKUP/PGT/MEMARR -> a LINEAR one); bit1: os_init again;
 * bit2: replace again after that; bit3: a second os_init with different options (no memory);
 * then the last reference is dropped.  Nothing the library allocated may remain. */
static void sc_wb_sys_meth(char **av, int ac)
{
	addrxlat_ctx_t *ax; addrxlat_sys_t *sys;
	addrxlat_opt_t opts[12]; addrxlat_fulladdr_t root;
	unsigned v = atoi(av[0]);
	char *spec = av[1][0] == '@' ? load_xcfg(av[1] + 1) : strdup(av[1]);
	int n = parse_sys_opts(spec, opts, &root), round, i;
	addrxlat_status st;
	addrxlat_cb_t *cb;
	LIB(ax = addrxlat_ctx_new()); LIB(sys = addrxlat_sys_new());
	if (!ax || !sys) _exit(4);
	LIB(cb = addrxlat_ctx_add_cb(ax));
	if (!cb) _exit(4);
	xcb_ctx = ax;
	cb->get_page = x_get_page; cb->read_caps = x_read_caps; cb->reg_value = x_reg;
	cb->sym_value = x_val; cb->sym_sizeof = x_size; cb->sym_offsetof = x_off; cb->num_value = x_num;
	win_open();
	for (round = 0; round < 2; ++round) {
		unsigned long fb = oom_failed_calls;
		if (round == 1 && !(v & 2) && !(v & 8)) break;
		if (round == 1 && (v & 8)) nxmem = 0;           /* the target memory is gone */
		st = addrxlat_sys_os_init(sys, ax, n, opts);
		if (oom_failed_calls != fb) {
			if (st == ADDRXLAT_ERR_NOMEM) any_call_failed_ok = 1;
			else if (!missed[0]) snprintf(missed, sizeof missed, "addrxlat_sys_os_init=%d", (int)st);
		}
		out(" os_init%d=%d", round, (int)st);
		if (round == 0 ? (v & 1) : (v & 4))
			for (i = 0; i < ADDRXLAT_SYS_METH_NUM; ++i) {
				const addrxlat_meth_t *m = addrxlat_sys_get_meth(sys, i);
				if (m->kind == ADDRXLAT_LOOKUP || m->kind == ADDRXLAT_MEMARR || m->kind == ADDRXLAT_PGT) {
					addrxlat_meth_t lin;
					memset(&lin, 0, sizeof lin);
					lin.kind = ADDRXLAT_LINEAR; lin.target_as = ADDRXLAT_KPHYSADDR; lin.param.linear.off = 0x1000;
					addrxlat_sys_set_meth(sys, i, &lin);
					out(" replaced=%d(kind%d)", i, (int)m->kind);
				}
			}
	}
	(void)sys_use(ax, sys);
	addrxlat_sys_decref(sys);
	note_held();
	win_close();
	LIB(addrxlat_ctx_decref(ax));
}

static const struct { const char *name; void (*fn)(char **, int); int minargs; } scenarios[] = {
	{ "new", sc_new, 0 }, { "clone", sc_clone, 2 }, { "open", sc_open, 1 }, { "reopen", sc_reopen, 1 }, { "reopen2", sc_reopen2, 2 },
	{ "read", sc_read, 4 }, { "readstr", sc_readstr, 3 }, { "attrs", sc_attrs, 1 },
	{ "pagemap", sc_pagemap, 1 }, { "vmcoreinfo", sc_vmcoreinfo, 1 }, { "free", sc_free, 1 }, { "getxlat", sc_getxlat, 1 }, { "utsname", sc_utsname, 2 },
	{ "wb_xlat", sc_wb_xlat, 1 }, { "wb_fcache_new", sc_wb_fcache_new, 3 },
	{ "wb_cache_alloc", sc_wb_cache_alloc, 2 }, { "wb_chunk", sc_wb_chunk, 3 }, { "wb_pfn_regions", sc_wb_pfn_regions, 1 },
	{ "wb_dict", sc_wb_dict, 1 }, { "wb_create_path", sc_wb_create_path, 1 },
	{ "wb_clone_path", sc_wb_clone_path, 1 }, { "wb_map_seq", sc_wb_map_seq, 1 }, { "wb_sys_os", sc_wb_sys_os, 1 }, { "wb_sys_meth", sc_wb_sys_meth, 2 },
};

static void emit_events(void)
{
	unsigned long i;
	if (!oom_log_events || oom_nev >= OOM_MAXEV) { out(" ev=-"); return; }
	out(" ev=");
	for (i = 0; i < oom_nev; ++i) {
		struct oom_ev *e = &oom_evs[i];
		if (e->kind == 'A' || e->kind == 'F')
			out("%s%c%lx.%lu", i ? "," : "", e->kind, (unsigned long)e->a, e->serial);
		else if (e->kind == 'X')
			out("%sX%lx", i ? "," : "", (unsigned long)e->a);
		else {
			int slot = (int)(uintptr_t)e->a;
			if (oom_locks[slot].name)
				out("%s%c:%s", i ? "," : "", e->kind, oom_locks[slot].name);
			else
				out("%s%c:lock%d", i ? "," : "", e->kind, slot);
		}
	}
	if (!oom_nev) out("none");
}

static void child(char *line, int resfd)
{
	char *av[16]; int ac = 0; char *save = NULL, *t;
	unsigned i;
	unsigned long k;
	for (t = strtok_r(line, " ", &save); t && ac < 16; t = strtok_r(NULL, " ", &save)) av[ac++] = t;
	if (ac < 2) _exit(5);
	want_fail = strtoul(av[1], NULL, 10);
	oom_fail_fd = resfd;
	alarm(30);
	for (i = 0; i < sizeof scenarios / sizeof scenarios[0]; ++i)
		if (!strcmp(av[0], scenarios[i].name)) {
			if (ac - 2 < scenarios[i].minargs) _exit(5);
			scenarios[i].fn(av + 2, ac - 2);
			break;
		}
	if (i == sizeof scenarios / sizeof scenarios[0]) _exit(5);
	/* verdict tokens */
	{
		char head[4096]; int l;
		char leak[2048] = ""; size_t ll = 0;
		/* leaks by site */
		for (k = 0; k < oom_hiwater; ++k) {
			unsigned long j, cnt = 0;
			if (!oom_tab[k].p) continue;
			for (j = 0; j < k; ++j) if (oom_tab[j].p && oom_tab[j].site == oom_tab[k].site) break;
			if (j < k) continue;
			for (j = k; j < oom_hiwater; ++j) if (oom_tab[j].p && oom_tab[j].site == oom_tab[k].site) ++cnt;
			if (ll < sizeof leak - 40)
				ll += snprintf(leak + ll, sizeof leak - ll, "%s%lx*%lu", ll ? "," : "",
					       (unsigned long)oom_tab[k].site, cnt);
		}
		l = snprintf(head, sizeof head, "R nalloc=%lu fail=%lx/%lx res=%s%s held=%d%s%s leak=%s surv=%s",
			     oom_seq, (unsigned long)oom_fail_site, (unsigned long)oom_fail_site2,
			     !oom_failed_calls ? "nofail" : missed[0] ? "missed:" : any_call_failed_ok ? "reported" : tolerated_shrink ? "shrink-tolerated" : "unobserved",
			     missed[0] ? missed : "",
			     held_at_return, held_at_return ? ":" : "", held_names,
			     ll ? leak : "-", surv);
		for (char *p = head + 2; *p; ++p) if (*p == ' ' && strncmp(p, " nalloc=", 8) && strncmp(p, " fail=", 6)
			&& strncmp(p, " res=", 5) && strncmp(p, " held=", 6) && strncmp(p, " leak=", 6) && strncmp(p, " surv=", 6)) *p = '_';
		write(resfd, head, l);
		emit_events();
		write(resfd, outbuf, outlen);
		write(resfd, "\n", 1);
	}
	_exit(0);
}

/* first sanitizer report in the child's stderr: kind@function */
static void san_summary(const char *err, char *dst, size_t n)
{
	const char *p = strstr(err, "ERROR: AddressSanitizer: "), *q;
	char kind[64] = "", fn[128] = "?";
	strcpy(dst, "-");
	if (p) {
		p += strlen("ERROR: AddressSanitizer: ");
		sscanf(p, "%63[^ \n]", kind);
	} else if ((p = strstr(err, "runtime error: "))) {
		strcpy(kind, "ubsan");
	} else if ((p = strstr(err, "ERROR: LeakSanitizer"))) {
		strcpy(kind, "lsan");
	} else
		return;
	/* innermost frame that is in the library (skip interceptors and the wrapper) */
	for (q = p; (q = strstr(q, "\n    #")); ) {
		char f[128] = "", path[256] = "";
		q += 1;
		if (sscanf(q, " #%*d 0x%*x in %127s %255s", f, path) >= 1) {
			if (strstr(path, "/src/kdumpfile/") || strstr(path, "/src/addrxlat/") || strstr(path, "/src/errmsg.h")
			    || strstr(path, "/src/list.h")) { snprintf(fn, sizeof fn, "%s", f); break; }
		}
		if (!strncmp(q, "    #", 5) && strstr(q, "\n\n") && strstr(q, "\n\n") < strstr(q, "\n    #") ) break;
	}
	snprintf(dst, n, "%s@%s", kind, fn);
}

int main(int argc, char **argv)
{
	FILE *f = fopen(argv[1], "r");
	char *line;
	void *bt[4];
	if (!f) { perror(argv[1]); return 2; }
	setvbuf(stdout, NULL, _IOLBF, 0);
	backtrace(bt, 4);	/* load the unwinder before any window opens */
	while ((line = verif_getline(f))) {
		int pr[2], pe[2], status;
		pid_t pid;
		char res[1 << 16], err[1 << 16], san[256];
		size_t rl = 0, el = 0;
		char head[300];
		snprintf(head, sizeof head, "%s", line);
		if (pipe(pr) || pipe(pe)) { perror("pipe"); return 2; }
		fflush(stdout);
		pid = fork();
		if (pid == 0) {
			close(pr[0]); close(pe[0]);
			dup2(pe[1], 2);
			child(line, pr[1]);
			_exit(0);
		}
		close(pr[1]); close(pe[1]);
		/* drain both pipes */
		{
			int open_r = 1, open_e = 1;
			fcntl(pr[0], F_SETFL, O_NONBLOCK); fcntl(pe[0], F_SETFL, O_NONBLOCK);
			while (open_r || open_e) {
				fd_set rs; int mx = 0; ssize_t k;
				FD_ZERO(&rs);
				if (open_r) { FD_SET(pr[0], &rs); mx = pr[0]; }
				if (open_e) { FD_SET(pe[0], &rs); if (pe[0] > mx) mx = pe[0]; }
				if (select(mx + 1, &rs, NULL, NULL, NULL) < 0) break;
				if (open_r && FD_ISSET(pr[0], &rs)) {
					char tmp[4096];
					k = read(pr[0], rl < sizeof res - 1 ? res + rl : tmp, rl < sizeof res - 1 ? sizeof res - 1 - rl : sizeof tmp);
					if (k <= 0) open_r = 0; else if (rl < sizeof res - 1) rl += k;
				}
				if (open_e && FD_ISSET(pe[0], &rs)) {
					char tmp[4096];
					k = read(pe[0], el < sizeof err - 1 ? err + el : tmp, el < sizeof err - 1 ? sizeof err - 1 - el : sizeof tmp);
					if (k <= 0) open_e = 0; else if (el < sizeof err - 1) el += k;
				}
			}
		}
		res[rl] = 0; err[el] = 0;
		close(pr[0]); close(pe[0]);
		waitpid(pid, &status, 0);
		san_summary(err, san, sizeof san);
		{
			/* the child's pipe holds: optional "F site caller\n", then "R ...\n" */
			char *r = strstr(res, "R nalloc=");
			char *fl = (res[0] == 'F') ? res : NULL;
			char rc[32];
			if (WIFSIGNALED(status)) snprintf(rc, sizeof rc, "sig%d", WTERMSIG(status));
			else snprintf(rc, sizeof rc, "%d", WEXITSTATUS(status));
			if (r) {
				char *nl = strchr(r, '\n'); if (nl) *nl = 0;
				printf("%s rc=%s %s san=%s\n", head, rc, r + 2, san);
				if (getenv("OOM_VERBOSE") && el) fprintf(stderr, "---- %s\n%s\n", head, err);
			} else {
				unsigned long a = 0, b = 0;
				if (fl) sscanf(fl, "F %lx %lx", &a, &b);
				printf("%s rc=%s nalloc=? fail=%lx/%lx res=died held=? leak=? surv=? ev=- san=%s\n",
				       head, rc, a, b, san);
				if (getenv("OOM_VERBOSE")) fprintf(stderr, "---- %s\n%s\n", head, err);
			}
		}
	}
	fclose(f);
	return 0;
}
