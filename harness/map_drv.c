/* Correspondence driver, engine "map": replays op histories on the real
 * addrxlat_map_* functions with allocation results chosen by the case. */
#include "common.h"

static int fail_next_realloc, fail_next_malloc, fail_next_calloc;
static unsigned long n_realloc_calls;
static void *verif_realloc(void *p, size_t sz)
{
	++n_realloc_calls;
	if (fail_next_realloc) { fail_next_realloc = 0; return NULL; }
	return realloc(p, sz);
}
static void *verif_malloc(size_t sz)
{
	if (fail_next_malloc) { fail_next_malloc = 0; return NULL; }
	return malloc(sz ? sz : 1);
}
static void *verif_calloc(size_t n, size_t sz)
{
	if (fail_next_calloc) { fail_next_calloc = 0; return NULL; }
	return calloc(n, sz);
}
#define realloc verif_realloc
#define malloc verif_malloc
#define calloc verif_calloc
#include "src/addrxlat/map.c"
#undef realloc
#undef malloc
#undef calloc

static void show_map(const addrxlat_map_t *map)
{
	size_t i, n = addrxlat_map_len(map);
	const addrxlat_range_t *r = addrxlat_map_ranges(map);
	for (i = 0; i < n; ++i) {
		printf("%s%" PRIx64 ":", i ? "," : "", (uint64_t)r[i].endoff);
		pshx((long long)r[i].meth);
	}
	putchar(';');
}

int main(int argc, char **argv)
{
	FILE *f = fopen(argv[1], "r");
	char *line;
	if (!f) { perror(argv[1]); return 2; }
	setvbuf(stdout, NULL, _IOLBF, 0);
	while ((line = verif_getline(f))) {
		addrxlat_map_t *map = addrxlat_map_new();
		addrxlat_map_t *frozen = NULL;	/* the original of the last successful copy */
		char *save = NULL, *tok;
		int first = 1;
		for (tok = strtok_r(line, " ", &save); tok; tok = strtok_r(NULL, " ", &save)) {
			char *fld[6]; int nf = 0; char *s2 = NULL, *p;
			for (p = strtok_r(tok, ":", &s2); p && nf < 6; p = strtok_r(NULL, ":", &s2))
				fld[nf++] = p;
			if (!first) putchar(' ');
			first = 0;
			if (fld[0][0] == 'S') {
				addrxlat_range_t r;
				addrxlat_status st;
				r.endoff = hx(fld[2]); r.meth = (addrxlat_sys_meth_t)shx(fld[3]);
				fail_next_realloc = (fld[4][0] == '0');
				st = addrxlat_map_set(map, hx(fld[1]), &r);
				fail_next_realloc = 0;
				printf("S%d=", (int)st);
			} else if (fld[0][0] == 'Q') {
				printf("Q"); pshx((long long)addrxlat_map_search(map, hx(fld[1]))); putchar('=');
			} else if (fld[0][0] == 'C') {
				addrxlat_map_t *c;
				fail_next_calloc = (fld[1][0] == '0');
				fail_next_malloc = (fld[2][0] == '0');
				c = addrxlat_map_copy(map);
				/* when the first allocation fails the second is never asked */
				fail_next_calloc = fail_next_malloc = 0;
				/* keep the original: later operations on the copy must not change it */
				if (c) { if (frozen) addrxlat_map_decref(frozen); frozen = map; map = c; }
				printf("C%d=", c ? 1 : 0);
			}
			show_map(map);
			if (frozen) { putchar('~'); show_map(frozen); }
		}
		putchar('\n');
		addrxlat_map_decref(map);
		if (frozen) addrxlat_map_decref(frozen);
	}
	fclose(f);
	return 0;
}
