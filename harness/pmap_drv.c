/* Correspondence driver, engine "pmap" (C07, end to end, public API only).
 *
 * Case line:  E <kind and ground truth: ignored here> @ <path>,<path>,... | <op> ...
 *   ops (numbers hex):
 *     Fg:<first>:<last>:<fill>  Mg:...   kdump_bmp_get_bits on file.pagemap / memory.pagemap into
 *                                        a buffer of ((last-first)>>3)+1 bytes pre-filled with <fill>
 *     Fs:<idx>  Ms:<idx>                 kdump_bmp_find_set    -> "1:<idx'>" or "0" (KDUMP_ERR_NODATA)
 *     Fc:<idx>  Mc:<idx>                 kdump_bmp_find_clear  -> "<idx'>"
 *     R:<pfn>                            kdump_read of 8 bytes at pfn << page_shift in
 *                                        KDUMP_MACHPHYSADDR with file.zero_excluded = 0
 *                                        -> "ok" | "nodata" | "!<status>"
 *     an op prefixed with 'C' (e.g. CMg:0:f:0) is run on a clone of the context
 *     (kdump_clone, created at the first such op)
 * The page-map ops are run first, then all reads, then the page-map ops again (history
 * independence).  Output:
 *   "E <answers in op order> H=same"   or   "... H=diff:<first op whose second answer differs>"
 *   "X<status> <message>" if the dump does not open.
 */
#include "common.h"
#include <unistd.h>
#include <fcntl.h>
#include <libkdumpfile/kdumpfile.h>

#define MAXOPS 4096
#define MAXANS 600

static char *answers[2][MAXOPS];

struct maps { kdump_ctx_t *ctx; kdump_bmp_t *fbmp, *mbmp; int have_m; };

/* memory.pagemap is fetched at the first memory query: its lazy construction then happens
 * first, in the middle or last in the history, as the case orders its ops */
static kdump_bmp_t *mem_bmp(struct maps *m)
{
	kdump_attr_t attr;
	if (!m->have_m) {
		m->have_m = 1;
		if (kdump_get_attr(m->ctx, KDUMP_ATTR_MEMORY_PAGEMAP, &attr) == KDUMP_OK)
			m->mbmp = attr.val.bitmap;
	}
	return m->mbmp;
}

static char *bmp_op1(struct maps *m, const char *op)
{
	kdump_bmp_t *bmp = op[0] == 'F' ? m->fbmp : mem_bmp(m);
	char *fld[4], *copy = strdup(op + 1), *save = NULL, *p, *res = malloc(MAXANS);
	int nf = 0;
	kdump_status st;

	for (p = strtok_r(copy, ":", &save); p && nf < 4; p = strtok_r(NULL, ":", &save))
		fld[nf++] = p;
	if (!bmp) {
		snprintf(res, MAXANS, "nobmp");
	} else if (fld[0][0] == 'g') {
		kdump_addr_t f = hx(fld[1]), l = hx(fld[2]);
		size_t n = ((l - f) >> 3) + 1, i;
		unsigned char *buf = malloc(n);
		memset(buf, hx(fld[3]), n);
		st = kdump_bmp_get_bits(bmp, f, l, buf);
		if (st != KDUMP_OK)
			snprintf(res, MAXANS, "!%d", (int)st);
		else {
			for (i = 0; i < n && 2 * i + 2 < MAXANS; ++i)
				sprintf(res + 2 * i, "%02x", buf[i]);
		}
		free(buf);
	} else if (fld[0][0] == 's') {
		kdump_addr_t idx = hx(fld[1]);
		st = kdump_bmp_find_set(bmp, &idx);
		if (st == KDUMP_OK)
			snprintf(res, MAXANS, "1:%" PRIx64, (uint64_t)idx);
		else if (st == KDUMP_ERR_NODATA)
			snprintf(res, MAXANS, "0");
		else
			snprintf(res, MAXANS, "!%d", (int)st);
	} else if (fld[0][0] == 'c') {
		kdump_addr_t idx = hx(fld[1]);
		st = kdump_bmp_find_clear(bmp, &idx);
		if (st == KDUMP_OK)
			snprintf(res, MAXANS, "%" PRIx64, (uint64_t)idx);
		else
			snprintf(res, MAXANS, "!%d", (int)st);
	} else
		snprintf(res, MAXANS, "?");
	free(copy);
	return res;
}

static struct maps clone_maps;

static char *bmp_op(struct maps *m, const char *op)
{
	if (op[0] == 'C') {
		kdump_attr_t attr;
		if (!clone_maps.ctx) {
			clone_maps.ctx = kdump_clone(m->ctx, 0);
			if (!clone_maps.ctx)
				return strdup("!clone");
			if (kdump_get_attr(clone_maps.ctx, KDUMP_ATTR_FILE_PAGEMAP, &attr) == KDUMP_OK)
				clone_maps.fbmp = attr.val.bitmap;
		}
		return bmp_op1(&clone_maps, op + 1);
	}
	return bmp_op1(m, op);
}

static void run_case(char *line)
{
	struct maps maps;
	char *at = strstr(line, " @ "), *bar, *save = NULL, *p;
	char *ops[MAXOPS];
	int fds[16], nfds = 0, nops = 0, i, pass, diff = -1;
	kdump_ctx_t *ctx;
	kdump_status st;
	kdump_attr_t attr;
	unsigned shift;

	if (!at || !(bar = strchr(at, '|'))) { printf("BAD-CASE\n"); return; }
	*bar = 0;
	for (p = strtok_r(at + 3, ", ", &save); p && nfds < 16; p = strtok_r(NULL, ", ", &save)) {
		fds[nfds] = open(p, O_RDONLY);
		if (fds[nfds] < 0) { printf("X-open %s\n", p); return; }
		++nfds;
	}
	save = NULL;
	for (p = strtok_r(bar + 1, " ", &save); p && nops < MAXOPS; p = strtok_r(NULL, " ", &save))
		ops[nops++] = p;

	ctx = kdump_new();
	if (!ctx) { printf("X-nomem\n"); goto out_fds; }
	st = kdump_open_fdset(ctx, nfds, fds);
	if (st != KDUMP_OK) {
		printf("X%d %s\n", (int)st, kdump_get_err(ctx));
		goto out_ctx;
	}
	kdump_set_number_attr(ctx, KDUMP_ATTR_ZERO_EXCLUDED, 0);
	if (kdump_get_attr(ctx, KDUMP_ATTR_PAGE_SHIFT, &attr) != KDUMP_OK) {
		printf("X-noshift %s\n", kdump_get_err(ctx));
		goto out_ctx;
	}
	shift = attr.val.number;
	memset(&maps, 0, sizeof maps);
	memset(&clone_maps, 0, sizeof clone_maps);
	maps.ctx = ctx;
	if (kdump_get_attr(ctx, KDUMP_ATTR_FILE_PAGEMAP, &attr) == KDUMP_OK)
		maps.fbmp = attr.val.bitmap;

	for (pass = 0; pass < 2; ++pass) {
		for (i = 0; i < nops; ++i)
			if (ops[i][0] == 'F' || ops[i][0] == 'M' || ops[i][0] == 'C')
				answers[pass][i] = bmp_op(&maps, ops[i]);
		if (pass == 0)
			for (i = 0; i < nops; ++i)
				if (ops[i][0] == 'R') {
					uint64_t word;
					size_t sz = sizeof word;
					char *res = malloc(32);
					st = kdump_read(ctx, KDUMP_MACHPHYSADDR,
							(kdump_addr_t)hx(ops[i] + 2) << shift, &word, &sz);
					if (st == KDUMP_OK) strcpy(res, "ok");
					else if (st == KDUMP_ERR_NODATA) strcpy(res, "nodata");
					else sprintf(res, "!%d", (int)st);
					answers[0][i] = res;
					answers[1][i] = NULL;
				}
	}
	printf("E");
	for (i = 0; i < nops; ++i) {
		printf(" %s", answers[0][i]);
		if (answers[1][i] && diff < 0 && strcmp(answers[0][i], answers[1][i]))
			diff = i;
	}
	if (diff < 0)
		printf(" H=same\n");
	else
		printf(" H=diff:%d:%s\n", diff, answers[1][diff]);
	for (i = 0; i < nops; ++i) {
		free(answers[0][i]);
		free(answers[1][i]);
	}
	if (clone_maps.ctx)
		kdump_free(clone_maps.ctx);
 out_ctx:
	kdump_free(ctx);
 out_fds:
	for (i = 0; i < nfds; ++i)
		close(fds[i]);
}

int main(int argc, char **argv)
{
	FILE *f = fopen(argv[1], "r");
	char *line;
	if (!f) { perror(argv[1]); return 2; }
	setvbuf(stdout, NULL, _IOLBF, 0);
	while ((line = verif_getline(f))) {
		if (line[0] == 'E') run_case(line);
		else printf("BAD-CASE\n");
	}
	fclose(f);
	return 0;
}
