/* Correspondence driver, engine "fcache" (C04, file-cache layer): replays op
 * histories on the real fcache_get / fcache_pread / fcache_get_chunk /
 * fcache_put_chunk over a temporary file, with mmap/pread/malloc results
 * chosen by the case.
 *
 * case:  <nfiles> <sz0>,<sz1>,.. <pgszlog> <order> <cap> | <op> <op> ...   (hex numbers)
 *   G:<f>:<pos>:<mf>:<rf>              fcache_get on file f, entry kept as the next handle
 *   P:<h>                              fcache_put of handle h
 *   R:<f>:<pos>:<len>:<mf>:<rf>        fcache_pread
 *   K:<f>:<pos>:<len>:<mf>:<rf>:<al>   fcache_get_chunk, read data, fcache_put_chunk
 *   H:<f>:<pos>:<len>:<mf>:<rf>:<al>   fcache_get_chunk, chunk kept as the next chunk handle
 *   Q:<h>                          fcache_put_chunk of chunk handle h
 *   M:<p>                          fc->mmap_policy = p
 *  <mf>/<rf>/<al>: strings of 0/1 ("-" = none): the i-th mmap / pread / malloc
 *  call made by fcache.c during this op fails when the i-th character is 1.
 * output: G<st>:<len>:<fnv64(data[0..len))>   R<st>:<fnv64>   K<st>:<nent>:<copied>:<fnv64>
 *         (error: just the status)  P  Q  M, then
 *         "= <refsum cache> <refsum fbcache> <live mallocs> <policy>".
 * The byte at offset o of file f is (o*31 + o/4096*7 + 5 + 101*f) & 0xff: the files of
 * a set differ at every offset.
 * The system page size is what sysconf() says; <pgszlog> must agree with it. */
#include "common.h"
#include <unistd.h>
#include <fcntl.h>
#include <errno.h>
#include <sys/types.h>
#include <sys/stat.h>
#include <sys/mman.h>
#include "kdumpfile-priv.h"

extern unsigned long verif_cache_refsum(struct cache *cache);

static const char *mf_bits, *rf_bits, *al_bits;
static unsigned n_mmap, n_pread, n_malloc;
static long live;

static int bit(const char *s, unsigned i)
{
	return s && i < strlen(s) && s[i] == '1';
}
static void *verif_mmap(void *a, size_t l, int prot, int fl, int fd, off_t o)
{
	if (bit(mf_bits, n_mmap++)) { errno = ENOMEM; return MAP_FAILED; }
	return mmap(a, l, prot, fl, fd, o);
}
static ssize_t verif_pread(int fd, void *buf, size_t n, off_t o)
{
	if (bit(rf_bits, n_pread++)) { errno = EIO; return -1; }
	return pread(fd, buf, n, o);
}
static void *verif_malloc(size_t sz)
{
	void *p;
	if (bit(al_bits, n_malloc++)) return NULL;
	p = malloc(sz ? sz : 1);
	if (p) ++live;
	return p;
}
static void verif_free(void *p)
{
	if (p) --live;
	free(p);
}
#define mmap verif_mmap
#define pread verif_pread
#define malloc verif_malloc
#define free verif_free
#include "src/kdumpfile/fcache.c"
#undef mmap
#undef pread
#undef malloc
#undef free

static uint64_t fnv64(const unsigned char *p, size_t n)
{
	uint64_t h = 0xcbf29ce484222325ULL;
	while (n--) { h ^= *p++; h *= 0x100000001b3ULL; }
	return h;
}

static void fail_plan(const char *mf, const char *rf, const char *al)
{
	mf_bits = mf; rf_bits = rf; al_bits = al;
	n_mmap = n_pread = n_malloc = 0;
}

#define MAXH 256
#define MAXF 8

int main(int argc, char **argv)
{
	FILE *f = fopen(argv[1], "r");
	const char *tmpdir = getenv("TMPDIR");
	char *line;
	if (!f) { perror(argv[1]); return 2; }
	if (!tmpdir || !*tmpdir) tmpdir = "/tmp";
	setvbuf(stdout, NULL, _IOLBF, 0);
	while ((line = verif_getline(f))) {
		static struct fcache_entry fces[MAXH];
		static struct fcache_chunk chunks[MAXH];
		static char fce_live[MAXH], chunk_live[MAXH];
		unsigned nfce = 0, nchunk = 0, i;
		char *save = NULL, *tok, path[4096];
		unsigned long long filesz[MAXF], nfiles, pgszlog, order, cap, o;
		struct fcache *fc;
		unsigned char *content;
		int fds[MAXF], first = 1;
		unsigned fi;
		char *szs, *s3 = NULL, *q;

		tok = strtok_r(line, " ", &save); nfiles = hx(tok);
		szs = strtok_r(NULL, " ", &save);
		tok = strtok_r(NULL, " ", &save); pgszlog = hx(tok);
		tok = strtok_r(NULL, " ", &save); order = hx(tok);
		tok = strtok_r(NULL, " ", &save); cap = hx(tok);
		tok = strtok_r(NULL, " ", &save);	/* "|" */
		if ((1UL << pgszlog) != (unsigned long)sysconf(_SC_PAGESIZE)) {
			printf("PGSZ-MISMATCH\n");
			continue;
		}
		if (nfiles < 1 || nfiles > MAXF) { printf("BAD-NFILES\n"); continue; }
		for (fi = 0, q = strtok_r(szs, ",", &s3); fi < nfiles; ++fi, q = strtok_r(NULL, ",", &s3))
			filesz[fi] = q ? hx(q) : 0;
		for (fi = 0; fi < nfiles; ++fi) {
			snprintf(path, sizeof path, "%s/fcache-drv-XXXXXX", tmpdir);
			fds[fi] = mkstemp(path);
			if (fds[fi] < 0) { perror(path); return 2; }
			unlink(path);
			content = malloc(filesz[fi] ? filesz[fi] : 1);
			for (o = 0; o < filesz[fi]; ++o)
				content[o] = (unsigned char)((o * 31 + o / 4096 * 7 + 5 + 101 * fi) & 0xff);
			if (filesz[fi] && write(fds[fi], content, filesz[fi]) != (ssize_t)filesz[fi]) {
				perror("write"); return 2;
			}
			free(content);
		}

		fail_plan(NULL, NULL, NULL);
		fc = fcache_new(nfiles, fds, cap, order);
		if (!fc) {
			printf("NEWFAIL\n");
			for (fi = 0; fi < nfiles; ++fi) close(fds[fi]);
			continue;
		}
		live = 0;
		memset(fce_live, 0, sizeof fce_live);
		memset(chunk_live, 0, sizeof chunk_live);

		for (tok = strtok_r(NULL, " ", &save); tok; tok = strtok_r(NULL, " ", &save)) {
			char *fld[8]; int nf = 0; char *s2 = NULL, *p;
			for (p = strtok_r(tok, ":", &s2); p && nf < 8; p = strtok_r(NULL, ":", &s2))
				fld[nf++] = p;
			if (!first) putchar(' ');
			first = 0;
			switch (fld[0][0]) {
			case 'G': {
				struct fcache_entry fce;
				kdump_status st;
				fail_plan(fld[3], fld[4], NULL);
				st = fcache_get(fc, &fce, (unsigned)hx(fld[1]), (off_t)hx(fld[2]));
				fail_plan(NULL, NULL, NULL);
				if (st == KDUMP_OK) {
					printf("G0:%zx:%" PRIx64, fce.len, fnv64(fce.data, fce.len));
					if (nfce < MAXH) { fces[nfce] = fce; fce_live[nfce++] = 1; }
					else fcache_put(&fce);
				} else
					printf("G%d", (int)st);
				break;
			}
			case 'P': {
				unsigned h = hx(fld[1]);
				if (h < nfce && fce_live[h]) { fcache_put(&fces[h]); fce_live[h] = 0; }
				putchar('P');
				break;
			}
			case 'R': {
				size_t len = hx(fld[3]);
				unsigned char *buf = malloc(len ? len : 1);
				kdump_status st;
				fail_plan(fld[4], fld[5], NULL);
				st = fcache_pread(fc, buf, len, (unsigned)hx(fld[1]), (off_t)hx(fld[2]));
				fail_plan(NULL, NULL, NULL);
				if (st == KDUMP_OK)
					printf("R0:%" PRIx64, fnv64(buf, len));
				else
					printf("R%d", (int)st);
				free(buf);
				break;
			}
			case 'K': case 'H': {
				size_t len = hx(fld[3]);
				struct fcache_chunk fch;
				kdump_status st;
				memset(&fch, 0xa5, sizeof fch);
				fail_plan(fld[4], fld[5], fld[6]);
				st = fcache_get_chunk(fc, &fch, len, (unsigned)hx(fld[1]), (off_t)hx(fld[2]));
				fail_plan(NULL, NULL, NULL);
				if (st == KDUMP_OK) {
					printf("%c0:%zx:%d:%" PRIx64, fld[0][0], fch.nent,
					       fch.nent == 0 && fch.data != NULL,
					       fnv64(fch.data, len));
					if (fld[0][0] == 'H' && nchunk < MAXH) {
						chunks[nchunk] = fch; chunk_live[nchunk++] = 1;
					} else
						fcache_put_chunk(&fch);
				} else
					printf("%c%d", fld[0][0], (int)st);
				break;
			}
			case 'Q': {
				unsigned h = hx(fld[1]);
				if (h < nchunk && chunk_live[h]) { fcache_put_chunk(&chunks[h]); chunk_live[h] = 0; }
				putchar('Q');
				break;
			}
			case 'M':
				fc->mmap_policy.number = hx(fld[1]);
				putchar('M');
				break;
			default:
				printf("?");
			}
		}
		printf("%s= %lu %lu %ld %d\n", first ? "" : " ",
		       verif_cache_refsum(fc->cache), verif_cache_refsum(fc->fbcache),
		       live, (int)fc->mmap_policy.number);
		for (i = 0; i < nchunk; ++i)
			if (chunk_live[i]) fcache_put_chunk(&chunks[i]);
		for (i = 0; i < nfce; ++i)
			if (fce_live[i]) fcache_put(&fces[i]);
		fcache_free(fc);
		for (fi = 0; fi < nfiles; ++fi) close(fds[fi]);
	}
	fclose(f);
	return 0;
}
