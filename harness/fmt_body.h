/* Body of the C01 correspondence drivers (fmt_drv.c: public API only;
 * lkidx_drv.c: the same plus a dump of the LKCD PFN index after every request).
 * Not a general-purpose header: it defines main(). */
#include "common.h"
#ifndef FMT_AFTER_REQUEST
#define FMT_AFTER_REQUEST(ctx) ((void)0)
#endif
#include <fcntl.h>
#include <unistd.h>
#include <libkdumpfile/kdumpfile.h>

static uint32_t fnv1a(const unsigned char *p, size_t n)
{
	uint32_t h = 2166136261u;
	while (n--) { h ^= *p++; h *= 16777619u; }
	return h;
}

static void num_attr(kdump_ctx_t *ctx, const char *key)
{
	kdump_attr_t a;
	if (kdump_get_attr(ctx, key, &a) != KDUMP_OK) { printf(":-"); return; }
	if (a.type == KDUMP_NUMBER) printf(":%" PRIx64, (uint64_t)a.val.number);
	else if (a.type == KDUMP_ADDRESS) printf(":%" PRIx64, (uint64_t)a.val.address);
	else printf(":?");
}

int main(int argc, char **argv)
{
	FILE *f = fopen(argv[1], "r");
	char *line;
	if (!f) { perror(argv[1]); return 2; }
	setvbuf(stdout, NULL, _IOLBF, 0);
	while ((line = verif_getline(f))) {
		char *save = NULL, *tok;
		int nfiles, i, fds[16], first = 1;
		kdump_ctx_t *ctx;
		kdump_status st;

		tok = strtok_r(line, " ", &save);
		if (!tok) { putchar('\n'); continue; }
		nfiles = atoi(tok);
		if (nfiles < 1 || nfiles > 16) { printf("BADCASE\n"); continue; }
		for (i = 0; i < nfiles; ++i) {
			tok = strtok_r(NULL, " ", &save);
			fds[i] = tok ? open(tok, O_RDONLY) : -1;
			if (fds[i] < 0) { perror(tok ? tok : "?"); return 2; }
		}
		ctx = kdump_new();
		if (!ctx) { printf("NOCTX\n"); return 2; }
		st = kdump_open_fdset(ctx, nfiles, fds);
		if (st != KDUMP_OK) {
			printf("OPEN%d\n", (int)st);
			goto done;
		}
		while ((tok = strtok_r(NULL, " ", &save))) {
			if (tok[0] && tok[1] == '=')	/* F= L= I=: for the model side */
				continue;
			if (!first) putchar(' ');
			first = 0;
			if (tok[0] == 'G') {
				kdump_attr_t a;
				printf("G");
				if (kdump_get_attr(ctx, KDUMP_ATTR_FILE_FORMAT, &a) == KDUMP_OK
				    && a.type == KDUMP_STRING)
					printf(":%s", a.val.string);
				else
					printf(":-");
				num_attr(ctx, KDUMP_ATTR_BYTE_ORDER);
				num_attr(ctx, KDUMP_ATTR_PTR_SIZE);
				num_attr(ctx, KDUMP_ATTR_PAGE_SIZE);
				num_attr(ctx, "max_pfn");
				FMT_AFTER_REQUEST(ctx);
			} else if (tok[0] == 'Z') {
				st = kdump_set_number_attr(ctx, KDUMP_ATTR_ZERO_EXCLUDED, tok[1] == '1');
				printf(st == KDUMP_OK ? "Z" : "Z!%d", (int)st);
			} else if (tok[0] == 'R') {
				kdump_addrspace_t as =
					tok[1] == 'M' ? KDUMP_MACHPHYSADDR :
					tok[1] == 'K' ? KDUMP_KPHYSADDR : KDUMP_KVADDR;
				char *p = tok + 3, *q;
				uint64_t addr = strtoull(p, &q, 16);
				size_t len = strtoull(q + 1, NULL, 16), got = len;
				unsigned char *buf = malloc(len ? len : 1);
				st = kdump_read(ctx, as, addr, buf, &got);
				printf("R%d:%zx:%x", (int)st, got, (unsigned)fnv1a(buf, got));
				free(buf);
				FMT_AFTER_REQUEST(ctx);
			} else
				printf("?");
		}
		putchar('\n');
done:
		kdump_free(ctx);
		for (i = 0; i < nfiles; ++i)
			close(fds[i]);
	}
	fclose(f);
	return 0;
}
