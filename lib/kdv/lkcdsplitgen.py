"""Case generator for engine "lkcdsplit" (C04, LKCD PFN index: split_pfn_block).

A case is one hand-built struct pfn_block and a split point, see ml/eng_lkcdsplit.ml:

    filepos idx3 off0,off1,...,offn-1 | idx | follower fail          (hex, `-` = none)

Blocks have 0..12 entries with random gaps and distinct, NON-monotonic offsets (pages enter
a block in stream order); the split point is 1, inside a gap, on a known entry, the last
entry, or beyond the end (up to n + 15, what lookup_pfn_block(.., MAX_PFN_GAP) lets
through); the tail behind the split point has 0, 1, 2 or more known pages, with or without
gaps in between.  `tail`: "ordered" = every known entry behind the tail's first page has a
larger offset (the domain of C04_lkcd_split_preserves_lookup), "unordered" = at least one
has a smaller one (the block format cannot express that: open finding, the spec verdict
starts with "unordered-tail:"), "mixed" = mostly ordered.  idx = 0 (a duplicate of the
block's first page: block->n becomes 65535) is only generated with dup=True."""

U32 = 1 << 32
IDX3_SIZE = 4096
MAX_PFN_GAP = 15


def _offsets(rng, n):
    """n distinct non-zero 32-bit offsets in random (stream) order, some near the limits"""
    pool = set()
    while len(pool) < n:
        k = rng.random()
        if k < 0.1:
            pool.add(U32 - 1 - rng.randrange(0, 64))
        elif k < 0.2:
            pool.add(1 + rng.randrange(0, 64))
        elif k < 0.6:
            pool.add(rng.randrange(1, 0x100000))
        else:
            pool.add(rng.randrange(1, U32))
    l = list(pool)
    rng.shuffle(l)
    return l


def first_known(offs, idx):
    for p in range(idx, len(offs)):
        if offs[p]:
            return p
    return None


def tail_ordered(offs, idx):
    p = first_known(offs, idx)
    return p is None or all(v == 0 or v > offs[p] for v in offs[p + 1:])


def gen_case(rng, tail="mixed", faults=True, dup=False, oom=False):
    n = rng.choice([0, 1, 1, 2, 3, 3, 4, 5, 6, 7, 8, 9, 10, 11, 12])
    offs = _offsets(rng, n)
    # gaps
    gapp = rng.choice([0.0, 0.15, 0.3, 0.6])
    for i in range(n):
        if rng.random() < gapp:
            offs[i] = 0
    if n and rng.random() < 0.8:
        offs[n - 1] = offs[n - 1] or rng.randrange(1, U32)     # the last entry is known (block->n is tight)
    # split point
    k = rng.random()
    gaps = [i + 1 for i in range(n) if offs[i] == 0]             # idx whose own slot idx-1 is a gap
    if dup and k < 0.05:
        idx = 0
    elif k < 0.15:
        idx = 1
    elif k < 0.45 and gaps:
        idx = rng.choice(gaps)
    elif k < 0.52 and n:
        idx = n
    elif k < 0.65:
        idx = n + rng.randint(1, MAX_PFN_GAP)
    elif n:
        idx = rng.randint(1, n)
    else:
        idx = rng.randint(1, MAX_PFN_GAP)
    # the tail: known entries behind the first known one at/after position idx
    want = tail
    if tail == "mixed":
        want = "unordered" if rng.random() < 0.15 else "ordered"
    p = first_known(offs, idx)
    if p is not None and p + 1 < n:
        known = [i for i in range(p + 1, n) if offs[i]]
        if want == "ordered":
            vals = sorted([offs[p]] + [offs[i] for i in known])
            offs[p] = vals[0]
            rest = vals[1:]
            rng.shuffle(rest)
            for i, v in zip(known, rest):
                offs[i] = v
        elif want == "unordered" and known:
            if tail_ordered(offs, idx):
                i = rng.choice(known)
                offs[p], offs[i] = offs[i], offs[p]
    i3 = rng.randint(0, IDX3_SIZE - 1 - max(n, idx))
    if rng.random() < 0.15:
        i3 = IDX3_SIZE - 1 - max(n, idx)
    k = rng.random()
    if k < 0.1:
        filepos = (1 << 63) - U32 - 1 - rng.randrange(0, 1 << 20)
    elif k < 0.3:
        filepos = 0x10000 + rng.randrange(0, 1 << 16)
    else:
        filepos = rng.randrange(0x10000, 1 << 44)
    follower = "-"
    lo = i3 + max(n, idx) + 1
    if lo < IDX3_SIZE and rng.random() < 0.5:
        follower = "%x" % (lo if rng.random() < 0.4 else rng.randint(lo, min(lo + 40, IDX3_SIZE - 1)))
    fail = ""
    if faults:
        k = rng.random()
        if k < 0.05:
            fail += "m"
        elif k < 0.1:
            fail += "t"
        elif k < 0.13:
            fail += "n"
        elif k < 0.16:
            fail += "u"
        elif oom and k < 0.21:
            fail += "h"
        if n and "h" not in fail and rng.random() < 0.2:
            fail += "A"
    return "%x %x %s | %x | %s %s" % (filepos, i3, ",".join("%x" % v for v in offs) if offs else "-",
                                      idx, follower, fail or "-")


def spec_line(case, impl_out):
    """Input line of engine lkcdsplit-spec: the case and what the implementation printed for it."""
    return "%s => %s" % (case, impl_out)


def case_kind(case):
    """(tail pages, tail ordered?, where the split point lies) of a case: for histograms"""
    left, idx = case.split("|")[0:2]
    offs = left.split()[2]
    offs = [] if offs == "-" else [int(x, 16) for x in offs.split(",")]
    idx = int(idx, 16)
    p = first_known(offs, idx)
    ntail = 0 if p is None else 1 + sum(1 for v in offs[p + 1:] if v)
    where = "idx0" if idx == 0 else "idx1" if idx == 1 else "beyond" if idx > len(offs) else \
        "last" if idx == len(offs) else "gap" if offs[idx - 1] == 0 else "known"
    return min(ntail, 3), tail_ordered(offs, idx), where


def _main():
    """Scratch tie: python3 lib/kdv/lkcdsplitgen.py [ncases] [seed] [model engine]
    (use VERIF_REPO=<tree> VERIF_ENGINES=lkcdsplit VERIF_BUILD=<scratch dir>)."""
    import os
    import random
    import sys
    import tempfile
    import time
    sys.path.insert(0, os.path.dirname(os.path.dirname(os.path.abspath(__file__))))
    from kdv import core
    core.NPROC = min(core.NPROC, 4)
    n = int(sys.argv[1]) if len(sys.argv) > 1 else 3000
    seed = int(sys.argv[2]) if len(sys.argv) > 2 else 1
    engine = sys.argv[3] if len(sys.argv) > 3 else "lkcdsplit"
    rng = random.Random(seed)
    os.makedirs(core.BUILD, exist_ok=True)
    ok, log = core.build_ml_driver()
    if not ok:
        print("model driver build failed:\n" + log)
        return 2
    exe, log = core.cc_build("lkcdsplit_drv", "lkcdsplit_drv.c",
                             sources=core.lib_sources(exclude=("lkcd.c",)))
    if exe is None:
        print("C driver build failed:\n" + log)
        return 2
    work = tempfile.mkdtemp(prefix="lkcdsplit-", dir=core.BUILD)
    cases = [gen_case(rng, dup=(i % 50 == 0), oom=True) for i in range(n)]
    cf = os.path.join(work, "cases.txt")
    open(cf, "w").write("\n".join(cases) + "\n")
    t0 = time.time()
    model = core.run_model(engine, cf)
    t1 = time.time()
    impl, crashes = core.run_impl_lines(exe, work, cases, env={"ASAN_OPTIONS": "detect_leaks=0:exitcode=97"})
    sf = os.path.join(work, "spec.txt")
    open(sf, "w").write("\n".join(spec_line(c, i) for c, i in zip(cases, impl)) + "\n")
    spec = core.run_model("lkcdsplit-spec", sf)
    dis = [i for i in range(n) if model[i] != impl[i]]
    hist = {}
    for c in cases:
        k = case_kind(c)
        hist[k] = hist.get(k, 0) + 1
    verdicts = {}
    for s in spec:
        k = s.split(":")[0] if s != "ok" else "ok"
        verdicts[k] = verdicts.get(k, 0) + 1
    unexpected = [i for i in range(n) if spec[i] != "ok" and
                  not (spec[i].startswith("unordered-tail:") and not case_kind(cases[i])[1]) and
                  not (spec[i].startswith("head-count:") and "h" in cases[i].split("|")[2]) and
                  not (" | 0 | " in cases[i])]
    missed = [i for i in range(n) if spec[i] == "ok" and not case_kind(cases[i])[1]
              and impl[i].startswith("0 ")]
    print("seed %d engine %s: %d cases, %d distinct; model = implementation on %d; crashes %d; "
          "model %.1f us/case (incl. process start)"
          % (seed, engine, n, len(set(cases)), n - len(dis), len(crashes), (t1 - t0) * 1e6 / n))
    print("  verdicts: %s" % ", ".join("%s %d" % kv for kv in sorted(verdicts.items())))
    print("  kinds (tail pages<=3, ordered, split point): %s"
          % ", ".join("%s:%d" % ("/".join(str(x) for x in k), v) for k, v in sorted(hist.items(), key=str)))
    print("  verdicts outside the known classes (unordered-tail on an unordered tail, head-count on "
          "fault h, idx 0): %d; unordered tails judged ok: %d" % (len(unexpected), len(missed)))
    rc = 0
    for i in dis[:4]:
        print("  DISAGREE case  %s\n    model %s\n    impl  %s\n    spec  %s" % (cases[i], model[i][:300], impl[i][:300], spec[i]))
        rc = 1
    for i in list(crashes)[:2]:
        print("  CRASH case %s\n%s" % (cases[i], crashes[i][1][-1500:]))
        rc = 1
    for i in unexpected[:4]:
        print("  SPEC  case  %s\n    impl %s\n    %s" % (cases[i], impl[i][:300], spec[i]))
        rc = 1
    for i in [i for i in range(n) if spec[i].startswith("unordered-tail:")][:1]:
        print("  e.g.  case  %s\n    impl %s\n    %s" % (cases[i], impl[i][:300], spec[i]))
    import shutil
    shutil.rmtree(work, ignore_errors=True)
    return rc


if __name__ == "__main__":
    raise SystemExit(_main())
