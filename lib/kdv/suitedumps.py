"""Dump files of every format, word size and byte order, made by the library's own test suite.

The suite's shell test cases build their inputs with tests/mkelf, mkdiskdump, mklkcd, mksadump
and leave them in ./out/<name>.dump.  build(workdir) runs those scripts in a private directory
in which the mk* generators are the real ones (from /repo/tests; they do not link the library) and
every checking tool (checkattr, dumpdata, ...) is /bin/true, so that only the files are produced.
Used by the end-to-end stage of C16 and by the dump-object cases of C17."""
import os
import re
import subprocess

TOOLS = os.environ.get("VERIF_TOOLS", "/repo/tests")
GENERATORS = ("mkelf", "mkdiskdump", "mklkcd", "mksadump", "mkbinary")
STUBS = ("checkattr", "dumpdata", "multiread", "attriter", "clearattr", "subattr", "typed-attr",
         "vmci-post", "vmci-lines-post", "vmci-cleanup", "fdset", "elf-prstatus-mod-x86_64",
         "thread-errstr", "err-addrxlat")
WANT = re.compile(r"^(elf|diskdump|lkcd|sadump|s390|early|zero|flattened|split|kdump)")


def scripts():
    out = []
    for n in sorted(os.listdir(TOOLS)):
        p = os.path.join(TOOLS, n)
        if "." in n or not os.path.isfile(p) or not WANT.match(n):
            continue
        try:
            with open(p, "rb") as f:
                head = f.read(200)
        except OSError:
            continue
        if head.startswith(b"#!") and b"sh" in head.split(b"\n")[0]:
            out.append(n)
    return out


def build(workdir, names=None):
    """{name: path of out/<name>.dump}; cached in workdir"""
    os.makedirs(os.path.join(workdir, "out"), exist_ok=True)
    for g in GENERATORS:
        src = os.path.join(TOOLS, g)
        dst = os.path.join(workdir, g)
        if os.path.exists(src) and not os.path.lexists(dst):
            os.symlink(src, dst)
    for s in STUBS:
        dst = os.path.join(workdir, s)
        if not os.path.lexists(dst):
            os.symlink("/bin/true", dst)
    env = dict(os.environ)
    env["srcdir"] = TOOLS
    res = {}
    for n in (names or scripts()):
        dump = os.path.join(workdir, "out", n + ".dump")
        if not os.path.exists(dump):
            try:
                subprocess.run(["sh", os.path.join(TOOLS, n)], cwd=workdir, env=env, timeout=30,
                               stdout=subprocess.DEVNULL, stderr=subprocess.DEVNULL)
            except subprocess.TimeoutExpired:
                pass
        if os.path.exists(dump) and os.path.getsize(dump) > 0:
            res[n] = dump
    return res
