"""Line-per-case driver runs that survive a hanging implementation (helper of the C12/C16/C17
checks).  The C drivers arm alarm(<seconds>) at the start of every case, so a case that spins is
killed by SIGALRM within seconds instead of eating the whole batch time-out; run_lines() restarts the
driver after an abnormal exit like core.run_impl_lines, but gives up after `max_abnormal` of them
(the remaining cases are "NOT-RUN"), so that a library that hangs everywhere is reported within about a
minute.  is_hang() recognises the SIGALRM / time-out exits."""
import os
import signal

from . import core


def is_hang(rc):
    return rc == "timeout" or rc == -signal.SIGALRM or rc == 128 + signal.SIGALRM


def run_lines(exe, workdir, lines, timeout=120, max_abnormal=6, env=None):
    out_lines = []
    crashes = {}
    start = 0
    n = len(lines)
    abnormal = 0
    cf = os.path.join(workdir, "impl-cases-%d.txt" % os.getpid())
    while start < n and abnormal < max_abnormal:
        with open(cf, "w") as f:
            for l in lines[start:]:
                f.write(l + "\n")
        rc, out, err = core.run_impl(exe, [cf], timeout=timeout, env=env)
        got = out.split("\n")
        if got and got[-1] == "":
            got.pop()
        elif got:
            got.pop()           # partial last line
        got = got[:n - start]
        out_lines += got
        start += len(got)
        if start < n:
            abnormal += 1
            crashes[start] = (rc, err[-2500:])
            out_lines.append("CRASH %s" % rc)
            start += 1
        elif rc != 0:
            crashes[n - 1] = (rc, err[-2500:])
            break
    try:
        os.unlink(cf)
    except OSError:
        pass
    while len(out_lines) < n:
        out_lines.append("NOT-RUN")
    return out_lines, crashes
