"""The test suite's OS set-up scenarios (tests/xlat-linux-*, tests/xlat-xen-*) as inputs for
the C18 "oom" engine: option list, memory image (DATA) and symbol data (SYM) of every script,
rewritten into one plain file per scenario that harness/oom_drv.c (scenario wb_sys_os) loads:

    O <options, comma separated>
    A <address space of the memory image>
    M <address hex> <bytes hex>
    Y <REG|VALUE|SIZEOF|OFFSETOF|NUMBER> <arg1> <arg2|-> <value hex>
"""
import glob
import os
import re

from . import core


def _tests_dir():
    for base in (core.REPO, "/repo"):
        d = os.path.join(base, "tests")
        if os.path.exists(os.path.join(d, "xlat-os-common")):
            return d
    raise RuntimeError("tests/xlat-os-common not found")


def parse_data(path):
    """[(header, bytes)] of a test data file: '@header' lines, hex words (little endian, as on
    this host), 'word*count' repetition, '#' comments"""
    out = []
    hdr = None
    buf = bytearray()
    text = open(path).read()
    for raw in text.split("\n"):
        line = raw.split("#")[0].strip()
        if not line:
            continue
        if line.startswith("@"):
            if hdr is not None:
                out.append((hdr, bytes(buf)))
            hdr = line[1:].strip()
            buf = bytearray()
            continue
        line = re.sub(r"\s*([*+-])\s*", r"\1", line)
        for tok in line.split():
            m = re.fullmatch(r"([0-9a-fA-F]+)(?:\*(\w+)(?:([+-])([0-9a-fA-F]+))?)?", tok)
            if not m:
                raise ValueError("unsupported token %r in %s" % (tok, path))
            word = m.group(1)
            if len(word) % 2:
                word = "0" + word
            sz = len(word) // 2
            val = int(word, 16)
            rep = int(m.group(2), 0) if m.group(2) else 1
            inc = int(m.group(4), 16) if m.group(4) else 0
            if m.group(3) == "-":
                inc = -inc
            mask = (1 << (8 * sz)) - 1
            for i in range(rep):
                buf += ((val + i * inc) & mask).to_bytes(sz, "little")
    if hdr is not None:
        out.append((hdr, bytes(buf)))
    return out


def scenario_files(outdir):
    """name -> path of the rewritten scenario file, for every script that can be parsed"""
    d = _tests_dir()
    os.makedirs(outdir, exist_ok=True)
    res = {}
    for script in sorted(glob.glob(os.path.join(d, "xlat-linux-*")) + glob.glob(os.path.join(d, "xlat-xen-*"))):
        name = os.path.basename(script)
        if name.rsplit(".", 1)[-1] in ("data", "sym", "expect", "log", "trs"):
            continue
        try:
            text = open(script).read()
        except (OSError, UnicodeDecodeError):
            continue
        m = re.search(r"opts=\((.*?)\)", text, re.S)
        if not m:
            continue
        opts = [x.strip() for x in m.group(1).split("\n") if x.strip() and "=" in x]
        conv = []
        for o in opts:
            k, v = o.split("=", 1)
            if k == "rootpgt":
                asn, addr = v.split(":")
                asn = {"KPHYSADDR": 0, "MACHPHYSADDR": 1, "KVADDR": 2}.get(asn, asn)
                conv.append("rootpgt=%s:%s" % (asn, addr))
            elif k in ("arch", "ostype", "osver", "page_shift", "virt_bits", "phys_bits", "phys_base", "xen_xlat",
                       "xen_p2m_mfn"):
                conv.append("%s=%s" % (k, v))
        das = re.search(r"^\s*data_as=(\d+)", text, re.M)
        lines = ["O " + ",".join(conv), "A %s" % (das.group(1) if das else "1")]
        try:
            if os.path.exists(script + ".data"):
                for hdr, b in parse_data(script + ".data"):
                    lines.append("M %x %s" % (int(hdr, 0), b.hex()))
            if os.path.exists(script + ".sym"):
                for hdr, b in parse_data(script + ".sym"):
                    mm = re.match(r"(REG|VALUE|SIZEOF|OFFSETOF|NUMBER)\s*\(\s*([^,)]+?)\s*(?:,\s*([^)]+?)\s*)?\)", hdr)
                    if not mm:
                        raise ValueError("bad symbolic header " + hdr)
                    val = int.from_bytes(b[:8], "little")
                    lines.append("Y %s %s %s %x" % (mm.group(1), mm.group(2), mm.group(3) or "-", val))
        except ValueError:
            continue
        p = os.path.join(outdir, name + ".cfg")
        with open(p, "w") as f:
            f.write("\n".join(lines) + "\n")
        res[name] = p
    return res
