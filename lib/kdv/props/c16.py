"""C16 — failures carry a documented status and a message that tells the story.

Theorems: coq/theories/Properties_C16.v (models Err/ErrModel.v, Err/StatusModel.v,
spec Err/ErrSpec.v).
Tie, engine "errmsg":
  * harness/errmsg_drv.c #includes src/errmsg.h (realloc and vsnprintf interposed, exact-size
    blocks so that ASan's red zones guard buf, dyn and the VLA) and replays add/clear histories;
    the extracted model ErrModel.run_inst replays the same histories; after every op both print
    where str points and the C string there.
  * harness/status_drv.c links the library and calls addrxlat2kdump / kdump2addrxlat on a real
    kdump_ctx_t, drives open.c's probe loop with scripted probe results, and opens diskdump files
    with empty / absent / ordinary VMCOREINFO; the extracted StatusModel gives the expected lines.
Search: every add of every history is judged by the extracted *spec* (engine "errmsg-spec":
ErrSpec.add_spec on the implementation's own before/after strings); statuses are judged by
StatusModel's documented-set predicates (engine "errmsg-statusspec")."""
import os
import subprocess
import tempfile

from .. import core
from .. import hangaware

BUFSZ = [2, 3, 4, 5, 8, 16, 64]
ALPHA = list(range(0x61, 0x7b)) + [0x3c, 0x3e, 0x3a, 0x20, 0x25, 0x80, 0xff, 0x01]


def hexs(bs):
    return "".join("%02x" % b for b in bs) or "-"


class Track:
    """Generator-side bookkeeping of (text length, room before the text, in dyn) so that
    message lengths can be aimed at the case splits; mirrors ErrProofs.step_spec."""

    def __init__(self, bufsz):
        self.bufsz = bufsz
        self.tlen = 0
        self.room = bufsz - 1
        self.dyn = False
        self.null = True

    def add(self, L, ok):
        b = self.bufsz
        if self.null or self.tlen == 0:
            self.tlen, self.room, self.dyn, dlen = 0, b - 1, False, 0
        else:
            dlen = 2
        self.null = False
        m = L + dlen
        if m <= self.room:
            self.tlen += m
            self.room -= m
        elif ok:
            self.tlen += m
            self.room, self.dyn = 1, True
        elif self.room:
            self.tlen += self.room
            self.room = 0
        return self

    def clear(self):
        self.null = True


def gen_case(rng, maxops):
    bufsz = rng.choice(BUFSZ)
    tr = Track(bufsz)
    ops = []
    pfail = rng.choice([0.0, 0.35, 0.35, 0.7, 1.0])
    for _ in range(rng.randint(1, maxops)):
        k = rng.random()
        if k < 0.08:
            ops.append("C")
            tr.clear()
            continue
        ok = 0 if rng.random() < pfail else 1
        if k < 0.12:
            ops.append("X:%d" % ok)
            tr.add(19, ok)
            continue
        room = bufsz - 1 if (tr.null or tr.tlen == 0) else tr.room
        dlen = 0 if (tr.null or tr.tlen == 0) else 2
        r = rng.random()
        if r < 0.35:
            L = room - dlen + rng.choice([-2, -1, 0, 0, 1, 2])
        elif r < 0.65:
            L = bufsz + rng.choice([-3, -2, -1, 0, 1, 2])
        elif r < 0.9:
            L = rng.randint(0, 6)
        else:
            L = rng.randint(0, 3 * bufsz)
        L = max(0, L)
        text = [rng.choice(ALPHA) for _ in range(L)]
        ops.append("A:%s:%d" % (hexs(text), ok))
        tr.add(L, ok)
    return ["%d" % bufsz] + ops


def tok_text(tok):
    """'B5=6162' -> '6162'; 'N' -> '' ; None if not a state token"""
    if tok == "N":
        return ""
    if tok[:1] in "BD" and "=" in tok:
        return tok.split("=", 1)[1]
    return None


FAILTEXT = hexs(b"(bad format string)")


def spec_lines(case, impl_line):
    """spec-check lines for every add of a case from the implementation's own answers"""
    toks = impl_line.split()
    ops = case[1:]
    lines = []
    other = []
    if len(toks) != len(ops):
        return [], ["implementation produced %d results for %d operations" % (len(toks), len(ops))]
    prev = ""
    for op, tok in zip(ops, toks):
        t = tok_text(tok)
        if t is None:
            other.append("not a NUL-terminated string inside buf or dyn after %s: %s" % (op, tok))
            break
        f = op.split(":")
        if f[0] == "C":
            if tok != "N":
                other.append("error string not cleared by err_clear: " + tok)
        else:
            msg = f[1] if f[0] == "A" else FAILTEXT
            ok = f[2] if f[0] == "A" else f[1]
            lines.append("%s %s %s %s" % (ok, prev or "-", msg if msg != "-" else "-", t or "-"))
        prev = t
    return lines, other


def run_one(exe, run, case):
    cf = run.casefile("errmsg-one.txt", [" ".join(case)])
    model = core.run_model("errmsg", cf)
    rc, out, err = core.run_impl(exe, [cf], timeout=25)
    impl = out.split("\n")[:-1]
    return model, impl, rc, err


def spec_verdicts(run, case, implline):
    sl, other = spec_lines(case, implline)
    if sl:
        cf = run.casefile("errmsg-spec-one.txt", sl)
        other += [r for r in core.run_model("errmsg-spec", cf) if r != "ok"]
    return other


def nontrivial(case, line):
    # reaches the dynamic buffer or a truncation branch
    return " D" in " " + line or "=3c" in line


def compare(run, exe, cases, model, impl, crashes):
    all_spec, idx = [], []
    spec_bad = {}
    for i, c in enumerate(cases):
        if i < len(impl) and not impl[i].startswith(("CRASH", "NOT-RUN")):
            sl, other = spec_lines(c, impl[i])
            if other:
                spec_bad.setdefault(i, other[0])
            all_spec += sl
            idx += [i] * len(sl)
    verd = core.run_model("errmsg-spec", run.casefile("errmsg-spec-all.txt", all_spec)) if all_spec else []
    for j, v in enumerate(verd):
        if v != "ok":
            spec_bad.setdefault(idx[j], v)
    run.count("spec-adds-checked", len(all_spec))
    bad = core.diff_lines(model, impl)
    for i, c in enumerate(cases):
        canon = " ".join(c)
        line = impl[i] if i < len(impl) else ""
        run.note_case(canon, nontrivial(c, line))
        run.count("bufsz-" + c[0])
        for tok in line.split():
            run.count("state-" + ("null" if tok == "N" else "dyn" if tok[:1] == "D" else
                                  "buf-marked" if "=3c" in tok else "buf" if tok[:1] == "B" else "other"))
        if i < 3:
            run.sample({"case": canon, "impl": line})
    todo = sorted(set(bad) | set(spec_bad) | set(crashes))[:5]
    for i in todo:
        case = cases[i]

        def fails(ops, bufsz=case[0]):
            cand = [bufsz] + list(ops)
            m, im, r, e = run_one(exe, run, cand)
            return r != 0 or m != im or (im and spec_verdicts(run, cand, im[0]))
        if not fails(case[1:]):
            run.count("unreproducible-disagreement")
            continue
        small = [case[0]] + core.shrink_list(case[1:], fails, budget_s=25)
        m, im, r, e = run_one(exe, run, small)
        sv = spec_verdicts(run, small, im[0]) if im else []
        replay = {"engine": "errmsg", "ops": " ".join(small), "model": m, "implementation": im,
                  "impl_exit": r, "impl_stderr_tail": e[-1500:], "spec_verdicts": sv,
                  "how": "bin/check C16 --replay <this file> re-runs the history through harness/errmsg_drv.c"}
        if r != 0:
            what = "sanitizer/crash"
            if "buffer-overflow" in e or "heap-use-after-free" in e:
                what = [l for l in e.split("\n") if "ERROR: AddressSanitizer" in l][0].split("ERROR: ")[1][:80]
            run.violation("impl", "err_vadd: %s (exit %s) on history: %s" % (what, r, " ".join(small)),
                          replay, found_input=True, signature="errmsg crash " + e[-400:])
        elif sv:
            run.violation("spec", "err_vadd contradicts the message-chain spec: %s; history: %s"
                          % (sv[0], " ".join(small)), replay, found_input=True,
                          signature="errmsg spec " + sv[0])
        else:
            run.violation("tie", "correspondence errmsg (model ErrModel.err_vadd vs errmsg.h) broken on history: %s"
                          % " ".join(small), replay, found_input=False, signature="errmsg tie")


def check(run):
    run.trusted += ["modelled, not verified: vsnprintf (C99 behaviour assumed: writes min(len, size-1) bytes "
                    "and a NUL, returns len; or fails consistently with a negative result), realloc "
                    "(an oracle bit per call; a successful call keeps min(old,new) bytes), memmove/memcpy/strlen",
                    "not modelled: int/size_t overflow of message lengths (messages of 2^31 bytes)"]
    run.assumptions += ["the inline buffer has at least 2 bytes (ERRBUF is 160, 80 and 64 in the three users)",
                        "formatted messages contain no NUL byte (they are C strings)"]
    run.check_coq()
    if not run.need_ml():
        return
    exe = run.need_cc("errmsg_drv", "errmsg_drv.c", sanitize=True, libs=False)
    if exe is None:
        return
    quick = run.tier == "quick"
    if run.replay_path:
        rp = core.json.load(open(run.replay_path))["replay"]
        if rp.get("engine") == "errmsg-status":
            from . import c16_status
            c16_status.replay(run, rp)
            return
        if rp.get("engine") == "errmsg-ax":
            from . import c16_ax
            c16_ax.replay(run, rp)
            return
        if rp.get("engine") == "errmsg-api":
            from . import c16_api
            c16_api.replay(run, rp)
            return
        part = [rp["ops"].split()]
        lines = [" ".join(c) for c in part]
        model = core.run_model("errmsg", run.casefile("errmsg-cases.txt", lines))
        impl, crashes = hangaware.run_lines(exe, run.work, lines)
        print("model:          " + model[0])
        print("implementation: " + impl[0])
        compare(run, exe, part, model, impl, crashes)
        return
    ncases = 6000 if quick else 250000
    maxops = 8 if quick else 14
    cases = []
    corpus = os.path.join(core.VERIF, "corpus", "errmsg.txt")
    if os.path.exists(corpus):
        cases += [l.split() for l in open(corpus).read().split("\n") if l.strip() and not l.startswith("#")]
    ncorpus = len(cases)
    for _ in range(ncases):
        cases.append(gen_case(run.rng, maxops))
    run.cov["rule"] = ("add/clear histories on one error object; inline buffer sizes %s; message lengths aimed at the "
                       "free room before the text, at bufsz and at bufsz+-1,2,3 (generator tracks the room), bytes "
                       "include '<' '>' ':' ' ' '%%' and bytes >= 0x80; realloc failure probability per case in "
                       "{0, .35, .7, 1}; failing vsnprintf injected; distinct = distinct history strings; "
                       "non-trivial = reaches the dynamic buffer or a truncation marker" % BUFSZ)
    run.cov["engines"]["errmsg"] = {"corpus_cases": ncorpus, "generated": ncases}
    shard = 25000
    for s0 in range(0, len(cases), shard):
        part = cases[s0:s0 + shard]
        lines = [" ".join(c) for c in part]
        model = core.run_model("errmsg", run.casefile("errmsg-cases.txt", lines))
        impl, crashes = hangaware.run_lines(exe, run.work, lines)
        if crashes:
            run.count("impl-abnormal-exit", len(crashes))
        compare(run, exe, part, model, impl, crashes)
        if len(run.violations) > 3:
            break
    from . import c16_status
    c16_status.check(run)
    from . import c16_api
    c16_api.check(run)
    from . import c16_ax
    c16_ax.check(run)
