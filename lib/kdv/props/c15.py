"""C15 - every path gives back what it took: memory, pins and descriptors.

Theorems: coq/theories/Properties_C15.v (models Res/ResModel.v, Res/OomModel.v).
Tie, engine "res" (harness/res_drv.c, all library sources linked in, allocator / pread /
mmap wrapped):
  * "chunk" cases: white-box fcache_get_chunk / fcache_put_chunk rounds over every geometry
    (embedded, array, copied-out), mmap / read / fallback policy, with the k-th pread/mmap
    and the n-th allocation failing; the observation (status class, cache references and
    blocks held after get_chunk and after put_chunk) must equal the extracted model's and is
    judged by the extracted spec (ResSpec.chunk_obs_ok, engine "res-spec");
  * "seq" cases: random API histories on dumps of every format, including the error exits
    (unsupported compression, truncated file, unknown format, translation without page
    tables, type mismatches, failed re-open) and all orders of freeing clones, bitmap / blob /
    addrxlat references and contexts.  After EVERY call the sum of cache-entry reference counts
    of the page cache and both file caches is 0 (hooks/02-cache-refsum.patch), no lock is held
    (hooks/01), the caller's descriptors are where they were; at the end no tracked block
    remains.  These are properties of the implementation itself (monitored, bounded).

PARTIAL BY NATURE: whole-library leak freedom is a runtime fact; the theorems cover the
modelled owners only."""
import os
import re

from .. import core
from .. import oomlib
from .. import resdumps
from .c18 import known_fragment

ROOT = resdumps.ROOTPGT


# --------------------------------------------------------------------------- chunk cases
def chunk_cases(rng, n):
    """(driver line, parameters) - the model line is built from the driver's probe output"""
    out = []
    pg = 4096
    for _ in range(n):
        policy = rng.choice([0, 0, 1, 1, 2])
        filepages = 8
        r = rng.random()
        if r < 0.15:
            pos, ln = rng.randrange(0, 3 * pg), rng.randrange(1, pg // 2)
        elif r < 0.4:
            pos = rng.randrange(0, 2 * pg)
            ln = rng.randrange(pg // 2, 2 * pg)
        else:
            pos = rng.choice([0, 100, pg - 1, pg, 2 * pg + 7])
            ln = rng.choice([pg, 2 * pg, 2 * pg + 1, 3 * pg, 9000, 4 * pg + 5, 5 * pg])
        if rng.random() < 0.05:
            ln = 0
        if pos + ln > filepages * pg:
            ln = filepages * pg - pos
        iofail = rng.choice([0, 0, 1, 2, 3, 4, 5])
        allocfail = rng.choice([0, 0, 0, 1, 2])
        out.append(("chunk %d %d %d %d %d %d" % (policy, filepages, pos, ln, iofail, allocfail),
                    (policy, iofail, allocfail)))
    return out


def model_line(policy, iofail, allocfail, kv):
    """per-page environment: the k-th I/O call (pread or mmap, in program order) fails"""
    contig = kv.get("contig", "-")
    if contig == "-":
        pages = "-"
    else:
        c = 0
        pl = []
        for i, ch in enumerate(contig):
            m = r = "o"
            if policy == 0:
                c += 1
                if c == iofail:
                    r = "f"
            elif policy == 1:
                c += 1
                if c == iofail:
                    m = "f"
            else:
                c += 1
                if c == iofail:
                    m = "f"
                    c += 1
                    if c == iofail:
                        r = "f"
            pl.append(m + r + ch)
        pages = ",".join(pl)
    return "chunk 1 1 %d %s %s | %d" % (policy, kv.get("big", "0"), pages, allocfail)


CLS = {"embed": 1, "array": 2, "copy": 3, "empty": 4}


def obs_of(kv):
    st = kv.get("st")
    cls = 0 if st != "0" else CLS.get(kv.get("geom"), 9)
    return "cls=%d pins=%s blocks=%s pins2=%s blocks2=%s" % (
        cls, kv.get("pins"), kv.get("blocks"), kv.get("pins2"), kv.get("blocks2"))


# --------------------------------------------------------------------------- seq cases
def gen_seq(rng, files, good, maxops):
    """a random history over up to 3 contexts and 4 objects; files: list of paths; good: indices
    of files that open"""
    nf = len(files)
    ops = ["N0"]
    alive = {0}
    opened = set()      # contexts whose shared state has seen an open
    if rng.random() < 0.85:
        ops.append("O0:%d" % (rng.choice(good) if rng.random() < 0.8 else rng.randrange(nf)))
        opened.add(0)
    group = {0: 0}      # context -> shared state it belongs to
    owndict = set()     # clones with their own dictionary
    objs = set()
    ks = list("ORRRRSMPGGBVTXICCFFJJ")
    for _ in range(rng.randint(2, maxops)):
        k = rng.choice(ks)
        c = rng.choice(sorted(alive)) if alive else 0
        if not alive:
            ops.append("N0")
            alive.add(0)
            group[0] = 200 + len(ops)
            if rng.random() < 0.85:
                ops.append("O0:%d" % (rng.choice(good) if rng.random() < 0.8 else rng.randrange(nf)))
                opened.add(group[0])
            continue
        if k == "O":
            if group.get(c, c) in opened and rng.random() > 0.6:
                continue            # re-opening an open context: the first format must be released
            f = rng.choice(good) if rng.random() < 0.7 else rng.randrange(nf)
            ops.append("O%d:%d" % (c, f))
            opened.add(group.get(c, c))
        elif k == "R":
            as_ = rng.choice([1, 1, 0, 2])          # MACHPHYSADDR, KPHYSADDR, KVADDR
            addr = rng.choice([0, 0x1000, 0xff8, 0x2000000, 0x2e10ff0, 0x3000, 0x5000000, 0x1ff000])
            ln = rng.choice([8, 64, 4096, 8192, 5000])
            ops.append("R%d:%d:%#x:%d" % (c, as_, addr, ln))
        elif k == "S":
            ops.append("S%d:%d:%#x" % (c, rng.choice([1, 2]), rng.choice([0x1000, 0, 0x2000000, 0xfff])))
        elif k == "M":
            ops.append("M%d:%#x" % (c, rng.choice([ROOT, ROOT, 0x5000000, 0x1000])))
        elif k == "P":
            ops.append("P%d:%d" % (c, rng.choice([1, 2, 4, 16])))
        elif k == "G":
            o = rng.randrange(4)
            ops.append("G%d:%d:%d" % (c, o, rng.randrange(3)))
            objs.add(o)
        elif k == "B":
            ops.append("B%d" % rng.randrange(4))
        elif k == "V":
            if c in owndict and rng.random() > 0.7:
                continue            # attributes created through a clone's own dictionary
            ops.append("V%d" % c)
        elif k == "T":
            ops.append("T%d:%d" % (c, rng.randrange(5)))
        elif k == "X":
            ops.append("X%d:%d" % (c, rng.randrange(4)))
        elif k == "J":
            # rejected (and a few accepted) attribute updates, often several in a row so that the
            # attribute is hit with and without a previous value
            for _ in range(rng.randint(1, 3)):
                ops.append("J%d:%d" % (c, rng.choice([0, 0, 1, 2, 3, 4, 5, 6, 7])))
        elif k == "I":
            ops.append("I%d" % c)
        elif k == "C":
            d = rng.randrange(3)
            if d not in alive:
                fl = rng.choice([0, 1])
                ops.append("C%d:%d:%d" % (c, d, fl))
                alive.add(d)
                group[d] = group.get(c, c)
                owndict.discard(d)
                if fl or c in owndict:
                    owndict.add(d)      # a clone of such a clone shares its dictionary
        elif k == "F":
            ops.append("F%d" % c)
            alive.discard(c)
            owndict.discard(c)
            if not any(group.get(x, x) == group.get(c, c) for x in alive):
                opened.discard(group.get(c, c))
                group[c] = 100 + len(ops)       # a later N<c> starts a new shared state
    ops.append("Z%d" % rng.randrange(6))
    return ops


def gen_badpages(rng, bad, good, maxops):
    """histories on the dump whose compressed pages cannot be decompressed (valid streams of the
    wrong size, truncated streams; zlib, snappy, zstd), mostly with the read(2) file cache
    (16 blocks) and a small page cache, so that an entry left pinned by a failing read shows
    in the reference sum at once and as KDUMP_ERR_BUSY on later reads of good pages"""
    ops = ["N0"]
    if rng.random() < 0.75:
        ops.append("Y0:0")
    if rng.random() < 0.6:
        ops.append("P0:%d" % rng.choice([1, 2, 4]))
    ops.append("O0:0")
    alive = [0]
    for _ in range(rng.randint(4, maxops)):
        c = rng.choice(alive)
        r = rng.random()
        if r < 0.5:
            a = rng.choice(bad)
            ops.append("R%d:%d:%#x:%d" % (c, rng.choice([1, 1, 0]), a + rng.choice([0, 0, 8, 0xff0]),
                                          rng.choice([8, 64, 4096])))
        elif r < 0.6:
            g = rng.choice(good)
            ops.append("R%d:1:%#x:%d" % (c, g + 0xff0, rng.choice([64, 4096, 8192])))   # runs into a bad page
        elif r < 0.8:
            ops.append("K%d:%#x" % (c, rng.choice(good)))
        elif r < 0.88 and len(alive) < 3:
            d = max(alive) + 1
            ops.append("C%d:%d:%d" % (c, d, rng.choice([0, 1])))
            alive.append(d)
        elif r < 0.93:
            ops.append("J%d:%d" % (c, rng.choice([0, 1, 2, 4, 5])))
        elif r < 0.97 and len(alive) > 1:
            ops.append("F%d" % c)
            alive.remove(c)
        else:
            ops.append("S%d:1:%#x" % (c, rng.choice(bad)))
    # every good page must still be readable at the end
    for g in rng.sample(good, min(4, len(good))):
        ops.append("K%d:%#x" % (rng.choice(alive), g))
    ops.append("Z%d" % rng.randrange(6))
    return ops


# a corrupted size field may ask for an absurd allocation: that is C03's subject; here the
# allocator just fails (the library then takes its out-of-memory exit, which must be clean too)
# max_allocation_size_mb: a corrupted size field may ask fcache_get_chunk for gigabytes; malloc
# then "succeeds" and ASan spends the case's 8 s watchdog poisoning shadow memory - refuse such
# requests like a loaded system would (the library must then report the failure)
ASAN_ENV = {"ASAN_OPTIONS": "detect_leaks=1:abort_on_error=0:exitcode=97:allocator_may_return_null=1:"
                            "max_allocation_size_mb=512"}


def check(run):
    known_fragment(run)
    run.trusted += [
        "modelled, not verified: the cache algorithm behind cache_get_entry (answers Busy / Entry as an input of "
        "the model), mmap/pread (success or failure as an input), the format's read_page",
        "monitored, not proved: the reference sums, allocation table, lock balance and descriptor state of the "
        "seq cases (properties of the implementation itself on generated histories)",
        "partial by nature: the theorems cover file-cache chunks, fcache_get, the addrxlat read cache with kdump's "
        "page callbacks, diskdump's private data, set_attr's value, kdump_new/clone/free; whole-library leak "
        "freedom is a runtime fact",
    ]
    run.assumptions += [
        "the tree has hooks/01-lock-events.patch and hooks/02-cache-refsum.patch applied",
        "the read-cache model follows vtop.c after the conc agent's fixes/81 (private page copies)",
    ]
    run.check_coq()
    if not run.need_ml():
        return
    exe = oomlib.build(run, "res_drv", extra_flags=("-Wl,--wrap=pread,--wrap=mmap",))
    if exe is None:
        return
    d = os.path.join(run.work, "dumps")
    try:
        dumps = resdumps.all_formats(d)
        dumps["diskdump-lzo"] = resdumps.diskdump(d, "ddlzo", methods=("raw", "2", "zlib", "raw", "zlib", "raw"))
        dumps["diskdump-flat"] = resdumps.diskdump(d, "ddflat", extra="flattened = yes\n")
    except Exception as e:                       # noqa
        run.violation("machinery", "cannot build the test dumps: %s" % e, {}, found_input=False)
        return
    # error-exit files: truncated dumps, not a dump at all
    for name in ("diskdump", "elf", "lkcd"):
        src = dumps[name]
        data = open(src, "rb").read()
        p = os.path.join(d, name + "-trunc.dump")
        with open(p, "wb") as f:
            f.write(data[:len(data) * 2 // 3])
        dumps[name + "-trunc"] = p
    badpath, badaddrs, goodaddrs = resdumps.bad_pages_diskdump(d)
    p = os.path.join(d, "garbage.dump")
    with open(p, "wb") as f:
        f.write(bytes((i * 37 + 11) & 0xff for i in range(20000)))
    dumps["garbage"] = p

    quick = run.tier == "quick"
    if run.replay_path:
        rp = core.json.load(open(run.replay_path))
        line = rp["replay"]["case"]
        out, _ = core.run_impl_lines(exe, run.work, [line], env={"OOM_VERBOSE": "1"})
        print("implementation: " + out[0][:2000])
        if line.startswith("chunk"):
            judge_chunks(run, exe, [(line, tuple(rp["replay"]["params"]))], out)
        else:
            judge_seqs(run, exe, [(line, rp["replay"].get("files", []), rp["replay"].get("ops", []))], out)
        return

    # ---- chunk rounds
    cc = chunk_cases(run.rng, 400 if quick else 8000)
    out, _ = core.run_impl_lines(exe, run.work, [c[0] for c in cc], timeout=1500)
    judge_chunks(run, exe, cc, out)

    # ---- API histories
    names = sorted(dumps)
    seqs = []
    nseq = 500 if quick else 12000
    for i in range(nseq):
        k = run.rng.randint(1, 3)
        files = [dumps[n] for n in run.rng.sample(names, k)]
        if all(os.path.basename(f).startswith("garbage") or "-trunc" in f for f in files):
            files.append(dumps["diskdump"])
        good = [j for j, f in enumerate(files) if "garbage" not in f]
        ops = gen_seq(run.rng, files, good or [0], 14 if quick else 30)
        seqs.append(("seq %s : %s" % ("|".join(files), " ".join(ops)), files, ops))
    for i in range(150 if quick else 3000):
        ops = gen_badpages(run.rng, badaddrs, goodaddrs, 18 if quick else 40)
        seqs.append(("seq %s : %s" % (badpath, " ".join(ops)), [badpath], ops))
    # the same on LKCD (gzip): over-long streams with and without compressed input left over
    try:
        lbad, lbadaddrs, lgoodaddrs = resdumps.lkcd_bad(d)
        for i in range(40 if quick else 600):
            ops = gen_badpages(run.rng, lbadaddrs, lgoodaddrs, 14 if quick else 40)
            seqs.append(("seq %s : %s" % (lbad, " ".join(ops)), [lbad], ops))
        # every bad page of both files once, alone: per-history accounting names the page
        for path_, addrs in ((badpath, badaddrs), (lbad, lbadaddrs)):
            for a in addrs:
                for pol in (0, 2):
                    ops = ["N0", "Y0:%d" % pol, "O0:0", "R0:1:%#x:4096" % a, "R0:1:%#x:64" % (a + 8), "Z0"]
                    seqs.append(("seq %s : %s" % (path_, " ".join(ops)), [path_], ops))
    except RuntimeError as e:
        run.violation("machinery", "cannot build the LKCD dump with bad pages: %s" % e, {}, found_input=False)
    # Xen domain cores: the PFN table read entry by entry through fcache_get_fb; .xen_pfn at file
    # offsets that make an entry straddle a file-cache block (a page, with the read(2) cache)
    try:
        for k, off in enumerate((0x3ffc, 0x3ff9, 0x3430)):
            xp = resdumps.elf_xen_unaligned(d, "elfxen-unaligned%d" % k, off)
            for pol in (0, 0, 2):
                ops = ["N0", "Y0:%d" % pol, "O0:0", "R0:1:0x0:64", "G0:0:%d" % run.rng.randrange(2), "I0"]
                if run.rng.random() < 0.5:
                    ops += ["C0:1:%d" % run.rng.randrange(2), "O1:0", "R1:1:0x1000:64"]
                ops += ["O0:0", "B0", "Z%d" % run.rng.randrange(6)]
                seqs.append(("seq %s : %s" % (xp, " ".join(ops)), [xp], ops))
    except (RuntimeError, AssertionError) as e:
        run.violation("machinery", "cannot build the Xen domain cores: %s" % e, {}, found_input=False)
    # s390x: VMCOREINFO found through the lowcore's os_info pointer when the OS type is set
    # (successful path; whatever it allocates must be gone after kdump_free), repeated and cloned
    s390 = resdumps.elf_s390x_osinfo(d)
    for i in range(12 if quick else 120):
        ops = ["N0", "O0:0", "J0:2"]
        r = run.rng.random()
        if r < 0.3:
            ops += ["C0:1:%d" % run.rng.randrange(2), "J1:2", "G1:0:2", "I1"]
        elif r < 0.5:
            ops += ["J0:3", "J0:2", "G0:0:2"]            # xen, then linux again: the scan runs twice
        elif r < 0.7:
            ops += ["O0:0", "J0:2", "V0"]
        ops += ["R0:1:0x2000:64", "I0", "Z%d" % run.rng.randrange(6)]
        seqs.append(("seq %s : %s" % (s390, " ".join(ops)), [s390], ops))
    # re-open: every ordered pair of files, with and without clones, with and without the first
    # format's page-map bitmap still held by the application
    allfiles = [dumps[n] for n in names]
    pairs = [(a, b) for a in range(len(allfiles)) for b in range(len(allfiles))]
    run.rng.shuffle(pairs)
    for a, b in pairs[:(60 if quick else len(pairs))]:
        files = [allfiles[a], allfiles[b]]
        hold = run.rng.random() < 0.5
        cl = run.rng.choice(["", "", "C0:1:0", "C0:1:1"])
        ops = ["N0", "O0:0", "R0:1:0x1000:64", "G0:2:%d" % run.rng.randrange(2)] + ([] if hold else ["B2"]) + \
              ([cl] if cl else []) + ["O0:1", "R0:1:0x1000:64", "G0:3:%d" % run.rng.randrange(3)] + \
              (["R1:1:0x1000:64", "V1", "M1:%#x" % ROOT, "R1:2:0x0:8"] if cl else []) + \
              (["O0:0", "R0:1:0x0:64"] if run.rng.random() < 0.3 else []) + ["Z%d" % run.rng.randrange(6)]
        seqs.append(("seq %s : %s" % ("|".join(files), " ".join(ops)), files, ops))
    # failing (and surviving) opens of corrupted files of every format: one field of a seed dump
    # set to a bad value or the file cut at a structure boundary (the parse agent's enumerator);
    # every corruption of a flattened file's segment headers; ELF cores whose notes are rejected
    try:
        bad_opens = resdumps.corrupted_opens(d, run.rng, 6 if quick else 60)
        notes = resdumps.elf_bad_notes(d)
    except Exception as e:                       # noqa
        run.violation("machinery", "cannot build the corrupted dumps: %s" % e, {}, found_input=False)
        return
    for label, path in bad_opens + [(n, p_) for n, p_ in sorted(notes.items())] * 3:
        pol = run.rng.choice([0, 0, 2])
        ops = ["N0", "Y0:%d" % pol, "O0:0", "R0:1:0x0:64", "G0:0:%d" % run.rng.randrange(3),
               "R0:1:0x1000:4096", "B0", "Z%d" % run.rng.randrange(6)]
        if run.rng.random() < 0.3:
            ops.insert(3, "C0:1:%d" % run.rng.randrange(2))
        seqs.append(("seq %s : %s" % (path, " ".join(ops)), [path], ops))
    run.count("corrupted-open-files", len(bad_opens))
    # ---- translation systems whose methods the application replaces (allocation accounting
    # only, no failure injected): every OS set-up of the test suite, ppc64 (the one set-up that
    # allocates a table of its own) in all orders of replace / re-init / re-init without memory
    sysm_stage(run)
    run.rng.shuffle(seqs)
    # in shards: a badly broken tree (hangs cost seconds each) is reported after the first shard
    shard = 100 if quick else 1000
    for i in range(0, len(seqs), shard):
        part = seqs[i:i + shard]
        out, _ = core.run_impl_lines(exe, run.work, [s[0] for s in part], timeout=1700, env=ASAN_ENV)
        judge_seqs(run, exe, part, out)
        if len(run.violations) >= 3:
            run.count("seq-shards-skipped-after-violations", (len(seqs) - i - len(part)) // shard)
            break
    run.cov["rule"] = ("chunk: one case = (policy, position, length, failing I/O call, failing allocation); seq: one case = "
                       "one API history on 1-3 files; distinct = distinct case strings; non-trivial = a chunk round with a "
                       "failure or a non-embedded geometry / a history in which at least one call failed or a clone or an "
                       "object reference outlived its context")
    run.cov["engines"]["res"] = {"chunk_cases": len(cc), "seq_cases": len(seqs)}


def sysm_stage(run):
    from .. import xlatcfg
    try:
        syscfg = xlatcfg.scenario_files(os.path.join(run.work, "syscfg"))
        oexe = oomlib.build(run, "oom_drv")
    except Exception as e:                       # noqa
        run.violation("machinery", "cannot prepare the translation-system histories: %s" % e, {}, found_input=False)
        return
    lines = []
    for nm, path in sorted(syscfg.items()):
        for v in (range(16) if "ppc64" in nm else (3,)):
            lines.append("wb_sys_meth 0 %d @%s" % (v, path))
    out, _ = core.run_impl_lines(oexe, run.work, lines, timeout=600, env=ASAN_ENV)
    seen = set()
    for line, o in zip(lines, out):
        _, kv = oomlib.parse_line(o)
        run.note_case(line)
        bad = None
        if kv.get("res") == "died" or "san" in kv and kv.get("san", "-") != "-":
            bad = "died: " + o[:200]
        elif kv.get("leak", "-") not in ("-", "?"):
            nm = oomlib.resolve(oexe, oomlib.addresses_in(kv))
            bad = "leak of blocks allocated at " + "+".join(sorted({nm.get(p_.split("*")[0], p_) for p_ in kv["leak"].split(",")}))
        elif kv.get("held", "0") not in ("0", "?"):
            bad = "lock held"
        if bad:
            sig = "res sysm " + re.sub(r"0x[0-9a-f]+", "", bad)
            if sig in seen:
                continue
            seen.add(sig)
            run.violation("impl", "translation system life cycle breaks C15: %s; case: %s" % (bad, line),
                          {"engine": "oom_drv (no failure injected)", "case": line, "implementation": o[:400]},
                          found_input=True, signature=sig)
    run.count("sys-meth-histories", len(lines))


def judge_chunks(run, exe, cc, out):
    mlines = []
    parsed = []
    for (line, (policy, iofail, allocfail)), o in zip(cc, out):
        _, kv = oomlib.parse_line(o)
        parsed.append(kv)
        mlines.append(model_line(policy, iofail, allocfail, kv) if "st" in kv else "chunk 1 1 0 0 - | 0")
    model = core.run_model("res", run.casefile("res-model.txt", mlines))
    spec_in = []
    for kv in parsed:
        if "st" in kv:
            o = obs_of(kv)
            spec_in.append(" ".join(re.findall(r"=(\d+)", o)))
        else:
            spec_in.append("9 9 9 9 9")
    spec = core.run_model("res-spec", run.casefile("res-spec.txt", spec_in))
    reported = 0
    for (line, params), o, kv, m, sv, ml in zip(cc, out, parsed, model, spec, mlines):
        died = "st" not in kv
        obs = obs_of(kv) if not died else o
        nontrivial = params[1] != 0 or params[2] != 0 or kv.get("geom") in ("array", "copy")
        run.note_case(line, nontrivial)
        run.count("chunk-" + (kv.get("geom", "died") if kv.get("st") == "0" else ("failed" if not died else "died")))
        if len(run.cov["samples"]) < 3 and nontrivial:
            run.sample({"case": line, "observed": obs, "model": m})
        bad = None
        if died:
            bad = ("impl", "fcache_get_chunk round aborts: %s" % o, "res chunk died " + o.split("san=")[-1])
        elif "DATA-MISMATCH" in o:
            bad = ("impl", "fcache_get_chunk returned wrong bytes", "res chunk data")
        elif "LEAK-AT-END" in o:
            bad = ("impl", "blocks left after fcache_decref", "res chunk leak-at-end")
        elif sv != "ok":
            bad = ("spec", "fcache chunk round violates the spec: %s (%s)" % (sv, obs), "res chunk spec " + sv)
        elif obs != m:
            bad = ("tie", "correspondence res (chunk round vs ResModel.run_chunk) broken: impl %s, model %s" % (obs, m),
                   "res chunk tie")
        if bad and reported < 8:
            reported += 1
            run.violation(bad[0], bad[1] + "; case: " + line,
                          {"engine": "res", "case": line, "params": list(params), "model_case": ml, "model": m,
                           "implementation": o,
                           "how": "bin/check C15 --replay <this file>"},
                          found_input=(bad[0] != "tie"), signature=bad[2])


def classify(o):
    """signature of a seq failure"""
    if o.startswith("DIED"):
        return "res seq died " + o.split("san=")[-1]
    m = re.match(r"BAD op#\d+_([A-Z])[^:]*:_(.*)", o)
    if m:
        what = re.sub(r"\d+", "N", m.group(2))
        return "res seq op=%s %s" % (m.group(1), what)
    if o.startswith("BAD lock-underflow"):
        return "res seq lock-underflow kinds=" + "".join(sorted(o.split("kind_")[-1].split("_")[0]))
    if o.startswith("BAD "):
        return "res seq " + re.sub(r"\d+", "N", o[4:60])
    return "res seq ?"


def judge_seqs(run, exe, seqs, out):
    reported = set()
    final = set()
    for (line, files, ops), o in zip(seqs, out):
        failing = any(op[0] in "TJ" for op in ops) or \
            any("trunc" in f or "garbage" in f or "lzo" in f or "ddbad" in f or "/corrupt/" in f or "elfnote" in f
                for f in files)
        run.note_case(line, failing or any(op[0] in "CGX" for op in ops))
        for op in ops:
            run.count("op-" + op[0])
        if o.startswith("ok"):
            run.count("seq-ok")
            if len(run.cov["samples"]) < 6:
                run.sample({"case": " ".join(ops)[:200], "files": [os.path.basename(f) for f in files], "result": o})
            continue
        run.count("seq-bad")
        sig = classify(o)
        if o.startswith("BAD leak="):
            addrs = o[9:].split(",")
            nm = oomlib.resolve(exe, addrs)
            sig = "res seq leak " + "+".join(sorted({nm.get(a, a) for a in addrs}))
        if sig in reported or len(reported) >= 30:
            continue
        reported.add(sig)

        # shrink the history: still the same class of failure
        def fails(cand):
            l = "seq %s : %s" % ("|".join(files), " ".join(cand))
            oo, _ = core.run_impl_lines(exe, run.work, [l], timeout=120, env=ASAN_ENV)
            if oo[0].startswith("ok"):
                return False
            s2 = classify(oo[0])
            if oo[0].startswith("BAD leak="):
                a2 = oo[0][9:].split(",")
                n2 = oomlib.resolve(exe, a2)
                s2 = "res seq leak " + "+".join(sorted({n2.get(a, a) for a in a2}))
            return s2 == sig
        small = core.shrink_list(ops, fails, max_tests=120) if fails(ops) else ops
        l2 = "seq %s : %s" % ("|".join(files), " ".join(small))
        oo, _ = core.run_impl_lines(exe, run.work, [l2], timeout=120, env=ASAN_ENV)
        # histories with a feature that is a recorded finding are classified by the feature
        xclones = set()         # contexts that use a clone's own dictionary
        creates = False         # an attribute-creating call was made through such a dictionary
        for op in small:
            if op[0] in "VO" and op[1:].split(":")[0] in xclones:
                creates = True
            if op[0] == "C":
                src, dst, fl = op[1:].split(":")
                if fl == "1" or src in xclones:
                    xclones.add(dst)
                else:
                    xclones.discard(dst)
            elif op[0] in "FN":
                xclones.discard(op[1:].split(":")[0])
        if sum(1 for op in small if op[0] == "O") >= 2:
            sig = "res seq reopen: " + sig[8:]
        elif creates:
            sig = "res seq clone-creates-attrs: " + sig[8:]
        if sig in final:
            continue
        final.add(sig)
        shown = oo[0][:200]
        if oo[0].startswith("BAD leak="):
            a3 = oo[0][9:].split(",")
            n3 = oomlib.resolve(exe, a3)
            shown = "BAD leak of blocks allocated at " + "+".join(sorted({n3.get(a, a) for a in a3}))
        ms = re.search(r"site_([0-9a-f]+)", shown)
        if ms:
            shown = shown.replace(ms.group(0), "allocated_at_" + oomlib.resolve(exe, [ms.group(1)]).get(ms.group(1), "?"))
        run.violation("impl", "API history breaks C15: %s; history: %s on %s"
                      % (shown, " ".join(small), ",".join(os.path.basename(f) for f in files)),
                      {"engine": "res", "case": l2, "files": files, "ops": small, "implementation": oo[0],
                       "how": "bin/check C15 --replay <this file> (OOM_VERBOSE=1 shows the sanitizer report)"},
                      found_input=True, signature=sig)
