"""C16, pure-libaddrxlat stage (engine "errmsg-ax", harness/ax_drv.c): histories of public
libaddrxlat calls on ONE context / translation system; after EVERY call the status and the context's
error string are judged by the extracted contract (engine "errmsg-axspec": StatusModel.ax_status_msg_ok,
ErrSpec.stale_after_clear, ErrSpec.chain_step): documented status; success => empty string; failure =>
non-empty; the outcome of every entry point is the same as on a cleared context (each history is run a second
time with addrxlat_ctx_clear_err() before every entry-point call: C16_cleared_entry_forgets_history); setters
leave the string alone;
addrxlat_ctx_err prepends.  Plus a scan of src/addrxlat for the public status-returning functions and
where each calls clear_error(), compared with StatusModel.ax_clears."""
import glob
import os
import re

from .. import core
from .. import hangaware

METHS = list(range(9))
ADDRS = [0, 0x1000, 0x1234, 0x3000, 0x3fff, 0x5000, 0x7fffffffffff, 0xffff880000001000, 0xffffffff81000000]


def hexs(s):
    return "".join("%02x" % b for b in s.encode()) or "-"


PAGE_OFFSETS = [0, 0xffffffc000000000, 0xffffaf8000000000, 0xffffffd800000000, 0xffff800000000000,
                0xc0000000, 0x7fffffffff, 0xffffffffffffffff]


def pgt_addr(rng):
    """addresses whose table indexes at the four 9-bit levels are even (present) or odd (not present)"""
    base = rng.choice([0, 0, 0xffffffc000000000, 0xffff800000000000, 0xffffff8000000000, 0xffff000000000000,
                       0x8000000000, 0xc0000000])
    for b in (12, 21, 30, 39):
        if rng.random() < 0.35:
            base |= 1 << b
    return (base + rng.choice([0, 0x234, 0xfff])) & 0xffffffffffffffff


def gen_pgt_case(rng, nops):
    """an OS set-up whose internal scans fail in a tolerated way (non-canonical base, unreadable or empty
    root, missing number), then translations that fail in each way on the SAME context"""
    ops = []
    if rng.random() < 0.8:
        ops.append("N%x" % rng.choice(PAGE_OFFSETS))
    ops.append("G%d" % rng.choice([0, 1, 2, 3, 4, 5, 6]))
    ops.append("I%d" % rng.randrange(8, 16))
    for _ in range(nops):
        k = rng.random()
        if k < 0.55:
            ops.append("P%x" % pgt_addr(rng))
        elif k < 0.7:
            ops.append("G%d" % rng.choice([0, 1, 2, 3, 4, 5, 6]))
        elif k < 0.8:
            a = rng.randrange(3)
            ops.append("F%x:%x:%x" % (a, pgt_addr(rng), rng.randrange(3)))
        elif k < 0.88:
            ops.append("I%d" % rng.randrange(16))
        elif k < 0.94:
            ops.append("N%x" % rng.choice(PAGE_OFFSETS))
        else:
            ops.append("W%d:%x" % (rng.choice([2, 8]), pgt_addr(rng)))
    return ops


def gen_case(rng, nops):
    if rng.random() < 0.4:
        return gen_pgt_case(rng, nops)
    ops = []
    for _ in range(nops):
        k = rng.random()
        if k < 0.16:
            ops.append("L%d:%x" % (rng.choice(METHS), rng.choice(ADDRS)))
        elif k < 0.24:
            ops.append("S")
        elif k < 0.38:
            ops.append("W%d:%x" % (rng.choice(METHS), rng.choice(ADDRS)))
        elif k < 0.56:
            # every caps mask, incl. the pass-through case (caps contain the source space)
            ops.append("O%x:%x:%x:%x" % (rng.randrange(3), rng.choice(ADDRS), rng.randrange(8),
                                         1 if rng.random() < 0.3 else 0))
        elif k < 0.68:
            a = rng.randrange(3)
            ops.append("F%x:%x:%x" % (a, rng.choice(ADDRS), a if rng.random() < 0.4 else rng.randrange(3)))
        elif k < 0.76:
            ops.append("I%d" % rng.randrange(16))
        elif k < 0.84:
            ops.append("M%d" % rng.randrange(5))
        elif k < 0.89:
            ops.append("G%d" % rng.randrange(7))
        elif k < 0.96:
            ops.append("E%s" % rng.choice(["1", "3", "5", "-3", "0", "6"]))
        else:
            ops.append("C")
    return ops


def spec_lines(ops, answer):
    """one spec line per call; tracks the string before each call and the number of direct messages"""
    toks = answer.split()
    lines = []
    prev = "-"
    nmsg = 0
    if len(toks) != len(ops):
        return None
    for op, t in zip(ops, toks):
        if "," not in t:
            return None
        st, new = t.split(",", 1)
        # message counter of the driver: every message-producing callback / E call increments it; recover
        # it from the text when present
        if op[0] == "E":
            m = re.search(rb"#(\d+)", bytes.fromhex(new) if new != "-" else b"")
            extra = " " + hexs("direct message #%s" % m.group(1).decode()) if (m and st != "0") else " -"
            # the newest direct message is the first "#n" of the new string
            lines.append("E %s %s %s%s" % (st, prev, new, extra))
        elif op[0] == "C":
            lines.append("C 0 %s %s" % (prev, new))
        elif st == "v":
            lines.append("v 0 %s %s" % (prev, new))
        else:
            lines.append("e %s %s %s" % (st, prev, new))
        prev = new
    return lines


def scan_entries():
    """public status-returning libaddrxlat functions that take or reach a context: where clear_error() sits"""
    res = {}
    for f in sorted(glob.glob(os.path.join(core.REPO, "src", "addrxlat", "*.c"))):
        src = open(f, errors="replace").read()
        for m in re.finditer(r"^addrxlat_status\n(addrxlat_\w+)\(([^)]*)\)\s*\{", src, re.M):
            name, params = m.group(1), m.group(2)
            body = src[m.end():src.find("\n}\n", m.end())]
            if "ctx" not in params and "step" not in params and "ctl" not in params:
                continue                       # e.g. addrxlat_map_set: no context involved
            ic = body.find("clear_error(")
            ir = re.search(r"\breturn\b", body)
            ir = ir.start() if ir else len(body)
            if name == "addrxlat_ctx_err":
                how = "sets"
            elif 0 <= ic < ir:
                how = "first"
            elif ic < 0 and re.search(r"return\s+internal_op\(", body):
                how = "via-addrxlat_op"
            elif ic < 0:
                how = "never"
            else:
                how = "late"
            res[name] = how
    return res


def check_entries(run):
    model = core.run_model("errmsg-axspec", run.casefile("ax-entries.txt", ["AXENTRIES"]))[0].split()
    want = dict(x.split(":", 1) for x in model)
    got = scan_entries()
    run.count("addrxlat-entry-points", len(got))
    if got != want:
        diff = ["%s: sources '%s', StatusModel.ax_clears '%s'" % (k, got.get(k), want.get(k))
                for k in sorted(set(got) | set(want)) if got.get(k) != want.get(k)]
        run.violation("tie", "where libaddrxlat's entry points clear the error differs from the transcription "
                      "(StatusModel.ax_clears): " + "; ".join(diff),
                      {"engine": "errmsg-ax", "ops": "AXENTRIES", "sources": got, "model": want},
                      found_input=False, signature="ax entries")


def check_noerr(run):
    """StatusModel.scan_mapped: every place that switches a noerr flag on restores it before any return"""
    bad = []
    n = 0
    for f in sorted(glob.glob(os.path.join(core.REPO, "src", "addrxlat", "*.c"))):
        src = open(f, errors="replace").read()
        for m in re.finditer(r"noerr\.(\w+)\s*=\s*1\s*;", src):
            n += 1
            end = src.find("\n}\n", m.end())
            body = src[m.end():end]
            r = re.search(r"noerr\.%s\s*=\s*(?!1\s*;)" % m.group(1), body)
            upto = body[:r.start()] if r else body
            if r is None or re.search(r"\breturn\b", upto):
                line = src.count("\n", 0, m.start()) + 1
                bad.append("%s:%d" % (os.path.relpath(f, core.REPO), line))
    run.count("noerr-set-sites", n)
    if bad:
        run.violation("tie", "a noerr flag is switched on and a return can be reached before it is restored "
                      "(StatusModel.scan_mapped restores on every path): " + ", ".join(bad),
                      {"engine": "errmsg-ax", "ops": "AXENTRIES", "sites": bad}, found_input=False,
                      signature="ax noerr")


def build(run):
    return run.need_cc("ax_drv", "ax_drv.c", sanitize=True, libs=True,
                       sources=core.lib_sources(which=("addrxlat",)))


def judge(run, cases, impl, twins=None):
    lines, idx = [], []
    bad = {}
    if twins is not None:
        for i, (ops, l, t) in enumerate(zip(cases, impl, twins)):
            if l.startswith(("CRASH", "NOT-RUN", "SETUP-FAILED")) or t.startswith(("CRASH", "NOT-RUN")):
                continue
            v = forget_verdict(ops, l, t)
            if v:
                bad[i] = v
    for i, (ops, l) in enumerate(zip(cases, impl)):
        if l.startswith(("CRASH", "NOT-RUN", "SETUP-FAILED")):
            continue
        sl = spec_lines(ops, l)
        if sl is None:
            bad[i] = (0, "malformed answer")
            continue
        for j, s in enumerate(sl):
            lines.append(s)
            idx.append((i, j))
    if lines:
        verd = core.run_model("errmsg-axspec", run.casefile("ax-spec.txt", lines))
        for (i, j), v in zip(idx, verd):
            if v != "ok":
                bad.setdefault(i, (j, v))
    run.count("ax-returns-judged", len(lines))
    return bad


ENTRY = "LSWOFIP"


def twin(ops):
    """the same history with addrxlat_ctx_clear_err() before every entry-point call"""
    out = []
    for o in ops:
        if o[0] in ENTRY:
            out.append("C")
        out.append(o)
    return out


def forget_verdict(ops, ans, twin_ans):
    """C16_cleared_entry_forgets_history on the real library: what a call returns and leaves behind must not
    depend on the error string left by earlier calls"""
    a = ans.split()
    t = twin_ans.split()
    if len(a) != len(ops):
        return None
    j = 0
    for i, o in enumerate(ops):
        if o[0] in ENTRY:
            j += 1
        if j >= len(t):
            return None
        if a[i] != t[j]:
            def txt(x):
                st, m = x.split(",", 1)
                return "%s \"%s\"" % (st, bytes.fromhex(m).decode(errors="replace") if m != "-" else "")
            return (i, "the outcome depends on the error string left by earlier calls: %s here, %s on a "
                       "cleared context" % (txt(a[i]), txt(t[j])))
        j += 1
    return None


def run_one(exe, run, ops):
    cf = run.casefile("ax-one.txt", [" ".join(ops)])
    rc, out, err = core.run_impl(exe, [cf], timeout=25)
    return out.split("\n")[:-1], rc, err


def report(run, exe, cases, impl, crashes, bad):
    for i in sorted(set(bad) | set(crashes))[:4]:
        ops = cases[i]

        def both(cand):
            im, rc, err = run_one(exe, run, cand)
            tw, rc2, err2 = run_one(exe, run, twin(cand))
            return im, rc, err, tw

        def fails(cand):
            im, rc, err, tw = both(cand)
            return rc != 0 or bool(judge(run, [cand], im, tw if tw else None))
        if not fails(ops):
            run.count("unreproducible-disagreement")
            continue
        small = core.shrink_list(ops, fails, max_tests=120, budget_s=25)
        im, rc, err, tw = both(small)
        b = judge(run, [small], im, tw if tw else None)
        replay = {"engine": "errmsg-ax", "ops": " ".join(small), "implementation": im, "impl_exit": rc,
                  "impl_stderr_tail": err[-1500:], "spec_verdict": b.get(0),
                  "how": "bin/check C16 --replay <this file> re-runs the history through harness/ax_drv.c"}
        if rc != 0:
            run.violation("impl", "libaddrxlat: sanitizer/crash (exit %s) on history: %s" % (rc, " ".join(small)),
                          replay, found_input=True, signature="ax crash " + err[-300:])
        else:
            j, v = b[0]
            txt = ""
            try:
                t = im[0].split()[j].split(",", 1)[1]
                txt = " (\"%s\")" % bytes.fromhex(t).decode(errors="replace") if t != "-" else ""
            except (IndexError, ValueError):
                pass
            run.violation("spec", "libaddrxlat call breaks the status/message contract: %s after '%s'%s; history: %s"
                          % (v, small[j], txt, " ".join(small)), replay, found_input=True,
                          signature="ax spec %s %s" % (small[j][:1], v[:50]))


def check(run):
    check_entries(run)
    check_noerr(run)
    exe = build(run)
    if exe is None:
        return
    quick = run.tier == "quick"
    n = 1500 if quick else 60000
    cases = [gen_case(run.rng, run.rng.randint(2, 14 if quick else 24)) for _ in range(n)]
    # the pass-through case of addrxlat_op / addrxlat_fulladdr_conv after a failing call, for every caps mask
    for caps in range(1, 8):
        for a in range(3):
            if caps & (1 << a):
                cases.append(["W0:1000", "O%x:1000:%x:0" % (a, caps)])
                cases.append(["E3", "F%x:1000:%x" % (a, a)])
                cases.append(["L8:1000", "O%x:1000:%x:1" % (a, caps)])
    run.cov["engines"]["errmsg-ax"] = {"histories": len(cases)}
    lines = [" ".join(c) for c in cases]
    impl, crashes = hangaware.run_lines(exe, run.work, lines, timeout=120 if quick else 1200)
    for ops, l in zip(cases, impl):
        run.note_case("ax " + " ".join(ops), True)
        for op, t in zip(ops, l.split()):
            run.count("ax-%s-%s" % (op[0], t.split(",")[0]))
    if crashes:
        run.count("ax-abnormal-exit", len(crashes))
    timpl, _ = hangaware.run_lines(exe, run.work, [" ".join(twin(c)) for c in cases],
                                   timeout=120 if quick else 1200)
    report(run, exe, cases, impl, crashes, judge(run, cases, impl, timpl))


def replay(run, rp):
    if rp["ops"] == "AXENTRIES":
        check_entries(run)
        check_noerr(run)
        return
    exe = build(run)
    if exe is None:
        return
    cases = [rp["ops"].split()]
    impl, crashes = hangaware.run_lines(exe, run.work, [rp["ops"]], timeout=120)
    print("implementation: " + impl[0])
    timpl, _ = hangaware.run_lines(exe, run.work, [" ".join(twin(c)) for c in cases], timeout=120)
    print("with cleared context before each call: " + timpl[0])
    report(run, exe, cases, impl, crashes, judge(run, cases, impl, timpl))
