"""C10 — a translation map behaves as a total function from addresses to methods.

Theorems: coq/theories/Properties_C10.v (model Map/MapModel.v, spec Map/MapSpec.v).
Tie: engine "map" — op histories replayed on the real addrxlat_map_* (harness/map_drv.c,
which #includes /repo/src/addrxlat/map.c with the allocator interposed) and on the
extracted model.  Search: the implementation's own before/after range lists are judged
by the extracted *spec* (engine "map-spec")."""
from .. import core

MAX = (1 << 64) - 1
METHS = [-1, 0, 1, 2, 3]


def hexs(v):
    return ("-%x" % -v) if v < 0 else ("%x" % v)


def gen_case(rng, maxops):
    """One history.  Addresses are drawn near the boundaries created so far."""
    pool = [0, MAX, 0x1000, 0x7fffffffffff, 0x800000000000, 0xffff800000000000,
            0xffffffffffffefff, 0xfffffffffffff000]
    ops = []
    for _ in range(rng.randint(1, maxops)):
        k = rng.random()
        if k < 0.72:
            a = rng.choice(pool)
            a = max(0, min(MAX, a + rng.choice([0, 0, 1, -1, 1, 0x1000, -0x1000, rng.randint(-40, 40)])))
            r = rng.random()
            if r < 0.15:
                e = 0
            elif r < 0.3:
                e = MAX - a                      # to the top of the address space
            elif r < 0.6:
                b = rng.choice(pool)
                e = b - a if b >= a else rng.randint(0, 0x3000)
                e = max(0, e + rng.choice([0, -1, 1, 0]))
            else:
                e = rng.choice([0xfff, 0x1fff, 1, 2, rng.randint(0, 1 << rng.randint(1, 63))])
            e = min(e, MAX - a)
            m = rng.choice(METHS)
            ok = 0 if rng.random() < 0.15 else 1
            ops.append("S:%x:%x:%s:%d" % (a, e, hexs(m), ok))
            for v in (a, a + e, a - 1, a + e + 1):
                if 0 <= v <= MAX and len(pool) < 64:
                    pool.append(v)
        elif k < 0.92:
            a = rng.choice(pool)
            a = max(0, min(MAX, a + rng.choice([0, 1, -1])))
            ops.append("Q:%x" % a)
        else:
            ops.append("C:%d:%d" % (0 if rng.random() < 0.2 else 1, 0 if rng.random() < 0.2 else 1))
    return ops


def parse_out(line):
    """'S0=a:b,c:d; Q-1=...;' -> [(out, mapstr)]"""
    res = []
    for tok in line.split():
        o, _, m = tok.partition("=")
        res.append((o, m.split(";")[0]))
    return res


def frozen_parts(line):
    """the printed original of the last copy after each op ('' when none)"""
    out = []
    for tok in line.split():
        _, _, f = tok.partition("~")
        out.append(f.rstrip(";") if "~" in tok else None)
    return out


def independence_verdict(ops, implline):
    """copying yields an independent map: the original never changes afterwards"""
    outs = parse_out(implline)
    fr = frozen_parts(implline)
    want = None
    prev = ""
    for op, (o, m), f in zip(ops, outs, fr):
        if o == "C1":
            want = prev
        if want is not None and f != want:
            return "the original of a copied map changed after the copy: %s, expected %s" % (f, want)
        prev = m
    return None


def boundaries(mapstr):
    out = []
    pos = 0
    if mapstr:
        for r in mapstr.split(","):
            e = int(r.split(":")[0], 16)
            pos += e
            out += [pos, pos + 1]
            pos += 1
    return out


def spec_lines(ops, outs):
    """Spec-check lines for every step of one case, from the implementation's answers."""
    lines = []
    before = ""
    for op, (o, after) in zip(ops, outs):
        pr = set([0, MAX] + boundaries(before) + boundaries(after))
        f = op.split(":")
        if f[0] in ("S", "Q"):
            a = int(f[1], 16)
            pr |= {a, a - 1, a + 1}
            if f[0] == "S":
                e = a + int(f[2], 16)
                pr |= {e, e + 1, e - 1, (a + e) // 2}
        probes = " ".join("%x" % x for x in sorted(pr) if 0 <= x <= MAX)
        lines.append("%s | %s | %s | %s | %s" % (before, op, after, o, probes))
        before = after
    return lines


def check(run):
    run.trusted += ["modelled, not verified: realloc/malloc/calloc (an oracle bit per call), memmove"]
    run.assumptions += ["callers pass ranges with addr + endoff <= ADDRXLAT_ADDR_MAX (the API's domain)"]
    run.check_coq()
    if not run.need_ml():
        return
    exe = run.need_cc("map_drv", "map_drv.c", sanitize=True, libs=False)
    if exe is None:
        return
    quick = run.tier == "quick"
    ncases = 4000 if quick else 200000
    maxops = 12 if quick else 20
    cases = []
    if run.replay_path:
        rp = core.json.load(open(run.replay_path))
        part = [rp["replay"]["ops"].split()]
        model = core.run_model("map", run.casefile("map-cases.txt", [" ".join(c) for c in part]))
        impl, crashes = core.run_impl_lines(exe, run.work, [" ".join(c) for c in part])
        print("model:          " + model[0])
        print("implementation: " + impl[0])
        compare(run, exe, part, model, impl, crashes)
        return
    # corpus of minimised past disagreements first
    corpus = core.os.path.join(core.VERIF, "corpus", "map.txt")
    if core.os.path.exists(corpus):
        cases += [l.split() for l in open(corpus).read().split("\n") if l.strip() and not l.startswith("#")]
    ncorpus = len(cases)
    for _ in range(ncases):
        cases.append(gen_case(run.rng, maxops))
    run.cov["rule"] = ("op histories over addrxlat_map_set/search/copy with allocation results chosen per op; "
                       "addresses drawn at 0, 2^64-1 and +-1 around boundaries created earlier in the same history; "
                       "distinct = distinct op strings; non-trivial = at least one set that splits or merges "
                       "(range count changes by other than +0 from a non-empty map) or an injected failure")
    run.cov["engines"]["map"] = {"corpus_cases": ncorpus, "generated": ncases}
    shard = 20000
    for s0 in range(0, len(cases), shard):
        part = cases[s0:s0 + shard]
        cf = run.casefile("map-cases.txt", [" ".join(c) for c in part])
        model = core.run_model("map", cf)
        impl, crashes = core.run_impl_lines(exe, run.work, [" ".join(c) for c in part])
        if crashes:
            run.count("impl-abnormal-exit", len(crashes))
        compare(run, exe, part, model, impl, crashes)
        if len(run.violations) > 3:
            break


def nontrivial(ops, outs):
    prev = 0
    for op, (o, m) in zip(ops, outs):
        n = len(m.split(",")) if m else 0
        if op[0] == "S" and (o != "S0" or (prev and n != prev)):
            return True
        prev = n
    return False


def run_one(exe, run, ops):
    cf = run.casefile("map-one.txt", [" ".join(ops)])
    model = core.run_model("map", cf)
    rc, out, err = core.run_impl(exe, [cf], timeout=60)
    impl = out.split("\n")[:-1]
    return model, impl, rc, err


def spec_verdicts(run, ops, implline):
    outs = parse_out(implline)
    if len(outs) != len(ops):
        return ["implementation produced %d results for %d operations" % (len(outs), len(ops))]
    sl = spec_lines(ops, outs)
    cf = run.casefile("map-spec.txt", sl)
    res = core.run_model("map-spec", cf)
    iv = independence_verdict(ops, implline)
    return [r for r in res if r != "ok"] + ([iv] if iv else [])


def compare(run, exe, cases, model, impl, crashes):
    # 1. every step of every case judged by the spec on the implementation's own answers
    all_spec = []
    idx = []
    for i, ops in enumerate(cases):
        if i < len(impl):
            outs = parse_out(impl[i])
            if len(outs) == len(ops):
                sl = spec_lines(ops, outs)
                all_spec += sl
                idx += [i] * len(sl)
    cf = run.casefile("map-spec-all.txt", all_spec)
    verd = core.run_model("map-spec", cf)
    spec_bad = {}
    for j, v in enumerate(verd):
        if v != "ok":
            spec_bad.setdefault(idx[j], v)
    run.count("spec-steps-checked", len(all_spec))
    for i, ops in enumerate(cases):
        if i < len(impl) and i not in spec_bad:
            iv = independence_verdict(ops, impl[i])
            if iv:
                spec_bad[i] = iv
    # 2. model vs implementation
    bad = core.diff_lines(model, impl)
    for i, ops in enumerate(cases):
        canon = " ".join(ops)
        outs = parse_out(impl[i]) if i < len(impl) else []
        nt = nontrivial(ops, outs)
        run.note_case(canon, nt)
        for op, (o, _) in zip(ops, outs):
            run.count("op-" + op[0] + "-" + o)
        if i < 3:
            run.sample({"ops": canon, "impl": impl[i] if i < len(impl) else None})
    todo = sorted(set(bad) | set(spec_bad) | set(crashes))[:5]
    for i in todo:
        ops = cases[i]

        def fails(cand):
            m, im, r, e = run_one(exe, run, cand)
            return r != 0 or m != im or (im and spec_verdicts(run, cand, im[0]))
        if not fails(ops):
            run.count("unreproducible-disagreement")
            continue
        small = core.shrink_list(ops, fails)
        m, im, r, e = run_one(exe, run, small)
        sv = spec_verdicts(run, small, im[0]) if im else []
        replay = {"engine": "map", "ops": " ".join(small), "model": m, "implementation": im,
                  "impl_exit": r, "impl_stderr_tail": e[-1500:], "spec_verdicts": sv,
                  "how": "bin/check C10 --replay <this file> re-runs the ops through harness/map_drv.c"}
        if r != 0:
            run.violation("impl", "map.c aborts (sanitizer/crash, exit %s) on history: %s" % (r, " ".join(small)),
                          replay, found_input=True, signature="map crash " + e[-300:])
        elif sv:
            run.violation("spec", "map.c contradicts the total-function spec: %s; history: %s"
                          % (sv[0], " ".join(small)), replay, found_input=True,
                          signature="map spec " + sv[0])
        else:
            run.violation("tie", "correspondence map (model MapModel.run vs addrxlat_map_*) broken on history: %s"
                          % " ".join(small), replay, found_input=False, signature="map tie")
