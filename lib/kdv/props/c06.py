"""C06 — the page cache never loses, duplicates or recycles a buffer that is in use.

Theorems: coq/theories/Properties_C06.v (model Cache/CacheList.v, spec Cache/CacheSpec.v).
Tie: engine "cache" — legal client histories (get / insert / discard / put / flush through
reference handles) replayed on the real src/kdumpfile/cache.c (harness/cache_drv.c includes
the file and prints the state by following the real next/prev pointers) and on the extracted
model; every result and every complete state dump must be identical.
  * random long histories over capacities 1, 2, 3, 4, 8;
  * breadth-first enumeration of the reachable states for capacities 1 and 2 (every legal
    operation from every state found, bounded number of outstanding handles), flagged
    `exhaustive_enumerations` in the evidence with whether the fixpoint was reached.
Second tie: engine "cache-ring" — the extracted *pointer-level* model (Cache/CacheRing.v: next/prev
arrays, split, counters, in-flight head) replays the same histories; its complete line, including
the raw next/prev/split/inflight members, must equal what the driver printed from the real structure.
Search: every state and every step the *implementation* printed is judged by the extracted
spec (engine "cache-spec": CacheSpec.invb_clauses / step_okb_clauses)."""
import re

from .. import core

CAPS = [1, 2, 3, 4, 8]
SEP = " | "

PROFILES = {
    # g, i, d, p, f
    "balanced": (0.40, 0.22, 0.07, 0.29, 0.02),
    "hoard":    (0.50, 0.25, 0.05, 0.19, 0.01),     # handles pile up: busy lookups, in-flight sharing
    "churn":    (0.42, 0.26, 0.04, 0.27, 0.01),     # many keys: evictions, ghosts
    "abort":    (0.38, 0.10, 0.24, 0.26, 0.02),     # many discards: unused partition refilled
}


def gen_case(rng, cap, maxops):
    prof = rng.choice(sorted(PROFILES))
    w = PROFILES[prof]
    if prof == "churn":
        nkeys = 2 * cap + 2
    elif prof == "hoard":
        nkeys = cap + 2
    else:
        nkeys = rng.choice([cap, cap + 1, cap + 2, 2 * cap + 1, 2 * cap + 2])
    keys = ["%x" % (k * 0x1000 + rng.choice([0, 0, 1])) for k in range(nkeys)]
    ops = []
    for _ in range(rng.randint(max(1, maxops // 8), maxops)):
        r = rng.random()
        if r < w[0]:
            # recently used keys are looked up again more often (hits, ghost hits)
            if ops and rng.random() < 0.35:
                prev = [o for o in ops[-12:] if o[0] == "g"]
                ops.append(rng.choice(prev) if prev else "g:" + rng.choice(keys))
            else:
                ops.append("g:" + rng.choice(keys))
        elif r < w[0] + w[1]:
            ops.append("i:%d" % rng.randint(0, cap + 1))
        elif r < w[0] + w[1] + w[2]:
            ops.append("d:%d" % rng.randint(0, cap + 1))
        elif r < w[0] + w[1] + w[2] + w[3]:
            ops.append("p:%d" % rng.randint(0, cap + 1))
        elif rng.random() < 0.5:
            ops.append("f")
        else:
            # cache.size / page size changed: def_realloc_caches (new cache, old one freed)
            ops.append("r:%d" % rng.choice([1, 2, 3, 4, 8]))
    return ["%d" % cap] + ops


RAW = re.compile(r" raw=\S* nx=\S* pv=\S*")


def strip_raw(line):
    """The C driver also prints the raw next/prev members (for the pointer-level model);
    the list-level model and the spec judge do not look at them."""
    return RAW.sub("", line)


def segments(line):
    return line.split(SEP) if line else []


def seg_state(seg):
    return seg.split(" # ", 1)[1] if " # " in seg else None


def seg_step(seg):
    return seg.split(" # ", 1)[0]


def state_fields(state):
    return dict(w.split("=", 1) for w in state.split())


def quick_verdict(seg):
    """Failures visible without the spec engine (they cannot be parsed as a state)."""
    if "BAD(" in seg:
        return "circular list is not well-formed: " + re.search(r"(ring|infl)=BAD\(([^)]*)\)", seg).group(0)
    if "NULL-BUFFER" in seg:
        return "lookup handed out an entry without a buffer"
    if ":-2:" in seg:
        return "an entry's data pointer is not one of the cache's buffers"
    return None


def spec_lines(line):
    """(segment index, spec-engine input line or immediate verdict) for one output line."""
    out = []
    prev = None
    if line.startswith("NOT-RUN") or line.startswith("CRASH"):
        return out
    for i, seg in enumerate(segments(line)):
        if seg in ("skip", "-"):
            continue
        qv = quick_verdict(seg)
        if qv:
            out.append((i, None, qv))
            break
        st = seg_state(seg)
        if st is None:
            out.append((i, None, "no state printed: " + seg[:60]))
            break
        if prev is None or seg.startswith("realloc:"):
            out.append((i, "%s @ init @ %s" % (st, st), None))
        else:
            out.append((i, "%s @ %s @ %s" % (prev, seg_step(seg), st), None))
        prev = st
    return out


def judge(run, lines):
    """Spec verdicts for many implementation output lines: {line index: first failure}."""
    batch, where = [], []
    bad = {}
    nsteps = 0
    for li, line in enumerate(lines):
        for (si, sl, verdict) in spec_lines(line):
            if verdict:
                bad.setdefault(li, "step %d: %s" % (si, verdict))
            else:
                batch.append(sl)
                where.append((li, si))
                nsteps += 1
    if batch:
        res = core.run_model("cache-spec", run.casefile("cache-spec.txt", batch))
        for (li, si), v in zip(where, res):
            if v != "ok" and li not in bad:
                bad[li] = "step %d: %s" % (si, v)
    run.count("spec-steps-judged", nsteps)
    return bad


def run_impl_batch(run, exe, lines, timeout, max_restarts=3):
    """Like core.run_impl_lines, with a bound on restarts: a driver that dies or hangs on a case gets
    'CRASH <rc>' for it and is restarted after it at most `max_restarts` times (a hang costs `timeout`
    seconds each time); what is left then is 'NOT-RUN' and is not compared."""
    out_lines, crashes = [], {}
    start, n, restarts = 0, len(lines), 0
    cf = core.os.path.join(run.work, "impl-cases-%d.txt" % core.os.getpid())
    while start < n and restarts <= max_restarts:
        with open(cf, "w") as f:
            f.write("\n".join(lines[start:]) + "\n")
        rc, out, err = core.run_impl(exe, [cf], timeout=timeout)
        got = out.split("\n")
        got.pop()                       # "" after the last newline, or a partial line
        got = got[:n - start]
        out_lines += got
        start += len(got)
        if start < n:
            crashes[start] = (rc, err[-2500:])
            out_lines.append("CRASH %s" % rc)
            start += 1
            restarts += 1
        elif rc != 0:
            crashes[n - 1] = (rc, err[-2500:])
    not_run = n - len(out_lines)
    out_lines += ["NOT-RUN"] * not_run
    if not_run:
        run.count("impl-cases-not-run-after-repeated-crashes", not_run)
    return out_lines, crashes


def run_both(run, exe, cases, tag="cases"):
    lines = [" ".join(c) for c in cases]
    model = core.run_model("cache", run.casefile("cache-%s.txt" % tag, lines))
    # a batch takes a second or two; a driver that hangs (unsigned counter underflow turns the
    # bounded loops of cache.c into 2^32 iterations) is cut off and the case reported as a crash
    ring = core.run_model("cache-ring", run.casefile("cache-%s.txt" % tag, lines))
    full, crashes = run_impl_batch(run, exe, lines, timeout=20 if run.tier == "quick" else 300)
    for i, l in enumerate(full):
        if l == "NOT-RUN":
            model[i] = ring[i] = "NOT-RUN"
    run.last_ring = (ring, full)
    return model, [strip_raw(l) for l in full], crashes


def run_one(run, exe, case, ring=False):
    cf = run.casefile("cache-one.txt", [" ".join(case)])
    model = core.run_model("cache-ring" if ring else "cache", cf)
    rc, out, err = core.run_impl(exe, [cf], timeout=10)
    impl = out.split("\n")[:-1]
    if not ring:
        impl = [strip_raw(l) for l in impl]
    return model, impl, rc, err


def op_kinds(line):
    for seg in segments(line)[1:]:
        w = seg.split(" ")
        if seg == "skip":
            yield "skip"
        elif seg == "-":
            yield "dead"
        elif w[0] == "FAULT":
            yield "model-fault-" + w[-1]
        else:
            kind = w[0].split(":")[0]
            if kind == "get":
                r = w[1]
                kind += "-" + ("busy" if r == "busy" else r.split(":")[1])
                if len(w) > 2 and w[2] != "ev=":
                    kind += "-evict"
            yield kind


def concrete_failure(run, exe, case):
    """Does the implementation itself go wrong on this history (crash / sanitizer / spec)?"""
    m, im, r, e = run_one(run, exe, case)
    return r != 0 or not im or bool(judge(run, im))


def report(run, exe, case, concrete, ring=False):
    """Shrink a failing history and file the violation.  A history on which the implementation
    itself goes wrong is shrunk with that predicate, so that the concrete input is kept.
    ring=True: the disagreement is with the pointer-level model (raw next/prev/split)."""
    cap = case[0]

    def fails(cand_ops):
        if concrete:
            return concrete_failure(run, exe, [cap] + cand_ops)
        m, im, r, e = run_one(run, exe, [cap] + cand_ops, ring)
        return r != 0 or not im or m != im
    ops = case[1:]
    if not fails(ops):
        run.count("unreproducible-disagreement")
        return
    small = core.shrink_list(ops, fails) if len(ops) > 1 else ops
    m, im, r, e = run_one(run, exe, [cap] + small, ring)
    sv = judge(run, [strip_raw(l) for l in im]) if im else {}
    hist = " ".join([cap] + small)
    # first differing step, for the reader
    firstdiff = None
    if im and m:
        a, b = segments(m[0]), segments(im[0])
        for i in range(max(len(a), len(b))):
            if (a[i] if i < len(a) else None) != (b[i] if i < len(b) else None):
                firstdiff = {"step": i, "model": a[i] if i < len(a) else None,
                             "implementation": b[i] if i < len(b) else None}
                break
    replay = {"engine": "cache-ring" if ring else "cache", "history": hist, "first_difference": firstdiff,
              "impl_exit": r, "impl_stderr_tail": e[-1800:], "spec_verdicts": sorted(sv.values()),
              "model_output": m, "implementation_output": im,
              "how": "bin/check C06 --replay <this file> replays the history through harness/cache_drv.c "
                     "(format: capacity, then g:<key> i:<slot> d:<slot> p:<slot> f)"}
    if r != 0:
        msg = re.search(r"(ERROR: AddressSanitizer: [a-z-]+|runtime error: [^\n]*|SEGV[^\n]*)", e)
        where = re.search(r"#\d+ 0x[0-9a-f]+ in (\w+) [^\n]*cache\.c:(\d+)", e)
        sig = "cache crash %s in %s" % (msg.group(1) if msg else "exit %s" % r,
                                        where.group(1) if where else "?")
        run.violation("impl", "cache.c aborts (%s) on history: %s" % (sig[12:], hist), replay,
                      found_input=True, signature=sig)
    elif sv:
        v = sorted(sv.values())[0]
        run.violation("spec", "cache.c contradicts the cache spec: %s; history: %s" % (v, hist), replay,
                      found_input=True, signature="cache spec " + v.split(": ", 1)[-1])
    else:
        which = ("cache-ring (pointer-level model CacheRing.rstep vs cache.c, raw next/prev/split)" if ring
                 else "cache (model CacheList.step vs cache.c)")
        run.violation("tie", "correspondence %s broken on history: %s" % (which, hist), replay,
                      found_input=False, signature="cache-ring tie" if ring else "cache tie")


def compare(run, exe, cases, model, impl, crashes, note=True):
    spec_bad = judge(run, impl)
    bad = core.diff_lines(model, impl)
    if note:
        for i, c in enumerate(cases):
            line = impl[i] if i < len(impl) else ""
            kinds = list(op_kinds(line))
            for k in kinds:
                run.count("op-" + k)
            run.count("cap-%s-histories" % c[0])
            nt = any(k.endswith("-evict") or k == "get-busy" for k in kinds)
            run.note_case(" ".join(c), nt)
            if i < 2:
                run.sample({"history": " ".join(c)[:300],
                            "implementation_last_step": segments(line)[-1][:400] if line else None})
    ring, full = getattr(run, "last_ring", ([], []))
    ring_bad = set(core.diff_lines(ring, full)) if len(ring) == len(cases) else set()
    concrete = sorted(set(spec_bad) | set(crashes), key=lambda i: len(cases[i]))
    tie_only = sorted(set(bad) - set(concrete), key=lambda i: len(cases[i]))
    ring_only = sorted(ring_bad - set(concrete) - set(bad), key=lambda i: len(cases[i]))
    run.count("histories-impl-differs-from-ring-model", len(ring_bad))
    run.count("histories-impl-contradicts-spec-or-crashes", len(concrete))
    run.count("histories-impl-differs-from-model", len(set(bad)))
    # a few of the shortest of each class; concrete contradictions first
    for i in concrete[:3]:
        report(run, exe, cases[i], True)
    if tie_only and not concrete:
        # targeted search: does any shrunk variant of a differing history make the implementation
        # itself go wrong?  (the whole campaign is already judged by the spec)
        for i in tie_only[:2]:
            report(run, exe, cases[i], False)
    elif tie_only:
        run.count("tie-differences-not-reported-separately", len(tie_only))
    if ring_only and not concrete and not tie_only:
        # list-level view agrees, the raw pointers do not
        for i in ring_only[:2]:
            report(run, exe, cases[i], False, ring=True)
    return len(concrete) + len(tie_only) + len(ring_only)


def bfs(run, exe, cap, nkeys, maxrefs, max_states, max_hist):
    """Breadth-first enumeration of the reachable (cache state, handle) space through the model;
    every history generated is also run on the implementation and compared."""
    keys = ["%x" % k for k in range(nkeys)]

    def skey(state):
        return re.sub(r" hm=\S+", "", state)

    m0 = core.run_model("cache", run.casefile("cache-bfs.txt", ["%d" % cap]))[0]
    seen = {skey(seg_state(segments(m0)[0])): []}
    frontier = [([], seg_state(segments(m0)[0]))]
    info = {"capacity": cap, "keys": nkeys, "max_outstanding_handles": maxrefs, "states": 1,
            "histories": 0, "depth": 0, "fixpoint_reached": False, "disagreements": 0}
    depth = 0
    while frontier:
        depth += 1
        children = []
        for hist, st in frontier:
            f = state_fields(st)
            pend = [x for x in f["pend"].split(",") if x]
            plain = [x for x in f["plain"].split(",") if x]
            ops = []
            if len(pend) + len(plain) < maxrefs:
                ops += ["g:" + k for k in keys]
            # one slot per distinct entry (handles on the same entry are interchangeable)
            for j, e in enumerate(pend):
                if e not in pend[:j]:
                    ops += ["i:%d" % j, "d:%d" % j]
            for j, e in enumerate(plain):
                if e not in plain[:j]:
                    ops.append("p:%d" % j)
            if not pend and not plain:
                ops.append("f")
            children += [hist + [o] for o in ops]
        if info["histories"] + len(children) > max_hist:
            break
        cases = [["%d" % cap] + c for c in children]
        model, impl, crashes = run_both(run, exe, cases, "bfs")
        info["histories"] += len(cases)
        info["disagreements"] += compare(run, exe, cases, model, impl, crashes, note=False)
        for c in cases:
            run.note_case(" ".join(c), True)
        nxt = []
        for c, line in zip(children, model):
            last = segments(line)[-1]
            st = seg_state(last)
            if st is None:
                continue            # model fault: reported by compare()
            k = skey(st)
            if k not in seen:
                seen[k] = c
                nxt.append((c, st))
        info["states"] = len(seen)
        info["depth"] = depth
        frontier = nxt
        if len(seen) > max_states:
            break
        if len(run.violations) > 2:
            break
    else:
        info["fixpoint_reached"] = True
    return info


def check(run):
    run.trusted += ["harness/cache_drv.c: the client (handles, buffer fill pattern), the traversal of the real "
                    "ring, the raw next/prev dump, the preset of the indeterminate key/state/inflight fields "
                    "after cache_alloc"]
    run.assumptions += ["callers follow the client protocol of read.c/fcache.c: cache_insert/cache_discard only "
                        "through a handle obtained from a lookup that returned a non-valid entry, once per handle; "
                        "cache_put_entry once per other handle; cache_flush only with no handle outstanding; "
                        "calls are serialised (cache_lock) — concurrency is property C05",
                        "capacity >= 1 and small enough that unsigned counters do not wrap (2*cap < 2^32)"]
    run.check_coq()
    if not run.need_ml():
        return
    exe = run.need_cc("cache_drv", "cache_drv.c", sanitize=True, libs=False)
    if exe is None:
        return
    quick = run.tier == "quick"
    if run.replay_path:
        rp = core.json.load(open(run.replay_path))
        case = rp["replay"]["history"].split()
        model, impl, crashes = run_both(run, exe, [case], "replay")
        print("model:          " + model[0])
        print("ring model:     " + run.last_ring[0][0])
        print("implementation: " + (run.last_ring[1][0] if run.last_ring[1] else ""))
        compare(run, exe, [case], model, impl, crashes)
        return
    cases = []
    corpus = core.os.path.join(core.VERIF, "corpus", "cache.txt")
    if core.os.path.exists(corpus):
        cases += [l.split() for l in open(corpus).read().split("\n") if l.strip() and not l.startswith("#")]
    ncorpus = len(cases)
    nrand = 600 if quick else 30000
    for i in range(nrand):
        cap = CAPS[i % len(CAPS)]
        maxops = run.rng.choice([12, 40, 120]) if quick else run.rng.choice([12, 40, 120, 400])
        cases.append(gen_case(run.rng, cap, maxops))
    run.cov["rule"] = ("legal client histories (lookups, inserts, discards, releases, flushes through handles) on "
                       "capacities 1,2,3,4,8 with key sets of cap..2*cap+2 keys; evaluations = histories; "
                       "distinct = distinct histories; non-trivial = contains an eviction or a refused (busy) lookup, "
                       "or belongs to the exhaustive enumeration; per-operation outcomes are in the histogram")
    run.cov["engines"]["cache"] = {"corpus_cases": ncorpus, "random_histories": nrand}
    shard = 4000
    for s0 in range(0, len(cases), shard):
        part = cases[s0:s0 + shard]
        model, impl, crashes = run_both(run, exe, part)
        if crashes:
            run.count("impl-abnormal-exit", len(crashes))
        compare(run, exe, part, model, impl, crashes)
        if len(run.violations) > 2:
            break
    # exhaustive part
    ex = []
    if len(run.violations) <= 2:
        if quick:
            plan = [(1, 3, 2, 100000, 40000), (2, 4, 3, 3000, 25000)]
        else:
            plan = [(1, 3, 2, 10 ** 6, 10 ** 6), (1, 4, 3, 10 ** 6, 10 ** 6), (2, 5, 3, 150000, 600000)]
        for cap, nkeys, maxrefs, max_states, max_hist in plan:
            ex.append(bfs(run, exe, cap, nkeys, maxrefs, max_states, max_hist))
    # schema: coverage.exhaustive is a boolean (true only if every enumeration reached its fixpoint);
    # the per-enumeration figures live beside it
    run.cov["exhaustive"] = bool(ex) and all(e.get("fixpoint_reached") for e in ex)
    run.cov["exhaustive_enumerations"] = ex
    run.cov["engines"]["cache"]["exhaustive_enumerations"] = ex
