"""C09 — address-space conversion terminates and lands where the caller can use it.

Theorems: coq/theories/Properties_C09.v (model Sys/ChainInterp.v, spec Sys/SysSpec.v).
Tie: engine "sysop" — random translation systems (every method kind in every slot,
0-3 ranges per map, any capability mask, page-table roots / memory-array bases in
address spaces that need the translation being set up) built through the public API
by harness/sysop_drv.c and run through addrxlat_op / addrxlat_fulladdr_conv; status,
operation-call count, resulting address and nesting depth are compared with the
extracted model.  Search: every run of the implementation is judged by the extracted
*spec* (engine "sysop-spec": SysSpec.judge)."""
from .. import core

M64 = (1 << 64) - 1
MAX_DEPTH = 16
MISALIGNED = "4d"          # (no longer produced: a misaligned load is UB in the model)


def sh(v):
    return ("-%x" % -v) if v < 0 else ("%x" % v)


class Gen:
    def __init__(self, rng):
        self.r = rng
        r = rng
        self.small = [0x1000 * k for k in range(0, 24)]
        self.high = [0xffff800000000000, 0xffff880000000000, 0xffffffff80000000,
                     M64 - 0xfff, 0x7ffffffff000, 0x8000000000000000]
        self.pool = self.small + r.sample(self.high, 3)

    def addr(self):
        r = self.r
        a = r.choice(self.pool if r.random() < 0.85 else self.high)
        k = r.random()
        if k < 0.5:
            a += 8 * r.randint(0, 12)
        elif k < 0.6:
            a += r.randint(0, 0xfff)
        elif k < 0.65:
            a -= 8
        return a & M64

    def aspace(self, noaddr=0.015, other=0.04):
        r = self.r
        k = r.random()
        if k < noaddr:
            return -1
        if k < noaddr + other:
            return r.choice([3, 3, 5, 63])
        return r.choice([0, 1, 2])

    def value(self):
        r = self.r
        k = r.random()
        if k < 0.1:
            return 0
        a = r.choice(self.pool)
        s = r.choice([0, 0, 3, 4, 8, 12, 12, 16])
        v = (a >> s)
        if r.random() < 0.2:
            v |= r.choice([1, 0x63, 0xfff, 1 << 63])
        return v & M64

    def meth(self):
        r = self.r
        k = r.random()
        if k < 0.06:
            return "N"
        if k < 0.09:
            return "B"
        if k < 0.17:
            st = 0 if r.random() < 0.7 else r.choice([2, 5, 6, 1, -3])
            return "U:%s:%s:%x" % (sh(st), sh(self.aspace(other=0.1)), self.addr() & ~7)
        if k < 0.42:
            off = r.choice([0, 0, 0x1000, 0x8000, M64 - 0xfff, M64 - 0x7fff, 0xffff880000000000,
                            (-0xffff880000000000) & M64, 0x10, self.addr()])
            if r.random() < 0.9:
                off &= ~7
            return "L:%s:%x" % (sh(self.aspace()), off)
        if k < 0.62:
            nf = r.choice([0, 1, 2, 2, 2, 3, 3, 4])
            sizes = [r.choice([12, 12, 4, 8, 16, 3])] + [r.choice([4, 4, 3, 9, 2, 40]) for _ in range(nf - 1)] \
                if nf else []
            if r.random() < 0.03:
                sizes = sizes + [r.choice([0, 64 - sum(sizes) if sum(sizes) < 64 else 1])]
            sizes = sizes[:8]
            mask = r.choice([0, 0, 0, 0xfff, 1, 0x8000000000000fff])
            return "P:%s:%s:%x:%s:%x:%s" % (sh(self.aspace()), sh(self.aspace(noaddr=0.06)),
                                            r.choice(self.pool) & ~0xfff, r.choice(["64", "64", "32"]),
                                            mask, ".".join("%x" % s for s in sizes) or "-")
        if k < 0.70:
            # a page table of an architecture format (walked by Xlat/Step.v in the model)
            fmt = r.choice([6, 6, 6, 3, 3, 3, 9, 10, 2, 1, 5, 13, 13, 4, 11, 7, 8, 0])
            std = {6: [12, 9, 9, 9, 9], 3: [12, 9, 9, 9], 9: [16, 13, 13, 6], 10: [12, 9, 9, 9, 9],
                   5: [12, 9, 9, 2], 13: [12, 9, 9, 9], 4: [12, 10, 10], 11: [12, 8, 12],
                   7: [12, 8, 11, 11, 11], 8: [16, 12, 12, 4]}.get(fmt)
            if std and r.random() < 0.08:
                # more fields than the architecture has levels ("Too many paging levels")
                sizes = std + [r.choice([2, 3, 9])] * r.randint(1, 3)
            elif std and r.random() < 0.75:
                sizes = std[:r.choice([len(std)] * 4 + [len(std) - 1, 2, 1])]
            else:
                nf = r.choice([0, 1, 2, 3, 3, 4, 5])
                sizes = [r.choice([12, 12, 4, 8, 16, 3]) for _ in range(min(nf, 1))] + \
                    [r.choice([4, 9, 9, 3, 2, 10]) for _ in range(max(0, nf - 1))]
            mask = r.choice([0, 0, 0, 1 << 63, 0xfff0000000000000])
            return "X:%s:%s:%x:%x:%x:%s" % (sh(r.choice([0, 1, 2])), sh(r.choice([0, 1, 2, 2, -1])),
                                            r.choice(self.pool) & ~0xfff, mask, fmt,
                                            ".".join("%x" % s for s in sizes) or "-")
        if k < 0.84:
            n = r.randint(0, 3)
            eo = r.choice([0xfff, 0xfff, 0xffff, 7, M64, 0xffffffffffff])
            els = ["%x.%x" % (self.addr() & ~7, self.addr() & ~7) for _ in range(n)]
            return "K:%s:%x:%s" % (sh(self.aspace()), eo, ",".join(els) or "-")
        shift, esz, vsz = r.choice([(0, 8, 8), (3, 8, 8), (12, 8, 8), (12, 4, 4), (3, 16, 8), (3, 8, 8),
                                    (12, 16, 8), (4, 8, 4), (0, 3, 8), (12, 8, 2), (12, 0, 8)])
        return "A:%s:%s:%x:%x:%x:%x" % (sh(self.aspace()), sh(self.aspace(noaddr=0.02)),
                                        r.choice(self.pool) & ~7, shift, esz, vsz)

    def coherent(self, nq):
        """A system laid out like a real one: physical memory, a linear direct map, a PFN
        page table for low virtual addresses (root given in any space, tables reachable
        only through the translation being set up when the reader cannot read their space),
        kernel<->machine physical by offset / lookup / memory array; every word is visible
        in all three address spaces, so that every route reads the same memory.  A few
        random perturbations follow."""
        r = self.r
        D = r.choice([0xffff880000000000, 0xffff800000000000, 0x100000000, 0x80000000])
        moff = r.choice([0, 0, 0x100000, 0x40000000])           # machphys = kphys + moff
        memsz = 0x40000
        words = {}                                              # kphys word address -> value

        def m_of(p):
            return (p + moff) & M64
        fmt = r.choice(["pfn", "pfn", "x86_64", "x86_64", "aarch64", "aarch64"])
        if fmt == "pfn":
            nfields = r.choice([2, 2, 3])
            fsz = [12] + [r.choice([4, 4, 5]) for _ in range(nfields - 1)]
        elif fmt == "x86_64":
            nfields, fsz = 5, [12, 9, 9, 9, 9]
        else:
            nfields, fsz = 5, [12, 9, 9, 9, 9]
        vbits = sum(fsz)
        tas = r.choice([0, 0, 1])                               # page table target space
        flag = r.choice([0, 1 << 63])
        mask = flag

        def to_tas(p):
            return p if tas == 0 else m_of(p)

        def entry(p, leaf, level):
            if fmt == "pfn":
                return (to_tas(p) >> 12) | flag
            if fmt == "x86_64":
                return to_tas(p) | (0xe3 if leaf and level > 1 else 0x63) | flag
            return to_tas(p) | (1 if leaf and level > 1 else 3) | flag
        # page tables: allocate table pages from 0x20000 upwards, data pages below
        next_tbl = [0x20000]

        def alloc_tbl():
            a = next_tbl[0]
            next_tbl[0] += 0x1000
            return a
        root_p = alloc_tbl()
        mapped = []                                             # (vaddr, kphys)
        top = nfields - 1

        def fill(tbl_p, level, vbase):
            n = 1 << fsz[level]
            if level == top and fmt != "pfn":
                n //= 2                                          # lower (canonical) half
            cnt = r.randint(1, 3) if fmt == "pfn" else r.randint(1, 2)
            for idx in r.sample(range(n), min(n, cnt)):
                va = vbase | (idx << sum(fsz[:level]))
                if level == 1:
                    pg = 0x1000 * r.randint(1, 0x1f)
                    words[tbl_p + 8 * idx] = entry(pg, True, 1)
                    mapped.append((va, pg))
                elif level == 2 and fmt != "pfn" and moff % 0x200000 == 0 and r.random() < 0.25:
                    # a 2M block; bits 20:12 of a block entry are not address bits (PAT, nT, ...)
                    blk = 0x200000 * r.randint(0, 3)
                    words[tbl_p + 8 * idx] = entry(blk, True, 2) | r.choice([0, 0x1000, 0x11000])
                    mapped.append((va + 0x1000 * r.randint(0, 0x1ff), blk))
                elif next_tbl[0] < 0x2f000:
                    sub = alloc_tbl()
                    words[tbl_p + 8 * idx] = entry(sub, False, level)
                    fill(sub, level - 1, va)
        fill(root_p, top, 0)
        # an entry that points to a table the memory image does not have: reads of it fail
        broken = []
        free = [i for i in range((1 << fsz[top]) // (1 if fmt == "pfn" else 2))
                if (root_p + 8 * i) not in words]
        if free and top >= 2 and r.random() < 0.3:
            bi = r.choice(free)
            words[root_p + 8 * bi] = entry(0x2e000, False, top)
            broken.append(bi << sum(fsz[:top]))
        root_as = r.choice([0, 1, 2, 2, tas])
        root = {0: root_p, 1: m_of(root_p), 2: (D + root_p) & M64}[root_as]
        toks = []
        caps = r.choice([1, 2, 4, 3, 5, 6, 1, 2])
        rcaps = r.choice([1, 2, 4, 1, 2, 3, 0, 5])
        toks += ["C:%x" % caps, "R:%x" % rcaps, "O:%s" % sh(0 if r.random() < 0.85 else -7),
                 "F:%s" % sh(r.choice([5, 5, 2, 0, 6]))]
        # methods: 0 = pgt, 2 = direct, 5 = rdirect, 6 = machphys->kphys, 7 = kphys->machphys
        if fmt == "pfn":
            toks.append("T0=P:%s:%s:%x:64:%x:%s" % (sh(tas), sh(root_as), root, mask, ".".join("%x" % f for f in fsz)))
        else:
            toks.append("T0=X:%s:%s:%x:%x:%x:%s" % (sh(tas), sh(root_as), root, mask,
                                                    6 if fmt == "x86_64" else 3, ".".join("%x" % f for f in fsz)))
        toks.append("T2=L:0:%x" % ((-D) & M64))
        toks.append("T5=L:2:%x" % D)
        kind = r.choice(["lin", "lin", "lookup", "memarr", "memarr"])
        if kind == "lin":
            toks.append("T6=L:0:%x" % ((-moff) & M64))
            toks.append("T7=L:1:%x" % moff)
        elif kind == "lookup":
            toks.append("T6=K:0:%x:%x.0" % (memsz - 1, moff))
            toks.append("T7=K:1:%x:0.%x" % (memsz - 1, moff))
        else:
            # p2m / m2p arrays indexed by frame number, living in physical memory
            p2m, m2p = 0x30000, 0x38000
            for pfn in range(memsz >> 12):
                words[p2m + 8 * pfn] = m_of(pfn << 12) >> 12
            for pfn in range(memsz >> 12):
                mfn = m_of(pfn << 12) >> 12
                if (mfn << 3) < 0x8000:
                    words[m2p + 8 * mfn] = pfn
            bas = r.choice([0, 2, 1])
            b_of = lambda p: {0: p, 1: m_of(p), 2: (D + p) & M64}[bas]
            toks.append("T6=A:0:%s:%x:c:8:8" % (sh(bas), b_of(m2p)))
            toks.append("T7=A:1:%s:%x:c:8:8" % (sh(bas), b_of(p2m)))
        vtop = (1 << vbits) - 1
        toks.append("M0=0:%x:0" % vtop)                                           # HW
        toks.append("M1=0:%x:0,%x:%x:2" % (vtop, D, memsz - 1))                   # KV_PHYS
        toks.append("M2=0:%x:5" % (memsz - 1))                                    # KPHYS_DIRECT
        toks.append("M3=%x:%x:6" % (moff, memsz - 1))                             # MACHPHYS_KPHYS
        toks.append("M4=0:%x:7" % (memsz - 1))                                    # KPHYS_MACHPHYS
        for p, v in sorted(words.items()):
            toks.append("W:0:%x:%x" % (p, v))
            toks.append("W:1:%x:%x" % (m_of(p), v))
            toks.append("W:2:%x:%x" % ((D + p) & M64, v))
        # perturbations
        for _ in range(r.choice([0, 0, 0, 1, 1, 2])):
            k = r.random()
            cand = [i for i, t in enumerate(toks) if t[0] in "MT"]
            i = r.choice(cand)
            if k < 0.3:
                del toks[i]
            elif k < 0.6 and toks[i][0] == "T":
                toks[i] = toks[i][:toks[i].index("=") + 1] + self.meth()
            elif k < 0.8 and toks[i][0] == "M":
                toks[i] = toks[i][:3]
            else:
                toks.append("T%x=%s" % (r.randint(8, 15), self.meth()))
        # queries: mapped virtual addresses, direct-map addresses, physical addresses
        if broken and mapped:
            # a successful walk (fills the read cache), then the same failing read twice
            toks.append("Q:2:%x" % (mapped[0][0] + 8))
            toks.append("Q:2:%x" % (broken[0] + 0x1000))
            toks.append("Q:2:%x" % (broken[0] + 0x2008))
        for _ in range(nq):
          for attempt in range(4):
            k = r.random()
            off = r.choice([0, 8, 0xabc, 0xfff, 0x10])
            if k < 0.35 and mapped:
                va, pg = r.choice(mapped)
                a, sp = va + off, 2
            elif k < 0.5:
                a, sp = (D + 0x1000 * r.randint(0, 0x3f) + off) & M64, 2
            elif k < 0.7:
                a, sp = 0x1000 * r.randint(0, 0x3f) + off, 0
            elif k < 0.9:
                a, sp = m_of(0x1000 * r.randint(0, 0x3f) + off), 1
            else:
                a, sp = self.addr(), self.aspace()
            if not (0 <= sp < 3 and (caps >> sp) & 1) or r.random() < 0.15:
                break               # mostly addresses that are not usable as they are
          if r.random() < 0.25:
              toks.append("V:%s:%x:%s" % (sh(sp), a, sh(r.choice([x for x in (0, 1, 2) if x != sp] + [sp]))))
          else:
              toks.append("Q:%s:%x" % (sh(sp), a))
        return toks

    def stage2_case(self, nq):
        """kv2phys whose second stage has two alternatives: the first stage is a non-linear
        method that ends in an address space outside caps; ADDRXLAT_SYS_MAP_MACHPHYS_KPHYS
        selects a non-linear method whose first step runs (it overwrites the scratch step)
        and which then fails with NODATA/NOMETH -- an unreadable table page, a nested
        translation that does not exist --; ADDRXLAT_SYS_MAP_KPHYS_MACHPHYS selects a method
        with an arbitrary target space.  The running address of do_op must survive the
        failed alternative."""
        r = self.r
        cap = r.choice([0, 2, 0, 3])
        caps = 1 << cap
        if r.random() < 0.3:
            caps |= 1 << r.choice([0, 2, 5])
        mid = r.choice([1, 1, 1, 0])                      # where stage 1 ends (not in caps)
        if (caps >> mid) & 1:
            mid = 1
        fail = r.choice([5, 5, 6])                        # get-page failure status: continue
        bas = r.choice([0, 0, 0, 2, 1])                   # where the stage-2 table lives
        rcaps = (1 << bas) | (r.choice([0, 1, 2, 4]))
        if r.random() < 0.25:
            rcaps &= ~(1 << bas)                          # ... reachable only by translation
        toks = ["C:%x" % caps, "R:%x" % rcaps, "O:%s" % sh(0 if r.random() < 0.8 else -7), "F:%s" % sh(fail)]
        src = r.choice(self.small) + 8 * r.randint(0, 40)
        dst = r.choice(self.small) + 0x1000 * r.randint(0, 8)
        k = r.random()
        if k < 0.4:
            toks.append("T8=K:%s:ffff:%x.%x" % (sh(mid), src & ~0xfff, dst))
        elif k < 0.7:
            toks.append("T8=U:0:%s:%x" % (sh(mid), (src + dst) & M64))
        else:
            toks.append("T8=A:%s:%s:%x:c:8:8" % (sh(mid), sh(bas), 0x30000))
            toks.append("W:%s:%x:%x" % (sh(bas), 0x30000 + 8 * (src >> 12), dst >> 12))
            if not (rcaps >> bas) & 1:
                toks[1] = "R:%x" % (rcaps | (1 << bas))
        toks.append("M1=0:%x:8" % M64)
        if r.random() < 0.3:
            toks.append("M0=0:%x:8" % M64)
        # stage 2, first alternative: fails after its first step
        tbl = r.choice([0x50000, 0x61000, 0x7f000]) + 8 * r.randint(0, 3) * r.choice([0, 1])
        k = r.random()
        if k < 0.5:
            toks.append("T9=A:%s:%s:%x:%x:8:8" % (sh(r.choice([0, 1, 2])), sh(bas), tbl & ~7, r.choice([12, 12, 0, 3])))
        elif k < 0.75:
            toks.append("T9=P:%s:%s:%x:64:0:c.4.4" % (sh(r.choice([0, 1, 2])), sh(bas), tbl & ~0xfff))
        else:
            toks.append("T9=X:%s:%s:%x:0:%x:c.9.9" % (sh(r.choice([0, 1, 2])), sh(bas), tbl & ~0xfff,
                                                      r.choice([6, 3, 2])))
        toks.append("M3=0:%x:9" % M64)
        # second alternative: any method, any target space (often one the caller can use)
        tgt = cap if r.random() < 0.7 else r.choice([0, 1, 2])
        k = r.random()
        if k < 0.5:
            toks.append("Ta=L:%s:%x" % (sh(tgt), r.choice([0, 0x1000, 0x100000])))
        elif k < 0.75:
            toks.append("Ta=U:0:%s:%x" % (sh(tgt), r.choice(self.pool)))
        else:
            toks.append("Ta=K:%s:%x:0.%x" % (sh(tgt), M64 >> 1, r.choice(self.small)))
        toks.append("M4=0:%x:a" % M64)
        if r.random() < 0.3:
            toks.append("T5=L:2:%x" % 0xffff880000000000)
            toks.append("M2=0:%x:5" % (M64 >> 8))
        for _ in range(r.randint(0, 3)):
            toks.append("G:%s:%x" % (sh(r.choice([0, 1, 2])), r.choice(self.pool) & ~0xfff))
        for i in range(max(2, nq)):
            a = src + r.choice([0, 0, 8, 0x10, 0x1000]) if i < 2 else self.addr()
            toks.append(r.choice(["Q:2:%x" % a, "Q:2:%x" % a, "V:2:%x:%s" % (a, sh(cap))]))
        return toks

    def case(self, nq):
        r = self.r
        k0 = r.random()
        toks = self.stage2_case(nq) if k0 < 0.05 else \
            self.coherent(nq) if k0 < 0.48 else self.random_case(nq)
        qs = [t for t in toks if is_query(t)]
        toks = [t for t in toks if not is_query(t)]
        # an operation callback that answers NODATA / NOMETH itself (seeded C09-a2: such a status must be
        # returned, not treated like a failed walk and retried with the next alternative).  Decided by a
        # hash of the case so that the main random stream is not disturbed.
        import zlib
        h = zlib.crc32(" ".join(toks).encode())
        if h % 8 == 0:
            toks = [("O:%s" % sh((5, 6, 6, 5)[(h >> 8) % 4])) if t.startswith("O:") else t for t in toks]
        k = r.random()
        if k < 0.10:
            # a get-page callback that serves one address space by converting the requested
            # address to another one through the library (re-entrant, as kdumpfile's)
            a = r.choice([0, 1, 2])
            b = r.choice([x for x in (0, 1, 2) if x != a])
            toks.append("B:%x:%x" % (a, b))
            rc = [i for i, t in enumerate(toks) if t.startswith("R:")]
            if rc:
                toks[rc[0]] = "R:%x" % (int(toks[rc[0]][2:], 16) | (1 << a))
        elif k < 0.35:
            # some pages are reported (and stored) big-endian
            pgs = sorted({(t.split(":")[1], int(t.split(":")[2], 16) & ~0xfff) for t in toks if t[0] in "GW"})
            for (a, pg) in pgs:
                if r.random() < 0.4:
                    toks.insert(0, "E:%s:%x" % (a, pg))
        return toks + qs

    def random_case(self, nq):
        r = self.r
        toks = []
        capbits = [b for b in (0, 1, 2) if r.random() < 0.45]
        caps = sum(1 << b for b in capbits)
        if r.random() < 0.08:
            caps |= r.choice([8, 1 << 40, 1 << 63])
        rbits = [b for b in (0, 1, 2) if r.random() < 0.4]
        rcaps = sum(1 << b for b in rbits)
        toks.append("C:%x" % caps)
        toks.append("R:%x" % rcaps)
        toks.append("O:%s" % sh(0 if r.random() < 0.8 else r.choice([-7, 3, 6])))
        toks.append("F:%s" % sh(r.choice([0, 0, 5, 5, 5, 2, 6, -3])))
        if r.random() < 0.03:
            toks.append("S:0")
        slots = r.sample(range(16), r.randint(1, 6))
        template = r.random()
        if template < 0.08:
            # recursion that never repeats an address: a memory array (or page table) whose
            # base lives in the address space it translates (defect 30).  Usually only one
            # alternative of the chain element leads into it: with both, the library (and
            # the model) try 2^16 combinations before giving up.
            s = slots[0]
            spc = r.choice([2, 2, 0, 1])
            tgt = r.choice([x for x in (0, 1, 2) if x != spc])
            if r.random() < 0.7:
                toks.append("T%x=A:%s:%s:%x:3:18:8" % (s, sh(tgt), sh(spc), r.choice(self.small)))
            else:
                toks.append("T%x=P:%s:%s:%x:64:0:3.3d" % (s, sh(tgt), sh(spc), r.choice(self.small)))
            both = r.random() < 0.04
            mi, sib = {2: r.choice([(0, 1), (1, 0)]), 0: r.choice([(2, 4), (4, 2)]), 1: (3, 3)}[spc]
            toks.append("M%d=0:%x:%x" % (mi, M64, s))
            if sib != mi:
                if both:
                    toks.append("M%d=0:%x:%x" % (sib, M64, s))
                    nq = min(nq, 2)
                elif r.random() < 0.5:
                    toks.append("M%d=" % sib)
                else:
                    toks.append("T%x=L:%s:%x" % (slots[-1] if len(slots) > 1 else (s + 1) % 16, sh(spc), 0x1000))
                    toks.append("M%d=0:%x:%x" % (sib, M64, slots[-1] if len(slots) > 1 else (s + 1) % 16))
            slots = slots[1:-1] if len(slots) > 1 else []
        for s in slots:
            toks.append("T%x=%s" % (s, self.meth()))
        used = [int(t[1:t.index("=")], 16) for t in toks if t[0] == "T"]
        for mi in range(5):
            if any(t.startswith("M%d=" % mi) for t in toks):
                continue
            k = r.random()
            if k < 0.18:
                continue
            if k < 0.22:
                toks.append("M%d=" % mi)
                continue
            sets = []
            for _ in range(r.randint(1, 3)):
                a = r.choice(self.pool) & ~0xfff
                kk = r.random()
                if kk < 0.3:
                    a, e = 0, M64
                elif kk < 0.6:
                    e = r.choice([0xfff, 0xffff, 0x7fff, 0xffffff])
                else:
                    e = M64 - a if r.random() < 0.5 else r.choice([0x3ffffffffff, 0xfff])
                e = min(e, M64 - a)
                m = r.choice(used) if (used and r.random() < 0.85) else r.choice([-1] + list(range(16)))
                sets.append("%x:%x:%s" % (a, e, sh(m)))
            toks.append("M%d=%s" % (mi, ",".join(sets)))
        for _ in range(r.randint(0, 8)):
            toks.append("G:%s:%x" % (sh(r.choice([0, 1, 2])), r.choice(self.pool) & ~0xfff))
        for _ in range(r.randint(0, 14)):
            toks.append("W:%s:%x:%x" % (sh(r.choice([0, 1, 2])),
                                        ((r.choice(self.pool) & ~0xfff) + 8 * r.randint(0, 20)) & M64,
                                        self.value()))
        for _ in range(nq):
            a = self.addr()
            sp = self.aspace(other=0.03)
            for attempt in range(3):
                if not (0 <= sp < 3 and (caps >> sp) & 1) or r.random() < 0.2:
                    break
                sp = self.aspace(other=0.03)
            if r.random() < 0.25:
                toks.append("V:%s:%x:%s" % (sh(sp), a, sh(r.choice([0, 1, 2, 2, 0, 3, 0, 1, 2, -1, 40]))))
            else:
                toks.append("Q:%s:%x" % (sh(sp), a))
        return toks


def is_query(t):
    return t[0] in "QV"


def filter_queries(toks, mout):
    """Drop the queries the model places outside the domain (UB, misaligned read)."""
    outs = mout.split(";") if mout else []
    qs = [t for t in toks if is_query(t)]
    reentrant = any(t.startswith("B:") for t in toks)
    if reentrant and any(o in ("UB", "FUEL") or o.startswith("st=" + MISALIGNED + " ") or o.startswith("EXC")
                         for o in outs):
        # with a re-entrant callback the cache contents matter: a query outside the domain
        # takes the whole case with it
        return [t for t in toks if not is_query(t)], [], len(qs)
    keep_t, keep_o = [], []
    dropped = 0
    for t, o in zip(qs, outs):
        if o in ("UB", "FUEL") or o.startswith("st=" + MISALIGNED + " ") or o.startswith("EXC"):
            dropped += 1
            continue
        keep_t.append(t)
        keep_o.append(o)
    return [t for t in toks if not is_query(t)] + keep_t, keep_o, dropped


def fields(ans):
    d = {}
    for f in ans.split():
        k, _, v = f.partition("=")
        d[k] = v
    return d


def agree(m, i):
    """model answer vs implementation answer for one query"""
    fm, fi = fields(m), fields(i)
    if any(fm.get(k) != fi.get(k) for k in ("st", "n", "a")):
        return False
    try:
        dm, di = int(fm["d"]), int(fi["d"])
    except (KeyError, ValueError):
        return False
    return di <= dm <= di + 1 and (dm > 0 or di == 0)


def line_agrees(mo, io):
    il = io.split(";") if io else []
    return len(mo) == len(il) and all(agree(a, b) for a, b in zip(mo, il))


def check(run):
    run.trusted += ["modelled, not verified: the get-page / read-capabilities / custom-method callbacks "
                    "(harness/sysop_drv.c; Sys/SysEnv.v is their model), the 4-slot read cache of ctx.c "
                    "(transparent for a non-reentrant get-page callback; exercised, not modelled), error-message text",
                    "page-table methods are limited to PFN32/PFN64 entries here (architecture formats: C02)"]
    run.assumptions += ["reads are aligned (addrxlat.h: 'the desired address is always aligned'): systems whose "
                        "method parameters make the library issue a misaligned read are dropped by the generator",
                        "address spaces passed to ADDRXLAT_CAPS lie in [0, 63] and method indices in maps lie in "
                        "[-1, 15] (otherwise the C code's behaviour is undefined; the model says UB and the case is dropped)"]
    run.check_coq()
    if not run.need_ml():
        return
    srcs = core.lib_sources(which=("addrxlat",), exclude=("sys.c",))
    exe = run.need_cc("sysop_drv", "sysop_drv.c", sources=srcs, sanitize=True, libs=False)
    if exe is None:
        return
    if run.replay_path:
        rp = core.json.load(open(run.replay_path))
        toks = rp["replay"]["case"].split()
        res = evaluate(run, exe, [toks])
        for k in ("model", "impl", "spec"):
            print("%-6s %s" % (k + ":", res[k][0]))
        report(run, exe, [toks], res)
        return
    quick = run.tier == "quick"
    ncases = 5000 if quick else 150000
    g = Gen(run.rng)
    cases = []
    corpus = core.os.path.join(core.VERIF, "corpus", "sysop.txt")
    if core.os.path.exists(corpus):
        cases += [l.split() for l in open(corpus).read().split("\n") if l.strip() and not l.startswith("#")]
    ncorpus = len(cases)
    for _ in range(ncases):
        cases.append(g.case(run.rng.randint(2, 6)))
    run.cov["rule"] = ("one case = one translation system (5 maps, 16 method slots, memory image, capability masks) "
                       "+ 2-6 source addresses; distinct = distinct case strings; non-trivial = some query runs a chain "
                       "(not a pass-through and not rejected before do_op: nesting depth >= 1)")
    run.cov["engines"]["sysop"] = {"corpus_cases": ncorpus, "generated": ncases}
    shard = 10000
    for s0 in range(0, len(cases), shard):
        part = cases[s0:s0 + shard]
        res = evaluate(run, exe, part)
        report(run, exe, res["cases"], res)
        if len(run.violations) > 3:
            break


def evaluate(run, exe, cases, timeout=None):
    """model -> filter -> implementation -> spec judge.  Returns dict of parallel lists."""
    cf = run.casefile("sysop-cases.txt", [" ".join(c) for c in cases])
    mraw = core.run_model("sysop", cf)
    fcases, mouts = [], []
    for toks, mo in zip(cases, mraw):
        t2, o2, dropped = filter_queries(toks, mo)
        if dropped:
            run.count("queries-dropped-outside-domain", dropped)
        if mo.startswith("EXC"):
            run.count("model-exception")
        fcases.append(t2)
        mouts.append(o2)
    lines = [" ".join(c) for c in fcases]
    if timeout is None:
        timeout = 30 if run.tier == "quick" else 600
    impl, crashes = core.run_impl_lines(exe, run.work, lines, timeout=timeout)
    if crashes:
        run.count("impl-abnormal-exit", len(crashes))
    sl = ["%s | %s" % (l, io) for l, io in zip(lines, impl)]
    idx = [i for i, io in enumerate(impl) if not io.startswith("CRASH") and io != "NOT-RUN"
           and any(is_query(t) for t in fcases[i])]
    scf = run.casefile("sysop-spec.txt", [sl[i] for i in idx])
    sres = core.run_model("sysop-spec", scf)
    spec = ["-"] * len(impl)
    for i, v in zip(idx, sres):
        spec[i] = v
    return {"cases": fcases, "model": [";".join(m) for m in mouts], "mlist": mouts, "impl": impl,
            "spec": spec, "crashes": crashes}


def spec_bad(v):
    return [x for x in v.split(";") if x not in ("ok", "-", "")]


def report(run, exe, cases, res):
    bad = []
    for i, toks in enumerate(cases):
        io = res["impl"][i]
        mo = res["mlist"][i]
        canon = " ".join(toks)
        nt = any(fields(a).get("d", "0") != "0" for a in mo)
        run.note_case(canon, nt)
        for a in (io.split(";") if io and not io.startswith("CRASH") else []):
            f = fields(a)
            run.count("status-" + f.get("st", "?"))
            run.count("depth-" + f.get("d", "?"))
            run.count("calls-" + f.get("n", "?"))
        for a in mo:
            f = fields(a)
            run.count("model-%s-nesting-%s" % ("success" if f.get("st") == "0" and f.get("n") == "1"
                                               else "called" if f.get("n") == "1" else "failure", f.get("d", "?")))
        for t in toks:
            if t[0] == "T":
                run.count("meth-" + t[t.index("=") + 1])
                if t[t.index("=") + 1] == "X":
                    run.count("pte-format-" + t.split(":")[5])
        if any(t.startswith("B:") for t in toks):
            run.count("cases-reentrant-callback")
        if any(t.startswith("E:") for t in toks):
            run.count("cases-big-endian-pages")
        if i < 3:
            run.sample({"case": canon[:400], "impl": io[:300]})
        if io == "NOT-RUN":
            continue
        if i in res["crashes"] or not line_agrees(mo, io) or spec_bad(res["spec"][i]):
            bad.append(i)
    # one crash, then spec contradictions, then plain tie breaks
    crashed = [i for i in bad if i in res["crashes"]][:1]
    specb = [i for i in bad if i not in res["crashes"] and spec_bad(res["spec"][i])][:2]
    tieb = [i for i in bad if i not in res["crashes"] and not spec_bad(res["spec"][i])][:2]
    for i in crashed + specb + tieb:
        toks = cases[i]

        def fails(cand):
            if not any(is_query(t) for t in cand):
                return False
            r = evaluate(run, exe, [cand], timeout=10)
            return bool(r["crashes"]) or not line_agrees(r["mlist"][0], r["impl"][0]) or spec_bad(r["spec"][0])
        if not fails(toks):
            run.count("unreproducible-disagreement")
            continue
        small = core.shrink_list(toks, fails, max_tests=60)
        r = evaluate(run, exe, [small], timeout=10)
        sv = spec_bad(r["spec"][0])
        crash = r["crashes"].get(0)
        replay = {"engine": "sysop", "case": " ".join(r["cases"][0]), "model": r["model"][0],
                  "implementation": r["impl"][0], "spec_verdicts": r["spec"][0],
                  "impl_exit": crash[0] if crash else 0, "impl_stderr_tail": crash[1][-1500:] if crash else "",
                  "how": "bin/check C09 --replay <this file> rebuilds the system in harness/sysop_drv.c"}
        if crash:
            what = ("stack overflow" if "stack-overflow" in crash[1] or crash[0] in (-11, 139)
                    else "no answer within the time limit" if crash[0] == "timeout" else "crash")
            run.violation("impl", "addrxlat_op/addrxlat_fulladdr_conv aborts (%s, exit %s) on system: %s"
                          % (what, crash[0], " ".join(small)[:600]), replay, found_input=True,
                          signature="sysop crash %s %s" % (what, " ".join(
                              l for l in crash[1].split("\n") if l.startswith("SUMMARY:"))[:200] or crash[1][-200:]))
        elif sv:
            run.violation("spec", "sys.c contradicts the conversion spec: %s; system: %s"
                          % (sv[0], " ".join(small)[:600]), replay, found_input=True,
                          signature="sysop spec " + sv[0])
        else:
            run.violation("tie", "correspondence sysop (model ChainInterp.addrxlat_op vs addrxlat_op) broken on: %s"
                          % " ".join(small)[:600], replay, found_input=False, signature="sysop tie")
