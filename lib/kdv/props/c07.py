"""C07 — page maps agree with what can be read, and with themselves.

Theorems: coq/theories/Properties_C07.v (models Pfn/BitmapModel.v, Pfn/RegionModel.v,
spec Pfn/PfnSpec.v).
Tie: engine "pfn" — white-box on pfn.c and bitmap.c (harness/pfn_drv.c #includes both, realloc
interposed): (K) the four bit scanners on buffers at all four alignments, (B) set_bits/clear_bits,
(M) 1-4 file maps built with pfn_regions_from_bitmap from LSB-0 / MSB-0 bitmaps, sorted, then
find_pfn_region, find_mapped_pfn, find_unmapped_pfn and get_pfn_map_bits for indices and
(first,last) ranges near every region and window edge, beyond the highest frame and at 2^64-1.
Search: every answer of the implementation is judged by the extracted *spec* (engine "pfn-spec":
"is bit p set" and nothing else)."""
from .. import core, linesrun, pmap_e2e

M64 = (1 << 64) - 1


def gen_bitmap(rng, nbytes):
    """Byte string with long runs of ones / zeroes, word-sized blocks and noise."""
    out = bytearray()
    while len(out) < nbytes:
        k = rng.random()
        if k < 0.25:
            out += bytes([0xff]) * rng.choice([1, 2, 3, 4, 5, 8, 9])
        elif k < 0.5:
            out += bytes([0x00]) * rng.choice([1, 2, 3, 4, 5, 8, 9])
        elif k < 0.65:
            out.append(rng.choice([0x80, 0x01, 0xfe, 0x7f, 0xf0, 0x0f, 0xc0, 0x03, 0x55, 0xaa]))
        else:
            out.append(rng.getrandbits(8))
    return bytes(out[:nbytes])


def hexb(b):
    return b.hex() if b else "-"


def gen_skip_case(rng):
    n = rng.choice([0, 1, 2, 3, 4, 5, 7, 8, 9, 12, 13, 16, 17, rng.randint(0, 40)])
    bm = gen_bitmap(rng, n)
    fn = rng.choice(["cl", "cm", "sl", "sm"])
    al = rng.randint(0, 3)
    pr = set(rng.sample(range(0, 8 * n + 12), min(8 * n + 12, 36)))
    pr.update([0, 8 * n, 8 * n - 1 if n else 0, 8 * n + 8, rng.getrandbits(rng.choice([10, 40, 64]))])
    return "K %s %x %s | %s" % (fn, al, hexb(bm), " ".join("%x" % p for p in sorted(pr)))


def gen_bits_case(rng):
    n = rng.randint(1, 9)
    buf = bytes(rng.choice([0, 0xff, rng.getrandbits(8)]) for _ in range(n))
    s = rng.randrange(8 * n)
    e = rng.randrange(s, 8 * n)
    return "B %s %x %x %s" % (rng.choice("sc"), s, e, buf.hex())


def gen_maps_case(rng, tier, big=False):
    nm = rng.choice([1, 1, 2, 2, 3, 4])
    if big:
        nm = 1
    top = 2600 if big else rng.choice([24, 64, 130, 300])
    cuts = sorted(rng.sample(range(0, top + 1), 2 * nm)) if top + 1 >= 2 * nm else list(range(2 * nm))
    maps = []
    edges = set()
    prev_end = None
    for k in range(nm):
        s, e = cuts[2 * k], cuts[2 * k + 1]
        if prev_end is not None and rng.random() < 0.6:
            s = prev_end                         # windows that touch: runs may cross files
        if e <= s:
            e = s + 1
        prev_end = e
        msb = rng.random() < 0.4
        nb = (e + 7) >> 3
        mode = rng.random()
        if big:
            bm = bytes([rng.choice([0x55, 0xaa, 0x5a])]) * nb
        elif mode < 0.12:
            bm = bytes(nb)                         # a file whose window holds no page
        elif mode < 0.24:
            bm = bytes([0xff]) * nb                # completely full
        else:
            bm = gen_bitmap(rng, nb)
        if rng.random() < 0.2:
            bm += bytes(rng.randint(1, 3))         # buffer longer than needed
        maps.append((s, e, msb, bm))
        edges.update([s, e, s - 1, e - 1, e + 1])
        run = None
        for p in range(s, e):
            b = bm[p >> 3]
            bit = (b >> (7 - (p & 7))) & 1 if msb else (b >> (p & 7)) & 1
            if bit and run is None:
                run = p
                edges.update([p, p - 1])
            if not bit and run is not None:
                edges.update([p, p - 1, p + 1])
                run = None
    # empty windows [n, n): they share end_pfn with the window that ends at n (or sit in a gap);
    # sort_pfn_file_maps must put them after that neighbour (fix 40)
    if not big and nm < 4 and rng.random() < 0.35:
        for _ in range(rng.randint(1, 4 - nm)):
            n = rng.choice([m[1] for m in maps] + [m[0] for m in maps] + [rng.randint(0, top)])
            if any(m[0] < n < m[1] for m in maps):
                continue                     # strictly inside a member's window: not a split set
            maps.append((n, n, rng.random() < 0.4, gen_bitmap(rng, (n + 7) >> 3)))
        nm = len(maps)
    order = list(range(nm))
    rng.shuffle(order)
    failcall = 0 if rng.random() < 0.9 else rng.randint(1, 3)
    mstr = ";".join("%x:%x:%s:%x:%x:%x:%s" % (maps[i][0], maps[i][1], "m" if maps[i][2] else "l", rng.randint(0, 3),
                                             0x1000 * (i + 1) + rng.randint(0, 64), rng.choice([1, 0x18, 0x1000, 3]),
                                             hexb(maps[i][3])) for i in order)
    edges = sorted(p for p in edges if p >= 0)
    far = [top + 1, top + 7, top + 64, 1 << 32, (1 << 63) + 1, M64 - 70, M64 - 1, M64]

    def pick():
        r = rng.random()
        if r < 0.7 and edges:
            return max(0, rng.choice(edges) + rng.choice([0, 0, 1, -1]))
        if r < 0.85:
            return rng.randint(0, top + 10)
        return rng.choice(far)
    ops = []
    for _ in range(3 if big else rng.randint(4, 14)):
        k = rng.random()
        if k < 0.12:
            ops.append("r:%x:%x" % (rng.randrange(nm), pick()))
        elif k < 0.37:
            ops.append("s:%x" % pick())
        elif k < 0.62:
            ops.append("c:%x" % pick())
        else:
            f = pick()
            ln = rng.choice([0, 1, 6, 7, 8, 9, 15, 16, 17, 31, 32, 33, rng.randint(0, 70)])
            l = min(M64, f + ln)
            ops.append("g:%x:%x:%x" % (f, l, rng.choice([0, 0xff, 0xa5])))
    return "M %x %s | %s" % (failcall, mstr, " ".join(ops))


# ---- running ------------------------------------------------------------------

def run_both(run, exe, lines, tag):
    cf = run.casefile("pfn-%s.txt" % tag, lines)
    model = core.run_model("pfn", cf)
    impl, crashes = linesrun.run_impl_lines(exe, run.work, lines, timeout=5 if len(lines) == 1 else (60 if run.tier == 'quick' else 900))
    ok_idx = [i for i, o in enumerate(impl) if not (o.startswith("CRASH") or o in ("NOT-RUN", "BAD-CASE", "BAD-MAP"))]
    verd = core.run_model("pfn-spec", run.casefile("pfn-%s-spec.txt" % tag,
                                                   ["%s # %s" % (lines[i], impl[i]) for i in ok_idx]))
    spec = {i: v for i, v in zip(ok_idx, verd) if v != "ok"}
    return model, impl, crashes, spec


def verdict(run, exe, line):
    model, impl, crashes, spec = run_both(run, exe, [line], "one")
    if crashes:
        return "crash"
    if spec:
        return "spec"
    if model != impl:
        return "tie"
    return None


def parts(line):
    hd, _, tl = line.partition("|")
    return hd.split(), tl.split()


def shrink(run, exe, line, kind):
    hd, tl = parts(line)

    def mk(hd, tl):
        return "%s | %s" % (" ".join(hd), " ".join(tl)) if line[0] != "B" else " ".join(hd)
    if len(tl) > 1:
        tl = core.shrink_list(tl, lambda c: verdict(run, exe, mk(hd, c)) == kind, max_tests=60)
    if hd[0] == "M" and len(hd) > 2:
        ms = hd[2].split(";")
        if len(ms) > 1:
            ms = core.shrink_list(ms, lambda c: verdict(run, exe, mk(hd[:2] + [";".join(c)], tl)) == kind, max_tests=30)
        hd = hd[:2] + [";".join(ms)]
    return mk(hd, tl)


def report(run, exe, line):
    kind0 = verdict(run, exe, line)
    if kind0 is None:
        run.count("unreproducible-disagreement")
        return
    hang = False
    if kind0 == "crash":
        _, _, cr, _ = run_both(run, exe, [line], "one")
        hang = any(v[0] == "timeout" for v in cr.values())
    small = line if hang else shrink(run, exe, line, kind0)
    model, impl, crashes, spec = run_both(run, exe, [small], "one")
    replay = {"engine": "pfn", "case": small, "model": model[0], "implementation": impl[0],
              "spec_verdict": spec.get(0, "ok"),
              "impl_stderr_tail": crashes[0][1][-1500:] if crashes else "",
              "how": "bin/check C07 --replay <this file> re-runs the case through harness/pfn_drv.c"}
    what = {"K": "bit scanner (pfn.c skip_*)", "B": "set_bits/clear_bits (bitmap.c)",
            "M": "page map functions (pfn.c)"}[small[0]]
    if crashes:
        run.violation("impl", "%s: abnormal exit (%s) on: %s" % (what, crashes[0][0], small[:400]), replay,
                      found_input=True, signature="pfn crash " + crashes[0][1][-300:])
    elif spec:
        run.violation("spec", "%s contradict the bitmap: %s; case: %s" % (what, spec[0], small[:400]), replay,
                      found_input=True, signature="pfn spec " + spec[0])
    else:
        run.violation("tie", "correspondence pfn (extracted model vs pfn.c/bitmap.c) broken on: %s" % small[:400],
                      replay, found_input=False, signature="pfn tie")


# ---- end-to-end stage (engine "pmap") ----------------------------------------

def e2e_case(run, i, fmt=None):
    """Case i of this run: reproducible from (seed, i) alone."""
    import random
    d = core.os.path.join(run.work, "e2e")
    core.os.makedirs(d, exist_ok=True)
    rng = random.Random(run.seed * 7919 + i * 104729 + 17)
    return pmap_e2e.gen_case(rng, d, i, fmt)


def e2e_run(run, exe, lines, tag):
    model = core.run_model("pmap", run.casefile("pmap-%s.txt" % tag, lines))
    impl, crashes = linesrun.run_impl_lines(exe, run.work, lines,
                                            timeout=30 if len(lines) == 1 else (120 if run.tier == "quick" else 1800))
    ok_idx = [i for i, o in enumerate(impl) if not (o.startswith("CRASH") or o in ("NOT-RUN", "BAD-CASE"))]
    verd = core.run_model("pmap-spec", run.casefile("pmap-%s-spec.txt" % tag,
                                                    ["%s # %s" % (lines[i], impl[i]) for i in ok_idx]))
    spec = {i: v for i, v in zip(ok_idx, verd) if v != "ok"}
    def differs(m, o):
        mt, ot = m.split(), o.rsplit(" H=", 1)[0].split()
        return len(mt) != len(ot) or any(a != "?" and a != b for a, b in zip(mt, ot))
    tie = [i for i in ok_idx if model[i] != "-" and differs(model[i], impl[i])]
    return model, impl, crashes, spec, tie


def e2e_verdict(run, exe, line):
    model, impl, crashes, spec, tie = e2e_run(run, exe, [line], "one")
    return "crash" if crashes else "spec" if spec else "tie" if tie else None


def e2e_report(run, exe, line, index):
    kind0 = e2e_verdict(run, exe, line)
    if kind0 is None:
        run.count("unreproducible-disagreement")
        return
    head, _, ops = line.partition(" | ")
    ops = ops.split()
    if len(ops) > 1 and kind0 != "crash":
        ops = core.shrink_list(ops, lambda c: e2e_verdict(run, exe, head + " | " + " ".join(c)) == kind0, max_tests=40)
    small = head + " | " + " ".join(ops)
    model, impl, crashes, spec, tie = e2e_run(run, exe, [small], "one")
    short = small.split(" A=")[0] + " ... T " + small.split(" T ")[1] if " A=" in small else small
    replay = {"engine": "pmap", "index": index, "ops": " ".join(ops), "case": short[:3000], "model": model[0][:2000],
              "implementation": impl[0][:2000], "spec_verdict": spec.get(0, "ok"),
              "impl_stderr_tail": crashes[0][1][-1500:] if crashes else "",
              "how": "bin/check C07 --replay <this file> rebuilds dump #index of this seed with the suite's tools "
                     "and re-runs the ops through harness/pmap_drv.c (public API)"}
    if crashes:
        run.violation("impl", "page maps through the public API: abnormal exit (%s) on: %s" % (crashes[0][0], short[:400]),
                      replay, found_input=True, signature="pmap crash " + crashes[0][1][-300:])
    elif spec:
        run.violation("spec", "page maps through the public API contradict the dump: %s; case: %s"
                      % (spec[0], short[:500]), replay, found_input=True, signature="pmap spec " + spec[0])
    else:
        run.violation("tie", "correspondence pmap (extracted geometry/segment model vs library) broken on: %s"
                      % short[:400], replay, found_input=False, signature="pmap tie")


def e2e_stage(run):
    exe = run.need_cc("pmap_drv", "pmap_drv.c", sources=core.lib_sources())
    if exe is None:
        return
    n = 70 if run.tier == "quick" else 1500
    lines = [e2e_case(run, i) for i in range(n)]
    run.cov["engines"]["pmap"] = {"end_to_end_dumps": n}
    model, impl, crashes, spec, tie = e2e_run(run, exe, lines, "cases")
    for l, o in zip(lines, impl):
        fmt = l.split()[1]
        run.count("E-" + {"d": "diskdump", "s": "sadump", "e": "elf"}[fmt])
        if fmt == "d":
            f = l.split()[2].split(":")
            bs, bb, mm = int(f[0], 16), int(f[1], 16), int(f[2], 16)
            cap1 = bs * 8 * (bb // 2)
            run.count("E-diskdump-max_mapnr-" + ("at-capacity" if mm == cap1 else "capacity-1" if mm == cap1 - 1
                                                  else "below" if mm < cap1 else "above"))
            if "," in l.split(" @ ")[1].split(" | ")[0]:
                run.count("E-diskdump-split-set")
        ans = o.split()
        run.count("E-reads-ok", ans.count("ok"))
        run.count("E-reads-nodata", ans.count("nodata"))
        run.count("E-queries", max(0, len(ans) - 2))
        run.note_case(l.split(" A=")[0] + l.split(" T ")[-1], True)
    if lines:
        run.sample({"case": (lines[0].split(" A=")[0] + " ... T " + lines[0].split(" T ")[1])[:300], "impl": impl[0][:200]})
    bad = sorted(set(crashes) | set(spec))[:3]
    bad += [i for i in tie if i not in bad][:max(1, 3 - len(bad))] if tie else []
    for i in bad:
        e2e_report(run, exe, lines[i], i)


def check(run):
    run.trusted += ["modelled, not verified: realloc (one oracle answer per call), libc qsort (insertion sort in the "
                    "model; file windows are disjoint so the order is unique), memset",
                    "the byte order of the host only enters through le32toh/be32toh of an aligned 4-byte load, modelled "
                    "as the little-/big-endian value of the four bytes"]
    run.assumptions += ["bitmaps hold at least (end_pfn + 7) / 8 bytes (the callers read that many)",
                        "file windows [start_pfn, end_pfn) of a split set are non-empty and pairwise disjoint (DESIGN 8.iii)",
                        "get_bits is called with first <= last and a buffer of ((last - first) >> 3) + 1 bytes"]
    run.check_coq()
    if not run.need_ml():
        return
    exe = run.need_cc("pfn_drv", "pfn_drv.c", sources=core.lib_sources(exclude=("pfn.c", "bitmap.c")))
    if exe is None:
        return
    if run.replay_path:
        rp = core.json.load(open(run.replay_path))
        if rp["replay"].get("engine") == "pmap":
            exe2 = run.need_cc("pmap_drv", "pmap_drv.c", sources=core.lib_sources())
            if exe2 is None:
                return
            head = e2e_case(run, rp["replay"]["index"]).partition(" | ")[0]
            line = head + " | " + rp["replay"]["ops"]
            model, impl, crashes, spec, tie = e2e_run(run, exe2, [line], "one")
            print("model:          " + model[0][:600])
            print("implementation: " + impl[0][:600])
            print("spec verdict:   " + spec.get(0, "ok"))
            if crashes or spec or tie:
                e2e_report(run, exe2, line, rp["replay"]["index"])
            return
        line = rp["replay"]["case"]
        model, impl, crashes, spec = run_both(run, exe, [line], "one")
        print("model:          " + model[0])
        print("implementation: " + impl[0])
        print("spec verdict:   " + spec.get(0, "ok"))
        if crashes or model != impl or spec:
            report(run, exe, line)
        return
    quick = run.tier == "quick"
    n_k, n_b, n_m, n_big = (1500, 300, 2200, 2) if quick else (40000, 6000, 60000, 40)
    lines = []
    corpus = core.os.path.join(core.VERIF, "corpus", "pfn.txt")
    if core.os.path.exists(corpus):
        lines += [l for l in open(corpus).read().split("\n") if l.strip() and not l.startswith("#")]
    ncorpus = len(lines)
    lines += [gen_skip_case(run.rng) for _ in range(n_k)]
    lines += [gen_bits_case(run.rng) for _ in range(n_b)]
    lines += [gen_maps_case(run.rng, run.tier) for _ in range(n_m)]
    lines += [gen_maps_case(run.rng, run.tier, big=True) for _ in range(n_big)]
    run.cov["rule"] = ("distinct case lines; non-trivial = a scanner case whose answers include a hit and a miss, or a "
                       "map case with at least two regions and one query answered from a later file / beyond the last region")
    run.cov["engines"]["pfn"] = {"corpus_cases": ncorpus, "scanner_cases": n_k, "setclear_cases": n_b,
                                 "map_cases": n_m, "over_1024_region_cases": n_big}
    shard = 4000
    for s0 in range(0, len(lines), shard):
        part = lines[s0:s0 + shard]
        model, impl, crashes, spec = run_both(run, exe, part, "cases")
        bad = set(core.diff_lines(model, impl)) | set(spec) | set(crashes)
        for i, (l, o) in enumerate(zip(part, impl)):
            nt = True
            if l[0] == "K":
                w = l.split()
                run.count("K-" + w[1] + "-al" + w[2])
                nt = len(set(o[2:].split(","))) > 2
            elif l[0] == "B":
                run.count("B-" + l[2])
            else:
                run.count("M-built" if o.startswith("M") else "M-nomem" if o.startswith("E") else "M-other")
                if o.startswith("M"):
                    ms, _, ans = o[2:].partition(" | ")
                    nreg = sum(len(m.split(",")) for m in ms.split(";") if m != "-")
                    run.count("maps-total", len(ms.split(";")))
                    run.count("maps-without-region", sum(1 for m in ms.split(";") if m == "-"))
                    run.count("regions-total", nreg)
                    for op, a in zip(l.partition("|")[2].split(), ans.split()):
                        run.count("op-" + op[0] + ("-miss" if a in ("0", "-1") else ""))
                    nt = nreg >= 2
            run.note_case(l, nt)
            if s0 == 0 and i in (0, n_k + 1, n_k + n_b + 1):
                run.sample({"case": l[:300], "impl": o[:300]})
        first = sorted(set(crashes) | set(spec))[:3]
        for i in first + [j for j in sorted(bad) if j not in first][:max(1, 4 - len(first))]:
            report(run, exe, part[i])
        if len(run.violations) > 3:
            break
    if len(run.violations) <= 3:
        e2e_stage(run)
