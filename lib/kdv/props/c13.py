"""C13 — the attribute tree behaves like a typed hierarchical dictionary.

Theorems: coq/theories/Properties_C13.v (model Attr/AttrTree.v, spec Attr/AttrSpec.v).
Tie: engine "attr" — random operation histories (set/get by path, references,
sub-references, iterators, clear through NIL, type mismatches, clones with both flag
values, free of clones, re-open with another dump) on real contexts through the public
attribute API (harness/attr_drv.c) and on the extracted model; the initial dictionary is
read from a freshly prepared context.  Search: every answer of the implementation is
judged by the extracted association-list dictionary (engine "attr-spec")."""
import struct
from .. import core


def hx(s):
    if isinstance(s, str):
        s = s.encode()
    return s.hex() if s else "-"


# keys with set/clear hooks (C14's subject): never the target of a well-typed set or a clear
HOOKED = {"arch.name", "arch.page_size", "arch.page_shift", "cache.size", "file.fd", "file.set.number",
          "file.set.0.fd", "file.set.1.fd", "addrxlat.ostype", "linux.uts.release", "linux.uts.machine",
          "xen.version.major", "xen.version.minor", "linux.vmcoreinfo.raw", "xen.vmcoreinfo.raw",
          "linux.version_code", "xen.version_code", "file.pagemap", "memory.pagemap"}
HOOKED_PREFIX = ("linux.vmcoreinfo.lines.", "file.set.")
# directories whose recursive clear runs a hook that frees attributes
NO_CLEAR = {"", "linux", "linux.vmcoreinfo", "file", "file.set", "file.set.0", "file.set.1"}


def parse_tree(line):
    """-> list of (path tuple of key strings, type char, nkids)"""
    toks = line.split()[2:]          # "TREE <variant> <node> ..."
    out = []
    pos = [0]

    def node(prefix, is_root):
        k, ty, fl, v, nk = toks[pos[0]].split(":")
        pos[0] += 1
        key = "" if k == "-" else bytes.fromhex(k).decode("latin1")
        path = prefix if is_root else prefix + (key,)
        out.append((path, ty, int(nk)))
        for _ in range(int(nk)):
            node(path, False)
    node((), True)
    return out


def is_hooked(name):
    return name in HOOKED or name.startswith(HOOKED_PREFIX)


class Gen:
    def __init__(self, rng, tree, nfiles, variant="P"):
        self.rng = rng
        self.variant = variant
        self.nodes = [(".".join(p), ty, nk) for p, ty, nk in tree if p]
        self.by_name = {n: (ty, nk) for n, ty, nk in self.nodes}
        self.dirs = [n for n, ty, nk in self.nodes if ty == "d"]
        self.leaves = [n for n, ty, nk in self.nodes if ty != "d"]
        self.settable = [n for n in self.leaves if not is_hooked(n) and self.by_name[n][0] in "nasb"]
        self.clearable = [n for n in self.dirs if n not in NO_CLEAR and not is_hooked(n)
                          and not n.startswith("linux.vmcoreinfo.lines")] + self.settable
        self.ax = [n for n in self.settable if n.startswith("addrxlat.")]
        self.kids = {}
        for n in self.by_name:
            if "." in n:
                self.kids.setdefault(n.rsplit(".", 1)[0], []).append(n)
        self.nfiles = nfiles
        self.hangs = 0

    def value(self, ty):
        r = self.rng
        if ty == "n" or ty == "a":
            return "%x" % r.choice([0, 1, r.getrandbits(64), r.getrandbits(12), (1 << 64) - 1])
        if ty == "s":
            return hx(bytes(r.choice(b"abcXYZ019 ._-") for _ in range(r.choice([0, 1, 3, 8]))))
        if ty == "b":
            return "%x" % r.randint(1, 5)
        return "-"

    def bad_key(self):
        r = self.rng
        return r.choice(["nosuch", "arch.nosuch", "arch.byte_order.x", "", "arch..byte_order", "arch.", ".",
                         "cpu.0", "file.set.2.fd", "linux.vmcoreinfo.lines.NOPE", r.choice(self.leaves) + "x"])

    def iter_mutate(self, ops, c, slots, was_set):
        """Walk a directory and set / clear children while walking: the current position (through
        it.pos, by path, through a sub-key of a directory reference), earlier and later siblings."""
        r = self.rng
        def can_clear(k):
            # no clear hook, nothing freed: settable leaves, clearable directories, VMCOREINFO line leaves
            return k in self.clearable or (k.startswith("linux.vmcoreinfo.lines.") and self.by_name[k][0] != "d")
        cands = [d for d in self.dirs if len(self.kids.get(d, [])) >= 2 and all(can_clear(k) for k in self.kids[d])]
        if not cands:
            return
        d = r.choice(cands)
        kids = self.kids[d]
        # values are only written where every child is free of set hooks
        leaf = [k for k in kids if k in self.settable] if all(k in self.settable or k in self.clearable for k in kids) else []
        for k in r.sample(leaf, min(len(leaf), r.randint(0, 5))):
            ty = self.by_name[k][0]
            ops.append("S:%d:%s:%s:%s" % (c, hx(k), ty, self.value(ty)))
            was_set.append(k)
        sl, isl = r.randrange(6), r.randrange(3)
        ops.append("R:%d:%d:%s" % (c, sl, hx(d)))
        slots[sl] = (c, d)
        ops.append("I:%d:%d:%s" % (c, isl, hx(d)))
        for _ in range(len(kids) + 1):
            y = r.random()
            if y < 0.22:
                ops.append("IS:%d:%d:N:-" % (c, isl))                    # clear the current one through it.pos
            elif y < 0.40:
                ops.append("IK:%d:%d:N:-" % (c, isl))                    # ... by its path
            elif y < 0.50 and leaf:
                ty = self.by_name[r.choice(leaf)][0]
                ops.append("IS:%d:%d:%s:%s" % (c, isl, ty, self.value(ty)))  # set the current one (maybe mismatching)
            elif y < 0.70:
                k = r.choice(kids)                                       # any sibling: earlier, current or later
                clearable = can_clear(k)
                if k in leaf and r.random() < 0.5:
                    ty = self.by_name[k][0]
                    ops.append("S:%d:%s:%s:%s" % (c, hx(k), ty, self.value(ty)))
                elif clearable:
                    if r.random() < 0.5:
                        ops.append("S:%d:%s:N:-" % (c, hx(k)))
                    else:
                        ops.append("SS:%d:%d:%s:N:-" % (c, sl, hx(k[len(d) + 1:])))
            ops.append("IN:%d:%d" % (c, isl))

    def hookfail(self):
        """A set whose post-set hook FAILS (a VMCOREINFO blob whose first row the parser rejects) as
        the first value below its directories, on a new context: the value must be in place and
        the directories above it must have a value — read by path, by reference (taken before and
        after), by iteration of every ancestor and of the root, through the context and clones."""
        r = self.rng
        ops = ["F"] if self.variant == "F" else []
        key = r.choice(["linux.vmcoreinfo.raw", "xen.vmcoreinfo.raw"])
        comps = key.split(".")
        anc = [".".join(comps[:j]) for j in range(1, len(comps))]
        for _ in range(r.choice([0, 0, 1, 3])):
            k = r.choice([n for n in self.settable if not n.startswith(comps[0] + ".")])
            ty = self.by_name[k][0]
            ops.append("S:0:%s:%s:%s" % (hx(k), ty, self.value(ty)))
        ctxs = [0]
        if r.random() < 0.4:
            ops.append("C:0:%d" % r.choice([0, 0, 1]))
            ctxs.append(1)
        via = r.choice(ctxs)
        refs = r.random() < 0.5
        if refs:
            ops.append("R:%d:0:%s" % (via, hx(key)))
            ops.append("R:%d:1:%s" % (via, hx(r.choice(anc))))
        ops.append("SF:%d:%s:b:%x:4" % (via, hx(key), 60 + r.randrange(3)))
        for c in ctxs:
            ops.append("G:%d:%s" % (c, hx(key)))
            for sl, a in enumerate(anc):
                ops.append("G:%d:%s" % (c, hx(a)))
                ops.append("R:%d:%d:%s" % (c, 2 + sl, hx(a)))
                ops.append("RI:%d" % (2 + sl))
                ops.append("RG:%d:%d" % (c, 2 + sl))
                ops.append("I:%d:%d:%s" % (c, sl % 3, hx(a)))
                ops += ["IN:%d:%d" % (c, sl % 3)] * (self.by_name[a][1] + 1)
            if refs:
                ops.append("RG:%d:0" % c)
                ops.append("RI:1")
        ops.append("I:0:2:@")
        ops += ["IN:0:2"] * 10
        return ops

    def clone_open(self):
        """The application sets translation options, clones the context (mostly with
        KDUMP_CLONE_XLAT), opens a dump THROUGH THE CLONE, and every option is read by path and by
        iteration through both contexts: what the application set must survive in both."""
        r = self.rng
        ops = []
        keys = r.sample(self.ax, min(len(self.ax), r.randint(2, 6)))
        for k in keys:
            ty = self.by_name[k][0]
            ops.append("S:0:%s:%s:%s" % (hx(k), ty, self.value(ty)))
        if r.random() < 0.3:
            ops.append("S:0:%s:N:-" % hx(r.choice(keys)))
        xl = 1 if r.random() < 0.8 else 0
        ops.append("C:0:%d" % xl)
        for k in r.sample(self.ax, 2):                       # some more through the clone, before the open
            if r.random() < 0.5:
                ty = self.by_name[k][0]
                ops.append("S:1:%s:%s:%s" % (hx(k), ty, self.value(ty)))
                keys.append(k)
        via = 1 if r.random() < 0.85 else 0
        ops.append("O:%d:%d" % (r.randrange(self.nfiles), via))
        for k in keys + r.sample(self.ax, 2):
            ops += ["G:1:%s" % hx(k), "G:0:%s" % hx(k)]
        for d in ("addrxlat.force", "addrxlat.default", "addrxlat"):
            for c in (1, 0):
                isl = r.randrange(3)
                ops.append("I:%d:%d:%s" % (c, isl, hx(d)))
                ops += ["IN:%d:%d" % (c, isl)] * (len(self.kids[d]) + 1)
        return ([self.variant] if self.variant != "P" else []) + ops

    def history(self, maxops):
        r = self.rng
        ops = []
        live = [0]
        xlat = set()
        nctx = 1
        slots = {}      # slot -> ctx it was made through
        islots = {}
        focus = r.sample(self.settable, 6) + r.sample(self.dirs, 3) + (r.sample(self.ax, 2) if self.ax else [])
        if self.variant == "F":
            # a new context: "addrxlat" has no value although addrxlat.default/.force have one
            focus = r.sample(self.ax, min(5, len(self.ax))) + ["addrxlat", "addrxlat.force", "addrxlat.default"] + \
                r.sample(self.settable, 3)
        was_set = []        # keys given a value in this history
        opened = False
        if self.variant == "F" and self.nfiles and r.random() < 0.12:
            ops.append("O:%d" % r.randrange(self.nfiles))       # an opened context (continues in a child)
            opened = True

        axdirs = ["addrxlat", "addrxlat.force", "addrxlat.default"]

        def key():
            x = r.random()
            if opened:
                # the new file created attributes the model does not know: stay below addrxlat
                return r.choice(self.ax + axdirs) if x < 0.9 else "addrxlat.nosuch"
            if x < 0.55:
                return r.choice(focus)
            if x < 0.8:
                return r.choice(self.nodes)[0]
            if x < 0.86:
                return "." + r.choice(focus)
            return self.bad_key()

        def setop(prefix, name_ty):
            """well-typed set, clear, or mismatch on a key of type name_ty (None = unknown key)"""
            x = r.random()
            if name_ty is None:
                ty = r.choice("nasbd")
                return prefix + [ty, self.value(ty)]
            name, ty = name_ty
            if x < 0.12:                       # type mismatch: allowed on every key
                wrong = r.choice([t for t in "nasbdm" if t != ty])
                return prefix + [wrong, self.value(wrong)]
            if is_hooked(name) or (ty == "m"):
                return None
            if x < 0.27:
                if name in self.clearable or ty != "d":
                    return prefix + ["N", "-"]
                return None
            return prefix + [ty, self.value(ty)]

        n = r.randint(3, maxops)
        while len(ops) < n:
            c = r.choice(live)
            x = r.random()
            if opened and x >= 0.46 and not (0.56 <= x < 0.86):
                x = r.random() * 0.46                            # after an open: sets, clears and gets only
            if was_set and r.random() < 0.10:
                # clear a directory on the path of a key that has a value, then look at the key every way
                k = r.choice(was_set)
                comps = k.split(".")
                anc = [".".join(comps[:j]) for j in range(1, len(comps))]
                anc = [a for a in anc if a in self.clearable]
                if anc:
                    a = r.choice(anc)
                    sl = r.randrange(6)
                    ops.append("R:%d:%d:%s" % (c, sl, hx(k)))
                    ops.append("S:%d:%s:N:-" % (c, hx(a)))
                    ops.append("G:%d:%s" % (c, hx(k)))
                    ops.append("RG:%d:%d" % (c, sl))
                    ops.append("RI:%d" % sl)
                    par = ".".join(comps[:-1])
                    isl = r.randrange(3)
                    ops.append("I:%d:%d:%s" % (c, isl, hx(par)))
                    ops += ["IN:%d:%d" % (c, isl)] * (self.by_name[par][1] + 1 if par in self.by_name else 1)
                    slots[sl] = (c, k)
                    continue
            if not opened and r.random() < 0.07:
                self.iter_mutate(ops, c, slots, was_set)
                continue
            if x < 0.28:
                k = key()
                nm = k[1:] if k.startswith(".") and len(k) > 1 else k
                nt = (nm, self.by_name[nm][0]) if nm in self.by_name else None
                o = setop(["S", str(c), hx(k)], nt)
                if o:
                    ops.append(":".join(o))
                    if nt and o[-2] == nt[1] and o[-2] != "d" and k == nm:
                        was_set.append(nm)
            elif x < 0.46:
                ops.append("G:%d:%s" % (c, hx(key())))
            elif x < 0.56:
                sl = r.randrange(6)
                k = key() if r.random() < 0.9 else "@"
                ops.append("R:%d:%d:%s" % (c, sl, k if k == "@" else hx(k)))
                nm = k[1:] if k.startswith(".") and len(k) > 1 else k
                if k == "@":
                    slots[sl] = (c, "")
                elif nm in self.by_name and not (k.startswith(".") and c in xlat and not nm.startswith("addrxlat")):
                    slots[sl] = (c, nm)
            elif x < 0.72 and slots:
                sl = r.choice(sorted(slots))
                sc, base = slots[sl]
                y = r.random()
                if y < 0.3:
                    ops.append("RG:%d:%d" % (c, sl))
                elif y < 0.4:
                    ops.append("RI:%d" % sl)
                elif y < 0.6:
                    ty = self.by_name[base][0] if base in self.by_name else "d"
                    o = setop(["RS", str(c), str(sl)], (base, ty))
                    if o:
                        ops.append(":".join(o))
                else:
                    # sub-reference / sub-set below a directory reference
                    kids = [nm for nm in self.by_name if nm.startswith(base + ".")] if base else list(self.by_name)
                    if kids and r.random() < 0.85:
                        full = r.choice(kids)
                        sub = full[len(base) + 1:] if base else full
                    else:
                        full, sub = None, r.choice(["nosuch", "x.y", ""])
                    if r.random() < 0.5:
                        sl2 = r.randrange(6)
                        ops.append("SR:%d:%d:%d:%s" % (c, sl2, sl, hx(sub)))
                        if full:
                            slots[sl2] = (c, full)
                    else:
                        nt = (full, self.by_name[full][0]) if full else None
                        o = setop(["SS", str(c), str(sl), hx(sub)], nt)
                        if o:
                            ops.append(":".join(o))
            elif x < 0.86:
                # a complete listing of a directory
                isl = r.randrange(3)
                d = r.choice([k for k in focus if k in self.dirs] + [r.choice(self.dirs)])
                if opened:
                    d = r.choice(axdirs)
                elif r.random() < 0.08:
                    d = "@"
                if r.random() < 0.2 and slots:
                    sl = r.choice(sorted(slots))
                    ops.append("IR:%d:%d:%d" % (c, isl, sl))
                    d = slots[sl][1]
                else:
                    ops.append("I:%d:%d:%s" % (c, isl, d if d == "@" else hx(d)))
                nk = self.by_name[d][1] if d in self.by_name else (9 if d in ("@", "") else 0)
                steps = nk + 1 if r.random() < 0.8 else r.randint(0, nk)
                for _ in range(steps):
                    if r.random() < 0.1:
                        ops.append("G:%d:%s" % (c, hx(key())))      # interleaved read
                    ops.append("IN:%d:%d" % (c, isl))
            elif x < 0.93:
                if len(live) < 5 and r.random() < 0.7:
                    src = r.choice([l for l in live if l not in xlat])
                    fl = 1 if r.random() < 0.5 else 0
                    ops.append("C:%d:%d" % (src, fl))
                    live.append(nctx)
                    if fl:
                        xlat.add(nctx)
                    nctx += 1
                elif len(live) > 1:
                    v = r.choice(live[1:])
                    ops.append("F:%d" % v)
                    live.remove(v)
                    if v in xlat:
                        slots = {s: a for s, a in slots.items() if a[0] != v}
            else:
                ops.append("G:%d:%s" % (c, hx(r.choice(focus))))
        if self.nfiles and not opened and r.random() < 0.08:
            via = r.choice(live)
            ops.append("O:%d" % r.randrange(self.nfiles) + (":%d" % via if via else ""))
            if r.random() < 0.6:
                ops.append("O:%d" % r.randrange(self.nfiles))       # a real re-open
                if self.hangs < 2:
                    self.hangs += 1
                    ops.append("S:0:%s:n:1" % hx("arch.ptr_size"))  # needs the write lock (hung before fixes/48)
        return ([self.variant] if self.variant != "P" else []) + ops


def big_history(rng, n, variant="B"):
    """B<n>: n sibling attributes K0..K<n-1> below linux.vmcoreinfo.lines (many keys are proper
    prefixes of later ones and share the 1024 hash buckets).  Every key is read by path, by
    sub-reference and through the iterator, set to a new value by alternating entry points, and
    read again."""
    lines = "linux.vmcoreinfo.lines"
    ops = ["R:0:0:%s" % hx(lines)]
    keys = list(range(n))
    for i in keys:
        ops.append("G:0:%s" % hx("%s.K%d" % (lines, i)))
    for i in rng.sample(keys, min(n, 600)):
        ops += ["SR:0:1:0:%s" % hx("K%d" % i), "RG:0:1"]
    ops.append("I:0:0:%s" % hx(lines))
    ops += ["IN:0:0"] * (n + 1)
    order = keys[:]
    rng.shuffle(order)
    for j, i in enumerate(order):
        v = hx("w%d" % i)
        if j % 3 == 0:
            ops.append("S:0:%s:s:%s" % (hx("%s.K%d" % (lines, i)), v))
        elif j % 3 == 1:
            ops += ["SR:0:1:0:%s" % hx("K%d" % i), "RS:0:1:s:%s" % v]
        else:
            ops.append("SS:0:0:%s:s:%s" % (hx("K%d" % i), v))
    for i in keys:
        ops.append("G:0:%s" % hx("%s.K%d" % (lines, i)))
    ops.append("IR:0:1:0")
    ops += ["IN:0:1"] * (n + 1)
    # clear a third of them through alternating entry points, look again
    for j, i in enumerate(order[:n // 3]):
        if j % 2:
            ops.append("S:0:%s:N:-" % hx("%s.K%d" % (lines, i)))
        else:
            ops.append("SS:0:0:%s:N:-" % hx("K%d" % i))
    for i in rng.sample(keys, min(n, 800)):
        ops.append("G:0:%s" % hx("%s.K%d" % (lines, i)))
    # walk the directory and clear entries while walking: the current one (through it.pos or by
    # path) before most steps; everything that still has a value must be yielded
    ops.append("I:0:2:%s" % hx(lines))
    for j in range(n + 1):
        if j % 3 == 0:
            ops.append("IS:0:2:N:-")
        elif j % 3 == 1:
            ops.append("IK:0:2:N:-")
        ops.append("IN:0:2")
    ops.append("I:0:2:%s" % hx(lines))
    ops += ["IN:0:2"] * 3
    return ["%s%d" % (variant, n)] + ops


def chain_history(rng, n, variant):
    """Y<n> / Z<n>: a chain of cloned dictionaries (three in a row); the n VMCOREINFO lines and
    file.set.0..2 were created through the leaf.  Every level must find them by path, by
    sub-reference and by iteration; then the clones are freed (middle first) and the original
    must still have them."""
    k = 2 if variant == "Y" else 3
    lines = "linux.vmcoreinfo.lines"
    ops = []
    for c in range(k + 1):
        ops.append("R:%d:%d:%s" % (c, c, hx(lines)))
    keys = list(range(n))
    for i in rng.sample(keys, min(n, 60)):
        for c in range(k + 1):
            ops.append("G:%d:%s" % (c, hx("%s.K%d" % (lines, i))))
        c = rng.randrange(k + 1)
        ops += ["SR:%d:5:%d:%s" % (c, rng.randrange(k + 1), hx("K%d" % i)), "RG:%d:5" % rng.randrange(k + 1)]
    for c in range(k + 1):
        ops.append("I:%d:%d:%s" % (c, c % 3, hx(lines)))
        ops += ["IN:%d:%d" % (c, c % 3)] * (n + 1)
        for nm in ("file.set", "file.set.2"):
            ops.append("I:%d:%d:%s" % (c, c % 3, hx(nm)))
            ops += ["IN:%d:%d" % (c, c % 3)] * 5
        ops += ["G:%d:%s" % (c, hx("file.set.%d.name" % j)) for j in range(4)]
        ops.append("S:%d:%s:s:%s" % (c, hx("file.set.%d.name" % (c % 3)), hx("name%d" % c)))
    for j, i in enumerate(rng.sample(keys, min(n, 60))):
        c = j % (k + 1)
        ops.append("S:%d:%s:s:%s" % (c, hx("%s.K%d" % (lines, i)), hx("w%d" % i)))
        ops.append("G:%d:%s" % ((c + 1) % (k + 1), hx("%s.K%d" % (lines, i))))
    # free the clones, the middle of the chain first; the original keeps everything
    for c in range(1, k + 1):
        ops.append("F:%d" % c)
    for i in keys:
        ops.append("G:0:%s" % hx("%s.K%d" % (lines, i)))
    ops.append("I:0:0:%s" % hx(lines))
    ops += ["IN:0:0"] * (n + 1)
    ops += ["G:0:%s" % hx("file.set.%d.name" % j) for j in range(3)]
    return ["%s%d" % (variant, n)] + ops


def split_case(case):
    """(variant prefix as a list, operations)"""
    if case and (case[0] in ("P", "F") or (case[0][:1] in ("B", "X", "Y", "Z") and case[0][1:].isdigit())):
        return case[:1], case[1:]
    return [], case


def make_elf(path):
    """a minimal x86_64 ELF core: one PT_NOTE with NT_PRSTATUS, one PT_LOAD"""
    blob = bytes(range(256)) + bytes(72)
    note = struct.pack("<III", 5, len(blob), 1) + b"CORE\0\0\0\0" + blob
    eh = b"\x7fELF" + bytes([2, 1, 1]) + bytes(9) + struct.pack("<HHIQQQIHHHHHH", 4, 62, 1, 0, 64, 0, 0, 64, 56, 2, 0, 0, 0)
    ph1 = struct.pack("<IIQQQQQQ", 4, 0, 0x200, 0, 0, len(note), len(note), 0)
    ph2 = struct.pack("<IIQQQQQQ", 1, 0, 0x3000, 0, 0, 0x1000, 0x1000, 0)
    img = bytearray(0x4000)
    img[0:len(eh)] = eh
    img[64:64 + 56] = ph1
    img[120:120 + 56] = ph2
    img[0x200:0x200 + len(note)] = note
    open(path, "wb").write(bytes(img))


def make_diskdump(run, path):
    tool = core.os.path.join(core.REPO, "tests", "mkdiskdump")
    if not core.os.path.exists(tool):
        tool = "/repo/tests/mkdiskdump"
    if not core.os.path.exists(tool):
        return False
    data = core.os.path.join(run.work, "dd.data")
    open(data, "w").write("@0 raw\n" + "00" * 64 + "\n")
    cfg = ("version = 6\narch_name = x86_64\nblock_size = 4096\nphys_base = 0\nmax_mapnr = 0x10\n"
           "sub_hdr_size = 1\nuts.sysname = Linux\nuts.nodename = node\nuts.release = 5.4.0-reopen\n"
           "uts.version = #1\nuts.machine = x86_64\nuts.domainname = (none)\nnr_cpus = 1\nDATA = %s\n" % data)
    env = dict(core.os.environ)
    libs = [core.os.path.join(core.os.path.dirname(core.os.path.dirname(tool)), "src", d, ".libs")
            for d in ("kdumpfile", "addrxlat")]
    env["LD_LIBRARY_PATH"] = ":".join(libs)
    rc, out = core.sh([tool, path], input=cfg, env=env, timeout=30)
    return rc == 0 and core.os.path.exists(path)


def parse_dump(tok):
    """'O0{a=n1,b=d}' -> (status, {path: value})"""
    lb = tok.find("{")
    if not tok.startswith("O") or lb < 0:
        return tok, None
    body = tok[lb + 1:-1]
    d = {}
    if body and body != "-":
        for e in body.split(","):
            p, _, v = e.partition("=")
            d[p] = v
    return tok[1:lb], d


VOLATILE = [hx(x) for x in ("cache", "cpu")] + [hx("file") + "." + hx(x) for x in
                                           ("fd", "set", "mmap_cache", "read_cache", "mmap_policy", "pagemap")] + \
           [hx("memory") + "." + hx("pagemap")]


def reopen_equal(mtok, itok, fresh):
    """model: dump after clear_volatile; implementation: dump after the re-open"""
    ms, md = parse_dump(mtok)
    is_, idd = parse_dump(itok)
    if md is None or idd is None:
        return mtok == itok
    if ms != is_:
        return False

    def keep(p):
        return not any(p == v or p.startswith(v + ".") or p.startswith(v) for v in VOLATILE)
    exp = dict((p, v) for p, v in md.items() if keep(p))
    exp.update((p, v) for p, v in fresh.items() if keep(p))
    got = dict((p, v) for p, v in idd.items() if keep(p))
    return exp == got


# ---- the dictionaries behind clones as a list (Attr/AttrChain.v, engine attr-chain) ----
NCHAINKEYS = 11         # chain_keys[] in harness/attr_drv.c, chain_watched in ml/eng_attr.ml


def chain_case(rng):
    """clone (XLAT or sharing) from any live level, create attributes through any level (VMCOREINFO
    lines, file.set.N), shrink file.set, free any context (the original too) in any order"""
    ops, live, n = [], [0], 1
    for _ in range(rng.randint(3, 22)):
        r = rng.random()
        if r < 0.32 and n < 10:
            ops.append("%s:%d" % ("X" if rng.random() < 0.7 else "N", rng.choice(live)))
            live.append(n)
            n += 1
        elif r < 0.42:
            ops.append("V:%d:%d:%d" % (rng.choice(live), rng.randint(0, 40), rng.randint(1, 12)))
        elif r < 0.52:
            ops.append("S:%d:%d" % (rng.choice(live), rng.randint(1, 4)))
        elif r < 0.72:      # set a private (addrxlat.*) or a shared key through any level
            ops.append("A:%d:%d:%d" % (rng.choice(live), rng.randrange(NCHAINKEYS), rng.randint(1, 250)))
        elif r < 0.78:
            ops.append("U:%d:%d" % (rng.choice(live), rng.randrange(NCHAINKEYS)))
        elif len(live) > 1:
            c = rng.choice(live)
            live.remove(c)
            ops.append("F:%d" % c)
    return ["CHAIN"] + ops


def chain_run(run, exe, cases):
    lines = [" ".join(c) for c in cases]
    impl, crashes = core.run_impl_lines(exe, run.work, lines, timeout=600,
                                        env={"ASAN_OPTIONS": "detect_leaks=1:abort_on_error=0:exitcode=97"})
    jl = [l + " || " + (impl[i] if i < len(impl) else "") for i, l in enumerate(lines)]
    verd = core.run_model("attr-chain", run.casefile("attr-chain.txt", jl))
    return impl, crashes, verd


def chain_compare(run, exe, cases):
    impl, crashes, verd = chain_run(run, exe, cases)
    bad = []
    for i, c in enumerate(cases):
        out = impl[i] if i < len(impl) else ""
        run.note_case(" ".join(c), any(o.startswith("F:") for o in c))
        run.count("chain-cases")
        run.count("chain-dicts-%d" % (1 + sum(o.startswith("X:") for o in c)))
        if i in crashes or out.startswith(("CRASH", "NOT-RUN")) or (verd[i] if i < len(verd) else "?") != "ok":
            bad.append(i)
    for i in bad[:3]:
        def fails(cand):
            im, cr, vd = chain_run(run, exe, [["CHAIN"] + cand])
            return bool(cr) or not im or im[0].startswith(("CRASH", "NOT-RUN")) or not vd or vd[0] != "ok"
        small = ["CHAIN"] + core.shrink_list(cases[i][1:], fails, max_tests=80, budget_s=60)
        im, cr, vd = chain_run(run, exe, [small])
        if cr or not im or im[0].startswith(("CRASH", "NOT-RUN")):
            err = (list(cr.values())[0][1] if cr else "")
            what = "the library crashes on a chain of cloned dictionaries: %s" % " ".join(small)
            sig = "attr chain crash " + " ".join(core.re.findall(r"ERROR: \w+: ([\w-]+)", err)[:1])
            run.violation("impl", what, {"case": " ".join(small), "stderr": err[-2500:]}, found_input=True, signature=sig)
        elif vd and vd[0] != "ok":
            run.violation("spec", "dictionaries behind clones: %s (history: %s)" % (vd[0], " ".join(small)),
                          {"case": " ".join(small), "impl": im[0][:2000]}, found_input=True,
                          signature="attr chain " + core.re.sub(r"[0-9a-f.]{6,}|\d+", "#", vd[0])[:160])
        else:
            run.violation("tie", "a chain history fails only as part of a batch: %s" % " ".join(cases[i]),
                          {"case": " ".join(cases[i])}, found_input=True, signature="attr chain flaky")


def check(run):
    run.trusted += ["the initial dictionary of every history is read (white-box) from a context prepared by "
                    "harness/attr_drv.c setup(); the model is responsible for every transition after that",
                    "the tree model resolves paths; that the hash table + keycmp do the same for any hash function is C13_lookup_any_hash",
                    "blobs are compared by identity (the driver keeps the objects)"]
    run.assumptions += ["histories only set or clear keys without set/clear hooks (keys with hooks are C14's subject); "
                        "type-mismatching sets target every key",
                        "references and iterators are not used after the KDUMP_CLONE_XLAT clone they were made through is freed",
                        "KDUMP_CLONE_XLAT clones are made of contexts that use the original dictionary",
                        "the model follows /repo HEAD (all fixes of fixes/ applied)"]
    run.check_coq()
    if not run.need_ml():
        return
    exe = run.need_cc("attr_drv", "attr_drv.c", sources=core.lib_sources(), sanitize=True)
    if exe is None:
        return
    quick = run.tier == "quick"
    ncases = 2500 if quick else 60000
    maxops = 30 if quick else 45
    nbig = 1200 if quick else 3000
    nx = 300
    nch = 150
    variants = ["P", "F", "B%d" % nbig, "X%d" % nx, "Y%d" % nch, "Z%d" % nch]
    tree_lines, trees = [], {}
    for v in variants:
        rc, out, err = core.run_impl(exe, ["--tree", v], timeout=60)
        if rc != 0 or not out.startswith("TREE"):
            run.violation("impl", "the library fails while a context is prepared (variant %s, exit %s)" % (v, rc),
                          {"stderr": err[-1500:]}, found_input=True, signature="attr setup " + err[-200:])
            return
        tree_lines.append(out.strip())
        trees[v] = parse_tree(out.strip())
    tree = trees["P"]
    # files for re-open
    files = []
    f0 = core.os.path.join(run.work, "reopen0.elf")
    make_elf(f0)
    files.append(f0)
    f1 = core.os.path.join(run.work, "reopen1.dd")
    if make_diskdump(run, f1):
        files.append(f1)
    fresh_lines, fresh = [], {}
    for i, f in enumerate(files):
        rc, out, err = core.run_impl(exe, ["--fresh", f], timeout=60,
                                     env={"ASAN_OPTIONS": "detect_leaks=0:abort_on_error=0:exitcode=97"})
        if rc != 0:
            run.count("fresh-open-failed")
            continue
        fresh_lines.append("FRESH %d %s" % (i, out.strip()))
        _, d = parse_dump("O0{" + out.strip() + "}")
        fresh[i] = d
    usable = sorted(fresh)
    head = tree_lines + fresh_lines
    ctx = {"exe": exe, "head": head, "files": files, "fresh": fresh}
    hyp = core.run_model("attr", run.casefile("attr-head.txt", head))
    if len(hyp) < len(variants) or any(h != "tree" for h in hyp[:len(variants)]):
        run.violation("tie", "the dictionary of a freshly prepared context does not satisfy the theorems' hypotheses: %s"
                      % hyp[:len(variants)], {"trees": [t[:500] for t in tree_lines]}, found_input=False,
                      signature="attr hypotheses %s" % hyp[:len(variants)])
        return
    if run.replay_path:
        rp = core.json.load(open(run.replay_path))
        ops = rp["replay"]["case"].split()
        if ops and ops[0] == "CHAIN":
            chain_compare(run, exe, [ops])
        else:
            compare(run, ctx, [ops])
        return
    # the list-of-dictionaries model against the real hash tables and fallback pointers
    nchain_cases = 400 if quick else 8000
    chain_compare(run, exe, [chain_case(run.rng) for _ in range(nchain_cases)])
    run.cov["engines"]["attr-chain"] = {"generated": nchain_cases}
    gen = Gen(run.rng, tree, len(usable))
    genf = Gen(run.rng, trees["F"], len(usable), "F")
    nfresh = ncases // 3
    cases = []
    corpus = core.os.path.join(core.VERIF, "corpus", "attr.txt")
    if core.os.path.exists(corpus):
        cases += [l.split() for l in open(corpus).read().split("\n") if l.strip() and not l.startswith("#")]
    ncorpus = len(cases)
    # thousands of prefix-related sibling keys first (one long history; three in the thorough tier)
    for _ in range(1 if quick else 3):
        cases.append(big_history(run.rng, nbig))
    # the same on attributes that were created through a KDUMP_CLONE_XLAT clone which was freed first
    cases.append(big_history(run.rng, nx, "X"))
    # chains of cloned dictionaries, attributes created through the leaf
    for _ in range(1 if quick else 4):
        cases.append(chain_history(run.rng, nch, "Y"))
        cases.append(chain_history(run.rng, nch, "Z"))
    for _ in range(ncases):
        cases.append(gen.history(maxops))
    for _ in range(nfresh):
        cases.append(genf.history(maxops))
    if usable:
        for j in range(ncases // 8):
            cases.append((gen if j % 2 else genf).clone_open())
    # the same file (and another one) opened twice in a row: what the first file left must not
    # show in the second listing (CPU numbering, cpu.number)
    for i in usable:
        for j in usable:
            cases.append(["F", "O:%d" % i, "O:%d" % j, "G:0:%s" % hx("cpu.number"), "G:0:%s" % hx("addrxlat.default.phys_base")])
    # sets whose post-set hook fails, on new contexts
    for _ in range(60 if quick else 1500):
        cases.append(genf.hookfail())
    run.cov["rule"] = ("one case = one operation history on a freshly prepared real context (%d keys); distinct = distinct "
                       "histories; non-trivial = contains a clear, a type mismatch, a clone or a re-open" % len(tree))
    run.cov["engines"]["attr"] = {"corpus_cases": ncorpus, "generated": ncases, "fresh_context_histories": nfresh,
                                  "big_histories": 1 if quick else 3, "big_sibling_keys": nbig, "keys": len(tree),
                                  "reopen_files": [core.os.path.basename(files[i]) for i in usable]}
    shard = 2500
    for s0 in range(0, len(cases), shard):
        compare(run, ctx, cases[s0:s0 + shard])
        if len(run.violations) > 3:
            break


def run_both(run, ctx, cases, name="attr-cases.txt"):
    lines = ctx["head"] + [" ".join(c) for c in cases]
    cf = run.casefile(name, lines)
    nh = len(ctx["head"])
    model = core.run_model("attr", cf)[nh:]
    pre = ["--files", ",".join(ctx["files"])]
    impl, crashes = core.run_impl_lines(ctx["exe"], run.work, lines, pre_args=pre, timeout=1800,
                                        env={"ASAN_OPTIONS": "detect_leaks=1:abort_on_error=0:exitcode=97"})
    impl = impl[nh:]
    crashes = {i - nh: v for i, v in crashes.items() if i >= nh}
    return model, impl, crashes


def same(ctx, ops, mline, iline):
    ops = split_case(ops)[1]
    mt, it = mline.split(), iline.split()
    if len(mt) != len(it):
        return False
    for op, a, b in zip(ops, mt, it):
        if op.startswith("O:"):
            if not reopen_equal(a, b, ctx["fresh"].get(int(op.split(":")[1]), {})):
                return False
        elif a != b:
            return False
    return True



def cpu_number_marker(ops, verdict):
    """Classifier detail for the open finding C13-open-after-app-cpu-number: the marker is added to the
    signature only if the application set cpu.number = V (last such set before the last open) and the one
    unexpected CPU directory is exactly cpu.(V mod 2^32), i.e. the CPUs of the new file were numbered after
    the application's count."""
    if "after re-open" not in verdict:
        return ""
    key = "cpu.number".encode().hex()
    last_open = max([k for k, o in enumerate(ops) if o.startswith("O:")] or [-1])
    # the key may be written with a leading dot (path relative to the root); the set may also go through
    # a reference to cpu.number (R:<ctx>:<slot>:<key> ... RS:<ctx>:<slot>:n:<value>)
    keys = (key, "2e" + key)
    vals, refs = [], {}
    for o in ops[:last_open + 1]:
        f = o.split(":")
        if f[0] == "R" and len(f) >= 4:
            refs[f[2]] = f[3]                       # reference slots are shared by the contexts of a case
        elif f[0] == "S" and len(f) >= 5 and f[2] in keys and f[3] == "n":
            vals.append(f[4])
        elif f[0] == "RS" and len(f) >= 5 and f[3] == "n" and refs.get(f[2]) in keys:
            vals.append(f[4])
        elif f[0] == "SS" and len(f) >= 6 and f[4] == "n" and f[2] in refs and \
                (refs[f[2]] + "2e" + f[3]) in keys:   # set through a sub-path of a reference (cpu + number)
            vals.append(f[5])
    if not vals:
        return ""
    try:
        v = int(vals[-1], 16) & 0xffffffff
    except ValueError:
        return ""
    want = "cpu.".encode().hex()[:-2] + "." + str(v).encode().hex()
    m = core.re.search(r"unexpected ([0-9a-f.=d,\- ]*)", verdict)
    if v != 0 and m and (want + "=") in m.group(1) and "missing 637075.30=" in verdict:
        return " [CPUs numbered after the application-set cpu.number]"
    return ""

def spec_verdicts(run, ctx, cases, impl):
    lines = ctx["head"] + [" ".join(c) + " || " + (impl[i] if i < len(impl) else "") for i, c in enumerate(cases)]
    res = core.run_model("attr-spec", run.casefile("attr-spec.txt", lines))[len(ctx["head"]):]
    return res


def compare(run, ctx, cases):
    model, impl, crashes = run_both(run, ctx, cases)
    verd = spec_verdicts(run, ctx, cases, impl)
    run.count("spec-cases-checked", len(cases))
    bad = []
    for i, ops in enumerate(cases):
        out = impl[i] if i < len(impl) else ""
        canon = " ".join(ops)
        run.note_case(canon, any(o.startswith(("C:", "O:", "F:")) or ":N:" in o for o in ops))
        for o, t in zip(split_case(ops)[1], out.split()):
            tag = o.split(":")[0]
            run.count("op-%s-%s" % (tag, t.split(":")[0].split("{")[0][:3]))
        if i < 2:
            run.sample({"case": canon[:300], "impl": out[:300]})
        if i in crashes or out.startswith(("CRASH", "NOT-RUN")) or not same(ctx, ops, model[i] if i < len(model) else "", out) \
                or (i < len(verd) and verd[i] != "ok"):
            bad.append(i)
    todo = []
    for i in bad:
        # a case that shows exactly a recorded finding (and nothing else) is reported without shrinking
        sig = "attr spec " + verd[i] + cpu_number_marker(cases[i], verd[i]) if i < len(verd) and verd[i] != "ok" else None
        if sig and i not in crashes and same(ctx, cases[i], model[i] if i < len(model) else "", impl[i]) and \
                any(core.re.search(k["match"], sig) for k in run.known if k.get("status", "open") == "open"):
            run.violation("spec", "known finding", {"case": " ".join(cases[i])}, found_input=True, signature=sig)
            run.count("known-finding-cases")
            continue
        todo.append(i)
    for i in todo[:5]:
        ops = cases[i]

        def fails(cand):
            m, im, cr = run_both(run, ctx, [cand], "attr-one.txt")
            if m and "BAD" in m[0].split():
                return False                 # a malformed history (undefined context or slot)
            if cr or not im or im[0].startswith(("CRASH", "NOT-RUN")):
                return True
            if not same(ctx, cand, m[0], im[0]):
                return True
            return spec_verdicts(run, ctx, [cand], im)[0] != "ok"
        pre, body = split_case(ops)

        def fails_body(cand):
            return fails(pre + cand)
        if "HANG-OR-CRASH" in (impl[i] if i < len(impl) else ""):
            # each attempt costs the watchdog's delay: keep the re-open tail, do not shrink further
            k = min(j for j, o in enumerate(body) if o.startswith("O:"))
            small = pre + body[k:]
        elif len(body) > 400:
            # a long history: try the first operation that is answered differently, with the
            # reference it may use, instead of delta debugging
            mt = (model[i] if i < len(model) else "").split()
            it = (impl[i] if i < len(impl) else "").split()
            j = next((j for j in range(min(len(mt), len(it), len(body))) if mt[j] != it[j]), None)
            small = ops
            if j is not None:
                refs = [o for o in body[:j] if o.startswith(("R:", "SR:"))][-2:]
                # the iteration the operation belongs to, if any
                seg = []
                if body[j].startswith(("IN:", "IS:", "IK:")):
                    isl = body[j].split(":")[2]
                    k = max([x for x in range(j) if body[x].startswith(("I:", "IR:")) and body[x].split(":")[2] == isl],
                            default=None)
                    if k is not None:
                        seg = body[k:j + 1]
                for cand in ([body[j]], body[:1] + [body[j]], body[:1] + refs + [body[j]], body[:1] + seg):
                    if cand and fails_body(cand):
                        small = pre + (core.shrink_list(cand, fails_body, max_tests=40) if len(cand) > 6 else cand)
                        break
        elif not fails(ops):
            run.count("unreproducible-disagreement")
            continue
        else:
            small = pre + core.shrink_list(body, fails_body)
        m, im, cr = run_both(run, ctx, [small], "attr-one.txt")
        sv = spec_verdicts(run, ctx, [small], im)[0] if im else "no output"
        readable = " ".join(decode_op(o) for o in small[:60]) + (" ... (%d operations)" % len(small) if len(small) > 60 else "")
        replay = {"engine": "attr", "case": " ".join(small), "readable": readable, "model": m, "implementation": im,
                  "crash": {k: (v[0], v[1][-1500:]) for k, v in cr.items()}, "spec_verdict": sv,
                  "how": "bin/check C13 --replay <this file> re-runs the history through harness/attr_drv.c"}
        where = "history: %s" % readable[:500]
        hang = im and "HANG-OR-CRASH" in im[0]
        if cr or (im and im[0].startswith("CRASH")):
            e = list(cr.values())[0][1] if cr else ""
            run.violation("impl", "the library aborts (sanitizer/crash) on " + where, replay, found_input=True,
                          signature="attr crash " + crash_sig(e))
        elif hang:
            run.violation("impl", "the library hangs or dies after a re-open on " + where, replay, found_input=True,
                          signature="attr reopen-hang " + im[0].split("HANG-OR-CRASH")[1][:8])
        elif sv != "ok":
            run.violation("spec", "the library contradicts the dictionary spec: %s; %s" % (sv, where), replay,
                          found_input=True, signature="attr spec " + sv + cpu_number_marker(small, sv))
        else:
            run.violation("tie", "correspondence attr (model Attr/AttrTree vs attr.c) broken on " + where, replay,
                          found_input=False, signature="attr tie")


def crash_sig(err):
    for l in err.split("\n"):
        if "ERROR: AddressSanitizer" in l or "runtime error" in l or "LeakSanitizer" in l:
            return l.strip()[-200:]
    return err[-200:]


def decode_op(o):
    f = o.split(":")
    out = []
    for j, x in enumerate(f):
        if j >= 2 and len(x) >= 2 and len(x) % 2 == 0 and f[0] in ("S", "G", "R", "I", "SR", "SS") and \
                all(c in "0123456789abcdef" for c in x):
            try:
                s = bytes.fromhex(x).decode("ascii")
                if s.isprintable() and (f[0] in ("G", "R", "I") or j in (2, 3, 4)):
                    out.append("'" + s + "'")
                    continue
            except (ValueError, UnicodeDecodeError):
                pass
        out.append(x)
    return ":".join(out)
