"""C01 — reads return exactly the memory the dump file encodes, in every format.

Theorems: coq/theories/Properties_C01.v (models Fmt/*Model.v, specs Fmt/*Spec.v).
Tie, engine "fmt": a generated memory image + layout is written to disk by the
*extracted spec encoder* (engine fmt-enc; zlib/snappy/zstd payloads are produced
by the real compressors), opened by the real library through the public API
(harness/fmt_drv.c: geometry attributes, kdump_read of every page, of
neighbours, of unaligned and page-crossing ranges, zero_excluded off and on),
read by the extracted reader model from the same file bytes (engine fmt), and
judged against what the image demands (extracted spec, engine fmt-spec).
LKCD additionally white-box (harness/lkidx_drv.c includes lkcd.c): after every
request the library's real PFN block lists are printed and compared with the
block lists of the extracted Fmt/LkcdIndexModel.v (engine fmt-lkidx)."""
import base64
import os

from .. import core
from .. import fmtgen


def run_engine(engine, casefile, timeout=1800):
    """core.run_model with a raised stack limit (the extracted code recurses
    over byte lists as long as a page / a bitmap)."""
    rc, out = core.sh(["sh", "-c", 'ulimit -s unlimited 2>/dev/null || ulimit -s 1000000 2>/dev/null; '
                       'exec "$0" "$1" "$2"', os.path.join(core.BUILD, "kdv_driver"), engine, casefile],
                      timeout=timeout)
    if rc != 0:
        raise RuntimeError("model driver failed (%s):\n%s" % (rc, out[-2000:]))
    return out.split("\n")[:-1]


def run_impl_chunk(exe, workdir, lines, timeout=90):
    """core.run_impl_lines, but a library that does not return is an outcome as well: the case the
    driver hangs on is recorded (exit 'timeout') and the rest of the chunk is not run (a chunk takes a
    few seconds; every further hang would cost the full time limit again)."""
    out, crashes = [], {}
    start, n = 0, len(lines)
    while start < n:
        cf = os.path.join(workdir, "impl-cases-%d-%d.txt" % (os.getpid(), start))
        with open(cf, "w") as f:
            for l in lines[start:]:
                f.write(l + "\n")
        rc, o, err = core.run_impl(exe, [cf], timeout=timeout)
        os.unlink(cf)
        got = o.split("\n")
        got.pop()                       # "" after the last newline, or a partial line
        got = got[:n - start]
        out += got
        start += len(got)
        if start < n:
            crashes[start] = (rc, err[-2500:])
            out.append("CRASH %s" % rc)
            start += 1
            if rc == "timeout":
                break
        elif rc != 0:
            crashes[n - 1] = (rc, err[-2500:])
    out += ["NOT-RUN"] * (n - len(out))
    return out, crashes


GENERATORS = {
    "dd": fmtgen.gen_dd,
    "elf": fmtgen.gen_elf,
    "sadump": fmtgen.gen_sadump,
    "lkcd": fmtgen.gen_lkcd,
    "s390": fmtgen.gen_s390,
}


def make_case(run, fmt, idx, big=False):
    """Generate one case: writes the image file, returns (line, info)."""
    d = os.path.join(run.work, "files")
    os.makedirs(d, exist_ok=True)
    lay, entries, info = GENERATORS[fmt](run.rng, big=big)
    img = os.path.join(d, "c%d.img" % idx)
    dump = os.path.join(d, "c%d.dump" % idx)
    if fmt == "elf":
        fmtgen.write_segs(img, entries)
        reqs = ["G", "Z0"]
        for z in (False, True):
            if z:
                reqs.append("Z1")
            small = info["pgsz"] <= 8192
            reqs += fmtgen.elf_requests(run.rng, info, False, z, limit=30 if small else 8)
            reqs += fmtgen.elf_requests(run.rng, info, True, z, limit=20 if small else 5)
        line = "1 %s F=%s L=%s I=%s %s" % (dump, fmt, fmtgen.lay_str(lay), img, " ".join(reqs))
        info["image"] = img
        info["dump"] = dump
        return line, info
    if fmt == "lkcd":
        fmtgen.write_stream(img, info["pgsz"], entries)
        reqs = fmtgen.lkcd_requests(run.rng, info)
        line = "1 %s F=%s L=%s I=%s %s" % (dump, fmt, fmtgen.lay_str(lay), img, " ".join(reqs))
        info["image"] = img
        info["dump"] = dump
        return line, info
    fmtgen.write_image(img, info["pgsz"], entries)
    dense = info.get("dense")
    reqs = ["G", "Z0"] + fmtgen.page_requests(run.rng, info["pgsz"], info["maxpfn"], info["pfns"],
                                               limit=90 if dense else 40 if info["pgsz"] <= 8192 else 16)
    z1 = fmtgen.page_requests(run.rng, info["pgsz"], info["maxpfn"], info["pfns"],
                              limit=40 if dense else 24 if info["pgsz"] <= 8192 else 10)
    reqs += ["Z1"] + z1
    nf = info.get("nfiles", 1)
    dumps = dump if nf == 1 else " ".join("%s.%d" % (dump, i) for i in range(nf))
    line = "%d %s F=%s L=%s I=%s %s" % (nf, dumps, fmt, fmtgen.lay_str(lay), img, " ".join(reqs))
    info["image"] = img
    info["dump"] = dump
    return line, info


def first_diff(a, b):
    ta, tb = a.split(), b.split()
    for i in range(max(len(ta), len(tb))):
        x = ta[i] if i < len(ta) else None
        y = tb[i] if i < len(tb) else None
        if x != y:
            return i, x, y
    return None


def req_tokens(line):
    toks = line.split()
    return [t for t in toks[1 + int(toks[0]):] if not (len(t) > 1 and t[1] == "=")]


def strip_reqs(line, keep):
    """The case line with only the requests whose index is in `keep`."""
    toks = line.split()
    nf = 1 + int(toks[0])
    head = toks[:nf] + [t for t in toks[nf:] if len(t) > 1 and t[1] == "="]
    reqs = req_tokens(line)
    return " ".join(head + [r for i, r in enumerate(reqs) if i in keep])


def minimise(line, idx):
    """Keep the geometry / zero-fill requests before request #idx and that request."""
    reqs = req_tokens(line)
    if " F=lkcd " in line or " F=elf " in line:
        # the answer may depend on what was asked before (lazy index, last-hit shortcuts)
        return strip_reqs(line, set(range(idx + 1)))
    keep = {i for i in range(idx) if reqs[i] in ("Z0", "Z1")} | {idx}
    return strip_reqs(line, keep)


def describe(line, idx, info):
    reqs = req_tokens(line)
    r = reqs[idx] if idx < len(reqs) else "?"
    z = 0
    for t in reqs[:idx]:
        if t in ("Z0", "Z1"):
            z = int(t[1])
    return "%s zero_excluded=%d" % (r, z)


def check(run):
    run.trusted += [
        "modelled, not verified: zlib / snappy / zstd decompressors (a function `decompress` with the "
        "hypothesis that it inverts the writer's compressor on the stored payloads; in the tie: a table "
        "of the payloads written, produced by the real compressors)",
        "modelled, not verified: pread/mmap file access (zero-filled past EOF), the page cache and "
        "fcache (C04/C06), VMCOREINFO/notes/eraseinfo blobs and utsname (read by the C code, no "
        "influence on geometry or page lookup for the generated dumps)"]
    run.assumptions += [
        "dump files are well-formed: written by the spec encoders (Fmt/*Spec.v) from a layout that "
        "satisfies the format's well-formedness record (e.g. DiskdumpSpec.dd_wf)"]
    run.check_coq()
    if not run.need_ml():
        return
    exe = run.need_cc("fmt_drv", "fmt_drv.c", sources=core.lib_sources(), sanitize=True)
    if exe is None:
        return
    exe_idx = run.need_cc("lkidx_drv", "lkidx_drv.c", sources=core.lib_sources(exclude=("lkcd.c",)),
                          sanitize=True)
    if exe_idx is None:
        return
    quick = run.tier == "quick"
    if run.replay_path:
        rp = core.json.load(open(run.replay_path))["replay"]
        d = os.path.join(run.work, "files")
        os.makedirs(d, exist_ok=True)
        img = os.path.join(d, "replay.img")
        with open(img, "wb") as f:
            f.write(base64.b64decode(rp["image_b64"]))
        toks = rp["case"].split()
        toks[1] = os.path.join(d, "replay.dump")
        toks = [("I=" + img) if t.startswith("I=") else t for t in toks]
        line = " ".join(toks)
        res = run_lines(run, exe, [line])
        print("encoder:        " + res["enc"][0])
        print("implementation: " + res["impl"][0])
        print("model:          " + res["model"][0])
        print("spec:           " + res["spec"][0])
        compare(run, exe, [line], [{"key": "replay", "image": img, "pfns": []}], res)
        if " F=lkcd " in line:
            index_tie(run, exe_idx, [line], [{"key": "replay", "image": img, "pfns": []}], show=True)
        return
    plan = [("dd", 100 if quick else 2000), ("elf", 75 if quick else 2000),
            ("sadump", 65 if quick else 1200), ("lkcd", 80 if quick else 2000),
            ("s390", 40 if quick else 400)]
    only = os.environ.get("VERIF_C01_FORMATS")
    if only:
        plan = [p for p in plan if p[0] in only.split(",")]
    run.cov["rule"] = ("one case = one generated memory image + layout, encoded by the extracted spec encoder, "
                       "opened through the public API; distinct = distinct (layout class, page frame set, methods); "
                       "non-trivial = at least one page present and at least one page-crossing read answered OK")
    idx = 0
    for fmt, n in plan:
        shard = 60
        done = 0
        while done < n:
            m = min(shard, n - done)
            lines, infos = [], []
            for _ in range(m):
                big = (not quick) and run.rng.random() < 0.05
                l, i = make_case(run, fmt, idx % shard, big=big)
                idx += 1
                lines.append(l)
                infos.append(i)
            res = run_lines(run, exe, lines)
            compare(run, exe, lines, infos, res)
            if fmt == "lkcd":
                index_tie(run, exe_idx, lines, infos)
            done += m
            if len(run.violations) > 3:
                return
        run.cov["engines"]["fmt/" + fmt] = {"generated": n}


def run_lines(run, exe, lines, jobs=4):
    """Encode, then run library / model / spec on the same cases.  The cases are
    split into `jobs` chunks; the three readers of a chunk run concurrently
    (at most 8 processes at a time)."""
    from concurrent.futures import ThreadPoolExecutor
    n = len(lines)
    jobs = max(1, min(jobs, n))
    bounds = [(n * j // jobs, n * (j + 1) // jobs) for j in range(jobs)]
    res = {"enc": [None] * n, "impl": [None] * n, "model": [None] * n, "spec": [None] * n, "crashes": {}}

    def chunk_dir(j):
        d = os.path.join(run.work, "chunk%d" % j)
        os.makedirs(d, exist_ok=True)
        return d

    def casefile(j):
        lo, hi = bounds[j]
        p = os.path.join(chunk_dir(j), "fmt-cases.txt")
        with open(p, "w") as f:
            for l in lines[lo:hi]:
                f.write(l + "\n")
        return p

    def enc(j):
        lo, hi = bounds[j]
        res["enc"][lo:hi] = run_engine("fmt-enc", casefile(j))

    def reader(task):
        j, kind = task
        lo, hi = bounds[j]
        if kind == "impl":
            out, crashes = run_impl_chunk(exe, chunk_dir(j), lines[lo:hi])
            res["impl"][lo:hi] = out
            for k, v in crashes.items():
                res["crashes"][lo + k] = v
        else:
            res[kind][lo:hi] = run_engine("fmt" if kind == "model" else "fmt-spec",
                                          os.path.join(chunk_dir(j), "fmt-cases.txt"))

    with ThreadPoolExecutor(max_workers=8) as ex:
        list(ex.map(enc, range(jobs)))
        list(ex.map(reader, [(j, k) for j in range(jobs) for k in ("impl", "model", "spec")]))
    return res


def index_tie(run, exe_idx, lines, infos, show=False):
    """White-box: the PFN block lists of lkcd.c after every request vs. those of the
    block-level model, on the dump files that run_lines has just written."""
    from concurrent.futures import ThreadPoolExecutor
    d = os.path.join(run.work, "lkidx")
    os.makedirs(d, exist_ok=True)
    cf = os.path.join(d, "fmt-cases.txt")
    with open(cf, "w") as f:
        for l in lines:
            f.write(l + "\n")
    with ThreadPoolExecutor(max_workers=2) as ex:
        fi = ex.submit(run_impl_chunk, exe_idx, d, lines, 240)
        fm = ex.submit(run_engine, "fmt-lkidx", cf)
        (impl, crashes), model = fi.result(), fm.result()
    if show:
        print("index (library): " + impl[0])
        print("index (model):   " + model[0])
    for i, line in enumerate(lines):
        info = infos[i]
        a = impl[i] if i < len(impl) else "MISSING"
        b = model[i] if i < len(model) else "MISSING"
        if a == "NOT-RUN":
            continue
        run.count("lkcd index dumps compared", a.count("|I:"))
        if i in crashes:
            rc, err = crashes[i]
            report(run, line, info, "impl", "the library crashes / sanitizer report (exit %s) reading a %s dump"
                   % (rc, info["key"]), {"impl_exit": rc, "stderr_tail": err[-1500:]}, True,
                   "fmt crash lkcd " + err[-200:])
            continue
        dd = first_diff(a, b)
        if dd is None:
            continue
        k, got, want = dd
        what = ("%s: the PFN index of lkcd.c differs from the block-level model after request %s: library %s, model %s"
                % (info["key"], describe(line, k, info), (got or "")[:300], (want or "")[:300]))
        report(run, minimise(line, k), info, "tie", what, {"implementation": got, "model": want},
               False, "fmt lkidx")


def compare(run, exe, lines, infos, res):
    for i, line in enumerate(lines):
        info = infos[i]
        enc, impl, model, spec = (res[k][i] if i < len(res[k]) else "MISSING" for k in ("enc", "impl", "model", "spec"))
        if info["key"].startswith("elf") or " F=elf " in line:
            # a virtual address that no LOAD segment answers goes to libaddrxlat (model and spec:
            # outcome 98); the generated cores have no page tables, so the library's answer is
            # KDUMP_ERR_ADDRXLAT (9)
            impl = " ".join("R98:" + t[3:] if t.startswith("R9:") else t for t in impl.split())
        canon = info["key"] + " " + ",".join("%x:%s" % (p, info.get("methods", {}).get(p, "")) for p in info["pfns"])
        nontrivial = bool(info["pfns"]) and " R0:" in impl
        run.note_case(canon, nontrivial)
        run.count("layout " + info["key"].split(" pg")[0])
        if " split" in info["key"]:
            run.count("diskdump split set of %s files" % info["key"].split(" split")[1])
        for p, m in info.get("methods", {}).items():
            run.count("page method " + m)
        for t in impl.split():
            if t[0] == "R":
                run.count("read status " + t.split(":")[0][1:])
        if len(run.cov["samples"]) < 4:
            run.sample({"layout": info["key"], "pfns": ["%x" % p for p in info["pfns"]][:12],
                        "impl": impl[:160]})
        if impl == "NOT-RUN":
            continue
        if not enc.startswith("ok"):
            run.violation("machinery", "the spec encoder failed on a generated layout: " + enc,
                          {"case": line}, found_input=False, signature="fmt encoder failed")
            continue
        if i in res["crashes"]:
            rc, err = res["crashes"][i]
            report(run, line, info, "impl",
                   ("the library does not return (killed after the time limit) reading a %s dump" % info["key"])
                   if rc == "timeout" else
                   ("the library crashes / sanitizer report (exit %s) reading a %s dump" % (rc, info["key"])),
                   {"impl_exit": rc, "stderr_tail": err[-1500:]}, True,
                   "fmt crash " + info["key"].split()[0] + " " + err[-200:])
            continue
        d_spec = first_diff(impl, spec)
        d_model = first_diff(impl, model)
        if d_spec is None and d_model is None:
            continue
        if d_spec is not None:
            k, got, want = d_spec
            what = ("%s: the library answers %s where the image demands %s (%s)"
                    % (info["key"], got, want, describe(line, k, info)))
            small = minimise(line, k)
            report(run, small, info, "spec", what,
                   {"implementation": got, "spec": want, "model": model.split()[k] if k < len(model.split()) else None},
                   True, "fmt spec %s %s" % (info["key"].split()[0], classify(got, want)))
        else:
            k, got, want = d_model
            what = ("%s: correspondence broken: library %s, model %s (%s); the library agrees with the spec here"
                    % (info["key"], got, want, describe(line, k, info)))
            report(run, minimise(line, k), info, "tie", what, {"implementation": got, "model": want},
                   False, "fmt tie " + info["key"].split()[0])


def classify(got, want):
    """Coarse class of a disagreement, for the known-findings matcher."""
    if got is None or want is None:
        return "missing-output"
    if got.startswith("OPEN"):
        return "open-failed-" + got[4:]
    if got[0] == "G":
        return "geometry"
    g, w = got.split(":"), want.split(":")
    if g[0] != w[0]:
        return "status-%s-instead-of-%s" % (g[0][1:], w[0][1:])
    return "wrong-bytes"


def report(run, line, info, kind, what, extra, found_input, signature):
    replay = {"engine": "fmt", "case": line, "how": "bin/check C01 --replay <this file>"}
    try:
        replay["image_b64"] = base64.b64encode(open(info["image"], "rb").read()).decode()
    except (OSError, KeyError):
        pass
    replay.update(extra)
    run.violation(kind, what, replay, found_input=found_input, signature=signature)
