"""C08 — OS-level translation shortcuts never contradict the page tables (partial).

Theorems: coq/theories/Properties_C08.v (models Sys/LayoutModel.v, Sys/ScanModel.v,
Sys/LinuxX86Model.v over Map/MapModel.v and Xlat/Step.v).
Tie: engine "sysos" (harness/sysos_drv.c):
  lay   white box, sys_set_layout / sys_set_physmaps on random layout tables
  scan  white box, lowest_mapped / highest_mapped / lowest_unmapped / highest_linear on
        generated page-table trees
  os    public API, addrxlat_sys_os_init on synthesised x86-64 Linux images, dump of maps and
        methods, then every sampled address translated through MAP_KV_PHYS and through MAP_HW
each against the extracted model; the implementation's answers are then judged by the
extracted specs (engine "sysos-spec")."""
from .. import core
from . import c08_gen as gen

M64 = (1 << 64) - 1


def judge(impl_line, spec_line):
    if impl_line.startswith("CRASH") or impl_line in ("NOT-RUN", "BADCASE"):
        return "implementation: " + impl_line
    if spec_line not in ("ok", "nospec"):
        return spec_line
    return None


def check(run):
    run.trusted += ["modelled, not verified: allocation (always succeeds here; C10/C18 cover failure), the "
                    "read callback, symbol / register / number callbacks (total functions of the image)",
                    "scan answers are judged against C02's architectural walk at finitely many probe addresses "
                    "(every run boundary +-1 page the generator created)"]
    run.assumptions += ["layout regions lie inside the address space (first <= last)",
                        "synthesised images are canonical: linear direct map, linear kernel text",
                        "the tree has the C02 fixes (fixes/01, fixes/02) applied"]
    run.check_coq()
    if not run.need_ml():
        return
    exe = run.need_cc("sysos_drv", "sysos_drv.c", sources=core.lib_sources(("addrxlat",), exclude=("ia32.c", "arm.c")), sanitize=True,
                      libs=False)
    if exe is None:
        return
    quick = run.tier == "quick"
    if run.replay_path:
        rp = core.json.load(open(run.replay_path))
        case = rp["replay"]["case"]
        probes = rp["replay"].get("probes", "")
        model, impl, spec, crashes = run_lines(run, exe, [case], [probes])
        print("model:          " + model[0])
        print("implementation: " + impl[0])
        print("spec:           " + spec[0])
        compare(run, exe, [case], [probes], ["replay"], model, impl, spec, crashes)
        return
    cases, probes, tags = [], [], []
    corpus = core.os.path.join(core.VERIF, "corpus", "sysos.txt")
    if core.os.path.exists(corpus):
        for l in open(corpus).read().split("\n"):
            if l.strip() and not l.startswith("#"):
                c, _, p = l.partition(" => ")
                cases.append(c.strip())
                probes.append(p.strip())
                tags.append("corpus")
    ncorpus = len(cases)
    counts = gen.plan(quick)
    for kind, n in counts.items():
        for _ in range(n):
            for c, p, t in gen.generate(kind, run.rng):
                cases.append(c)
                probes.append(p)
                tags.append(t)
    run.cov["rule"] = ("lay: 1-4 sys_set_layout / sys_set_physmaps calls with 1-4 regions each (boundaries 0, 2^63, "
                       "2^64-1, overlaps, every action); scan: page-table trees with mapped runs crossing table "
                       "boundaries at 4K/2M/1G granularity, queries from run boundaries +-1 page; os: synthesised "
                       "x86-64 Linux images; distinct = distinct case strings; non-trivial = a map with >= 2 "
                       "ranges / a scan that descended into a table / an image whose init set a direct map")
    run.cov["engines"]["sysos"] = dict(counts, corpus_cases=ncorpus, cases=len(cases))
    shard = 4000
    for s0 in range(0, len(cases), shard):
        sl = slice(s0, s0 + shard)
        model, impl, spec, crashes = run_lines(run, exe, cases[sl], probes[sl])
        if crashes:
            run.count("impl-abnormal-exit", len(crashes))
        compare(run, exe, cases[sl], probes[sl], tags[sl], model, impl, spec, crashes)
        if len(run.violations) > 3:
            break


def run_lines(run, exe, lines, probes):
    cf = run.casefile("sysos-cases.txt", lines)
    model = core.run_model("sysos", cf)
    impl, crashes = core.run_impl_lines(exe, run.work, lines)
    sl = ["%s => %s => %s" % (c, i, p) for c, i, p in zip(lines, impl, probes)]
    spec = core.run_model("sysos-spec", run.casefile("sysos-spec.txt", sl))
    return model, impl, spec, crashes


def compare(run, exe, cases, probes, tags, model, impl, spec, crashes):
    bad = set(i for i in core.diff_lines(model, impl) if not (i < len(model) and model[i] == "nomodel"))
    verdicts = {}
    for i, line in enumerate(cases):
        il = impl[i] if i < len(impl) else "NOT-RUN"
        sl = spec[i] if i < len(spec) else "nospec"
        j = judge(il, sl)
        if j:
            verdicts[i] = j
        run.count("%s -> %s" % (tags[i], gen.outcome_class(line, il)))
        run.note_case(line, gen.nontrivial(line, il))
        if i < 3:
            run.sample({"case": line[:300], "impl": il[:300], "spec": sl})
    first = sorted(set(verdicts) | set(crashes))
    todo = (first + sorted(bad - set(first)))[:400]
    for i in todo:
        if len(run.violations) >= 5:
            break
        line, pr = cases[i], probes[i]
        if i in verdicts and i not in crashes:
            sig0 = "sysos spec %s %s" % (tags[i], verdicts[i])
            if any(k.get("status", "open") == "open" and core.re.search(k["match"], sig0) for k in run.known):
                run.violation("spec", verdicts[i], {"engine": "sysos", "case": line, "probes": pr},
                              found_input=True, signature=sig0)      # listed finding: printed once, no alarm
                run.count("known-finding-cases")
                continue

        def one(l):
            m, im, sp, cr = run_lines(run, exe, [l], [pr])
            return m[0], im[0], sp[0], cr

        def fails(l):
            m, im, sp, cr = one(l)
            return bool(cr) or (m != im and m != "nomodel") or judge(im, sp) is not None

        def contradicts(l):
            m, im, sp, cr = one(l)
            return bool(cr) or judge(im, sp) is not None
        if not fails(line):
            run.count("unreproducible-disagreement")
            continue
        small = gen.shrink(line, contradicts if contradicts(line) else fails)
        m, im, sp, cr = one(small)
        j = judge(im, sp)
        kind = small.split()[0]
        replay = {"engine": "sysos", "case": small, "probes": pr, "model": m, "implementation": im,
                  "spec_verdict": sp, "impl_stderr_tail": (cr[0][1][-1500:] if cr else ""),
                  "how": "bin/check C08 --replay <this file> re-runs the case through harness/sysos_drv.c"}
        if cr:
            err = cr[0][1]
            where = core.re.search(r"(\w+\.c:\d+)[:\d]*: runtime error: ([^\n]*)", err)
            run.violation("impl", "libaddrxlat aborts (sanitizer/crash) on: %s" % small[:400], replay,
                          found_input=True,
                          signature="sysos crash %s %s" % (kind, (where.group(1) + " " + where.group(2)) if where else err[-200:]))
        elif j:
            run.violation("spec", "libaddrxlat contradicts the specification (%s): %s; case: %s"
                          % (kind, j, small[:400]), replay, found_input=True,
                          signature="sysos spec %s %s" % (tags[i], j))
        else:
            run.violation("tie", "correspondence sysos/%s (model vs libaddrxlat) broken on case: %s"
                          % (kind, small[:400]), replay, found_input=False, signature="sysos tie " + kind)
