"""Case generators of the C08 check (engine "sysos"): layout tables, page-table trees for the
scanning primitives, synthesised x86-64 Linux images."""
from .. import core
from . import c08_img

M64 = (1 << 64) - 1


def plan(quick):
    if quick:
        return {"lay": 1500, "scan": 260, "os": 60, "osx": 160, "archlay": 300}
    return {"lay": 40000, "scan": 6000, "os": 2500, "osx": 6000, "archlay": 8000}


def generate(kind, rng):
    if kind == "lay":
        return gen_lay(rng)
    if kind == "scan":
        return gen_scan(rng)
    if kind == "os":
        return gen_os(rng)
    if kind == "osx":
        return c08_img.gen_other_arch(rng)
    if kind == "archlay":
        return gen_archlay(rng)
    raise ValueError(kind)


# ---------------------------------------------------------------------------
# lay
# ---------------------------------------------------------------------------

POOL = [0, 1, 0xfff, 0x1000, 0x7fffffffffff, 0x800000000000, 0xffff7fffffffffff, 0xffff800000000000,
        0xffff880000000000, 0xffffc7ffffffffff, 0xffffffff80000000, 0xffffffff9fffffff,
        0x7fffffffffffffff, 0x8000000000000001, M64 - 0xfff, M64 - 1, M64, 0xfffffffffffff]


def gen_lay(rng):
    calls = []
    for _ in range(rng.randint(1, 4)):
        if rng.random() < 0.12:
            calls.append("P%x" % rng.choice([0xfffffffffffff, 0xffffffff, M64, 0, rng.getrandbits(52)]))
            continue
        idx = rng.choice([0, 1, 1, 1, 2, 3, 4])
        regs = []
        for _ in range(rng.randint(1, 4)):
            a = rng.choice(POOL)
            b = rng.choice(POOL)
            if rng.random() < 0.3:
                b = a + rng.choice([0, 1, 0xfff, 0x1fffff, rng.getrandbits(rng.randint(1, 46))])
            a, b = min(a, b), min(max(a, b), M64)
            k = rng.random()
            if k < 0.25:
                act, meth = 1, 2                               # SYS_ACT_DIRECT on METH_DIRECT
                if a == 1 << 63:
                    a += 0x1000
                    b = max(a, b)
            elif k < 0.30:
                act, meth = 1, rng.choice([0, 3, 8])             # direct action on another method
                if a == 1 << 63:
                    a += 0x1000
                    b = max(a, b)
            elif k < 0.38:
                act, meth = 2, rng.choice([5, 5, 9])
            elif k < 0.46:
                act, meth = rng.choice([3, 4]), rng.choice([6, 7, 8])
            else:
                act, meth = 0, rng.choice([0, 0, 1, 3, 4, 8, 15])
            regs.append("%x-%x-%x-%x" % (a, b, meth, act))
        calls.append("S%x:%s" % (idx, ",".join(regs)))
    return [("lay " + " ".join(calls), "", "lay")]


def gen_archlay(rng):
    if rng.random() < 0.5:
        vs = rng.choice(["-", "c0000000", "1000", "c0000001", "c0001000", "c8800000", "f8800000", "ffffffff",
                         "%x" % (0xc0000000 + (rng.randint(1, 0x3ffff) << 12)),
                         "%x" % (0xc0000000 + rng.randint(1, 0x3fffffff))])
        return [("ia32dm " + vs, "", "archlay/ia32dm")]
    first = rng.choice([0xc0000000, 0xffff000000000000, 0xffffffd800000000, 0x80000000, 0, rng.getrandbits(64) & ~0xfff])
    last = min(M64, first + rng.choice([0xfff, 0x2fffffff, 0xffffffff, rng.getrandbits(rng.randint(12, 46))]))
    base = rng.choice([0, 0x80000000, 0x40000000, rng.getrandbits(40) & ~0xfff])
    if base + (last - first) > M64:
        base = 0
    off = base - first
    if off <= -(1 << 63):
        off = 0
    return [("lindm %x %x %s" % (first, last, hexs(off)), "", "archlay/lindm")]


def hexs(v):
    return ("-%x" % -v) if v < 0 else ("%x" % v)


# ---------------------------------------------------------------------------
# page-table trees
# ---------------------------------------------------------------------------

class PT:
    """A page-table tree under construction (tables in address space `tas`)."""
    HUGE = {"x86_64": (2, 3), "riscv64": (2, 3, 4, 5), "aarch64": (2, 3)}

    def __init__(self, fmt, fields, rng, tas=1, base=None, tgt=0):
        self.fmt, self.fields, self.tas, self.tgt = fmt, fields, tas, tgt
        self.free = base if base is not None else (rng.getrandbits(rng.choice([24, 30, 36])) & ~0xfff) + 0x100000
        self.tables = {}            # addr -> (level, {idx: entry})
        self.top = len(fields) - 1
        self.root = self.alloc(self.top)
        self.leaves = []            # (va, size_bits, pa)

    def alloc(self, level):
        size = 8 << self.fields[level]
        al = max(size, 0x1000)
        a = (self.free + al - 1) & ~(al - 1)
        self.free = a + max(size, 0x1000)
        self.tables[a] = (level, {})
        return a

    def lo(self, level):
        return sum(self.fields[:level])

    def enc_table(self, addr):
        if self.fmt == "x86_64":
            return addr | 0x067
        if self.fmt == "riscv64":
            return ((addr >> 12) << 10) | 1
        return addr | 3

    def enc_leaf(self, pa, level):
        if self.fmt == "x86_64":
            return pa | (0x063 if level == 1 else 0x1e3)
        if self.fmt == "riscv64":
            return ((pa >> 12) << 10) | 0xcf
        return pa | (3 if level == 1 else 1) | 0x700

    def dec_table(self, e):
        if self.fmt == "x86_64":
            return e & ((1 << 52) - 1) & ~0xfff
        if self.fmt == "riscv64":
            return (e >> 10) << 12
        return e & ((1 << 48) - 1) & ~0xfff

    def is_leaf(self, e, level):
        if level == 1:
            return True
        if self.fmt == "x86_64":
            return bool(e & 0x80)
        if self.fmt == "riscv64":
            return bool(e & 0xe)
        return not e & 2

    def idx(self, va, level):
        return (va >> self.lo(level)) & ((1 << self.fields[level]) - 1)

    def map(self, va, level, pa):
        """Map the 2^lo(level)-byte unit at va to pa; False if something is in the way."""
        t = self.root
        for l in range(self.top, level, -1):
            ents = self.tables[t][1]
            i = self.idx(va, l)
            if i in ents:
                if self.is_leaf(ents[i], l):
                    return False
                t = self.dec_table(ents[i])
            else:
                nt = self.alloc(l - 1)
                ents[i] = self.enc_table(nt)
                t = nt
        ents = self.tables[t][1]
        i = self.idx(va, level)
        if i in ents:
            return False
        ents[i] = self.enc_leaf(pa, level)
        self.leaves.append((va, self.lo(level), pa))
        return True

    def cells(self):
        out = []
        for a, (level, ents) in self.tables.items():
            sp = self.tas if a == self.root else self.tgt      # lower tables are read in the target space
            out.append("%d:%x~%x" % (sp, a, 8 << self.fields[level]))
            for i, e in ents.items():
                out.append("%d:%x=%x" % (sp, a + 8 * i, e))
        return out


SCAN_FORMS = [("x86_64", [12, 9, 9, 9, 9], 0xffff880000000000, 0xffffc7ffffffffff),
              ("x86_64", [12, 9, 9, 9, 9], 0xffffffff80000000, 0xffffffffbfffffff),
              ("x86_64", [12, 9, 9, 9, 9, 9], 0xff11000000000000, 0xff90ffffffffffff),
              ("riscv64", [12, 9, 9, 9], 0xffffffd800000000, 0xffffffffffffffff),
              ("riscv64", [12, 9, 9, 9, 9], 0xffffaf8000000000, 0xffffffffffffffff),
              ("aarch64", [12, 9, 9, 9, 9], 0xffff000000000000, 0xffff7fffffffffff)]


def build_runs(rng, pt, base, winend, off0):
    """Create 1-4 mapped runs inside [base, winend]; returns [(start, end_inclusive, off)]."""
    runs = []
    nlev = len(pt.fields) - 1
    for _ in range(rng.randint(0, 4)):
        g = rng.choice([1, 1, 1, 2, 2, 3]) if nlev >= 3 else rng.choice([1, 1, 2])
        if g not in PT.HUGE[pt.fmt] and g != 1:
            g = 1
        unit = 1 << pt.lo(g)
        above = 1 << pt.lo(min(g + 1, nlev + 1))                  # span of one table of units
        k = rng.choice([0, 0, 1, 1, 2, rng.randint(0, 40)])
        start = base + k * above + rng.choice([0, 0, -1, -2, 1, 3, rng.randint(0, 511)]) * unit
        start = max(base, start) & ~(unit - 1)
        n = rng.choice([1, 1, 2, 3, 5, rng.randint(1, 12)])
        off = off0 if rng.random() < 0.75 else (off0 + rng.choice([unit, 0x1000 * rng.randint(1, 1 << 20)])) & M64
        s = None
        for j in range(n):
            va = start + j * unit
            if va + unit - 1 > winend:
                break
            pa = (va + off) & M64 & ((1 << 46) - 1) & ~(unit - 1)
            real_off = (pa - va) & M64
            if pt.map(va, g, pa):
                if s is None:
                    s = [va, va + unit - 1, real_off]
                elif s[2] == real_off:
                    s[1] = va + unit - 1
                else:
                    runs.append(tuple(s))
                    s = [va, va + unit - 1, real_off]
            elif s is not None:
                runs.append(tuple(s))
                s = None
        if s is not None:
            runs.append(tuple(s))
    return runs


def gen_scan(rng):
    fmt, fields, base, winend = rng.choice(SCAN_FORMS)
    pt = PT(fmt, fields, rng, tas=rng.choice([0, 1]), tgt=0)
    off0 = (-base) & M64
    if rng.random() < 0.3:
        off0 = (off0 + (rng.getrandbits(30) << 12)) & M64
    runs = build_runs(rng, pt, base, winend, off0)
    # make adjacent runs share an offset (highest_linear only tests the head of a mapped run)
    pts = set([base, winend])
    for s, e, o in runs:
        for v in (s, e, s - 0x1000, e + 1, s - 1, e + 0x1000, s + 0x1000):
            if 0 <= v <= M64:
                pts.add(v)
    for va, bits_, pa in pt.leaves:
        pts.add(va)
        pts.add(va + (1 << bits_) - 1)
    tgt = 0
    head = "%s %s %d %x 0 %d 1" % (fmt, ",".join("%x" % f for f in fields), pt.tas, pt.root, tgt)
    cells = " ".join(pt.cells())
    out = []
    cand = sorted(pts)
    probes = " ".join("%x" % p for p in cand)
    for _ in range(rng.randint(2, 5)):
        fn = rng.choice(["lm", "lm", "lu", "hm", "hl", "hl"])
        a = rng.choice(cand)
        if rng.random() < 0.3:
            a = max(0, min(M64, a + rng.choice([0x1000, -0x1000, 0x123, 0x200000])))
        lim = rng.choice([winend, winend, rng.choice(cand), min(M64, a + (1 << rng.randint(12, 40)))])
        if fn == "hm":
            lim = rng.choice([base, base, rng.choice(cand), max(0, a - (1 << rng.randint(12, 40)))])
            if lim > a:
                a, lim = lim, a
        elif lim < a:
            a, lim = lim, a
        # the scan works inside the span of the root table (addresses that agree above the paged bits)
        tot = sum(fields)
        lo_span = base >> tot << tot if tot < 64 else 0
        hi_span = min(M64, lo_span + (1 << tot) - 1)
        if fmt in ("x86_64", "riscv64"):
            lo_span = M64 - (1 << (tot - 1)) + 1       # ... and inside the canonical upper half
        a = max(lo_span, min(hi_span, a))
        lim = max(lo_span, min(hi_span, lim))
        off = off0
        if runs and rng.random() < 0.5:
            off = rng.choice(runs)[2]
        extra = " ".join("%x" % p for p in (a, lim, a & ~0xfff, min(M64, lim + 1)))
        out.append(("scan %s %s %x %x %x %s" % (fn, head, a, lim, off, cells), probes + " " + extra,
                    "scan/%s/%s/%d" % (fn, fmt, len(fields))))
    return out


# ---------------------------------------------------------------------------
# os: synthesised x86-64 Linux images (canonical: linear direct map, linear kernel text)
# ---------------------------------------------------------------------------

KTEXT_START = 0xffffffff80000000


def ver(a, b, c):
    return (a << 16) + (b << 8) + c


def map_linear(pt, va0, pa0, size, rng, granules):
    """Map [va0, va0+size) -> [pa0, ...) with the largest granule of `granules` that fits at each
    step (levels 1/2/3 = 4K/2M/1G); returns False when something was in the way."""
    done = 0
    ok = True
    while done < size:
        va, pa = va0 + done, pa0 + done
        for g in sorted(granules, reverse=True):
            unit = 1 << pt.lo(g)
            if va % unit == 0 and pa % unit == 0 and size - done >= unit:
                break
        else:
            g, unit = 1, 0x1000
        ok = pt.map(va, g, pa) and ok
        done += unit
    return ok


def gen_os(rng):
    five = rng.random() < 0.3
    fields = [12, 9, 9, 9, 9, 9] if five else [12, 9, 9, 9, 9]
    # --- kernel version and where the direct map starts
    vclass = rng.choice(["2.6.11", "2.6.27", "2.6.31", "3.x", "kaslr", "kaslr"]) if not five else "kaslr5"
    if vclass == "2.6.11":
        version, D, dend = ver(2, 6, rng.choice([11, 20, 26])), 0xffff810000000000, 0xffffc0ffffffffff
    elif vclass == "2.6.27":
        version, D, dend = ver(2, 6, rng.choice([27, 30])), 0xffff880000000000, 0xffffc0ffffffffff
    elif vclass == "2.6.31":
        version, D, dend = ver(2, 6, rng.choice([31, 39])), 0xffff880000000000, 0xffffc7ffffffffff
    elif vclass == "3.x":
        version, D, dend = rng.choice([ver(3, 0, 0), ver(3, 16, 7), ver(4, 4, 0), ver(4, 7, 9)]), 0xffff880000000000, 0xffffc7ffffffffff
    elif vclass == "kaslr":
        version = rng.choice([ver(4, 8, 0), ver(4, 12, 14), ver(4, 14, 0), ver(5, 3, 18), ver(6, 4, 0)])
        D = 0xffff880000000000 + (rng.randint(0, 0x3000) << 30)           # 1G granularity
        dend = 0xffffc7ffffffffff
    else:
        version = rng.choice([ver(4, 14, 0), ver(5, 10, 0), ver(6, 1, 0)])
        D = 0xff11000000000000 + (rng.randint(0, 0x100000) << 30)
        dend = 0xff90ffffffffffff
    # --- physical memory and the kernel image
    gran = rng.choice([[3, 2, 1], [3, 2], [2, 1], [2], [3, 2, 1]])
    memsz = rng.choice([0x4000000, 0x8000000, 0x40000000, 0x80000000, 0x140000000, 0x240000000,
                        rng.randint(0x40, 0x4000) << 21])
    phys_base = rng.choice([0, 0, 0x1000000, 0x200000 * rng.randint(0, 16), 0x2000000])
    kaslr_v = 0 if vclass in ("2.6.11", "2.6.27", "2.6.31", "3.x") or rng.random() < 0.3 else rng.randint(0, 200) << 21
    textsz = rng.choice([8, 12, 20, 28]) << 20
    stext = KTEXT_START + 0x1000000 + kaslr_v                       # _text = _stext here
    if stext + textsz > 0xffffffffbfffffff:
        stext = KTEXT_START + 0x1000000
    text_pa = phys_base + (stext - KTEXT_START)
    memsz = max(memsz, (text_pa + textsz + 0x400000 + 0x1fffff) & ~0x1fffff)
    memsz = min(memsz, dend - D + 1)
    if 3 not in gran:
        memsz = min(memsz, max(0x80000000, (text_pa + textsz + 0x400000 + 0x1fffff) & ~0x1fffff))   # bound the number of 2M entries
    # --- tables: the root lives inside the kernel image, the others right behind it
    root_pa = text_pa + textsz - 0x200000 + 0x10000
    pt = PT("x86_64", fields, rng, tas=1, base=root_pa, tgt=1)
    pt.free = text_pa + textsz                                      # further tables: after the image, inside RAM
    root_va = root_pa - phys_base + KTEXT_START
    # kernel text: 2M pages (sometimes with a 4K tail)
    map_linear(pt, stext, text_pa, textsz, rng, [2] if rng.random() < 0.8 else [2, 1])
    # direct map, possibly with a hole
    hole = None
    if memsz > 0x10000000 and rng.random() < 0.35:
        h0 = rng.randint(1, memsz // 0x200000 - 2) * 0x200000
        h1 = min(memsz, h0 + rng.choice([0x200000, 0x1000000, 0x40000000]))
        if not (h0 < text_pa + textsz + 0x800000 and h1 > text_pa - 0x200000):
            hole = (h0, h1)
    small = 1 in gran
    # the lowest physical frames are not mapped (reserved by firmware / the hypervisor): the first
    # mapped page of the direct map is not frame 0, the mapping is still virt = D + phys.  The
    # library must not take the first mapped address for the start of a "-first" direct region.
    lowskip = 0
    if rng.random() < 0.25:
        kind = rng.choice(["4k", "2m", "2m", "1g"])
        if kind == "4k":
            lowskip = rng.randint(1, 255) << 12
        elif kind == "2m":
            lowskip = rng.randint(1, 64) << 21
        else:
            lowskip = rng.randint(1, 2) << 30
        if lowskip > memsz // 4 or (hole and lowskip + 0x400000 > hole[0]):
            lowskip = rng.randint(1, 255) << 12 if (not hole or hole[0] > 0x400000) else 0
    if lowskip & 0x1fffff:
        nxt = (lowskip + 0x1fffff) & ~0x1fffff
        map_linear(pt, D + lowskip, lowskip, nxt - lowskip, rng, [1])
        lo = nxt
    elif small:
        # a 4K-mapped first 2M (as real kernels have around the low 1M)
        map_linear(pt, D + lowskip, lowskip, 0x200000, rng, [1])
        lo = lowskip + 0x200000
    else:
        lo = lowskip
    if hole:
        map_linear(pt, D + lo, lo, hole[0] - lo, rng, [g for g in gran if g > 1] or [2])
        map_linear(pt, D + hole[1], hole[1], memsz - hole[1], rng, [g for g in gran if g > 1] or [2])
    else:
        map_linear(pt, D + lo, lo, memsz - lo, rng, [g for g in gran if g > 1] or [2])
    # other, non-linear mappings: vmemmap / vmalloc / modules / fixmap
    extras = []
    if not five and rng.random() < 0.6:
        v = 0xffffea0000000000 + (rng.randint(0, 64) << 21)
        if pt.map(v, 2, 0x40000000 + (rng.randint(0, 100) << 21) if memsz > 0x50000000 else 0x600000):
            extras.append(v)
    if rng.random() < 0.5:
        v = 0xffffffffa0000000 + (rng.randint(0, 16) << 12)
        if pt.map(v, 1, (rng.randint(0x100, memsz // 0x1000 - 1) << 12)):
            extras.append(v)
    if not five and rng.random() < 0.4:
        v = 0xffffc90000000000 + (rng.randint(0, 1000) << 12)
        if pt.map(v, 1, (rng.randint(0x100, memsz // 0x1000 - 1) << 12)):
            extras.append(v)
    # --- what the library is told
    toks = ["os=l"]
    have_ver = rng.random() < 0.6
    toks.append("ver=%x" % version if have_ver else "ver=-")
    have_pb = rng.random() < 0.5
    toks.append("pb=%x" % phys_base if have_pb else "pb=-")
    rootmode = rng.choice(["sym", "sym", "sym4", "cr3", "opt-kv", "opt-phys", "none"] if rng.random() < 0.9 else ["none"])
    root_tok = "root=-"
    names = []
    if rootmode == "sym":
        names.append("S:init_top_pgt=%x" % root_va if version >= ver(4, 13, 0) or rng.random() < 0.3
                     else "S:init_level4_pgt=%x" % root_va)
    elif rootmode == "sym4":
        names.append("S:init_level4_pgt=%x" % root_va)
    elif rootmode == "cr3":
        names.append("R:cr3=%x" % (root_pa | rng.choice([0, 0, 0x18, 0xfff])))
    elif rootmode == "opt-kv":
        root_tok = "root=2:%x" % root_va
    elif rootmode == "opt-phys":
        root_tok = "root=%d:%x" % (rng.choice([0, 1]), root_pa)
    toks.append(root_tok)
    # paging depth
    vbmode = rng.choice(["cr4", "l5", "opt", "stext", "ver", "none"])
    toks.append("vb=%x" % (57 if five else 48) if vbmode == "opt" else "vb=-")
    if vbmode == "cr4":
        names.append("R:cr4=%x" % ((0x1000 if five else 0) | 0x6f0))
    if vbmode == "l5" or (five and vbmode in ("stext", "ver", "none")):
        names.append("N:pgtable_l5_enabled=%x" % (1 if five else 0))
    sym_stext = rng.random() < 0.6 or vbmode == "stext"
    if five and vbmode not in ("cr4", "l5", "opt"):
        sym_stext = sym_stext                                       # l5 number was added above
    if sym_stext and not (five and vbmode not in ("cr4", "opt") and False):
        names.append("S:_stext=%x" % stext)
    elif rng.random() < 0.4:
        names.append("S:_text=%x" % stext)
    toks.append("xx=-" if rng.random() < 0.8 else "xx=0")
    # the same addrxlat_sys_t was used before (Xen PV kernel -> this kernel -> Xen PV -> ...): sys_cleanup
    # keeps sys->meth[], so the result must not depend on what the earlier initialisations left there
    if rng.random() < 0.35:
        toks.append("hist=%d" % rng.choice([1, 1, 2, 3]))
    if rng.random() < 0.15:
        names.append("N:sme_mask=%x" % (1 << rng.choice([47, 51, 63])))
    caps = rng.choice([2, 2, 2, 1, 3, 4, 4, 6])
    pob_va = stext + 0x800000 - 0x1000 + 8 * rng.randint(0, 100)
    if caps & 4 and rng.random() < 0.7:
        names.append("S:page_offset_base=%x" % pob_va)
    toks += names
    toks += ["caps=%x" % caps, "bo=%d" % rng.choice([1, 1, 2]), "rp=%x" % root_pa,
             "nf=%d" % len(fields), "dm=%x" % D]
    # --- memory
    cells = pt.cells()                                              # physical (as 1)
    out_cells = []
    for c in cells:
        a_s, rest = c.split(":", 1)
        for sep in "=~":
            if sep in rest:
                addr, val = rest.split(sep)
                addr = int(addr, 16)
                if caps & 2:
                    out_cells.append("1:%x%s%s" % (addr, sep, val))
                if caps & 1:
                    out_cells.append("0:%x%s%s" % (addr, sep, val))
                if caps & 4:
                    # kernel-virtual aliases: through the direct map and, for the image, the text mapping
                    if lowskip <= addr < memsz and not (hole and hole[0] <= addr < hole[1]):
                        out_cells.append("2:%x%s%s" % (D + addr, sep, val))
                    if text_pa <= addr < text_pa + textsz:
                        out_cells.append("2:%x%s%s" % (addr - phys_base + KTEXT_START, sep, val))
    if caps & 4:
        out_cells.append("2:%x=%x" % (pob_va, D))
    # --- queries
    qs = set()
    edges = [D, D + memsz - 1, D + memsz, D - 0x1000, D + 0x1000, D + 0x200000 - 1, D + 0x200000,
             stext, stext - 1, stext + textsz - 1, stext + textsz, stext + 0x1234, root_va, root_va + 0xfff,
             KTEXT_START, 0xffffffff9fffffff, 0xffffffffa0000000, D + text_pa, D + root_pa]
    if hole:
        edges += [D + hole[0] - 1, D + hole[0], D + hole[1] - 1, D + hole[1]]
    if lowskip:
        edges += [D + lowskip - 1, D + lowskip, D + lowskip + 0x1000, D + lowskip + 0x234567, D + lo - 1, D + lo,
                  D + lowskip + 0x200000, D + lowskip + 0x40000000]
    edges += extras
    for e in edges:
        qs.add(e & M64)
    for _ in range(6):
        qs.add((D + rng.randint(0, memsz - 1)) & M64)
        qs.add(stext + rng.randint(0, textsz - 1))
    ps = set([0, lowskip, max(lowskip, 1) - 1, lowskip + 0x1000, memsz - 1, memsz, phys_base, text_pa, text_pa + textsz - 1, root_pa, 0xfffffffffffff, 1 << 52])
    for _ in range(4):
        ps.add(rng.randint(0, memsz - 1))
    if hole:
        ps |= {hole[0], hole[1] - 1, hole[1]}
    qt = ["Q:%x" % q for q in sorted(qs)] + ["P:%x" % p for p in sorted(ps)]
    tag = "os/%s/%s%s/root=%s/vb=%s/caps=%x" % ("5l" if five else "4l", vclass,
                                                 "" if not lowskip else "/lowskip-%s" % ("4k" if lowskip & 0x1fffff else "2m" if lowskip & 0x3fffffff else "1g"),
                                                 rootmode, vbmode, caps)
    return [("os " + " ".join(toks + qt + out_cells), "", tag)]


def outcome_class(case, impl):
    k = case.split()[0]
    if impl.startswith("CRASH"):
        return "crash"
    if k == "lay":
        return "statuses " + impl.split()[0] if impl else "?"
    if k == "scan":
        return "status " + impl.split()[0] if impl else "?"
    if k == "os" and impl and "arch=x86_64" not in case and " arch=" in case:
        return "status %s %s" % (impl.split()[0], "direct" if " m2=L:" in impl else "nodirect")
    if k == "os" and impl:
        d = "direct" if " m2=L:" in impl else "nodirect"
        t = "ktext-linear" if " m3=L:" in impl else "ktext-other"
        return "status %s %s %s" % (impl.split()[0], d, t)
    return impl.split()[0] if impl else "?"


def nontrivial(case, impl):
    k = case.split()[0]
    if k == "lay":
        return "," in impl
    if k == "scan":
        return impl.startswith("0 ")
    if k == "os":
        return " m2=L:" in impl
    return True


def shrink(line, fails):
    f = line.split()
    if f[0] == "lay":
        calls = f[1:]
        if len(calls) >= 2:
            calls = core.shrink_list(calls, lambda c: fails("lay " + " ".join(c)), max_tests=40)
        # then the regions of each call
        for i, c in enumerate(calls):
            if c[0] == "S" and "," in c:
                h, rs = c.split(":")
                regs = core.shrink_list(rs.split(","),
                                        lambda r: fails("lay " + " ".join(calls[:i] + [h + ":" + ",".join(r)] + calls[i + 1:])),
                                        max_tests=30)
                calls[i] = h + ":" + ",".join(regs)
        return "lay " + " ".join(calls)
    return line
