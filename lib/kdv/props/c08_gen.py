"""Case generators of the C08 check (engine "sysos"): layout tables, page-table trees for the
scanning primitives, synthesised x86-64 Linux images."""
from .. import core

M64 = (1 << 64) - 1


def plan(quick):
    if quick:
        return {"lay": 1500, "scan": 260, "os": 0}
    return {"lay": 40000, "scan": 6000, "os": 0}


def generate(kind, rng):
    if kind == "lay":
        return gen_lay(rng)
    if kind == "scan":
        return gen_scan(rng)
    if kind == "os":
        return gen_os(rng)
    raise ValueError(kind)


# ---------------------------------------------------------------------------
# lay
# ---------------------------------------------------------------------------

POOL = [0, 1, 0xfff, 0x1000, 0x7fffffffffff, 0x800000000000, 0xffff7fffffffffff, 0xffff800000000000,
        0xffff880000000000, 0xffffc7ffffffffff, 0xffffffff80000000, 0xffffffff9fffffff,
        0x7fffffffffffffff, 0x8000000000000001, M64 - 0xfff, M64 - 1, M64, 0xfffffffffffff]


def gen_lay(rng):
    calls = []
    for _ in range(rng.randint(1, 4)):
        if rng.random() < 0.12:
            calls.append("P%x" % rng.choice([0xfffffffffffff, 0xffffffff, M64, 0, rng.getrandbits(52)]))
            continue
        idx = rng.choice([0, 1, 1, 1, 2, 3, 4])
        regs = []
        for _ in range(rng.randint(1, 4)):
            a = rng.choice(POOL)
            b = rng.choice(POOL)
            if rng.random() < 0.3:
                b = a + rng.choice([0, 1, 0xfff, 0x1fffff, rng.getrandbits(rng.randint(1, 46))])
            a, b = min(a, b), min(max(a, b), M64)
            k = rng.random()
            if k < 0.25:
                act, meth = 1, 2                               # SYS_ACT_DIRECT on METH_DIRECT
                if a == 1 << 63:
                    a += 0x1000
                    b = max(a, b)
            elif k < 0.30:
                act, meth = 1, rng.choice([0, 3, 8])             # direct action on another method
                if a == 1 << 63:
                    a += 0x1000
                    b = max(a, b)
            elif k < 0.38:
                act, meth = 2, rng.choice([5, 5, 9])
            elif k < 0.46:
                act, meth = rng.choice([3, 4]), rng.choice([6, 7, 8])
            else:
                act, meth = 0, rng.choice([0, 0, 1, 3, 4, 8, 15])
            regs.append("%x-%x-%x-%x" % (a, b, meth, act))
        calls.append("S%x:%s" % (idx, ",".join(regs)))
    return [("lay " + " ".join(calls), "", "lay")]


# ---------------------------------------------------------------------------
# page-table trees
# ---------------------------------------------------------------------------

class PT:
    """A page-table tree under construction (tables in address space `tas`)."""
    HUGE = {"x86_64": (2, 3), "riscv64": (2, 3, 4, 5), "aarch64": (2, 3)}

    def __init__(self, fmt, fields, rng, tas=1, base=None, tgt=0):
        self.fmt, self.fields, self.tas, self.tgt = fmt, fields, tas, tgt
        self.free = base if base is not None else (rng.getrandbits(rng.choice([24, 30, 36])) & ~0xfff) + 0x100000
        self.tables = {}            # addr -> (level, {idx: entry})
        self.top = len(fields) - 1
        self.root = self.alloc(self.top)
        self.leaves = []            # (va, size_bits, pa)

    def alloc(self, level):
        size = 8 << self.fields[level]
        al = max(size, 0x1000)
        a = (self.free + al - 1) & ~(al - 1)
        self.free = a + max(size, 0x1000)
        self.tables[a] = (level, {})
        return a

    def lo(self, level):
        return sum(self.fields[:level])

    def enc_table(self, addr):
        if self.fmt == "x86_64":
            return addr | 0x067
        if self.fmt == "riscv64":
            return ((addr >> 12) << 10) | 1
        return addr | 3

    def enc_leaf(self, pa, level):
        if self.fmt == "x86_64":
            return pa | (0x063 if level == 1 else 0x1e3)
        if self.fmt == "riscv64":
            return ((pa >> 12) << 10) | 0xcf
        return pa | (3 if level == 1 else 1) | 0x700

    def dec_table(self, e):
        if self.fmt == "x86_64":
            return e & ((1 << 52) - 1) & ~0xfff
        if self.fmt == "riscv64":
            return (e >> 10) << 12
        return e & ((1 << 48) - 1) & ~0xfff

    def is_leaf(self, e, level):
        if level == 1:
            return True
        if self.fmt == "x86_64":
            return bool(e & 0x80)
        if self.fmt == "riscv64":
            return bool(e & 0xe)
        return not e & 2

    def idx(self, va, level):
        return (va >> self.lo(level)) & ((1 << self.fields[level]) - 1)

    def map(self, va, level, pa):
        """Map the 2^lo(level)-byte unit at va to pa; False if something is in the way."""
        t = self.root
        for l in range(self.top, level, -1):
            ents = self.tables[t][1]
            i = self.idx(va, l)
            if i in ents:
                if self.is_leaf(ents[i], l):
                    return False
                t = self.dec_table(ents[i])
            else:
                nt = self.alloc(l - 1)
                ents[i] = self.enc_table(nt)
                t = nt
        ents = self.tables[t][1]
        i = self.idx(va, level)
        if i in ents:
            return False
        ents[i] = self.enc_leaf(pa, level)
        self.leaves.append((va, self.lo(level), pa))
        return True

    def cells(self):
        out = []
        for a, (level, ents) in self.tables.items():
            sp = self.tas if a == self.root else self.tgt      # lower tables are read in the target space
            out.append("%d:%x~%x" % (sp, a, 8 << self.fields[level]))
            for i, e in ents.items():
                out.append("%d:%x=%x" % (sp, a + 8 * i, e))
        return out


SCAN_FORMS = [("x86_64", [12, 9, 9, 9, 9], 0xffff880000000000, 0xffffc7ffffffffff),
              ("x86_64", [12, 9, 9, 9, 9], 0xffffffff80000000, 0xffffffffbfffffff),
              ("x86_64", [12, 9, 9, 9, 9, 9], 0xff11000000000000, 0xff90ffffffffffff),
              ("riscv64", [12, 9, 9, 9], 0xffffffd800000000, 0xffffffffffffffff),
              ("riscv64", [12, 9, 9, 9, 9], 0xffffaf8000000000, 0xffffffffffffffff),
              ("aarch64", [12, 9, 9, 9, 9], 0xffff000000000000, 0xffff7fffffffffff)]


def build_runs(rng, pt, base, winend, off0):
    """Create 1-4 mapped runs inside [base, winend]; returns [(start, end_inclusive, off)]."""
    runs = []
    nlev = len(pt.fields) - 1
    for _ in range(rng.randint(0, 4)):
        g = rng.choice([1, 1, 1, 2, 2, 3]) if nlev >= 3 else rng.choice([1, 1, 2])
        if g not in PT.HUGE[pt.fmt] and g != 1:
            g = 1
        unit = 1 << pt.lo(g)
        above = 1 << pt.lo(min(g + 1, nlev + 1))                  # span of one table of units
        k = rng.choice([0, 0, 1, 1, 2, rng.randint(0, 40)])
        start = base + k * above + rng.choice([0, 0, -1, -2, 1, 3, rng.randint(0, 511)]) * unit
        start = max(base, start) & ~(unit - 1)
        n = rng.choice([1, 1, 2, 3, 5, rng.randint(1, 12)])
        off = off0 if rng.random() < 0.75 else (off0 + rng.choice([unit, 0x1000 * rng.randint(1, 1 << 20)])) & M64
        s = None
        for j in range(n):
            va = start + j * unit
            if va + unit - 1 > winend:
                break
            pa = (va + off) & M64 & ((1 << 46) - 1) & ~(unit - 1)
            real_off = (pa - va) & M64
            if pt.map(va, g, pa):
                if s is None:
                    s = [va, va + unit - 1, real_off]
                elif s[2] == real_off:
                    s[1] = va + unit - 1
                else:
                    runs.append(tuple(s))
                    s = [va, va + unit - 1, real_off]
            elif s is not None:
                runs.append(tuple(s))
                s = None
        if s is not None:
            runs.append(tuple(s))
    return runs


def gen_scan(rng):
    fmt, fields, base, winend = rng.choice(SCAN_FORMS)
    pt = PT(fmt, fields, rng, tas=rng.choice([0, 1]), tgt=0)
    off0 = (-base) & M64
    if rng.random() < 0.3:
        off0 = (off0 + (rng.getrandbits(30) << 12)) & M64
    runs = build_runs(rng, pt, base, winend, off0)
    # make adjacent runs share an offset (highest_linear only tests the head of a mapped run)
    pts = set([base, winend])
    for s, e, o in runs:
        for v in (s, e, s - 0x1000, e + 1, s - 1, e + 0x1000, s + 0x1000):
            if 0 <= v <= M64:
                pts.add(v)
    for va, bits_, pa in pt.leaves:
        pts.add(va)
        pts.add(va + (1 << bits_) - 1)
    tgt = 0
    head = "%s %s %d %x 0 %d 1" % (fmt, ",".join("%x" % f for f in fields), pt.tas, pt.root, tgt)
    cells = " ".join(pt.cells())
    out = []
    cand = sorted(pts)
    probes = " ".join("%x" % p for p in cand)
    for _ in range(rng.randint(2, 5)):
        fn = rng.choice(["lm", "lm", "lu", "hm", "hl", "hl"])
        a = rng.choice(cand)
        if rng.random() < 0.3:
            a = max(0, min(M64, a + rng.choice([0x1000, -0x1000, 0x123, 0x200000])))
        lim = rng.choice([winend, winend, rng.choice(cand), min(M64, a + (1 << rng.randint(12, 40)))])
        if fn == "hm":
            lim = rng.choice([base, base, rng.choice(cand), max(0, a - (1 << rng.randint(12, 40)))])
            if lim > a:
                a, lim = lim, a
        elif lim < a:
            a, lim = lim, a
        # the scan works inside the span of the root table (addresses that agree above the paged bits)
        tot = sum(fields)
        lo_span = base >> tot << tot if tot < 64 else 0
        hi_span = min(M64, lo_span + (1 << tot) - 1)
        a = max(lo_span, min(hi_span, a))
        lim = max(lo_span, min(hi_span, lim))
        off = off0
        if runs and rng.random() < 0.5:
            off = rng.choice(runs)[2]
        extra = " ".join("%x" % p for p in (a, lim, a & ~0xfff, min(M64, lim + 1)))
        out.append(("scan %s %s %x %x %x %s" % (fn, head, a, lim, off, cells), probes + " " + extra,
                    "scan/%s/%s/%d" % (fn, fmt, len(fields))))
    return out


# ---------------------------------------------------------------------------
# os (filled in by the x86-64 Linux image synthesiser)
# ---------------------------------------------------------------------------

def gen_os(rng):
    return []


# ---------------------------------------------------------------------------

def outcome_class(case, impl):
    k = case.split()[0]
    if impl.startswith("CRASH"):
        return "crash"
    if k == "lay":
        return "statuses " + impl.split()[0] if impl else "?"
    if k == "scan":
        return "status " + impl.split()[0] if impl else "?"
    return impl.split()[0] if impl else "?"


def nontrivial(case, impl):
    k = case.split()[0]
    if k == "lay":
        return "," in impl
    if k == "scan":
        return impl.startswith("0 ")
    return True


def shrink(line, fails):
    f = line.split()
    if f[0] == "lay":
        calls = f[1:]
        if len(calls) >= 2:
            calls = core.shrink_list(calls, lambda c: fails("lay " + " ".join(c)), max_tests=40)
        # then the regions of each call
        for i, c in enumerate(calls):
            if c[0] == "S" and "," in c:
                h, rs = c.split(":")
                regs = core.shrink_list(rs.split(","),
                                        lambda r: fails("lay " + " ".join(calls[:i] + [h + ":" + ",".join(r)] + calls[i + 1:])),
                                        max_tests=30)
                calls[i] = h + ":" + ",".join(regs)
        return "lay " + " ".join(calls)
    return line
