"""C04 — caching and lazy indexing are invisible: results do not depend on history.

Theorems: coq/theories/Properties_C04.v (models Hist/FcacheChunk.v, Hist/ReadCache.v,
Hist/ElfShortcut.v, Hist/PageCacheAbs.v).

Ties:
* engine "hist" — THE PROPERTY EVALUATED ON THE IMPLEMENTATION ITSELF: dumps of every
  format written with the suite's mk* tools; a random history (reads in all address
  spaces, string reads, page-map queries, attribute gets, whole-tree dumps, cache.size,
  file.mmap_policy and file.zero_excluded changes) on one context; every observing call
  of the history is compared with the same call on a freshly opened context
  (harness/hist_drv.c, public API only).  The fresh context is the specification.
* engine "fcache" — Hist/FcacheChunk.v extracted vs. the real fcache.c (white box,
  harness/fcache_drv.c), all policies, small files; the C answers are also judged by the
  extracted spec `slice` (engine "fcache-spec").
* engine "lkcdsplit" — Hist/LkcdSplit.v extracted vs. the real split_pfn_block of lkcd.c
  (harness/lkcdsplit_drv.c, blocks built in memory: no multi-gigabyte files), judged by the
  extracted lookup-preservation spec (engine "lkcdsplit-spec"); the same path end to end:
  sparse > 4 GiB LKCD dumps in engine "hist".
* engine "rcache" — Hist/ReadCache.v extracted vs. the real get_cache_buf /
  bury_cache_buffer of src/addrxlat/ctx.c (harness/rcache_drv.c), judged by the
  extracted cache-less read (engine "rcache-spec")."""
import os
import random

from .. import core, histgen

ENV = {"ASAN_OPTIONS": "detect_leaks=0:abort_on_error=0:exitcode=97"}   # leaks are C15's subject
CONFIG = "CMZ"


def case_line(d, ops):
    return "%s%s | %s" % (",".join(d["files"]), (" ostype=" + d["ostype"]) if d["ostype"] else "",
                          " ".join(ops))


def split_out(line):
    h, _, f = line.partition(" | ")
    return h.split()[1:], f.split()[1:]


def first_diff(ops, line):
    """Index of the first observing op whose history answer differs from the fresh one."""
    if line.startswith("CRASH") or line == "NOT-RUN":
        return -1
    ht, ft = split_out(line)
    if len(ht) != len(ops) or len(ft) != len(ops):
        return -1
    for i, (a, b) in enumerate(zip(ht, ft)):
        if ops[i][0] in CONFIG:
            continue
        if a != b:
            return i
    return None


def make_dump(work, fmt, dump_seed, tag):
    return histgen.gen_dump(random.Random(dump_seed), work, tag, fmt)


def signature(d, ops, line, i, err=""):
    """Stable classification of a history dependence: format, kind of the observed call,
    the two answers' statuses, and what kind of history preceded it."""
    if i == -1:
        kind = "crash"
        m = core.re.search(r"(heap-use-after-free|heap-buffer-overflow|SEGV|runtime error|stack-buffer-overflow|"
                           r"double-free|attempting free)[^\n]*", err or "")
        where = core.re.search(r"#\d+ \S+ in (\S+) \S*/src/(\S+?):\d+", err or "")
        return "hist crash fmt=%s %s in %s" % (d["fmt"], m.group(1) if m else "abnormal-exit",
                                               (where.group(1) + "@" + where.group(2)) if where else "?")
    ht, ft = split_out(line)
    hist = ops[:i]
    feats = []
    if any(o[0] == "Z" for o in hist):
        feats.append("zero-toggle")
    if any(o[0] == "C" for o in hist):
        feats.append("cache-size")
    if any(o[0] == "M" for o in hist):
        feats.append("mmap-policy")
    if any(o.startswith("R:2") or o.startswith("S:2") for o in hist):
        feats.append("virtual-read")
    if d["fmt"] == "lkcd" and not d.get("sorted", True):
        feats.append("stream-out-of-order")
    if d["fmt"] == "lkcd-faroff":
        feats.append("block-split" + ("-tail-not-in-file-order" if d.get("tail_unsorted") else ""))
    op = ops[i].split(":")[0]
    return "hist fmt=%s op=%s history-answer=%s fresh-answer=%s after=%s" % (
        d["fmt"], op, ht[i].split(":")[0], ft[i].split(":")[0], "+".join(feats) or "reads-only")


def run_hist_one(exe, run, d, ops, verbose=False):
    cf = run.casefile("hist-one.txt", [case_line(d, ops)])
    env = dict(ENV)
    if verbose:
        env["VERIF_HIST_VERBOSE"] = "1"
    rc, out, err = core.run_impl(exe, [cf], timeout=20, env=env)
    lines = [l for l in out.split("\n") if l and not l.startswith("#")]
    if verbose:
        return rc, out, err
    return rc, (lines[0] if lines else "CRASH %s" % rc), err


def check_hist(run, exe):
    quick = run.tier == "quick"
    ncases = 600 if quick else 12000
    nops = 28 if quick else 45
    work = os.path.join(run.work, "dumps")
    os.makedirs(work, exist_ok=True)
    fmts = ["diskdump", "diskdump-pt", "elf", "lkcd", "sadump", "diskdump", "lkcd", "elf"]
    special = ["lkcd-faroff", "diskdump-split-never", "diskdump-pt-far", "diskdump-pt-excl"]   # a few per run: sparse > 4 GiB LKCD, file sets on the read(2) path
    run.cov["engines"]["hist"] = {"generated": ncases, "ops_per_history": nops, "formats": fmts}
    if run.replay_path:
        rp = core.json.load(open(run.replay_path))["replay"]
        if rp.get("engine") != "hist":
            return
        d = make_dump(work, rp["fmt"], rp["dump_seed"], "replay")
        ops = rp["ops"].split()
        rc, out, err = run_hist_one(exe, run, d, ops, verbose=True)
        print("dump: " + d["desc"])
        print(out.rstrip())
        if rc != 0:
            print(err[-1500:])
        rc, line, err = run_hist_one(exe, run, d, ops)
        i = first_diff(ops, line) if rc == 0 else -1
        if i is not None:
            report(run, exe, d, rp["fmt"], rp["dump_seed"], ops, line, i, err, shrink=False)
        return
    shard = 40
    done = 0
    while done < ncases and len(run.violations) < int(os.environ.get("VERIF_MAXV", "3")):
        batch = []
        for j in range(min(shard, ncases - done)):
            fmt = fmts[(done + j) % len(fmts)] if run.rng.random() < 0.8 else run.rng.choice(fmts)
            if (done + j) % 20 in (3, 9, 15, 18):
                fmt = special[((done + j) // 3) % 4]
            if done + j == 5:
                fmt = "diskdump-bigmap"
            dump_seed = run.rng.randrange(1 << 48)
            d = make_dump(work, fmt, dump_seed, "d%d" % j)
            ops = histgen.gen_history(run.rng, d, run.rng.randint(4, nops))
            batch.append((d, fmt, dump_seed, ops))
        lines = [case_line(d, ops) for d, _, _, ops in batch]
        out, crashes = core.run_impl_lines(exe, run.work, lines, env=ENV, timeout=90)
        for k, ((d, fmt, dump_seed, ops), line) in enumerate(zip(batch, out)):
            i = first_diff(ops, line)
            run.count("hist-fmt-" + fmt)
            if i is None:
                ht, _ = split_out(line)
                for o, a in zip(ops, ht):
                    run.count("hist-op-" + o.split(":")[0] + ("-ok" if a[1:2] == "0" else "-err"))
                nt = any(o[0] in CONFIG for o in ops) and any(a.startswith("R0") for a in ht)
                run.note_case(d["desc"] + " " + " ".join(ops), nt)
                if done + k < 2:
                    run.sample({"dump": d["desc"], "history": " ".join(ops[:10]) + " ...", "answers": line[:160]})
                continue
            run.note_case(d["desc"] + " " + " ".join(ops), True)
            err = crashes.get(k, ("", ""))[1]
            report(run, exe, d, fmt, dump_seed, ops, line, i, err)
        done += len(batch)


def report(run, exe, d, fmt, dump_seed, ops, line, i, err, shrink=True):
    def differs(cand):
        rc, l, e = run_hist_one(exe, run, d, cand)
        return rc != 0 or first_diff(cand, l) is not None
    small = ops
    if shrink:
        t0 = core.time.time()
        if not differs(ops):
            run.count("hist-unreproducible")
            return
        # a hanging library makes every test cost the timeout: shrink less then
        slow = core.time.time() - t0 > 5
        small = core.shrink_list(ops, differs, max_tests=12 if slow else 250)
    rc, sl, serr = run_hist_one(exe, run, d, small)
    si = first_diff(small, sl) if rc == 0 else -1
    if si is None:
        si = -1
    sig = signature(d, small, sl, si, serr or err)
    replay = {"engine": "hist", "fmt": fmt, "dump_seed": dump_seed, "dump": d["desc"],
              "ops": " ".join(small), "answers": sl, "impl_exit": rc,
              "impl_stderr_tail": (serr or "")[-1500:],
              "how": "bin/check C04 --replay <this file> regenerates the dump from dump_seed and re-runs the "
                     "history through harness/hist_drv.c (history answers 'H', fresh-context answers 'F')"}
    if si == -1:
        run.violation("impl", "library aborts (sanitizer/crash, exit %s) on %s after history: %s"
                      % (rc, d["desc"], " ".join(small)), replay, found_input=True, signature=sig)
    else:
        ht, ft = split_out(sl)
        run.violation("spec", "result depends on history: %s answers %s after the history but %s on a fresh "
                      "context; dump: %s; history: %s" % (small[si], ht[si], ft[si], d["desc"], " ".join(small)),
                      replay, found_input=True, signature=sig)


# ----------------------------------------------------------------------------
# white-box engines: a model generator module provides gen_case(rng) and
# spec_line(case, impl_out); model and implementation must agree line by line
# (compare() may be overridden by the generator module), and every implementation
# answer is judged by the extracted spec.
# ----------------------------------------------------------------------------

def check_whitebox(run, engine, genmod, exe, ncases, what, label=None, model_engine=None, spec_engine=None):
    label = label or engine
    model_engine = model_engine or engine
    spec_engine = spec_engine or engine + "-spec"
    cases = []
    corpus = os.path.join(core.VERIF, "corpus", engine + ".txt")
    if os.path.exists(corpus):
        cases += [l for l in open(corpus).read().split("\n") if l.strip() and not l.startswith("#")]
    ncorpus = len(cases)
    if run.replay_path:
        rp = core.json.load(open(run.replay_path))["replay"]
        if rp.get("engine") != engine:
            return
        cases = [rp["case"]]
    else:
        cases += [genmod.gen_case(run.rng) for _ in range(ncases)]
    run.cov["engines"][label] = {"corpus_cases": ncorpus, "generated": ncases}
    cmp3 = getattr(genmod, "compare", None)          # compare(case, model, impl) -> None | reason

    def same(c, m, i):
        return (cmp3(c, m, i) is None) if cmp3 else (m == i)
    cf = run.casefile(engine + "-cases.txt", cases)
    model = core.run_model(model_engine, cf)
    impl, crashes = core.run_impl_lines(exe, run.work, cases, env=ENV)
    specin = [genmod.spec_line(c, o) for c, o in zip(cases, impl)]
    verd = core.run_model(spec_engine, run.casefile(engine + "-spec.txt", specin))
    if run.replay_path:
        print("model:          " + model[0])
        print("implementation: " + impl[0])
        print("spec verdict:   " + verd[0])
    bad = [i for i in range(len(cases)) if not same(cases[i], model[i], impl[i]) or verd[i] != "ok" or i in crashes]
    for i, c in enumerate(cases):
        run.note_case(engine + " " + c, getattr(genmod, "nontrivial", lambda c, o: True)(c, impl[i]))
        if i < 2:
            run.sample({"engine": engine, "case": c[:200], "impl": impl[i][:200]})
    run.count(label + "-cases", len(cases))
    run.count(label + "-spec-ok", sum(1 for v in verd if v == "ok"))
    for i in bad[:3]:
        def one(case):
            m = core.run_model(model_engine, run.casefile(engine + "-one.txt", [case]))
            o, cr = core.run_impl_lines(exe, run.work, [case], env=ENV)
            v = core.run_model(spec_engine, run.casefile(engine + "-spec1.txt", [genmod.spec_line(case, o[0])]))
            return m[0], o[0], v[0], cr
        case = cases[i]
        if not hasattr(genmod, "shrink") and not getattr(genmod, "ATOMIC_CASES", False) and engine != "lkcdsplit":
            hdr, sep, body = case.partition(" | ") if " | " in case else ("", "", case)

            def mk(ops):
                return hdr + sep + " ".join(ops)

            def failing(ops):
                r = one(mk(ops))
                return not same(mk(ops), r[0], r[1]) or r[2] != "ok" or bool(r[3])
            if failing(body.split()):
                case = mk(core.shrink_list(body.split(), failing, max_tests=120))
        if hasattr(genmod, "shrink"):
            case = genmod.shrink(case, lambda c: (lambda r: not same(c, r[0], r[1]) or r[2] != "ok" or r[3])(one(c)))
        m, o, v, cr = one(case)
        replay = {"engine": engine, "case": case, "model": m, "implementation": o, "spec_verdict": v,
                  "impl_stderr_tail": (list(cr.values())[0][1][-1500:] if cr else ""),
                  "how": "bin/check C04 --replay <this file>"}
        if cr:
            run.violation("impl", "%s aborts (sanitizer/crash) on case: %s" % (what, case[:300]), replay,
                          found_input=True, signature=label + " crash " + list(cr.values())[0][1][-200:])
        elif v != "ok":
            run.violation("spec", "%s contradicts the spec: %s; case: %s" % (what, v, case[:300]), replay,
                          found_input=True, signature=label + " spec " + v)
        else:
            run.violation("tie", "correspondence %s (extracted model vs %s) broken on case: %s"
                          % (engine, what, case[:300]), replay, found_input=False, signature=label + " tie")


def check(run):
    run.trusted += [
        "modelled, not verified: the kernel's pread/mmap (same bytes as the file; mmap valid below the page that "
        "contains EOF, zero beyond EOF within that page, SIGBUS after it), malloc (oracle bits), the order in which "
        "the allocator/mmap places buffers (adjacency oracle), addrxlat's get_page callback (a pure function)",
        "engine hist: the specification is the library's own answer on a freshly opened context (the property "
        "text itself); the suite's mkdiskdump/mkelf/mklkcd/mksadump write the dumps",
        "page cache: C04_pagecache_transparent is stated over the hit-returns-inserted interface; the faithful "
        "list-level model of cache.c and its invariant are property C06's"]
    run.assumptions += [
        "ELF cores have no overlapping LOAD segments (DESIGN.md section 8 (ii))",
        "split-file windows are non-empty and hold a dumped page (section 8 (iii); empty windows are defect #5, C07)",
        "files are not truncated below their last page (reads beyond the page containing EOF depend on the mmap "
        "policy by design of KDUMP_MMAP_ALWAYS; stated separately as C04_fcache_beyond_eof)"]
    run.check_coq()
    ml_ok = run.need_ml()
    quick = run.tier == "quick"
    exe = run.need_cc("hist_drv", "hist_drv.c", sources=core.lib_sources(), sanitize=True)
    if exe is not None:
        check_hist(run, exe)
    if not ml_ok:
        return
    for engine, modname, drv, srcs, what, n, model_engine in WHITEBOX:
        try:
            genmod = __import__("kdv." + modname, fromlist=["x"])
        except ImportError:
            continue
        exe = run.need_cc(engine + "_drv", drv, sources=srcs(), sanitize=True)
        if exe is not None:
            check_whitebox(run, engine, genmod, exe, n if quick else 20 * n, what,
                           model_engine=model_engine, spec_engine=engine + "-spec")
            if engine == "rcache" and not quick and not run.replay_path:
                # callbacks that re-enter get_cache_buf (thorough tier): the model follows the code
                # (model == implementation), the cache-less spec does not hold: finding
                # C04-readcache-reentrant (theorem C04_readcache_reentrant_refuted)
                class Re:
                    spec_line = staticmethod(genmod.spec_line)
                    gen_case = staticmethod(lambda rng: genmod.gen_case(rng, reentrant=True))
                check_whitebox(run, engine, Re, exe, 2000, what, label="rcache-reentrant")
    run.cov["rule"] = ("hist: one case = one dump + one history, every observing call compared with a fresh context; "
                       "non-trivial = the history changes a configuration attribute and contains a successful read. "
                       "fcache/rcache: one case = one op history on the white-box driver; non-trivial as defined by "
                       "the generator (an eviction, a policy change or a boundary-crossing chunk)")


WHITEBOX = [
    ("fcache", "fcachegen", "fcache_drv.c", lambda: core.lib_sources(exclude=("fcache.c",)),
     "fcache.c (fcache_get/pread/get_chunk, file sets)", 700, None),
    ("rcache", "rcachegen", "rcache_drv.c", lambda: core.lib_sources(which=("addrxlat",), exclude=("ctx.c",)),
     "addrxlat ctx.c (get_cache_buf/bury_cache_buffer)", 800, None),
    # the model variant of the code as it is now: fixes 82, 83, 84 (Hist/LkcdSplit.v repaired84)
    ("lkcdsplit", "lkcdsplitgen", "lkcdsplit_drv.c", lambda: core.lib_sources(exclude=("lkcd.c",)),
     "lkcd.c (split_pfn_block/alloc_tail_pfn_block)", 1500, "lkcdsplit-84"),
]
