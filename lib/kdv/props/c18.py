"""C18 - running out of memory is an error, not an accident.

Theorems: coq/theories/Properties_C18.v (framework Res/Tokens.v, models Res/OomModel.v).
Tie, engine "oom": all library sources are linked into harness/oom_drv.c with the
allocator wrapped; for every scenario (new, clone with both flags, open / re-open of every
format, reads, translation through KDUMP_KVADDR, page maps, VMCOREINFO, attribute updates,
free, and the internal constructors white-box) the n-th library allocation of the target
call is failed for EVERY n the scenario reaches.  Judged on the implementation:
failure reported, no crash / sanitizer report / hang, no lock held at return
(hooks/01-lock-events.patch), nothing leaked after the survivors were freed, survivors
still usable - and the observed event trace is judged by the extracted spec
(Tokens.replay, engine "oom-spec").  Where a path is modelled the observed event trace
must equal the model's for the same n.

PARTIAL BY NATURE: the theorems cover the modelled constructors; every other allocation
site is reached only by this enumeration (a runtime, bounded observation)."""
import os
import re

from .. import core
from .. import oomlib
from .. import resdumps

ROOT = "%#x" % resdumps.ROOTPGT


def known_fragment(run):
    """known_findings.json is assembled by the integrator; while developing on a
    branch the fragment is read directly so that the check behaves the same."""
    p = os.path.join(core.VERIF, "known_findings.d", run.pid + ".json")
    if os.path.exists(p):
        try:
            data = core.json.load(open(p))
        except ValueError:
            return
        have = {k.get("id") for k in run.known}
        for k in data.get("findings", []):
            if k.get("property") == run.pid and k.get("id") not in have:
                run.known.append(k)


MAXA = (1 << 64) - 1


def map_histories(rng, tier):
    """addrxlat_map_set histories (hex a:e:m, m decimal): first updates of an empty map at
    zero / in the middle / up to the end / with the NONE method, then splits and merges"""
    hs = ["1000:fff:1", "0:fff:1", "fffffffffffff000:fff:2", "0:ffffffffffffffff:-1", "0:ffffffffffffffff:3",
          "2000:fff:-1", "1000:fff:1,0:fff:2", "1000:fff:1,2000:fff:1,3000:fff:2,1800:fff:-1",
          "0:ffffffffffffffff:1,5000:fff:3,5000:fff:1"]
    for _ in range(8 if tier == "quick" else 60):
        ops = []
        pool = [0, 0x1000, 0x2000, 0x7fff0000, 0xffff800000000000, MAXA - 0xfff]
        for _ in range(rng.randint(1, 5)):
            a = rng.choice(pool) + rng.choice([0, 0, 0x1000, 0x800])
            a = min(a, MAXA)
            e = min(rng.choice([0xfff, 0x1fff, 0, 0x7ff, MAXA]), MAXA - a)
            ops.append("%x:%x:%d" % (a, e, rng.choice([-1, 1, 1, 2, 3])))
            pool += [a + e + 1] if a + e < MAXA else []
        hs.append(",".join(ops))
    return hs


QUICK_SYS = ("xlat-linux-ia32", "xlat-linux-ia32-pae", "xlat-linux-ppc64-64k", "xlat-linux-aarch64-5.8-va48",
             "xlat-linux-aarch64-5.16-64k", "xlat-linux-arm-2.6.24", "xlat-linux-riscv-6.5-sv39",
             "xlat-linux-s390x-3l", "xlat-linux-x86_64-2.6.31", "xlat-linux-x86_64-5l", "xlat-xen-ia32",
             "xlat-xen-ia32-pae", "xlat-xen-x86_64-4.3")


def scenarios(dumps, tier, rng=None, syscfg=None):
    """(name, format, case line with @N, expect-clean-window)"""
    sc = [("new", "-", "new @N")]
    # addrxlat_sys_os_init for every architecture / OS the test suite describes (pure libaddrxlat,
    # memory image and symbols from tests/xlat-*), and a few option-only set-ups without any data
    for nm, path in sorted((syscfg or {}).items()):
        if tier == "thorough" or nm in QUICK_SYS:
            sc.append(("wb_sys_os", nm.replace("xlat-", ""), "wb_sys_os @N @" + path))
            if "ia32" in nm and "linux" in nm and not os.path.exists(path[:-4] + "-cr3err.cfg"):
                # a register callback that fails outright: the set-up must fail and leave nothing
                txt = "".join(l for l in open(path) if not l.startswith("O ")) + "Y ERR cr3 - 0\n"
                o_ = [l for l in open(path) if l.startswith("O ")][0]
                o_ = ",".join(x for x in o_.strip()[2:].split(",") if not x.startswith("rootpgt"))
                with open(path[:-4] + "-cr3err.cfg", "w") as f:
                    f.write("O " + o_ + "\n" + txt)
            if "ia32" in nm and "linux" in nm:
                sc.append(("wb_sys_os", nm.replace("xlat-", "") + "-cr3err", "wb_sys_os @N @" + path[:-4] + "-cr3err.cfg"))
            if "ppc64" in nm:
                # the application replaces the methods the set-up made (ppc64: the VMEMMAP lookup
                # table belongs to the system), re-initialises, drops the system
                for v in (1, 3, 7, 9):
                    sc.append(("wb_sys_meth", "%s/%d" % (nm.replace("xlat-", ""), v), "wb_sys_meth @N %d @%s" % (v, path)))
    for o in ("arch=ppc64,ostype=linux,page_shift=16", "arch=x86_64,virt_bits=48", "arch=s390x,ostype=linux",
              "arch=aarch64,page_shift=12,virt_bits=48", "arch=x86_64,ostype=xen,osver=0x040003"):
        sc.append(("wb_sys_os", "nodata", "wb_sys_os @N " + o))
    if rng is not None:
        sc += [("wb_map_seq", "-", "wb_map_seq @N " + h) for h in map_histories(rng, tier)]
    for fmt, path in sorted(dumps.items()):
        sc += [
            ("open", fmt, "open @N %s" % path),
            ("reopen", fmt, "reopen @N %s" % path),
            ("clone0", fmt, "clone @N 0 %s" % path),
            ("clone1", fmt, "clone @N 1 %s %s" % (path, ROOT)),
            ("read", fmt, "read @N %s MACHPHYSADDR 0x1000 64" % path),
            ("kvread", fmt, "read @N %s KVADDR 0 8 %s" % (path, ROOT)),
            ("pagemap", fmt, "pagemap @N %s" % path),
            ("vmcoreinfo", fmt, "vmcoreinfo @N %s" % path),
            ("attrs", fmt, "attrs @N %s" % path),
            ("free", fmt, "free @N %s" % path),
            ("readstr", fmt, "readstr @N %s MACHPHYSADDR 0x1000" % path),
            # strings crossing a page, read cache only (16 entries) and a two-page page cache: a
            # reference lost by a failed call shows in the reference sums and as BUSY afterwards
            ("readstr", fmt, "readstr @N %s MACHPHYSADDR 0x3ff0 0 never:2" % path),
            ("readstr", fmt, "readstr @N %s MACHPHYSADDR 0x3000 0 never:1" % path),
            ("getxlat", fmt, "getxlat @N %s linux %s" % (path, ROOT)),
        ]
        if fmt == "elf":
            sc.append(("utsname", fmt, "utsname @N %s %s" % (path, ROOT)))
        if fmt == "diskdump-ia32":
            sc.append(("getxlat", fmt, "getxlat @N %s xen %s" % (path, ROOT)))
        if tier == "thorough":
            sc += [
                ("read", fmt, "read @N %s MACHPHYSADDR 0xff0 8192" % path),
                ("read", fmt, "read @N %s MACHPHYSADDR 0x2e0fff0 12400" % path),
                ("kvread", fmt, "read @N %s KVADDR 0x1ff000 8192 %s" % (path, ROOT)),
                ("readstr", fmt, "readstr @N %s KVADDR 0 %s" % (path, ROOT)),
            ]
    # a second dump opened in the same context: every ordered pair of formats (quick: the four
    # base formats; a clone with its own dictionary for some), every allocation of the second open
    base = [f for f in ("diskdump", "elf", "lkcd", "sadump") if f in dumps] if tier == "quick" else sorted(dumps)
    for i, a in enumerate(base):
        for j, b in enumerate(base):
            sc.append(("reopen2", "%s>%s" % (a, b), "reopen2 @N %s %s %d" % (dumps[a], dumps[b], (i + j) % 3)))
    sc += [
        ("wb_xlat", "-", "wb_xlat @N 0"), ("wb_xlat", "-", "wb_xlat @N 1"),
        ("wb_fcache_new", "-", "wb_fcache_new @N 2 4 2"),
        ("wb_cache_alloc", "-", "wb_cache_alloc @N 4 4096"),
        # chunks crossing file-cache blocks whose buffers are not adjacent (copied out / entry array)
        ("wb_chunk", "copy", "wb_chunk @N 10 0xf00 0x200"),
        ("wb_chunk", "copy3", "wb_chunk @N 210 0xf00 0x1200"),
        ("wb_chunk", "array", "wb_chunk @N 0123 0xf00 0x2200"),
        ("wb_chunk", "mixed", "wb_chunk @N 0132 0xf00 0x2200"),
        ("wb_cache_alloc", "-", "wb_cache_alloc @N 4 0"),
        ("wb_pfn_regions", "-", "wb_pfn_regions @N 3000"),
        ("wb_dict", "-", "wb_dict @N 0"), ("wb_dict", "-", "wb_dict @N 1"),
        ("wb_create_path", "-", "wb_create_path @N cpu.7.reg.rax"),
        ("wb_create_path", "-", "wb_create_path @N linux.vmcoreinfo.lines.A.B"),
        ("wb_clone_path", "-", "wb_clone_path @N addrxlat.default"),
        ("wb_clone_path", "-", "wb_clone_path @N addrxlat.default.rootpgt.as"),
        ("wb_clone_path", "-", "wb_clone_path @N linux.uts.nodename"),
        ("wb_clone_path", "-", "wb_clone_path @N linux.uts"),
        ("wb_clone_path", "-", "wb_clone_path @N linux"),
    ]
    return sc


def model_scenario(name, words, shape):
    """the model scenario string for a C scenario, or None when the path is not modelled"""
    sh = dict(x.split(":", 1) for x in shape.split(";") if ":" in x and not x.startswith("p")) if shape else {}
    if name == "new":
        return "new %s %s" % (sh.get("nr_global", "0"), sh.get("opts", ""))
    if name in ("clone0", "clone1"):
        flags = int(sh.get("flags", "0"))
        specs = ";".join(x[1:] for x in shape.split(";") if x.startswith("p"))
        return "clone 0 %s %d %d %s" % (sh.get("slots", "0"), 1 if flags else 0, flags & 1, specs or "-")
    if name == "wb_xlat":
        return "xlat " + words[2]
    if name == "wb_fcache_new":
        return "fcachenew"
    if name == "wb_cache_alloc":
        return "cachealloc %d" % (0 if int(words[3], 0) == 0 else 1)
    if name == "wb_pfn_regions":
        return "pfnregions 1024 " + words[2]
    if name == "wb_dict":
        return "dictclone" if words[2] == "1" else "dictnew " + sh.get("nr_global", "0")
    if name == "wb_create_path":
        return "createpath " + sh.get("missing", "0")
    if name == "wb_clone_path":
        p = [x for x in shape.split(";") if x.startswith("p")]
        if p:
            above, tree = p[0][1:].split(":", 1)
            return "clonepath %s %s" % (above, tree)
    return None


CLEAN_ON_FAILURE = ("new", "clone0", "clone1", "wb_xlat", "wb_fcache_new", "wb_cache_alloc",
                    "wb_dict", "wb_clone_path")


def symptoms(kv):
    """what the implementation did wrong on this case, as short tags"""
    s = []
    rc = kv.get("rc", "?")
    san = kv.get("san", "-")
    if san != "-":
        s.append("san:" + san)
    if rc != "0" and san == "-":
        s.append("died:rc=" + rc)
    res = kv.get("res", "?")
    if res.startswith("missed"):
        s.append("unreported:" + res[7:])
    elif res == "unobserved":
        s.append("unreported:no-call-saw-it")
    if kv.get("held", "0") not in ("0", "?"):
        s.append("lock-held:" + kv["held"].split(":", 1)[-1])
    if kv.get("leak", "-") not in ("-", "?"):
        s.append("leak:" + kv["leak"])
    if kv.get("surv", "ok") not in ("ok", "?"):
        s.append("survivor:" + kv["surv"][:80])
    return s


BACKGROUND_LEAK = {}


def check(run):
    known_fragment(run)
    run.trusted += [
        "modelled, not verified: the allocator (one schedule bit per call), pthread lock primitives, "
        "reference counters of pre-existing objects (Pin/Unpin events are not observable on the C side)",
        "partial by nature: the theorems cover kdump_new, kdump_clone, xlat_new/clone, attr_dict_new/clone, "
        "create_attr_path, clone_attr_path, fcache_new, cache_alloc, add_pfn_region and (from C10) "
        "addrxlat_map_set; all other allocation sites are reached by the enumeration only",
    ]
    run.assumptions += [
        "a realloc that does not grow the block and whose failure the caller ignores is not an "
        "allocation made on behalf of the call (lkcd.c realloc_pfn_offs shrink): accepted as 'shrink-tolerated'",
        "a failed growth of the error-message buffer (errmsg.h err_vadd) degrades the message (C16) and is "
        "not required to fail a call whose error the library discards",
        "the check runs against a tree that has hooks/01-lock-events.patch applied",
    ]
    run.check_coq()
    if not run.need_ml():
        return
    exe = oomlib.build(run, "oom_drv")
    if exe is None:
        return
    try:
        dumps = resdumps.all_formats(os.path.join(run.work, "dumps"))
    except Exception as e:                       # noqa
        run.violation("machinery", "cannot build the test dumps: %s" % e, {}, found_input=False)
        return
    if run.tier == "thorough":
        d = os.path.join(run.work, "dumps")
        dumps["diskdump-flat"] = resdumps.diskdump(d, "ddflat", extra="flattened = yes\n")
        dumps["diskdump-zstd"] = resdumps.diskdump(d, "ddz", methods=("snappy", "zstd", "raw", "zstd", "snappy", "zlib"))
        dumps["lkcd-rle"] = resdumps.lkcd(d, "lkcdrle", compression=1)

    if run.replay_path:
        rp = core.json.load(open(run.replay_path))
        line = rp["replay"]["case"]
        out, crashes = core.run_impl_lines(exe, run.work, [line], env={"OOM_VERBOSE": "1"})
        print("implementation: " + out[0][:2000])
        judge(run, exe, [(rp["replay"].get("scenario", "?"), rp["replay"].get("format", "-"), line,
                          rp["replay"].get("model"))], out)
        return

    try:
        from .. import xlatcfg
        syscfg = xlatcfg.scenario_files(os.path.join(run.work, "syscfg"))
    except Exception as e:                       # noqa
        run.violation("machinery", "cannot prepare the OS set-up scenarios: %s" % e, {}, found_input=False)
        return
    # dumps of other architectures (their Linux layouts have a direct map in a map that is
    # created by the same set-up: ia32; s390x has a layout of its own)
    d = os.path.join(run.work, "dumps")
    dumps["diskdump-ia32"] = resdumps.diskdump(d, "ddia32", arch="ia32")
    dumps["diskdump-s390x"] = resdumps.diskdump(d, "dds390x", arch="s390x")
    scs = scenarios(dumps, run.tier, run.rng, syscfg)
    base_lines = [(c + " ").replace(" @N ", " 0 ", 1).strip() for _, _, c in scs]
    base, _ = core.run_impl_lines(exe, run.work, base_lines, timeout=600)
    cases = []
    hook_seen = False
    for (name, fmt, c), bl in zip(scs, base):
        words, kv = oomlib.parse_line(bl)
        sy = symptoms(kv)
        if kv.get("res") != "nofail":
            sy.append("baseline:" + kv.get("res", "?"))
        if "r:shared" in kv.get("ev", "") or "w:shared" in kv.get("ev", ""):
            hook_seen = True
        run.count("baseline-allocs-%s" % name, int(kv.get("nalloc", "0")) if kv.get("nalloc", "?").isdigit() else 0)
        if sy:
            nm = oomlib.resolve(exe, oomlib.addresses_in(kv))
            if kv.get("leak", "-") not in ("-", "?"):
                kv["leak"] = "+".join(sorted({nm.get(p.split("*")[0], p) for p in kv["leak"].split(",")}))
            report(run, exe, name, fmt, (c + " ").replace(" @N ", " 0 ", 1).strip(), kv, symptoms(kv) + [x for x in sy if x.startswith("baseline")], None, None)
            # a leak that happens without any failure is background for this scenario (it is
            # reported once, above): the enumeration goes on and reports what the failure adds
            if all(x.startswith("leak:") for x in sy) and kv.get("nalloc", "?").isdigit():
                BACKGROUND_LEAK[(c + " ").replace(" @N ", " @ ", 1).strip()] = set(kv["leak"].split("+"))
            else:
                continue
        k = int(kv.get("nalloc", "0"))
        msc = model_scenario(name, (c + " ").replace(" @N ", " 0 ", 1).split(), kv.get("shape", ""))
        for n in range(0, k + 1):
            cases.append((name, fmt, (c + " ").replace(" @N ", " %d " % n, 1).strip(),
                          ("%s | %d" % (msc, n)) if msc else None))
    if not hook_seen:
        run.violation("tie", "no lock event was observed: src/threads.h lacks hooks/01-lock-events.patch "
                      "(lock balance cannot be judged)", {"correspondence": "oom"}, found_input=False,
                      signature="oom hook missing")
    run.cov["rule"] = ("one case = (scenario, format, index n of the failed allocation), every n up to the number of "
                       "allocations the scenario's target makes without failure; distinct = distinct (scenario, "
                       "format, failing call site, caller) tuples; non-trivial = the failure was injected "
                       "(n >= 1 and reached)")
    run.cov["engines"]["oom"] = {"scenarios": len(scs), "cases": len(cases),
                                 "modelled_cases": sum(1 for c in cases if c[3])}
    out, crashes = core.run_impl_lines(exe, run.work, [c[2] for c in cases], timeout=1700)
    judge(run, exe, cases, out)


def judge(run, exe, cases, out):
    parsed = [oomlib.parse_line(l) for l in out]
    addrs = set()
    for _, kv in parsed:
        addrs |= oomlib.addresses_in(kv)
    names = oomlib.resolve(exe, addrs)
    # model side
    mlines = [c[3] for c in cases if c[3]]
    model = core.run_model("oom", run.casefile("oom-model.txt", mlines)) if mlines else []
    mi = iter(model)
    spec_in = []
    spec_idx = []
    results = []
    for (name, fmt, line, mline), (words, kv) in zip(cases, parsed):
        f = kv.get("fail", "0/0").split("/")
        site = names.get(f[0], f[0]) if f[0] not in ("0", "") else "-"
        caller = names.get(f[1], f[1]) if len(f) > 1 and f[1] not in ("0", "") else "-"
        lk = kv.get("leak", "-")
        if lk not in ("-", "?"):
            w = line.split()
            bg = BACKGROUND_LEAK.get(" ".join(w[:1] + ["@"] + w[2:]), set())
            left = sorted({names.get(p.split("*")[0], p) for p in lk.split(",")} - bg)
            kv["leak"] = "+".join(left) if left else "-"
        sy = symptoms(kv)
        # growing the error-message buffer is allowed to fail: errmsg.h falls back to the fixed
        # buffer (C16: the message degrades); when the error being formatted is one the library
        # discards anyway, the call legitimately succeeds
        if site == "errmsg.h:err_vadd" and kv.get("res", "").startswith("missed:"):
            sy = [x for x in sy if not x.startswith("unreported:")]
            run.count("outcome-errbuf-degraded")
        if name == "new":       # the only lock is the one of the shared object made by the call
            kv["ev"] = kv.get("ev", "-").replace(":lock0", ":shared")
        cev, sev = oomlib.canon_events(kv, names)
        m = next(mi) if mline else None
        injected = kv.get("res") not in ("nofail", "?") or kv.get("rc") != "0"
        # the observed events judged by the extracted spec
        if sev is not None and kv.get("rc") == "0":
            expect = "clean" if (name in CLEAN_ON_FAILURE and kv.get("res") != "nofail") else "nolock"
            spec_in.append("%s | %s" % (expect, " ".join(sev)))
            spec_idx.append(len(results))
        results.append([name, fmt, line, mline, kv, sy, site, caller, cev, m, injected])
        run.note_case("%s %s %s %s" % (name, fmt, site, caller), injected)
        run.count("scenario-" + name)
        if injected:
            run.count("outcome-" + (kv.get("res", "?").split(":")[0] if kv.get("rc") == "0" else "died"))
    if spec_in:
        verd = core.run_model("oom-spec", run.casefile("oom-spec.txt", spec_in))
        run.count("spec-traces-judged", len(verd))
        # a lock-discipline problem that shows without any injected failure is not an
        # out-of-memory matter (it is C15's): only what the failure changes is judged here
        def key(r):
            w = r[2].split()
            return (r[0], r[1], tuple(w[:1] + w[2:]))
        basev = {}
        for j, v in zip(spec_idx, verd):
            if not results[j][10]:
                basev[key(results[j])] = v
                if v != "ok":
                    run.count("baseline-not-ok-by-spec(left to C15)")
        for j, v in zip(spec_idx, verd):
            if v != "ok" and results[j][10] and basev.get(key(results[j]), "ok") != v:
                results[j][5].append("spec:" + v.replace(" ", "_"))
    judge_map_steps(run, results)
    sites = set()
    reported = 0
    for name, fmt, line, mline, kv, sy, site, caller, cev, m, injected in results:
        if injected:
            sites.add(site)
        tie_bad = None
        if m is not None and kv.get("rc") == "0":
            mk = dict(t.split("=", 1) for t in m.split(" ") if "=" in t)
            cres = "0" if kv.get("res") in ("reported",) else "1"
            if kv.get("res", "").startswith("missed"):
                cres = "1"
            if mk.get("ev") != cev or (mk.get("res") != cres and kv.get("res") != "nofail") \
                    or (kv.get("res") == "nofail") != (mk.get("fl") == "0"):
                tie_bad = {"model": m[:3000], "implementation_events": cev[:3000] if cev else cev}
        if len(run.cov["samples"]) < 6 and injected:
            run.sample({"case": line, "site": site, "result": kv.get("res"), "events": (cev or "")[:300]})
        if sy or tie_bad:
            if reported < 400:
                report(run, exe, name, fmt, line, kv, sy, tie_bad, mline, site, caller)
                reported += 1
    run.cov["histogram"]["distinct-failing-sites"] = len(sites)


def judge_map_steps(run, results):
    """wb_map_seq: every step judged by the C10 spec (engine map-spec: a NOMEM step must leave the
    exposed range list bit-identical, a successful one must change exactly the range) and compared
    with the C10 model (engine map) under the same allocation outcome"""
    from .c10 import spec_lines, hexs
    spec_in, owner, model_in, mowner = [], [], [], []
    for idx, r in enumerate(results):
        name, line, kv = r[0], r[2], r[4]
        if name != "wb_map_seq" or kv.get("rc") != "0" or "mapsteps" not in kv:
            continue
        hist = line.split()[2].split(",")
        steps = [x for x in kv["mapsteps"].split(";") if x]
        if len(steps) != len(hist):
            r[5].append("map:steps-missing")
            continue
        ops, outs = [], []
        for h, st in zip(hist, steps):
            a, e, m = h.split(":")
            o, _, after = st.partition("=")
            ok = 0 if o == "S4" else 1
            ops.append("S:%s:%s:%s:%d" % (a, e, hexs(int(m)), ok))
            outs.append((o, after))
        sl = spec_lines(ops, outs)
        spec_in += sl
        owner += [idx] * len(sl)
        model_in.append(" ".join(ops))
        mowner.append((idx, " ".join("%s=%s;" % (o, a) for o, a in outs)))
    if not spec_in:
        return
    verd = core.run_model("map-spec", run.casefile("oom-map-spec.txt", spec_in))
    run.count("map-steps-judged-by-C10-spec", len(verd))
    for i, v in zip(owner, verd):
        if v != "ok" and not any(x.startswith("map-spec:") for x in results[i][5]):
            results[i][5].append("map-spec:" + v.replace(" ", "_"))
    model = core.run_model("map", run.casefile("oom-map-model.txt", model_in))
    for (i, impl), m in zip(mowner, model):
        if m != impl and not results[i][5]:
            results[i][5].append("map-model:steps-differ-from-MapModel.run")


def report(run, exe, name, fmt, line, kv, sy, tie_bad, mline, site="-", caller="-"):
    sig_sy = ",".join(re.sub(r"\d+_(block|lock)", r"\1", re.sub(r"\*\d+", "", s)) for s in sy) if sy else "tie"
    sig = "oom scenario=%s fmt=%s site=%s<-%s symptom=%s" % (name, fmt, site, caller, sig_sy)
    # one report per distinct signature
    if not hasattr(run, "_seen_sigs"):
        run._seen_sigs = set()
    if sig in run._seen_sigs:
        return
    run._seen_sigs.add(sig)
    replay = {"engine": "oom", "scenario": name, "format": fmt, "case": line, "model": mline,
              "failing_call_site": site, "its_caller": caller, "driver_line": {k: v[:400] for k, v in kv.items()},
              "how": "bin/check C18 --replay <this file> re-runs the case through harness/oom_drv.c "
                     "(OOM_VERBOSE=1 prints the sanitizer report)"}
    if tie_bad:
        replay.update(tie_bad)
    if sy and all(x.startswith("map-model:") for x in sy):
        run.violation("tie", "correspondence oom (addrxlat_map_set history vs MapModel.run) broken for case: %s" % line,
                      replay, found_input=False, signature=sig)
    elif sy:
        run.violation("impl", "allocation failure at %s (called from %s) in scenario %s/%s: %s"
                      % (site, caller, name, fmt, "; ".join(sy)[:300]), replay, found_input=True, signature=sig)
    else:
        run.violation("tie", "correspondence oom (event trace of %s vs OomModel) broken for case: %s"
                      % (name, line), replay, found_input=False, signature=sig)
