"""C11 — flattened and split packaging do not change what a dump contains.

Theorems: coq/theories/Properties_C11.v (models Flat/FlatModel.v, Flat/SplitModel.v; specs
Flat/FlatSpec.v, Flat/SplitSpec.v).

Tie, engine "flat" (harness/flat_drv.c): byte streams (well-formed flattened streams made by
the flattener in lib/kdv/flatten.py with random record sizes / order / stale rewrites / holes,
plain files, and malformed streams) are opened with the real flatmap_init on a real file cache
and read with the real flatmap_pread / flatmap_get_chunk; the same cases run through the
extracted model.  Compared: open status, the offset map with the per-segment deltas, every
read's status, bytes, the exact (position, length) of each underlying cache access, and the
buffer balance of get_chunk.  The implementation is also judged by the extracted *spec*
(engine "flat-spec"): reads against [rearrange records], streams against [encode records],
plain files against the zero-extended file, split-set owners against [spec_owner].

Engine "diskset" (harness/diskset_drv.c, #include of sadump.c): the disk-extent walk of
sadump_read_page vs DiskSetModel.walk, judged by DiskSetSpec.loc_spec.

Engine "flat-e2e" (harness/flat_e2e.c, public API only): see lib/kdv/c11_e2e.py."""
import itertools

from .. import core
from .. import flatten as fl

WRAP = ["-Wl,--wrap=_kdumpfile_priv_fcache_pread,--wrap=_kdumpfile_priv_fcache_get_chunk",
        "-Wl,--wrap=malloc,--wrap=calloc,--wrap=realloc,--wrap=free"]


def hexs(v):
    return ("-%x" % -v) if v < 0 else ("%x" % v)


# ----------------------------------------------------------------------------
# case generation
# ----------------------------------------------------------------------------

def rand_bytes(rng, n, zeros=0.0):
    if rng.random() < zeros:
        return bytes(n)
    return bytes(rng.randrange(1, 256) if rng.random() < 0.9 else 0 for _ in range(n))


def gen_plain(rng):
    """A small 'plain file' with zero stretches."""
    parts = []
    for _ in range(rng.randint(1, 6)):
        parts.append(rand_bytes(rng, rng.choice([1, 2, 7, 16, 31, 64, 100, rng.randint(1, 300)]),
                                zeros=0.3))
    return b"".join(parts)


def gen_records(rng):
    """(records, kind): records in stream order."""
    k = rng.random()
    if k < 0.55:
        plain = gen_plain(rng)
        base = rng.choice([0, 0, 0, 1, 4096, 0x12345, 1 << 32, (1 << 40) + 7, (1 << 62) - 5000])
        recs = [(p + base, d) for p, d in fl.segment(rng, plain)]
        return recs, "segmented"
    if k < 0.75:
        # free-form: arbitrary overlapping writes, later ones win
        recs = []
        top = rng.choice([64, 300, 5000])
        for _ in range(rng.randint(1, 10)):
            p = rng.randrange(0, top)
            recs.append((p, rand_bytes(rng, rng.choice([1, 2, 8, 33, rng.randint(1, 120)]))))
        return recs, "overlapping"
    if k < 0.85:
        # many one- and two-byte records: the offset array is reallocated (ALLOC_INC = 32)
        n = rng.choice([31, 32, 33, 64, 65, 70])
        pos = list(range(0, 3 * n, 3))
        if rng.random() < 0.7:
            rng.shuffle(pos)
        return [(p, rand_bytes(rng, rng.randint(1, 3))) for p in pos], "many"
    if k < 0.93:
        # far apart (sparse), up to the top of the signed offset range
        recs = []
        for _ in range(rng.randint(1, 4)):
            p = rng.choice([0, 1 << 31, (1 << 32) - 3, 1 << 47, (1 << 63) - 200, (1 << 62) + 11])
            recs.append((p + rng.randint(0, 50), rand_bytes(rng, rng.randint(1, 40))))
        return recs, "sparse"
    return [], "empty"


def gen_ops(rng, recs, flen, n):
    """Reads around record boundaries, across records, into holes, past the end."""
    pts = {0, 1, flen}
    for p, d in recs:
        pts |= {p, p + len(d), p - 1, p + len(d) - 1, p + len(d) // 2}
    pts = sorted(x for x in pts if 0 <= x < (1 << 63) - 1)
    ops = []
    for _ in range(n):
        a = rng.choice(pts) + rng.choice([0, 0, 0, 1, -1, 2, -3, rng.randint(-20, 20)])
        a = max(0, a)
        r = rng.random()
        if r < 0.1:
            ln = 0
        elif r < 0.5:
            b = rng.choice(pts)
            ln = b - a if a < b <= a + 700 else rng.randint(1, 40)
        else:
            ln = rng.choice([1, 2, 4, 8, 16, 24, 64, 200, rng.randint(1, 400)])
        ln = min(ln, (1 << 63) - 1 - a)
        if rng.random() < 0.5:
            ops.append("P:%x:%x" % (a, ln))
        else:
            ops.append("C:%x:%x:%d" % (a, ln, 0 if rng.random() < 0.12 else 1))
    return ops


def gen_malformed(rng):
    """A stream that is not a well-formed flattened file."""
    recs, _ = gen_records(rng)
    recs = recs[:6]
    body = b"".join(fl.record(p, d) for p, d in recs)
    k = rng.randrange(12)
    hdr = fl.header()
    tail = fl.end_marker()
    if k == 0:
        body += fl.s64(-2) + fl.s64(5) + b"abcde"                        # negative offset
    elif k == 1:
        body += fl.s64(rng.randint(0, 100)) + fl.s64(0)                   # zero size
    elif k == 2:
        body += fl.s64(rng.randint(0, 100)) + fl.s64(-rng.randint(1, 1 << 62))   # negative size
    elif k == 3:
        body += fl.s64(rng.choice([0, 5, (1 << 63) - 1])) + \
            fl.s64(rng.choice([(1 << 63) - 1, (1 << 63) - 4096 - len(body) - 16 - rng.randint(0, 3),
                               (1 << 62)])) + b"x"                        # size that overflows / huge
    elif k == 4:
        tail = b""                                                        # no end marker
    elif k == 5:
        tail = tail[:rng.randint(1, 15)]                                  # cut end marker
    elif k == 6:
        hdr = fl.header(type_=rng.choice([0, 2, -1, 1 << 40]))
    elif k == 7:
        hdr = fl.header(version=rng.choice([0, 2, -1]))
    elif k == 8:
        s = bytearray(fl.SIGNATURE)
        s[rng.randrange(16)] ^= 1 << rng.randrange(8)
        hdr = fl.header(signature=bytes(s))                               # a plain file after all
    elif k == 9:
        whole = hdr + body + tail
        return whole[:rng.randint(0, len(whole))], "truncated"
    elif k == 10:
        body += fl.s64(1 << 63) + fl.s64(1)                               # INT64_MIN offset
    else:
        body = body[:max(0, len(body) - rng.randint(1, 24))]              # last record cut short
        tail = b""
    return hdr + body + tail, "malformed%d" % k


def make_case(rng, nops):
    """-> dict(line, recs or None, stream, kind, inject)"""
    k = rng.random()
    fail = "-"
    oracle = "-"
    inject = False
    if k < 0.7:
        recs, kind = gen_records(rng)
        stream = fl.flatten(recs)
        if rng.random() < 0.1:
            stream += rand_bytes(rng, rng.randint(1, 40))        # anything after the end marker
            kind += "+trailer"
        r = rng.random()
        if r < 0.12 and len(stream) > fl.HEADER_SIZE + 32:
            # an unreadable stretch of the stream (I/O error), mostly inside record data
            lo = rng.randrange(fl.HEADER_SIZE, len(stream))
            hi = lo + rng.randint(1, 64)
            fail = "%x:%x:%x" % (lo, hi, rng.choice([1, 1, 3, 7]))
            inject = True
        elif r < 0.24:
            # allocation failure during init
            nalloc = 2 + len(recs) + len(recs) // 32 + 1
            i = rng.randrange(0, nalloc)
            oracle = "1" * i + "0"
            inject = True
        flen = max([p + len(d) for p, d in recs] + [0])
        ops = gen_ops(rng, recs, flen, nops)
    elif k < 0.8:
        recs = None
        stream = gen_plain(rng) if rng.random() < 0.9 else b""
        kind = "plain"
        ops = gen_ops(rng, [(0, stream)], len(stream), nops)
    else:
        recs = None
        stream, kind = gen_malformed(rng)
        ops = gen_ops(rng, [], 64, 3)
        if rng.random() < 0.1:
            oracle = "1" * rng.randrange(0, 6) + "0"
    line = "F %s | %s | %s | %s" % (fl.filespec(stream), fail, oracle, " ".join(ops))
    return {"line": line, "recs": recs, "stream": stream, "kind": kind, "inject": inject,
            "ops": ops, "fail": fail, "oracle": oracle}


def gen_split(rng):
    """Windows with distinct end_pfn (equal ends make qsort's order unspecified); mostly
    well-formed (non-empty, pairwise disjoint), some deliberately not."""
    n = rng.randint(1, 4)
    wf = rng.random() < 0.8
    if wf:
        cuts = sorted(rng.sample(range(0, 400), 2 * n))
        wins = [(cuts[2 * i], cuts[2 * i + 1]) for i in range(n)]
        if rng.random() < 0.5:      # adjacent windows, the usual split
            wins = [(wins[i][0] if i == 0 else wins[i - 1][1], wins[i][1]) for i in range(n)]
        if rng.random() < 0.2:
            wins[-1] = (wins[-1][0], (1 << 64) - 1)
    else:
        ends = rng.sample(range(1, 400), n)
        wins = [(rng.randrange(0, 400), e) for e in ends]
    return wins


def split_lines(rng, wins):
    """Every order of passing the files (file index = position in that order)."""
    probes = {0, 1, (1 << 64) - 1}
    for s, e in wins:
        probes |= {s, e, max(0, s - 1), max(0, e - 1), (s + e) // 2, min((1 << 64) - 1, e + 1)}
    probes = " ".join("%x" % p for p in sorted(probes))
    out = []
    for perm in itertools.permutations(range(len(wins))):
        files = ",".join("%x:%x:%x" % (wins[w][0], wins[w][1], i) for i, w in enumerate(perm))
        out.append(("S %s | %s" % (files, probes), perm))
    return out


# ----------------------------------------------------------------------------
# judging
# ----------------------------------------------------------------------------

def parse_impl(line):
    """-> (open, map, [(kind, status, hex, live, trace)])"""
    toks = line.split(" ")
    if len(toks) < 2 or not toks[0].startswith("open="):
        return None
    res = []
    for t in toks[2:]:
        head, _, trace = t.partition("[")
        kind = head[0]
        st, _, rest = head[1:].partition("=")
        hx, _, live = rest.partition(":l")
        res.append((kind, st, hx, live, trace.rstrip("]")))
    return toks[0][5:], toks[1][4:], res


def spec_lines_for(case, impl_line):
    """Spec-judge lines for one F case, from the implementation's own answers."""
    pi = parse_impl(impl_line)
    if pi is None:
        return ["X unparsable implementation output"]
    opn, _, res = pi
    lines = []
    ops = case["ops"]
    if case["recs"] is not None:
        lines.append("E %s | %s" % (fl.recspec(case["recs"]), fl.filespec(fl.flatten(case["recs"]))))
        if not case["inject"] and opn != "flat0":
            lines.append("X well-formed stream was not opened as flattened: open=" + opn)
    elif case["kind"] == "plain" and opn != "plain":
        lines.append("X plain file opened as: open=" + opn)
    if opn not in ("flat0", "plain") or len(res) != len(ops):
        if opn in ("flat0", "plain"):
            lines.append("X %d results for %d operations" % (len(res), len(ops)))
        return lines
    reads = []
    for op, (kind, st, hx, live, _) in zip(ops, res):
        f = op.split(":")
        legit_fail = case["inject"] or (f[0] == "C" and f[3] == "0")
        if st != "0" and legit_fail:
            if f[0] == "C" and live != "0":
                lines.append("X failed get_chunk left %s buffer(s) allocated (%s)" % (live, op))
            continue
        reads.append("%s:%s:%s:%s" % (f[1], f[2], st, hx))
    if reads:
        if case["recs"] is not None:
            lines.append("R %s | %s" % (fl.recspec(case["recs"]), " ".join(reads)))
        elif case["kind"] == "plain":
            lines.append("L %s | %s" % (fl.filespec(case["stream"]), " ".join(reads)))
    return lines


def run_spec(run, lines):
    todo = [l for l in lines if not l.startswith("X ")]
    verd = core.run_model("flat-spec", run.casefile("flat-spec.txt", todo)) if todo else []
    out = []
    it = iter(verd)
    for l in lines:
        out.append(l[2:] if l.startswith("X ") else next(it))
    return out


def malformed_verdict(case, impl_line):
    """What the property demands of a stream that is not well-formed: init ends with an
    error status (or the file is plain); no crash is checked by the caller."""
    opn = impl_line.split(" ")[0]
    if case["kind"].startswith("malformed") or case["kind"] == "truncated":
        if opn == "open=flat0" and case["kind"] in ("malformed0", "malformed1", "malformed2",
                                                    "malformed3", "malformed10"):
            return "malformed record accepted (%s)" % case["kind"]
    return None


# ----------------------------------------------------------------------------
# the check
# ----------------------------------------------------------------------------

def run_both(run, exe, lines, name="flat-cases.txt"):
    cf = run.casefile(name, lines)
    model = core.run_model("flat", cf)
    impl, crashes = core.run_impl_lines(exe, run.work, lines)
    return model, impl, crashes


def judge_one(run, exe, case):
    """-> (kind, message, detail) or None for one F case (used on suspects and when shrinking)."""
    model, impl, crashes = run_both(run, exe, [case["line"]], "flat-one.txt")
    if crashes:
        rc, err = list(crashes.values())[0]
        return ("impl", "aborts (sanitizer/crash, exit %s)" % rc, err, model, impl)
    sv = [v for v in run_spec(run, spec_lines_for(case, impl[0])) if v != "ok"]
    mv = malformed_verdict(case, impl[0])
    if mv:
        sv.append(mv)
    if sv:
        return ("spec", sv[0], "", model, impl)
    if model != impl:
        return ("tie", "model and implementation differ", "", model, impl)
    return None


def rebuild(case, recs=None, ops=None):
    c = dict(case)
    if recs is not None:
        c["recs"] = recs
        c["stream"] = fl.flatten(recs)
    if ops is not None:
        c["ops"] = ops
    c["line"] = "F %s | %s | %s | %s" % (fl.filespec(c["stream"]), c["fail"], c["oracle"],
                                         " ".join(c["ops"]))
    return c


def shrink_case(run, exe, case, kind):
    def fails_ops(ops):
        j = judge_one(run, exe, rebuild(case, ops=ops))
        return j is not None and j[0] == kind
    ops = case["ops"]
    if len(ops) > 1:
        ops = core.shrink_list(ops, fails_ops, max_tests=60)
    case = rebuild(case, ops=ops)
    if case["recs"] and "+trailer" not in case["kind"] and case["fail"] == "-":
        def fails_recs(recs):
            j = judge_one(run, exe, rebuild(case, recs=recs))
            return j is not None and j[0] == kind
        recs = core.shrink_list(case["recs"], fails_recs, max_tests=60)
        case = rebuild(case, recs=recs)
    return case


def report(run, exe, case):
    j = judge_one(run, exe, case)
    if j is None:
        run.count("unreproducible-disagreement")
        return
    kind = j[0]
    small = shrink_case(run, exe, case, kind)
    j = judge_one(run, exe, small) or j
    kind, msg, detail, model, impl = j
    replay = {"engine": "flat", "case": small["line"], "case_kind": small["kind"],
              "records": fl.recspec(small["recs"]) if small["recs"] else None,
              "model": model, "implementation": impl, "detail": detail[-1500:],
              "how": "bin/check C11 --replay <this file> re-runs the case through harness/flat_drv.c"}
    if kind == "impl":
        sig = "flat crash " + " ".join(l for l in detail.split("\n") if "ERROR" in l or "runtime error" in l
                                       or "SUMMARY" in l)[:300]
        run.violation("impl", "flatmap.c %s on a %s stream: %s" % (msg, small["kind"], small["line"][:300]),
                      replay, found_input=True, signature=sig)
    elif kind == "spec":
        run.violation("spec", "flatmap.c contradicts the specification: %s; case: %s"
                      % (msg, small["line"][:300]), replay, found_input=True, signature="flat spec " + msg)
    else:
        run.violation("tie", "correspondence flat (FlatModel vs flatmap.c) broken: model %s / implementation %s"
                      % (model[0][:200] if model else None, impl[0][:200] if impl else None),
                      replay, found_input=False, signature="flat tie")


def check_flat(run, exe, ncases, nops):
    cases = [make_case(run.rng, nops) for _ in range(ncases)]
    corpus = core.os.path.join(core.VERIF, "corpus", "flat.txt")
    extra = []
    if core.os.path.exists(corpus):
        extra = [l for l in open(corpus).read().split("\n") if l.startswith("F ")]
    run.cov["engines"]["flat"] = {"generated": ncases, "corpus_cases": len(extra)}
    shard = 1500
    for s0 in range(0, len(cases), shard):
        part = cases[s0:s0 + shard]
        model, impl, crashes = run_both(run, exe, [c["line"] for c in part])
        if crashes:
            run.count("impl-abnormal-exit", len(crashes))
        # spec judgement of every case from the implementation's own answers
        spec_in, owner = [], []
        for i, c in enumerate(part):
            if i in crashes or i >= len(impl):
                continue
            sl = spec_lines_for(c, impl[i])
            spec_in += sl
            owner += [i] * len(sl)
        verd = run_spec(run, spec_in)
        run.count("spec-lines-checked", len(spec_in))
        suspects = set(crashes)
        for i, v in zip(owner, verd):
            if v != "ok":
                suspects.add(i)
        for i, c in enumerate(part):
            if i < len(impl) and malformed_verdict(c, impl[i]):
                suspects.add(i)
        suspects |= set(core.diff_lines(model, impl))
        for i, c in enumerate(part):
            pi = parse_impl(impl[i]) if i < len(impl) else None
            run.count("stream-" + c["kind"].split("+")[0])
            if pi:
                run.count("open-" + pi[0])
                for kind, st, hx, live, tr in pi[2]:
                    path = ("direct" if tr.startswith("c") else "copy") if kind == "C" else \
                        ("pieces%d" % min(3, tr.count("r")))
                    run.count("op-%s-st%s-%s" % (kind, st, path))
            nt = bool(pi and pi[0] == "flat0" and len(c["recs"] or []) >= 2) or \
                bool(pi and pi[0] not in ("flat0", "plain"))
            run.note_case(c["line"], nt)
            if s0 == 0 and i < 3:
                run.sample({"case": c["line"][:400], "impl": impl[i][:400] if i < len(impl) else None})
        for i in sorted(suspects)[:4]:
            report(run, exe, part[i])
        if len(run.violations) > 3:
            break
    # corpus lines: model vs implementation only
    if extra:
        model, impl, crashes = run_both(run, exe, extra, "flat-corpus.txt")
        for i in sorted(set(core.diff_lines(model, impl)) | set(crashes))[:3]:
            run.violation("tie", "corpus case disagrees: %s" % extra[i][:300],
                          {"engine": "flat", "case": extra[i], "model": model[i:i + 1],
                           "implementation": impl[i:i + 1]}, found_input=bool(crashes),
                          signature="flat corpus")


def check_split(run, exe, nsets):
    lines, meta = [], []
    for _ in range(nsets):
        wins = gen_split(run.rng)
        for l, perm in split_lines(run.rng, wins):
            lines.append(l)
            meta.append((wins, perm))
    model, impl, crashes = run_both(run, exe, lines, "split-cases.txt")
    run.cov["engines"]["flat"]["split_sets"] = nsets
    run.cov["engines"]["flat"]["split_orders"] = len(lines)
    # spec: owners the implementation answered, against spec_owner on the set as passed
    spec_in = []
    for l, im in zip(lines, impl):
        files = l[2:].split("|")[0].strip()
        answers = " ".join(im.split(" ")[1:])
        spec_in.append("S %s | %s" % (files, answers))
    verd = core.run_model("flat-spec", run.casefile("split-spec.txt", spec_in))
    bad = set(core.diff_lines(model, impl)) | set(crashes)
    bad |= {i for i, v in enumerate(verd) if v != "ok"}
    # order independence, directly on the implementation: same window -> same pfn set
    groups = {}
    for i, (wins, perm) in enumerate(meta):
        ans = {}
        for tok in impl[i].split(" ")[1:]:
            p, _, a = tok.partition("=")
            ans[p] = None if a == "-" else perm[int(a, 16)]
        groups.setdefault(id(wins), []).append((i, ans))
    for g in groups.values():
        wins = meta[g[0][0]][0]
        disjoint = all(a[1] <= b[0] or b[1] <= a[0] for a, b in itertools.combinations(wins, 2)) \
            and all(s < e for s, e in wins)
        if disjoint:
            for i, ans in g[1:]:
                if ans != g[0][1]:
                    bad.add(i)
        run.count("split-%s-%dfiles" % ("wf" if disjoint else "illformed", len(wins)))
    for i, l in enumerate(lines):
        run.note_case(l, len(meta[i][0]) > 1)
    for i in sorted(bad)[:3]:
        sv = verd[i] if i < len(verd) else "?"
        replay = {"engine": "flat", "case": lines[i], "model": model[i:i + 1],
                  "implementation": impl[i:i + 1], "spec_verdict": sv}
        if i in crashes:
            run.violation("impl", "pfn.c sort/find aborts on split set: %s" % lines[i], replay,
                          found_input=True, signature="split crash")
        elif sv != "ok":
            run.violation("spec", "split set: %s; files (start:end:index) %s" % (sv, lines[i]), replay,
                          found_input=True, signature="split spec " + sv)
        elif model[i] != impl[i]:
            run.violation("tie", "correspondence flat (SplitModel vs pfn.c sort_pfn_file_maps / "
                          "find_pfn_file_map) broken on %s" % lines[i], replay, found_input=False,
                          signature="split tie")
        else:
            run.violation("spec", "the owner of a PFN depends on the order of the files: %s" % lines[i],
                          replay, found_input=True, signature="split order")


def gen_diskset(rng):
    """Extents of a disk set (data_pos, data_len, fidx) - lengths include 0 (a disk without
    page data) - and positions at, just below and just above every extent boundary."""
    n = rng.randint(1, 5)
    order = list(range(n))
    rng.shuffle(order)                      # file index of disk k: any order of passing
    exts = []
    total = 0
    probes = {0, 1}
    for k in range(n):
        ln = rng.choice([0, 0x1000, 0x2000, 0x5000, 0x1000 * rng.randint(1, 300), rng.randint(1, 0x9000)])
        dp = rng.choice([0x1000, 0x3000, 0x1000 * rng.randint(1, 40), rng.randint(0, 0x8000)])
        if rng.random() < 0.03:
            ln = (1 << 62) - rng.randint(0, 0x2000)
        exts.append((dp, ln, order[k]))
        total += ln
        probes |= {total, max(0, total - 1), total + 1, max(0, total - 0x1000), total + 0x1000,
                   max(0, total - ln // 2)}
    probes |= {total + rng.randint(0, 1 << 40), (1 << 63) - 1 - rng.randint(0, 5) if rng.random() < 0.05 else 0}
    probes = sorted(p for p in probes if 0 <= p < (1 << 63))[:60]
    return "D %s | %s" % (",".join("%x:%x:%x" % e for e in exts), " ".join("%x" % p for p in probes))


def check_diskset(run, nsets):
    """Engine "diskset": the extent walk of sadump_read_page vs DiskSetModel.walk, judged by
    DiskSetSpec.loc_spec."""
    exe = run.need_cc("diskset_drv", "diskset_drv.c", sources=core.lib_sources(exclude=("sadump.c",)),
                      flags=["-Wl,--wrap=_kdumpfile_priv_fcache_pread"])
    if exe is None:
        return
    lines = [gen_diskset(run.rng) for _ in range(nsets)]
    corpus = core.os.path.join(core.VERIF, "corpus", "flat.txt")
    if core.os.path.exists(corpus):
        lines = [l for l in open(corpus).read().split("\n") if l.startswith("D ")] + lines
    model, impl, crashes = run_both(run, exe, lines, "diskset-cases.txt")
    spec_in = ["D %s | %s" % (l[2:].split("|")[0].strip(), im) for l, im in zip(lines, impl)]
    verd = core.run_model("flat-spec", run.casefile("diskset-spec.txt", spec_in))
    run.cov["engines"]["diskset"] = {"extent_sets": len(lines),
                                     "positions": sum(len(l.split("|")[1].split()) for l in lines)}
    for l, im in zip(lines, impl):
        n = len(l[2:].split("|")[0].split(","))
        run.count("diskset-%ddisks" % n)
        run.count("diskset-answers-nodata", im.count("=nodata"))
        run.note_case(l, n > 1)
    bad = sorted(set(core.diff_lines(model, impl)) | set(crashes) | {i for i, v in enumerate(verd) if v != "ok"})
    for i in bad[:3]:
        sv = verd[i] if i < len(verd) else "?"
        replay = {"engine": "diskset", "case": lines[i], "model": model[i:i + 1],
                  "implementation": impl[i:i + 1], "spec_verdict": sv,
                  "how": "bin/check C11 --replay <this file> re-runs the case through harness/diskset_drv.c"}
        if i in crashes:
            run.violation("impl", "sadump_read_page aborts on extents: %s" % lines[i][:300], replay,
                          found_input=True, signature="diskset crash")
        elif sv != "ok":
            run.violation("spec", "SADUMP disk set: %s; extents (data_pos:data_len:fidx) %s"
                          % (sv, lines[i][:300]), replay, found_input=True, signature="diskset spec " + sv)
        else:
            run.violation("tie", "correspondence diskset (DiskSetModel.walk vs sadump_read_page) broken on %s"
                          % lines[i][:300], replay, found_input=False, signature="diskset tie")


def check(run):
    run.trusted += [
        "modelled, not verified: the file cache below flatmap.c (fcache_pread / fcache_get_chunk are a "
        "Section variable: a function of (position, length)); malloc/realloc/calloc (an oracle answer "
        "per call); qsort (insertion sort in the model; theorems assume distinct end_pfn)",
        "harness/flat_drv.c intercepts fcache_pread, fcache_get_chunk, malloc, calloc, realloc, free "
        "with ld --wrap (no source change); the white-box run uses the read(2) policy of the file cache",
        "harness/diskset_drv.c (#include of sadump.c; builds sadump_priv / one-page regions by hand and "
        "intercepts fcache_pread); reading the SADUMP header fields from the file is exercised end to end "
        "only; the checks on the fields are modelled (DiskSetModel.probe_set) and tied through the status of "
        "kdump_open_fdset, with the header fields taken from the configuration given to tests/mksadump",
        "lib/kdv/flatten.py (the flattener used to produce streams; its output is compared with "
        "FlatSpec.encode on every well-formed case)"]
    run.assumptions += [
        "file positions and lengths passed to flatmap_pread / flatmap_get_chunk satisfy 0 <= pos, "
        "pos + len <= 2^63 (off_t)",
        "a flattened stream has fewer than 2^31 records (segidx is stored in an int method index)",
        "split windows [start_pfn, end_pfn) are non-empty and pairwise disjoint (DESIGN section 8 (iii))",
        "a SADUMP disk set is complete (disk numbers 1..n, each once), extent lengths are non-negative and "
        "data areas consist of whole pages",
        "the plain twin of a flattened file is read with zero bytes past its end, as the read(2) path "
        "of fcache.c delivers them"]
    run.check_coq()
    if not run.need_ml():
        return
    exe = run.need_cc("flat_drv", "flat_drv.c", sources=core.lib_sources(), flags=WRAP)
    if exe is None:
        return
    quick = run.tier == "quick"
    if run.replay_path:
        rp = core.json.load(open(run.replay_path))["replay"]
        if rp.get("engine") == "flat-e2e":
            from .. import c11_e2e
            c11_e2e.replay(run, rp)
            return
        if rp.get("engine") == "diskset":
            dexe = run.need_cc("diskset_drv", "diskset_drv.c",
                               sources=core.lib_sources(exclude=("sadump.c",)),
                               flags=["-Wl,--wrap=_kdumpfile_priv_fcache_pread"])
            if dexe is None:
                return
            line = rp["case"]
            model, impl, crashes = run_both(run, dexe, [line], "diskset-replay.txt")
            print("model:          " + (model[0] if model else ""))
            print("implementation: " + (impl[0] if impl else ""))
            sv = "crash"
            if impl and not crashes:
                sv = core.run_model("flat-spec", run.casefile(
                    "diskset-spec.txt", ["D %s | %s" % (line[2:].split("|")[0].strip(), impl[0])]))[0]
            if sv != "ok":
                run.violation("spec", "replayed disk-set case still fails: " + sv, rp, found_input=True,
                              signature="diskset replay " + sv)
            elif model != impl:
                run.violation("tie", "replayed disk-set case: model and implementation differ", rp,
                              found_input=False, signature="diskset replay tie")
            return
        line = rp["case"]
        model, impl, crashes = run_both(run, exe, [line], "flat-replay.txt")
        print("model:          " + (model[0] if model else ""))
        print("implementation: " + (impl[0] if impl else ""))
        if line.startswith("F "):
            f = [x.strip() for x in line[2:].split("|")]
            case = {"line": line, "recs": None, "stream": b"", "kind": rp.get("case_kind", "replay"),
                    "inject": f[1] != "-" or f[2] != "-", "ops": f[3].split(), "fail": f[1], "oracle": f[2]}
            if rp.get("records"):
                case["recs"] = [(int(t.split(":")[0], 16), bytes.fromhex(t.split(":")[1]))
                                for t in rp["records"].split(",")]
                case["stream"] = fl.flatten(case["recs"])
            j = judge_one(run, exe, case)
            if j:
                run.violation(j[0], "replayed case still fails: " + j[1], rp, found_input=j[0] != "tie",
                              signature="flat replay " + j[1])
        else:
            sv = "ok"
            if impl and not crashes:
                files = line[2:].split("|")[0].strip()
                sv = core.run_model("flat-spec", run.casefile(
                    "split-spec.txt", ["S %s | %s" % (files, " ".join(impl[0].split(" ")[1:]))]))[0]
            if crashes or sv != "ok":
                run.violation("spec", "replayed split case still fails: %s" % (sv if not crashes else "crash"),
                              rp, found_input=True, signature="split replay " + sv)
            elif model != impl:
                run.violation("tie", "replayed split case: model and implementation differ", rp,
                              found_input=False, signature="split replay tie")
        return
    run.cov["rule"] = ("flattened streams with random record sizes / order / stale rewrites / holes / sparse "
                       "positions up to 2^63, plain files and malformed streams, each with reads and chunk "
                       "requests at and around record boundaries, optional I/O error window and allocation "
                       "failure; split sets in every order of 1-4 files; distinct = distinct case lines; "
                       "non-trivial = a flattened stream with at least two records, an error outcome of "
                       "init, or a split set of at least two files")
    check_flat(run, exe, 1500 if quick else 40000, 8 if quick else 12)
    if len(run.violations) <= 3:
        check_split(run, exe, 150 if quick else 4000)
    if len(run.violations) <= 3:
        check_diskset(run, 300 if quick else 20000)
    if len(run.violations) <= 3:
        from .. import c11_e2e
        c11_e2e.check(run)
