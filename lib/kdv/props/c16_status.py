"""C16, second half: statuses.  Engine "errmsg-status" (harness/status_drv.c, which #includes
open.c and links the whole library with the allocator interposed) against the extracted
Err/StatusModel.v; every returned (status, message-present) pair is also judged by the
extracted contract StatusModel.status_msg_ok (engine "errmsg-statusspec")."""
from .. import core
from .. import hangaware

NOPROBE = 0xffffffff
DOC = list(range(0, 10))
NFMT = 11
ALLOC_FLAGS = ("-Dmalloc=verif_malloc", "-Dcalloc=verif_calloc", "-Drealloc=verif_realloc")


def shex(v):
    return ("-%x" % -v) if v < 0 else ("%x" % v)


def gen_cases(rng, quick):
    cases = []
    # status maps: every documented value of either enumeration, the custom range, and outsiders
    for s in list(range(-12, 12)) + [-0x7fffffff, -100, 100, 0x7fffffff]:
        cases.append("S:" + shex(s))
    # probe loop
    n = 300 if quick else 6000
    for _ in range(n):
        k = rng.random()
        res = []
        stop = rng.randint(0, NFMT) if k < 0.8 else NFMT
        for i in range(NFMT):
            if i < stop:
                res.append(NOPROBE)
            elif i == stop:
                res.append(rng.choice(DOC + [0, 0]))
            else:
                res.append(rng.choice(DOC + [NOPROBE]))
        cases.append("O:" + ",".join("%x" % r for r in res))
    # messages crossing the library boundary in both directions, with printf-like sequences in them
    texts = ["100%cpu (%5d retries)", "%s", "%d%%", "rate 5% of %lu", "%%", "plain text", "%x %c %p %g",
             "a%sb%sc%s%s%s%s%s%s", "%5.3f%-10s", "tail%"]
    for i, t in enumerate(texts):
        for st in ("4", "3", "5", "9", "-3", "-9", "-64", "2"):  # not 1: kdump_err adds strerror for KDUMP_ERR_SYSTEM
            old = "" if (i + len(st)) % 2 else rng.choice(["earlier: 50%", "old %s text", "x"])
            cases.append("X:%s:%s:%s" % (st, t.encode().hex(), old.encode().hex() or "-"))
    for nrows in (0, 1, 2, 3, 0, 7):
        cases.append("V:%d" % nrows)
    return cases


def build(run):
    return run.need_cc("status_drv", "status_drv.c", sanitize=True, libs=True,
                       sources=core.lib_sources(exclude=("open.c",)), flags=ALLOC_FLAGS)


def judge(run, exe, cases, model, impl, crashes):
    spec_in = []
    idx = []
    for i, (c, l) in enumerate(zip(cases, impl)):
        f = l.split()
        if l.startswith(("CRASH", "NOT-RUN")) or len(f) < 2:
            continue
        spec_in.append("%s %s" % (c, l))
        idx.append(i)
    verd = core.run_model("errmsg-statusspec", run.casefile("status-spec.txt", spec_in)) if spec_in else []
    spec_bad = {}
    for j, v in enumerate(verd):
        if v != "ok":
            spec_bad.setdefault(idx[j], v)
    run.count("status-returns-judged", len(spec_in))
    impl_cmp = [" ".join(l.split()[:2]) if c[0] == "P" else l for c, l in zip(cases, impl)]
    bad = [i for i in core.diff_lines(model, impl_cmp) if not model[i].startswith("any")]
    for i in sorted(set(bad) | set(spec_bad) | set(crashes))[:6]:
        c = cases[i]
        rc, err = crashes.get(i, (0, ""))
        replay = {"engine": "errmsg-status", "case": c, "model": model[i] if i < len(model) else None,
                  "implementation": impl[i] if i < len(impl) else None, "impl_exit": rc,
                  "impl_stderr_tail": err[-1500:], "spec_verdict": spec_bad.get(i),
                  "how": "bin/check C16 --replay <this file> re-runs the case through harness/status_drv.c"}
        if i in crashes:
            run.violation("impl", "status plumbing: sanitizer/crash (exit %s) on %s" % (rc, c), replay,
                          found_input=True, signature="status crash %s %s" % (c[0], err[-300:]))
        elif i in spec_bad:
            run.violation("spec", "status contract broken on %s: %s (implementation says '%s')"
                          % (c, spec_bad[i], impl[i]), replay, found_input=True,
                          signature="status spec %s %s" % (c[0], spec_bad[i]))
        else:
            run.violation("tie", "correspondence errmsg-status (StatusModel vs util.c/open.c/vmcoreinfo.c) "
                          "broken on %s: model '%s' implementation '%s'" % (c, model[i], impl[i]), replay,
                          found_input=False, signature="status tie " + c[0])


def run_cases(run, exe, cases):
    model = core.run_model("errmsg-status", run.casefile("status-cases.txt", cases))
    impl, crashes = hangaware.run_lines(exe, run.work, cases)
    return model, impl, crashes


def check(run):
    exe = build(run)
    if exe is None:
        return
    quick = run.tier == "quick"
    cases = gen_cases(run.rng, quick)
    # allocation sweep over init_cpu_prstatus: learn the number of allocations, then fail each
    m0, i0, c0 = run_cases(run, exe, ["P:-1"])
    nalloc = 0
    try:
        nalloc = int(i0[0].split()[2])
    except (IndexError, ValueError):
        pass
    cases += ["P:%d" % k for k in range(-1, nalloc)]
    run.cov["engines"]["errmsg-status"] = {"generated": len(cases), "prstatus_allocations": nalloc}
    model, impl, crashes = run_cases(run, exe, cases)
    for c, l in zip(cases, impl):
        run.note_case(c, c[0] != "S")
        run.count("status-" + c[0] + "-" + (l.split()[0] if l.split() else "?"))
    run.sample({"case": cases[-1], "impl": impl[-1]})
    judge(run, exe, cases, model, impl, crashes)


def replay(run, rp):
    exe = build(run)
    if exe is None:
        return
    cases = [rp["case"]]
    model, impl, crashes = run_cases(run, exe, cases)
    print("model:          " + model[0])
    print("implementation: " + impl[0])
    judge(run, exe, cases, model, impl, crashes)
