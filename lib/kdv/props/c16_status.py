def check(run):
    pass
def replay(run, rp):
    pass
