"""C14 — derived views of dump metadata stay coherent with their source.

Theorems: coq/theories/Properties_C14.v (models Attr/Hooks.v, Attr/Derived.v,
Attr/Vmcoreinfo.v; spec Attr/DerivedSpec.v).
Tie: engine "derived" — operation histories replayed on real contexts through the
public API (harness/derived_drv.c) and on the extracted models:
  * page size / page shift set and clear sequences with arbitrary values,
  * release strings and linux.version_code,
  * adversarial VMCOREINFO texts set as <os>.vmcoreinfo.raw, read back through the
    attribute tree and kdump_vmcoreinfo_raw/line/symbol,
  * register reads/writes, blob writes/resizes/replacements/clears and byte-order
    changes on an in-memory ELF core with one NT_PRSTATUS note, for every
    architecture with a register table, both byte orders.
Search: every answer of the implementation is judged by the extracted spec
(engine "derived-spec")."""
from .. import core

M64 = (1 << 64) - 1


def hexb(b):
    return b.hex() if b else "-"


# ---------------------------------------------------------------------------
# register layouts, written from the ELF core ABI of each architecture
# (struct elf_prstatus / user_regs of the Linux kernel), not from libkdumpfile
# ---------------------------------------------------------------------------

def _regs(base, width, names):
    return [("reg." + n, base + width * i, width) for i, n in names]


def _seq(names):
    return list(enumerate(names))


PID64, REG64 = 32, 112       # pr_pid, pr_reg in the 64-bit struct elf_prstatus
PID32, REG32 = 24, 72        # ... in the 32-bit one

ARCHS = {
    "aarch64": dict(machine=183, cls=2, size=REG64 + 34 * 8, defs=_regs(REG64, 8, _seq(
        ["x%d" % i for i in range(30)] + ["lr", "sp", "pc", "pstate"])) + [("pid", PID64, 4)]),
    "arm": dict(machine=40, cls=1, size=REG32 + 18 * 4, defs=_regs(REG32, 4, _seq(
        ["r%d" % i for i in range(16)]) + [(11, "fp"), (12, "ip"), (13, "sp"), (14, "lr"), (15, "pc"),
                                            (16, "cpsr"), (17, "orig_r0")]) + [("pid", PID32, 4)]),
    "ia32": dict(machine=3, cls=1, size=REG32 + 17 * 4, defs=_regs(REG32, 4, _seq(
        ["ebx", "ecx", "edx", "esi", "edi", "ebp", "eax", "ds", "es", "fs", "gs", "orig_eax", "eip",
         "cs", "eflags", "esp", "ss"])) + [("pid", PID32, 4)]),
    "ppc64": dict(machine=21, cls=2, size=REG64 + 48 * 8 + 4, defs=_regs(REG64, 8, _seq(
        ["r%d" % i for i in range(32)] + ["pc", "msr", "or3", "ctr", "lr", "xer", "ccr", "softe", "trap",
                                          "dar", "dsisr", "res"])) + [("pid", PID64, 4)]),
    "riscv64": dict(machine=243, cls=2, size=REG64 + 33 * 8, defs=_regs(REG64, 8, _seq(
        ["pc", "ra", "sp", "gp", "tp", "t0", "t1", "t2", "s0", "s1", "a0", "a1", "a2", "a3", "a4", "a5",
         "a6", "a7", "s2", "s3", "s4", "s5", "s6", "s7", "s8", "s9", "s10", "s11", "t3", "t4", "t5",
         "t6"])) + [("pid", PID64, 4)]),
    "s390x": dict(machine=22, cls=2, size=REG64 + 16 + 16 * 8 + 16 * 4 + 8, defs=(
        [("reg.pswm", REG64, 8), ("reg.pswa", REG64 + 8, 8)]
        + [("reg.r%d" % i, REG64 + 16 + 8 * i, 8) for i in range(16)]
        + [("reg.a%d" % i, REG64 + 16 + 128 + 4 * i, 4) for i in range(16)]
        + [("reg.orig_gpr2", REG64 + 16 + 128 + 64, 8), ("pid", PID64, 4)])),
    "x86_64": dict(machine=62, cls=2, size=REG64 + 27 * 8, defs=_regs(REG64, 8, _seq(
        ["r15", "r14", "r13", "r12", "rbp", "rbx", "r11", "r10", "r9", "r8", "rax", "rcx", "rdx", "rsi",
         "rdi", "orig_rax", "rip", "cs", "rflags", "rsp", "ss", "fs_base", "gs_base", "ds", "es", "fs",
         "gs"])) + [("pid", PID64, 4)]),
}


def rand_bytes(rng, n):
    return bytes(rng.randrange(256) for _ in range(n))


def gen_reg(rng, maxops):
    name = rng.choice(sorted(ARCHS))
    a = ARCHS[name]
    be = rng.randrange(2)
    size = a["size"] + rng.choice([0, 0, 0, 1, 4, 8, 16])
    blob = rand_bytes(rng, size)
    defs = a["defs"]
    ops = []
    cur = size

    def reg():
        return rng.randrange(len(defs))

    def val(i):
        w = defs[i][2]
        return rng.choice([0, 0, 1, (1 << (8 * w)) - 1, (1 << (8 * w)) & M64, rng.getrandbits(64),
                           rng.getrandbits(8 * w), M64])
    for _ in range(rng.randint(2, maxops)):
        k = rng.random()
        if k < 0.22:
            ops.append("G:%d" % reg())
        elif k < 0.47:
            i = reg()
            ops.append("S:%d:%x" % (i, val(i)))
            if rng.random() < 0.5:
                ops.append("G:%d" % i)
        elif k < 0.52:
            ops.append("C:%d" % reg())
        elif k < 0.70:
            # write into the blob, aimed at a register window
            i = reg()
            off = max(0, defs[i][1] + rng.randint(-2, 2))
            n = rng.choice([1, 2, defs[i][2], defs[i][2] + 1, 8])
            ops.append("W:%d:%s" % (off, hexb(rand_bytes(rng, n))))
            r = rng.random()
            if r < 0.35:
                ops.append("G:%d" % i)
            elif r < 0.6:
                # read, overwrite the bytes, write the old value back, read again
                ops[-1:] = ["G:%d" % i, ops[-1], "S:%d:OLD" % i, "G:%d" % i]
        elif k < 0.78:
            n = rng.choice([0, 1, defs[reg()][1] + rng.randint(0, 8), cur, cur + 8, a["size"]])
            ops.append("Z:%s" % hexb(rand_bytes(rng, n)))
            cur = n
        elif k < 0.85:
            n = rng.choice([0, defs[reg()][1] + rng.randint(0, 8), a["size"], a["size"] + 4])
            ops.append("P:%s" % hexb(rand_bytes(rng, n)))
            cur = n
        elif k < 0.89:
            ops.append("X")
        elif k < 0.94:
            ops.append("B")
        else:
            ops.append("O:%d" % rng.randrange(2))
    ops += ["G:%d" % reg() for _ in range(3)] + ["B"]
    # every read / write also through a reference or an iterator position, never preceded by a
    # by-key read of the same attribute (the view must be revalidated on every access path)
    def alt(o):
        x = rng.random()
        if o.startswith("G:") and x < 0.6:
            return ("GR:" if x < 0.35 else "GI:") + o[2:]
        if o.startswith("S:") and x < 0.4:
            return "SR:" + o[2:]
        return o
    ops = [alt(o) for o in ops]
    head = ["REG", str(a["machine"]), str(a["cls"]), str(be), hexb(blob),
            ",".join("%s:%d:%d" % d for d in defs)]
    return head, ops, name


# ---------------------------------------------------------------------------
# contexts: page size/shift, release, VMCOREINFO
# ---------------------------------------------------------------------------

def gen_page_ops(rng, n):
    ops = []
    for _ in range(n):
        k = rng.random()
        if k < 0.45:
            r = rng.random()
            if r < 0.6:
                v = 1 << rng.randrange(64)
            elif r < 0.8:
                v = ((1 << rng.randrange(64)) + rng.choice([-1, 1, 2, 3])) & M64
            else:
                v = rng.choice([0, 0, 3, M64, 1 << 63, 4096, rng.getrandbits(64), 0x1800])
            ops.append("PS:%x" % v)
        elif k < 0.8:
            r = rng.random()
            if r < 0.7:
                v = rng.randrange(64)
            else:
                v = rng.choice([64, 65, 63, 0, (1 << 32) + 12, M64, 1 << 63, 255, 128, rng.getrandbits(64)])
            ops.append("PH:%x" % v)
        elif k < 0.9:
            ops.append("CS")
        else:
            ops.append("CH")
    return ops


def gen_release(rng):
    r = rng.random()

    def num():
        return rng.choice(["%d" % rng.randrange(10), "%d" % rng.randrange(300), "%d" % rng.randrange(70000),
                           "0%d" % rng.randrange(100), "%d" % rng.getrandbits(rng.choice([16, 40, 64, 70])),
                           "18446744073709551615", "18446744073709551616", "255", "256", "0"])
    if r < 0.6:
        s = "%s.%s.%s%s" % (num(), num(), num(), rng.choice(["", "-rc1", "-default", ".7", "+", " x", "-5.el8"]))
    elif r < 0.75:
        s = rng.choice(["", "5", "5.", "5.4", "5.4.", "a.b.c", "5..4", ".5.4", "5.4.x", "x5.4.3", "5x.4.3", "5.4x.3",
                        "0x5.4.3", "5.0x4.3", "5.4.0x3", "....", "5.4-3.2"])
    else:
        s = rng.choice([" 5.4.3", "-1.2.3", "+1.2.3", "5. 4.3", "5.-4.3", "5.4.+3", "5.4. 3", "\t5.4.3", "5.4.-1",
                        "- 5.4.3", "5 .4.3"])
    return s.encode()


TYPES = [b"SYMBOL", b"LENGTH", b"NUMBER", b"OFFSET", b"SIZE"]
NAMES = [b"x", b"y", b"a", b"a.b", b"a.b.c", b"a.c", b"phys_base", b"", b"init_uts_ns", b"page.flags", b"page",
         b"a)b", b"a(b", b".x", b"x.", b"a..b"]
PLAIN = [b"A", b"B", b"A.B", b"A.B.C", b"A.C", b"KEY1", b"CRASHTIME", b"PAGESIZE", b"OSRELEASE", b"", b"A.", b"A..B",
         b"KERNELOFFSET", b"BUILD-ID", b"lines", b"raw"]
NUMS = [b"10", b"0x10", b"010", b"ff", b"0xff", b"0XFF", b"-1", b"+5", b" 7", b"7 ", b"0x", b"0xg", b"", b"0",
        b"18446744073709551615", b"18446744073709551616", b"99999999999999999999999", b"ffffffffffffffff",
        b"10000000000000000", b"zz", b"1z", b"09", b"-", b"+", b"0x-1", b"-0x10", b"\t12", b"1=2", b"abc", b"1e3"]
PSVALS = [b"4096", b"2048", b"65536", b"1", b"0", b"", b"3", b"4096x", b"-4096", b"0x1000", b" 4096", b"4096 ",
          b"9223372036854775808", b"18446744073709551616", b"12288"]


def gen_key(rng, used):
    r = rng.random()
    if used and r < 0.25:
        return rng.choice(used)
    if r < 0.6:
        t = rng.choice(TYPES) if rng.random() < 0.85 else rng.choice([b"FOO", b"SYMBOLX", b"symbol", b"", b"NUM"])
        n = rng.choice(NAMES)
        tail = b")" if rng.random() < 0.93 else rng.choice([b"", b")x", b"))"])
        return t + b"(" + n + tail
    if r < 0.95:
        return rng.choice(PLAIN)
    return bytes(rng.choice(b"ABab.()_-\x80\xff \t,;[]{}|") for _ in range(rng.randint(1, 6)))


def gen_text(rng, clean):
    """A VMCOREINFO text and the keys/names worth querying.  [clean]: avoid keys that
    cannot coexist in a tree (most texts; the others test the refusal)."""
    lines, used = [], []
    for _ in range(rng.choice([0, 1, 1, 2, 3, 5, 8, 12])):
        k = gen_key(rng, used)
        if k.startswith(b"PAGESIZE") and b"(" not in k:
            v = rng.choice(PSVALS)
        elif k == b"OSRELEASE":
            v = gen_release(rng)
        elif b"(" in k:
            v = rng.choice(NUMS)
        else:
            v = rng.choice(NUMS + [b"some text", b"a=b=c", b"2024-01-01"])
        used.append(k)
        if rng.random() < 0.06:
            lines.append(k)                     # no '='
        else:
            lines.append(k + b"=" + v)
        if rng.random() < 0.04:
            lines.append(b"")
    if not clean and lines and rng.random() < 0.5:
        # a key nested under another key (either order), or a key that starts with a dot
        k = rng.choice([b"A", b"OFFSET(a)", b"SYMBOL(x)", b"K.L", b"NUMBER(a.b)"])
        nested = (k[:-1] + b".z)" if k.endswith(b")") else k + b".z")
        pair = [k + b"=1", nested + b"=2"]
        if rng.random() < 0.5:
            pair.reverse()
        if rng.random() < 0.2:
            pair = [b".dot=1"]
        pos = rng.randint(0, len(lines))
        lines[pos:pos] = pair
    text = b"\n".join(lines)
    if lines and rng.random() < 0.8:
        text += b"\n"
    if clean:
        text = make_clean(text)
    return text, used


def comps(k):
    return k.split(b".")


def clash(a, b):
    a, b = comps(a), comps(b)
    n = min(len(a), len(b))
    return len(a) != len(b) and a[:n] == b[:n]


def make_clean(text):
    """Drop lines whose key clashes with an earlier key (as attribute paths), starts
    with a dot, or is a PAGESIZE line with a number that is not a power of two."""
    out, keys, names = [], [], {}
    body = text[:-1] if text.endswith(b"\n") else text
    if not text:
        return text
    for l in body.split(b"\n"):
        k = l.split(b"=", 1)[0]
        v = l.split(b"=", 1)[1] if b"=" in l else b""
        if k.startswith(b"."):
            continue
        if any(clash(k, q) for q in keys):
            continue
        if k == b"PAGESIZE":
            if v == b"":
                continue
            try:
                n = int(v.decode())
                if v.strip() != v or v[:1] in b"+-" or n == 0 or n & (n - 1) or n >= 1 << 64:
                    continue
            except ValueError:
                pass
        if b"(" in k and k.endswith(b")"):
            t, nm = k[:-1].split(b"(", 1)
            if any(clash(nm, q) for q in names.get(t, [])):
                continue
            names.setdefault(t, []).append(nm)
        keys.append(k)
        out.append(l)
    res = b"\n".join(out)
    if text.endswith(b"\n") and out:
        res += b"\n"
    return res


def gen_ctx(rng, maxops):
    ops = []
    kind = rng.random()
    if kind < 0.3:
        return ["CTX"], gen_page_ops(rng, rng.randint(1, maxops)), "page"
    if kind < 0.45:
        for _ in range(rng.randint(1, 5)):
            r = rng.random()
            if r < 0.6:
                ops.append("REL:" + hexb(gen_release(rng)))
                ops.append(rng.choice(["VC", "VCR", "VCI"]))
            elif r < 0.75:
                ops.append("CREL")
            else:
                ops.append("VC")
        return ["CTX"], ops, "version"
    # VMCOREINFO
    for _ in range(rng.choice([1, 1, 2, 3])):
        os_ = "l" if rng.random() < 0.8 else "x"
        text, used = gen_text(rng, clean=rng.random() < 0.8)
        ops.append("RAW:%s:%s" % (os_, hexb(text)))
        qk = list(used) + [rng.choice(PLAIN), b"A", b"OFFSET(a", b".A"]
        rng.shuffle(qk)
        for k in qk[:rng.randint(1, 5)]:
            if b"\0" not in k:
                ops.append("QL:%s:%s" % (os_, hexb(k)))
        syms = [k[7:-1] for k in used if k.startswith(b"SYMBOL(") and k.endswith(b")")]
        for n in (rng.sample(syms, min(2, len(syms))) + rng.sample(NAMES, 2)):
            ops.append("QS:%s:%s" % (os_, hexb(n)))
        if rng.random() < 0.5:
            ops.append("QR:%s" % os_)
        if rng.random() < 0.4:
            ops.append(rng.choice(["VC", "VCR", "VCI"]))
        if rng.random() < 0.25:
            ops += gen_page_ops(rng, rng.randint(1, 3))
        if rng.random() < 0.2:
            ops += ["CRAW:%s" % os_, "QL:%s:%s" % (os_, hexb(rng.choice(qk))), "QR:%s" % os_]
    return ["CTX"], ops, "vmcoreinfo"


# ---------------------------------------------------------------------------

def line_of(head, ops):
    return " ".join(head + ops)


def fill_old(run, head, ops):
    """Replace S:i:OLD by the value returned by the preceding G:i (from the model)."""
    if not any(o.endswith(":OLD") for o in ops):
        return ops
    tmp = [o if not o.endswith(":OLD") else o[:-3] + "0" for o in ops]
    out = core.run_model("derived", run.casefile("derived-old.txt", [line_of(head, tmp)]))[0].split()
    res = []
    for j, o in enumerate(ops):
        if o.endswith(":OLD"):
            i = o.split(":")[1]
            v = "0"
            for jj in range(j - 1, -1, -1):
                if ops[jj] == "G:" + i and out[jj].startswith("0:"):
                    v = out[jj][2:]
                    break
            res.append("S:%s:%s" % (i, v))
        else:
            res.append(o)
    return res


def check(run):
    run.trusted += ["modelled, not verified: glibc strtoul/strtoull (Attr/AttrBase.v strtoull, \"C\" locale, glibc 2.36), "
                    "ffsl, htobe/htole, <linux/version.h> KERNEL_VERSION as installed (sublevel saturates at 255)",
                    "register offsets in the check are written from the ELF core ABI (lib/kdv/props/c14.py ARCHS)",
                    "the attribute hash table is abstracted to path resolution (any hash function)"]
    run.assumptions += ["VMCOREINFO texts, keys and release strings contain no NUL byte (they are C strings)",
                        "numeric attribute values fit kdump_num_t (64 bits)",
                        "queries to kdump_vmcoreinfo_line/symbol whose key starts with '.' are outside the spec "
                        "(a leading dot is attribute-path syntax)",
                        "no dump file is open while page size/shift are changed (no cache reallocation hook)",
                        "developed against /repo with fixes/10,11,14,50..56 applied"]
    run.check_coq()
    if not run.need_ml():
        return
    exe = run.need_cc("derived_drv", "derived_drv.c", sources=core.lib_sources(), sanitize=True)
    if exe is None:
        return
    quick = run.tier == "quick"
    nctx = 5000 if quick else 100000
    nreg = 1400 if quick else 30000
    maxops = 12 if quick else 20
    if run.replay_path:
        rp = core.json.load(open(run.replay_path))
        case = rp["replay"]["case"].split()
        nh = 1 if case[0] == "CTX" else 6
        cases = [(case[:nh], case[nh:], "replay")]
        model = core.run_model("derived", run.casefile("derived-cases.txt", [" ".join(case)]))
        impl, crashes = core.run_impl_lines(exe, run.work, [" ".join(case)])
        print("model:          " + model[0])
        print("implementation: " + impl[0])
        compare(run, exe, cases, model, impl, crashes)
        return
    cases = []
    corpus = core.os.path.join(core.VERIF, "corpus", "derived.txt")
    if core.os.path.exists(corpus):
        for l in open(corpus).read().split("\n"):
            if l.strip() and not l.startswith("#"):
                w = l.split()
                nh = 1 if w[0] == "CTX" else 6
                cases.append((w[:nh], w[nh:], "corpus"))
    ncorpus = len(cases)
    for _ in range(nctx):
        cases.append(gen_ctx(run.rng, maxops))
    for _ in range(nreg):
        h, o, nm = gen_reg(run.rng, maxops)
        cases.append((h, fill_old(run, h, o), "reg-" + nm))
    run.cov["rule"] = ("one case = one operation history on a fresh real context; distinct = distinct case strings; "
                       "non-trivial = a history with at least one refused value, hook recursion (page), a repeated or "
                       "nested key or a typed line (vmcoreinfo), or a write followed by a read of the other view (reg)")
    run.cov["engines"]["derived"] = {"corpus_cases": ncorpus, "ctx_cases": nctx, "reg_cases": nreg,
                                     "architectures": sorted(ARCHS)}
    shard = 4000
    for s0 in range(0, len(cases), shard):
        part = cases[s0:s0 + shard]
        lines = [line_of(h, o) for h, o, _ in part]
        cf = run.casefile("derived-cases.txt", lines)
        model = core.run_model("derived", cf)
        impl, crashes = core.run_impl_lines(exe, run.work, lines)
        if crashes:
            run.count("impl-abnormal-exit", len(crashes))
        compare(run, exe, part, model, impl, crashes)
        if len(run.violations) > 3:
            break


def nontrivial(kind, ops, out):
    toks = out.split()
    if kind == "page" or kind == "replay":
        return any(t.startswith("4/") for t in toks) or len(ops) > 2
    if kind == "version":
        return any(t.startswith("0:") and t != "0:0" for t in toks)
    if kind == "vmcoreinfo":
        return "=d" in out or "=n" in out or "=a" in out or any(t.startswith("R1") or t.startswith("R4") for t in toks)
    return any(o[0] in "SWZP" for o in ops)


def run_one(exe, run, head, ops):
    l = line_of(head, ops)
    cf = run.casefile("derived-one.txt", [l])
    model = core.run_model("derived", cf)
    rc, out, err = core.run_impl(exe, [cf], timeout=60)
    impl = out.split("\n")[:-1]
    return model, impl, rc, err


def spec_verdict(run, head, ops, implline):
    cf = run.casefile("derived-spec1.txt", [line_of(head, ops) + " || " + implline])
    res = core.run_model("derived-spec", cf)
    return [r for r in res if r != "ok"]


def compare(run, exe, cases, model, impl, crashes):
    lines = [line_of(h, o) for h, o, _ in cases]
    # 1. the implementation's own answers judged by the spec
    sl = [lines[i] + " || " + (impl[i] if i < len(impl) else "") for i in range(len(cases))]
    verd = core.run_model("derived-spec", run.casefile("derived-spec-all.txt", sl))
    spec_bad = {i: v for i, v in enumerate(verd) if v != "ok" and not impl[i].startswith(("CRASH", "NOT-RUN"))}
    run.count("spec-cases-checked", len(sl))
    # 2. model vs implementation
    bad = core.diff_lines(model, impl)
    for i, (h, o, kind) in enumerate(cases):
        out = impl[i] if i < len(impl) else ""
        run.note_case(lines[i], nontrivial(kind, o, out))
        run.count("kind-" + kind)
        for op, t in zip(o, out.split()):
            tag = op.split(":")[0]
            st = t[1:].split("{")[0] if tag in ("RAW", "CRAW") else t.split("/")[0].split(":")[0]
            run.count("op-%s-%s" % (tag, st))
        if i < 2 or (kind.startswith("reg") and len(run.cov["samples"]) < 5):
            run.sample({"case": lines[i][:300], "impl": out[:300]})
    todo = sorted(set(bad) | set(spec_bad) | set(crashes))[:5]
    for i in todo:
        h, ops, kind = cases[i]

        def fails(cand):
            m, im, r, e = run_one(exe, run, h, cand)
            return r != 0 or m != im or bool(im and spec_verdict(run, h, cand, im[0]))
        if not fails(ops):
            run.count("unreproducible-disagreement")
            continue
        small = core.shrink_list(ops, fails)
        # shrink the lines of VMCOREINFO texts as well
        for j, o in enumerate(small):
            if o.startswith("RAW:") and o.split(":")[2] != "-":
                pre, os_, hx_ = o.split(":")
                tl = bytes.fromhex(hx_).split(b"\n")

                def fails_text(cand_lines, j=j, pre=pre, os_=os_):
                    c2 = list(small)
                    c2[j] = "%s:%s:%s" % (pre, os_, hexb(b"\n".join(cand_lines)))
                    return fails(c2)
                if len(tl) > 1 and fails_text(tl):
                    tl = core.shrink_list(tl, fails_text)
                    small[j] = "%s:%s:%s" % (pre, os_, hexb(b"\n".join(tl)))
        m, im, r, e = run_one(exe, run, h, small)
        sv = spec_verdict(run, h, small, im[0]) if im else []
        case = line_of(h, small)
        readable = " ".join(decode_op(o) for o in small)
        replay = {"engine": "derived", "case": case, "readable": readable, "model": m, "implementation": im,
                  "impl_exit": r, "impl_stderr_tail": e[-1500:], "spec_verdicts": sv,
                  "how": "bin/check C14 --replay <this file> re-runs the case through harness/derived_drv.c"}
        where = "%s history: %s" % (kind, readable[:400])
        if r != 0:
            run.violation("impl", "the library aborts (sanitizer/crash, exit %s) on %s" % (r, where),
                          replay, found_input=True, signature="derived crash " + crash_sig(e))
        elif sv:
            run.violation("spec", "the library contradicts the C14 spec: %s; %s" % (sv[0], where), replay,
                          found_input=True, signature="derived spec " + sv[0])
        else:
            run.violation("tie", "correspondence derived (models Attr/Hooks, Derived, Vmcoreinfo vs the attribute "
                          "hooks) broken on %s" % where, replay, found_input=False, signature="derived tie " + kind)


def crash_sig(err):
    for l in err.split("\n"):
        if "ERROR: AddressSanitizer" in l or "runtime error" in l or "LeakSanitizer" in l:
            return l.strip()[-200:]
    return err[-200:]


def decode_op(o):
    f = o.split(":")
    if f[0] in ("RAW", "QL", "QS") and len(f) == 3 and f[2] != "-":
        try:
            return "%s:%s:%r" % (f[0], f[1], bytes.fromhex(f[2]))
        except ValueError:
            return o
    if f[0] == "REL" and len(f) == 2 and f[1] != "-":
        return "REL:%r" % bytes.fromhex(f[1])
    return o
