"""Image synthesisers for the other architectures' Linux set-ups and Xen/x86-64 (engine "sysos",
kind "os"): page tables built with per-format encoders, laid out the way the supported kernels lay
out memory; the library is only given what its sys_<arch> init consumes (options, symbols, numbers,
registers, struct offsets, memory).  No model: these cases are judged by the property alone
(C02's architectural walk from the true root vs MAP_KV_PHYS / MAP_HW, reverse-direct round trip)."""

M64 = (1 << 64) - 1


def ver(a, b, c):
    return (a << 16) + (b << 8) + c


class Fmt:
    """PTE encoders of one format.  Levels: 1 = table whose entries map pages."""

    def __init__(self, name, fields, esz, huge):
        self.name, self.fields, self.esz, self.huge = name, fields, esz, huge

    def lo(self, level):
        return sum(self.fields[:level])

    # --- per-format encoders ------------------------------------------------
    def enc_table(self, level, addr):
        n = self.name
        if n == "x86_64":
            return addr | 0x067
        if n == "ia32":
            return addr | 0x067
        if n == "ia32_pae":
            return addr | (0x001 if level == 3 else 0x067)
        if n == "riscv64":
            return ((addr >> 12) << 10) | 1
        if n.startswith("aarch64"):
            return addr | 3
        if n == "arm":
            return addr | 0x1
        if n == "s390x":
            if level == 2:
                return addr                       # segment-table entry: page-table origin, TT=0
            return addr | ((level - 2) << 2) | 3  # region-table entry: TT, TL=3, TF=0
        raise ValueError(n)

    def enc_leaf(self, level, pa):
        n = self.name
        if n == "x86_64":
            return pa | (0x063 if level == 1 else 0x1e3)
        if n == "ia32":
            return pa | (0x063 if level == 1 else 0x1e3)
        if n == "ia32_pae":
            return pa | (0x063 if level == 1 else 0x1e3)
        if n == "riscv64":
            return ((pa >> 12) << 10) | 0xcf
        if n == "aarch64" or n == "aarch64_lpa":
            return pa | (3 if level == 1 else 1) | 0x700
        if n == "aarch64_lpa2":
            return pa | (3 if level == 1 else 1) | 0x400
        if n == "arm":
            return pa | (0x45e if level == 1 else 0x40e)
        if n == "s390x":
            if level == 1:
                return pa
            return pa | 0x400 | ((level - 2) << 2)
        raise ValueError(n)

    def dec_table(self, level, e):
        n = self.name
        if n in ("x86_64", "ia32_pae"):
            return e & ((1 << 52) - 1) & ~0xfff
        if n == "ia32":
            return e & 0xfffff000
        if n == "riscv64":
            return (e >> 10) << 12
        if n.startswith("aarch64"):
            return e & ((1 << 48) - 1) & ~((1 << self.fields[0]) - 1)
        if n == "arm":
            return e & 0xfffffc00
        if n == "s390x":
            return e & ~0x7ff if level == 2 else e & ~0xfff
        raise ValueError(n)

    def is_leaf(self, level, e):
        n = self.name
        if level == 1:
            return True
        if n in ("x86_64", "ia32", "ia32_pae"):
            return bool(e & 0x80)
        if n == "riscv64":
            return bool(e & 0xe)
        if n.startswith("aarch64"):
            return not e & 2
        if n == "arm":
            return (e & 3) != 1
        if n == "s390x":
            return bool(e & 0x400)
        raise ValueError(n)


class PT:
    """A page-table tree under construction; tables are carved out of physical memory."""

    def __init__(self, fmt, pool):
        self.f = fmt
        self.free = pool
        self.tables = {}                       # phys addr -> (level, {idx: entry})
        self.top = len(fmt.fields) - 1
        self.root = self.alloc(self.top)
        self.leaves = []                       # (va, size_bits, pa)

    def table_bytes(self, level):
        return self.f.esz << self.f.fields[level]

    def alloc(self, level):
        size = self.table_bytes(level)
        al = max(size, 0x400 if self.f.name == "arm" else 0x800 if self.f.name == "s390x" else 0x1000)
        if self.f.name.startswith("aarch64"):
            al = max(al, 1 << self.f.fields[0]) if level < self.top else max(size, 64)
        a = (self.free + al - 1) & ~(al - 1)
        self.free = a + size
        self.tables[a] = (level, {})
        return a

    def idx(self, va, level):
        return (va >> self.f.lo(level)) & ((1 << self.f.fields[level]) - 1)

    def map(self, va, level, pa):
        t = self.root
        for l in range(self.top, level, -1):
            ents = self.tables[t][1]
            i = self.idx(va, l)
            if i in ents:
                if self.f.is_leaf(l, ents[i]):
                    return False
                t = self.f.dec_table(l, ents[i])
            else:
                nt = self.alloc(l - 1)
                ents[i] = self.f.enc_table(l, nt)
                t = nt
        ents = self.tables[t][1]
        i = self.idx(va, level)
        if i in ents:
            return False
        ents[i] = self.f.enc_leaf(level, pa)
        self.leaves.append((va, self.f.lo(level), pa))
        return True

    def map_linear(self, va0, pa0, size, granules):
        """[va0, va0+size) -> [pa0, ..) with the largest allowed granule that fits at each step."""
        done = 0
        while done < size:
            va, pa = va0 + done, pa0 + done
            for g in sorted(granules, reverse=True):
                unit = 1 << self.f.lo(g)
                if va % unit == 0 and pa % unit == 0 and size - done >= unit:
                    break
            else:
                g = min(granules)
                unit = 1 << self.f.lo(g)
            self.map(va & ~(unit - 1), g, pa & ~(unit - 1))
            done += unit

    def words(self):
        """physical cells: [(addr, value)] and zero regions [(addr, len)]"""
        cells, regions = [], []
        for a, (level, ents) in self.tables.items():
            regions.append((a, self.table_bytes(level)))
            for i, e in ents.items():
                cells.append((a + self.f.esz * i, e))
        return cells, regions


def emit_memory(cells, regions, caps, kv_alias):
    """Physical words/regions -> cell tokens for every address space the callback can read.
    kv_alias(pa) -> list of kernel virtual aliases of a physical address."""
    out = []
    for a, v in cells:
        if caps & 2:
            out.append("1:%x=%x" % (a, v))
        if caps & 1:
            out.append("0:%x=%x" % (a, v))
        if caps & 4:
            for va in kv_alias(a):
                out.append("2:%x=%x" % (va, v))
    for a, n in regions:
        if caps & 2:
            out.append("1:%x~%x" % (a, n))
        if caps & 1:
            out.append("0:%x~%x" % (a, n))
        if caps & 4:
            for va in kv_alias(a):
                out.append("2:%x~%x" % (va, n))
    return out


def finish(arch, toks, names, caps, bo, pt, tgt_hint, qs, ps, memtoks, tag, fmtname=None, root_hint=None):
    f = pt.f if pt is not None else None
    hints = []
    if pt is not None:
        rh = root_hint if root_hint is not None else "1:%x" % pt.root
        hints = ["rp=%s" % rh, "fmt=%s" % (fmtname or f.name), "fs=%s" % ",".join("%x" % x for x in f.fields),
                 "tg=%d" % tgt_hint]
    line = ["os", "arch=%s" % arch] + toks + names + ["caps=%x" % caps, "bo=%d" % bo] + hints
    line += ["Q:%x" % (q & M64) for q in sorted(set(qs))] + ["P:%x" % (p & M64) for p in sorted(set(ps))]
    return [(" ".join(line + memtoks), "", tag)]


# ---------------------------------------------------------------------------
# ia32 Linux (non-PAE and PAE)
# ---------------------------------------------------------------------------

def gen_ia32(rng):
    pae = rng.random() < 0.5
    f = Fmt("ia32_pae", [12, 9, 9, 2], 8, (2,)) if pae else Fmt("ia32", [12, 10, 10], 4, (2,))
    D = 0xc0000000
    big = 1 << f.lo(2)
    lowmem = rng.choice([200 << 20, 512 << 20, 896 << 20, rng.randint(16, 220) * big])
    lowmem = min(lowmem, 896 << 20) & ~(big - 1)
    vmalloc_start = D + lowmem + (8 << 20)
    root_pa = rng.choice([0x926000, 0x1c0b000, 0x3a5000]) & ~0xfff
    pt = PT(f, root_pa)
    pt.free = root_pa + 0x4000
    if pae:                                   # the PDPT is 32 bytes; keep further tables page aligned
        pt.free = root_pa + 0x1000
    gran = [2, 1] if rng.random() < 0.4 else [2]
    if 1 in gran:
        pt.map_linear(D, 0, big, [1])
        pt.map_linear(D + big, big, lowmem - big, [2])
    else:
        pt.map_linear(D, 0, lowmem, [2])
    extras = []
    for _ in range(rng.randint(1, 4)):        # vmalloc / fixmap pages: not linear
        v = rng.choice([vmalloc_start + (rng.randint(0, 2000) << 12), 0xfffb0000 + (rng.randint(0, 60) << 12)])
        if v <= 0xfffff000 and pt.map(v, 1, rng.randint(0x100, 0x3ffff) << 12):
            extras.append(v)
    vmsym = rng.choice(["vmap_area_list", "vmlist", "none", "vmap_area_list"])
    toks = ["os=l", "ver=-"]
    rootmode = rng.choice(["cr3", "sym", "opt"])
    names = []
    root_tok = "root=-"
    if rootmode == "cr3":
        names.append("R:cr3=%x" % root_pa)
        # check_pae needs swapper_pg_dir or the rootpgt option when phys_bits is not given
    if rootmode == "opt":
        root_tok = "root=1:%x" % root_pa
    pbits = rng.random() < 0.35
    if rootmode in ("sym", "cr3") :
        names.append("S:swapper_pg_dir=%x" % (D + root_pa))
    toks += [root_tok, "pbits=%x" % ((52 if pae else 32)) if pbits else "pbits=-"]
    data = []                                  # (phys, value) of kernel data structures, in lowmem
    if vmsym == "vmap_area_list":
        head = 0x00d53a40
        area = 0x1f4c3c00
        area = min(area, lowmem - 0x1000) & ~0x3f
        o_start, o_list, o_next = rng.choice([(0, 0x20, 0), (4, 0x24, 0), (0, 0x18, 4)])
        names += ["S:vmap_area_list=%x" % (D + head), "O:vmap_area.va_start=%x" % o_start,
                  "O:vmap_area.list=%x" % o_list, "O:list_head.next=%x" % o_next]
        data += [(head + o_next, D + area + o_list), (area + o_start, vmalloc_start)]
    elif vmsym == "vmlist":
        head = 0x00c41e80
        vm = min(0x1e881200, lowmem - 0x1000) & ~0x3f
        o_addr = rng.choice([4, 8])
        names += ["S:vmlist=%x" % (D + head), "O:vm_struct.addr=%x" % o_addr]
        data += [(head, D + vm), (vm + o_addr, vmalloc_start)]
    caps = rng.choice([2, 2, 1, 3, 4])
    cells, regions = pt.words()
    cells += data

    def alias(pa):
        return [D + pa] if pa < lowmem else []
    mem = emit_memory(cells, regions, caps, alias)
    qs = [D, D + lowmem - 1, D + lowmem, D + lowmem - 0x1000, D + 0x1000, D + big - 1, D + big, D - 1, 0xbffff000,
          vmalloc_start - 1, vmalloc_start, 0xffffffff, 0xfffff000, D + root_pa] + extras
    for _ in range(6):
        qs.append(D + rng.randint(0, lowmem - 1))
    ps = [0, lowmem - 1, lowmem, lowmem + (8 << 20), 0x3fffffff, 0x40000000, root_pa, 0xffffffff]
    for _ in range(4):
        ps.append(rng.randint(0, lowmem - 1))
        ps.append(rng.randint(lowmem, 0x3fffffff))
    tag = "os/ia32%s/vm=%s/root=%s/caps=%x" % ("-pae" if pae else "", vmsym, rootmode, caps)
    return finish("ia32", toks, names, caps, rng.choice([1, 2]), pt, 1, qs, ps, mem, tag)


# ---------------------------------------------------------------------------
# aarch64 Linux
# ---------------------------------------------------------------------------

A64_CONFIGS = [(12, 39), (12, 48), (16, 42), (16, 48), (14, 47), (14, 36), (16, 52), (12, 52)]


def a64_fields(page_bits, va_bits):
    fields = []
    fb, nb = page_bits, va_bits
    while nb:
        fields.append(fb)
        nb -= fb
        fb = min(page_bits - 3, nb)
    return fields


def gen_aarch64(rng):
    page_bits, va_bits = rng.choice(A64_CONFIGS)
    fields = a64_fields(page_bits, va_bits)
    fmtname = "aarch64" if va_bits <= 48 else ("aarch64_lpa" if page_bits == 16 else "aarch64_lpa2")
    f = Fmt(fmtname, fields, 8, (2, 3))
    top = M64 & ~((1 << va_bits) - 1)
    half = M64 & ~((1 << (va_bits - 1)) - 1)
    newlayout = rng.random() < 0.65             # 5.4+: linear map in the lower half of the kernel range
    page_offset = top if newlayout else half
    lin_end = page_offset | ((1 << (va_bits - 1)) - 1)
    phys_offset = rng.choice([0x40000000, 0x80000000, 0, 0x8000000000 if va_bits > 42 else 0x40000000])
    unit2 = 1 << f.lo(2)
    memsz = rng.choice([64 << 20, 256 << 20, 1 << 30, 3 << 30]) & ~(unit2 - 1)
    memsz = max(memsz, 4 * unit2)
    memsz = min(memsz, 1 << (va_bits - 2))
    hole = None
    if memsz >= 8 * unit2 and rng.random() < 0.3:
        h0 = rng.randint(2, memsz // unit2 - 3) * unit2
        hole = (h0, h0 + unit2)
    # kernel image in the other half
    kimage_vaddr = (half if newlayout else top) + rng.choice([0x10000000, 0x8000000 + (rng.randint(0, 30) << 21)])
    kimage_vaddr &= ~(unit2 - 1)
    ksz = 2 * unit2
    kernel_pa = phys_offset + unit2
    kimage_voffset = (kimage_vaddr - kernel_pa) & M64
    root_pa = kernel_pa + ksz - (1 << page_bits) * 4
    pt = PT(f, root_pa)
    pt.free = phys_offset + 3 * unit2 + 0x10000
    blocks = [g for g in (2, 3) if g < len(fields)]
    # block descriptors are only legal at some levels for some granules: 4K: 2,3; 16K: 2; 64K: 2 (3 with LPA)
    if page_bits == 14:
        blocks = [2]
    elif page_bits == 16:
        blocks = [2] + ([3] if fmtname == "aarch64_lpa" and 3 < len(fields) else [])
    blocks = [g for g in blocks if g < len(fields)] or [1]
    gran = blocks + ([1] if rng.random() < 0.3 else [])

    def lin(pa):
        return page_offset + (pa - phys_offset)
    if hole:
        pt.map_linear(lin(phys_offset), phys_offset, hole[0], gran)
        pt.map_linear(lin(phys_offset + hole[1]), phys_offset + hole[1], memsz - hole[1], gran)
    else:
        pt.map_linear(lin(phys_offset), phys_offset, memsz, gran)
    pt.map_linear(kimage_vaddr, kernel_pa, ksz, [min(blocks)] if blocks != [1] else [1])
    extras = []
    other_lo = half if newlayout else top
    for _ in range(rng.randint(0, 3)):           # vmalloc-like pages in the non-linear half
        v = other_lo + (1 << (va_bits - 3)) + (rng.randint(0, 4000) << page_bits)
        if pt.map(v, 1, phys_offset + (rng.randint(0, memsz >> page_bits) << page_bits)):
            extras.append(v)
    stext = kimage_vaddr + (1 << page_bits)
    version = rng.choice([ver(5, 4, 0), ver(5, 8, 0), ver(6, 1, 0)]) if newlayout else rng.choice([ver(4, 14, 0), ver(5, 3, 0)])
    toks = ["os=l", "ps=%x" % page_bits]
    names = []
    how_po = rng.choice(["stext", "ver", "both"])
    # a kernel whose version code does not tell the layout (distribution kernels with the 52-bit VA
    # backport report 4.18 with the flipped layout), and no _stext: the library looks for the linear
    # mapping in the other half of the kernel range, where the image, modules and vmalloc live
    inconsistent = rng.random() < 0.3
    if inconsistent:
        how_po = "ver"
        version = rng.choice([ver(4, 18, 0), ver(5, 3, 0)]) if newlayout else rng.choice([ver(5, 4, 0), ver(5, 10, 0)])
        if not extras:
            v = other_lo + (1 << (va_bits - 3)) + (rng.randint(0, 4000) << page_bits)
            if pt.map(v, 1, phys_offset + (rng.randint(1, max(1, (memsz >> page_bits) - 1)) << page_bits)):
                extras.append(v)
    toks.append("ver=%x" % version if how_po in ("ver", "both") else "ver=-")
    if how_po in ("stext", "both"):
        names.append("S:_stext=%x" % stext)
    vbmode = rng.choice(["opt", "VA_BITS", "T1SZ"])
    toks.append("vb=%x" % va_bits if vbmode == "opt" else "vb=-")
    if vbmode == "VA_BITS":
        names.append("N:VA_BITS=%x" % va_bits)
    elif vbmode == "T1SZ":
        names.append("N:TCR_EL1_T1SZ=%x" % (64 - va_bits))
    rootmode = rng.choice(["sym", "sym", "opt"])
    if rootmode == "sym":
        names += ["S:swapper_pg_dir=%x" % ((root_pa + kimage_voffset) & M64), "N:kimage_voffset=%x" % kimage_voffset]
        toks.append("root=-")
    else:
        toks.append("root=%d:%x" % (rng.choice([0, 1]), root_pa))
    caps = rng.choice([3, 3, 2, 1])
    cells, regions = pt.words()
    mem = emit_memory(cells, regions, caps, lambda pa: [])
    first_va = lin(phys_offset)
    last_va = lin(phys_offset + memsz - 1)
    qs = [first_va, last_va, last_va + 1, first_va - 1, first_va + (1 << page_bits), page_offset, lin_end,
          kimage_vaddr, kimage_vaddr + ksz - 1, kimage_vaddr + ksz, stext, top, half, half - 1, M64] + extras
    if hole:
        qs += [lin(phys_offset + hole[0]) - 1, lin(phys_offset + hole[0]), lin(phys_offset + hole[1]) - 1,
               lin(phys_offset + hole[1])]
    for _ in range(6):
        qs.append(lin(phys_offset + rng.randint(0, memsz - 1)))
    ps = [phys_offset, phys_offset + memsz - 1, phys_offset + memsz, phys_offset - 1 if phys_offset else 0, kernel_pa,
          root_pa, 0]
    for _ in range(4):
        ps.append(phys_offset + rng.randint(0, memsz - 1))
    tag = "os/aarch64/%d-%d/%s%s/po=%s/vb=%s/root=%s/caps=%x" % (page_bits, va_bits, "new" if newlayout else "old",
                                                          "-verlies" if inconsistent else "",
                                                          how_po, vbmode, rootmode, caps)
    return finish("aarch64", toks, names, caps, rng.choice([1, 2]), pt, 1, qs, ps, mem, tag, fmtname=fmtname)


# ---------------------------------------------------------------------------
# riscv64 Linux
# ---------------------------------------------------------------------------

def gen_riscv64(rng):
    va_bits = rng.choice([39, 48, 57])
    n = {39: 4, 48: 5, 57: 6}[va_bits]
    fields = [12, 9, 9, 9, 9, 9][:n]
    f = Fmt("riscv64", fields, 8, (2, 3))
    page_offset = {39: 0xffffffd800000000, 48: 0xffffaf8000000000, 57: 0xff60000000000000}[va_bits]
    ram_base = rng.choice([0x80000000, 0x80200000, 0x40000000])
    memsz = rng.choice([64 << 20, 512 << 20, 2 << 30, 5 << 30])
    if va_bits == 39:
        memsz = min(memsz, 2 << 30)
    kernel_va = 0xffffffff80000000
    kernel_pa = (ram_base + 0x200000) & ~0x1fffff
    ksz = 16 << 20
    va_pa_off = (kernel_va - kernel_pa) & M64
    root_pa = kernel_pa + ksz - 0x3000
    pt = PT(f, root_pa)
    pt.free = kernel_pa + ksz + 0x100000
    gran = rng.choice([[3, 2, 1], [2], [3, 2], [2, 1]])
    lin0 = page_offset + (ram_base & 0x1fffff)
    pa0 = ram_base
    if 1 in gran:
        pt.map_linear(lin0, pa0, 0x200000 - (pa0 & 0x1fffff) or 0x200000, [1])
        done = 0x200000 - (pa0 & 0x1fffff) or 0x200000
    else:
        done = 0
        lin0, pa0 = lin0 & ~0x1fffff, pa0 & ~0x1fffff
    pt.map_linear(lin0 + done, pa0 + done, memsz - done, [g for g in gran if g > 1])
    pt.map_linear(kernel_va, kernel_pa, ksz, [2])
    extras = []
    for _ in range(rng.randint(0, 3)):            # modules just below the kernel, vmalloc below PAGE_OFFSET
        v = rng.choice([kernel_va - (rng.randint(1, 200) << 12), page_offset - (1 << 30) + (rng.randint(0, 999) << 12)])
        if pt.map(v, 1, ram_base + (rng.randint(0, memsz >> 12) << 12)):
            extras.append(v)
    toks = ["os=l", "ver=%x" % ver(6, 5, 0)]
    names = ["N:PAGE_OFFSET=%x" % page_offset] if rng.random() < 0.9 else []
    vbopt = rng.random() < 0.4
    toks.append("vb=%x" % va_bits if vbopt else "vb=-")
    if not vbopt:
        names.append("N:VA_BITS=%x" % va_bits)
    rootmode = rng.choice(["sym", "sym", "opt"])
    if rootmode == "sym":
        names += ["S:swapper_pg_dir=%x" % ((root_pa + va_pa_off) & M64), "N:va_kernel_pa_offset=%x" % va_pa_off]
        toks.append("root=-")
    else:
        toks.append("root=%d:%x" % (rng.choice([0, 1]), root_pa))
    caps = rng.choice([3, 2, 1, 3])
    cells, regions = pt.words()
    mem = emit_memory(cells, regions, caps, lambda pa: [])
    last = lin0 + memsz - 1
    qs = [lin0, last, last + 1, lin0 - 1, lin0 + 0x1000, page_offset, kernel_va, kernel_va + ksz - 1, kernel_va + ksz,
          kernel_va - 1, M64, M64 - 0xfff] + extras
    for _ in range(6):
        qs.append(lin0 + rng.randint(0, memsz - 1))
    ps = [pa0, pa0 + memsz - 1, pa0 + memsz, pa0 - 1, kernel_pa, root_pa, 0]
    for _ in range(4):
        ps.append(pa0 + rng.randint(0, memsz - 1))
    tag = "os/riscv64/sv%d/root=%s/caps=%x" % (va_bits, rootmode, caps)
    return finish("riscv64", toks, names, caps, rng.choice([1, 2]), pt, 1, qs, ps, mem, tag)


# ---------------------------------------------------------------------------
# arm Linux (short descriptors)
# ---------------------------------------------------------------------------

def gen_arm(rng):
    f = Fmt("arm", [12, 8, 12], 4, (2,))
    page_base = 0xc0000000
    phys_base = rng.choice([0x80000000, 0x60000000, 0x10000000, 0])
    lowmem = rng.choice([64 << 20, 256 << 20, 760 << 20]) & ~0xfffff
    root_pa = phys_base + 0x4000
    pt = PT(f, root_pa)
    pt.free = phys_base + 0x300000
    pt.map_linear(page_base, phys_base, lowmem, [2] if rng.random() < 0.7 else [2, 1])
    extras = []
    vmalloc = page_base + lowmem + (8 << 20)
    for _ in range(rng.randint(0, 3)):
        v = vmalloc + (rng.randint(0, 3000) << 12)
        if v < 0xff000000 and pt.map(v, 1, phys_base + (rng.randint(0, lowmem >> 12) << 12)):
            extras.append(v)
    if rng.random() < 0.5 and pt.map(0xffff0000, 1, phys_base + 0x123000):     # vectors page
        extras.append(0xffff0000)
    toks = ["os=l", "ver=%x" % ver(2, 6, 24)]
    names = ["S:_stext=%x" % (page_base + 0x8000)] if rng.random() < 0.9 else []
    pbopt = rng.random() < 0.6
    toks.append("pb=%x" % phys_base if pbopt else "pb=-")
    rootmode = rng.choice(["sym", "opt", "opt-kv"])
    if rootmode == "sym":
        names.append("S:swapper_pg_dir=%x" % (page_base + 0x4000))
        toks.append("root=-")
    elif rootmode == "opt":
        toks.append("root=1:%x" % root_pa)
    else:
        toks.append("root=2:%x" % (page_base + 0x4000))
    caps = rng.choice([2, 2, 3, 1])
    cells, regions = pt.words()
    mem = emit_memory(cells, regions, caps, lambda pa: [])
    qs = [page_base, page_base + lowmem - 1, page_base + lowmem, page_base - 1, page_base + 0x1000, page_base + 0xfffff,
          page_base + 0x100000, vmalloc, 0xffffffff, 0xffff0000, page_base + 0x4000] + extras
    for _ in range(6):
        qs.append(page_base + rng.randint(0, lowmem - 1))
    ps = [phys_base, phys_base + lowmem - 1, phys_base + lowmem, (phys_base - 1) & 0xffffffff, root_pa]
    for _ in range(4):
        ps.append(phys_base + rng.randint(0, lowmem - 1))
    tag = "os/arm/pb=%s/root=%s/caps=%x" % ("opt" if pbopt else "walk", rootmode, caps)
    return finish("arm", toks, names, caps, rng.choice([1, 2]), pt, 1, qs, ps, mem, tag)


# ---------------------------------------------------------------------------
# s390x Linux (identity-mapped kernel; page tables only, no shortcuts)
# ---------------------------------------------------------------------------

def gen_s390x(rng):
    levels = rng.choice([3, 4, 5])                # table levels: 3 = region-third at the top, ...
    fields = [12, 8, 11, 11, 11, 11][:levels + 1]
    f = Fmt("s390x", fields, 8, (2, 3))
    root_pa = rng.choice([0x1000000, 0x2a4c000, 0x74000]) & ~0x3fff
    pt = PT(f, root_pa)
    memsz = rng.choice([64 << 20, 1 << 30, 6 << 30])
    gran = rng.choice([[1], [2], [3, 2], [2, 1]])
    gran = [g for g in gran if g <= levels] or [2]
    if 1 in gran:
        pt.map_linear(0, 0, 1 << 20, [1])
        if memsz > (1 << 20):
            pt.map_linear(1 << 20, 1 << 20, min(memsz, 64 << 20) - (1 << 20), [g for g in gran if g > 1] or [1])
    else:
        pt.map_linear(0, 0, memsz, gran)
    extras = []
    for _ in range(rng.randint(0, 3)):            # vmalloc area: not identity
        v = (1 << (f.lo(levels) + 9)) + (rng.randint(0, 5000) << 12)
        if pt.map(v, 1, rng.randint(0x100, 0x3fff) << 12):
            extras.append(v)
    toks = ["os=l", "ver=-"]
    names = []
    if rng.random() < 0.5:
        names.append("S:swapper_pg_dir=%x" % root_pa)
        toks.append("root=-")
    else:
        toks.append("root=%d:%x" % (rng.choice([0, 1]), root_pa))
    toks.append("vb=%x" % sum(fields) if rng.random() < 0.3 else "vb=-")
    caps = rng.choice([3, 2, 1])
    cells, regions = pt.words()
    mem = emit_memory(cells, regions, caps, lambda pa: [])
    qs = [0, 0xfff, 0x1000, memsz - 1, memsz, (1 << sum(fields)) - 1, 1 << sum(fields), M64] + extras
    for _ in range(5):
        qs.append(rng.randint(0, memsz - 1))
    ps = [0, memsz - 1, root_pa]
    tag = "os/s390x/%dl/caps=%x" % (levels, caps)
    return finish("s390x", toks, names, caps, 0, pt, 1, qs, ps, mem, tag)


# ---------------------------------------------------------------------------
# ppc64 Linux (64K pages): fixed layout, no hardware map; direct / reverse direct only
# ---------------------------------------------------------------------------

def gen_ppc64(rng):
    toks = ["os=l", "ver=-", "ps=%s" % rng.choice(["10", "-"])]
    names = []
    caps = rng.choice([1, 2, 3])
    D = 0xc000000000000000
    qs = [D, D + 0x10000, D + rng.getrandbits(40), 0xcfffffffffffffff, 0xd000000000000000 - 1, 0, 0xbfffffffffffffff]
    ps = [0, rng.getrandbits(40), 0x0fffffffffffffff, 0x1000000000000000]
    tag = "os/ppc64/caps=%x" % caps
    return finish("ppc64", toks, names, caps, 0, None, 1, qs, ps, [], tag)


# ---------------------------------------------------------------------------
# Xen hypervisor on x86-64
# ---------------------------------------------------------------------------

XEN_TEXT = {"4.4": 0xffff82d080000000, "4.3": 0xffff82c4c0000000, "4.0": 0xffff82c480000000, "3.2": 0xffff828c80000000}
XEN_TEXT_ALL = dict(XEN_TEXT, **{"4.0dev": 0xffff828880000000})
XEN_VER = {"4.4": (4 << 16) | 4, "4.3": (4 << 16) | 3, "4.0": (4 << 16) | 0, "3.2": (3 << 16) | 2}


def gen_xen_x86_64(rng):
    f = Fmt("x86_64", [12, 9, 9, 9, 9], 8, (2, 3))
    which = rng.choice(list(XEN_TEXT))
    text = XEN_TEXT[which]
    bigmem = which == "4.4" and rng.random() < 0.25
    D = 0xffff848000000000 if bigmem else 0xffff830000000000
    memsz = rng.choice([1 << 30, 4 << 30, 16 << 30])
    xen_pa = rng.choice([0x7f800000, 0xbf000000 & ~0x1fffff, 0x1000000])
    xen_pa = min(xen_pa, memsz - 0x1000000) & ~0x1fffff
    root_pa = xen_pa + 0x200000 + 0x5000
    pt = PT(f, root_pa)
    pt.free = xen_pa + 0x400000
    pt.map_linear(D, 0, memsz, rng.choice([[3], [3, 2], [2]]) if memsz <= (4 << 30) else [3])
    pt.map_linear(text, xen_pa, 0x600000, [2])
    # something else, mapped with physically scattered 2M pages, where an OLDER Xen had its text
    # (e.g. the read-only compat M2P table of 4.3 sits in the text slot of 4.0-4.2); the library
    # probes the candidate text addresses newest first, so this must not be taken for the text
    order = ["4.4", "4.3", "4.0", "3.2", "4.0dev"]
    older = [XEN_TEXT_ALL[k] for k in order[order.index(which) + 1:]]
    other = None
    if older and rng.random() < 0.6:
        other = rng.choice(older)
        nchunk = rng.randint(2, 6)
        pas = [((memsz >> 1) + 0x200000 * (3 * j + 1)) & ~0x1fffff for j in range(nchunk)]
        rng.shuffle(pas)
        if pas == sorted(pas):
            pas.reverse()
        for j, pa in enumerate(pas):
            pt.map(other + 0x200000 * j, 2, pa)
    toks = ["os=x"]
    have_ver = rng.random() < 0.5
    toks.append("ver=%x" % XEN_VER[which] if have_ver else "ver=-")
    names = []
    rootmode = rng.choice(["cr3", "sym", "opt"])
    pbtok = "pb=-"
    if rootmode == "cr3":
        names.append("R:cr3=%x" % root_pa)
        toks.append("root=-")
    elif rootmode == "sym":
        names.append("S:pgd_l4=%x" % (text + (root_pa - xen_pa)))
        pbtok = "pb=%x" % xen_pa
        toks.append("root=-")
    else:
        toks.append("root=1:%x" % root_pa)
    toks.append(pbtok)
    caps = rng.choice([2, 3, 2])
    cells, regions = pt.words()
    mem = emit_memory(cells, regions, caps, lambda pa: [])
    qs = [D, D + memsz - 1, D + memsz, D - 1, D + 0x1000, text, text + 0x5fffff, text + 0x600000, text - 1,
          text + 0x3fffffff, text + 0x40000000, D + xen_pa, D + root_pa]
    for _ in range(6):
        qs.append(D + rng.randint(0, memsz - 1))
        qs.append(text + rng.randint(0, 0x5fffff))
    if other is not None:
        qs += [other, other - 1, other + 0x200000 * nchunk - 1, other + 0x200000 * nchunk, other + 0x3fffffff]
        for j in range(nchunk):
            qs += [other + 0x200000 * j, other + 0x200000 * j + rng.randint(0, 0x1fffff)]
    ps = [0, memsz - 1, memsz, xen_pa, root_pa, (1 << 40) - 1, 1 << 40, (5 << 40) - 1, 5 << 40]
    tag = "os/xen-x86_64/%s%s%s/ver=%s/root=%s/caps=%x" % (which, "-bigmem" if bigmem else "",
                                                     "" if other is None else "+slot%x" % (other >> 28 & 0xfff),
                                                     have_ver, rootmode, caps)
    return finish("x86_64", toks, names, caps, 1, pt, 1, qs, ps, mem, tag)


GENS = [("ia32", gen_ia32, 5), ("aarch64", gen_aarch64, 4), ("riscv64", gen_riscv64, 3), ("arm", gen_arm, 2),
        ("s390x", gen_s390x, 1), ("ppc64", gen_ppc64, 1), ("xen", gen_xen_x86_64, 2)]


def gen_other_arch(rng):
    tot = sum(w for _, _, w in GENS)
    x = rng.random() * tot
    for _, g, w in GENS:
        x -= w
        if x < 0:
            return g(rng)
    return GENS[0][1](rng)
