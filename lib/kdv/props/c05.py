"""C05 — clones of one dump can be used from different threads at the same time (partial:
compiler/hardware memory-model effects below the atomic steps of the model are not modelled).

Theorems: coq/theories/Properties_C05.v (Conc/Protocol.v, Conc/Interleave.v, Conc/LockOrder.v).

Tie, engine "conc" (harness/conc_drv.c; hooks 01 lock events, 02 reference sum, 03 cache entry
callouts): 2..8 real threads read through clones of one compressed diskdump (and of an LKCD
dump, for the lock order) over a page cache of size = #threads and #threads-1.  Checked per run:
* every thread's event sequence is accepted by the model's per-thread automaton
  (Protocol.thread_trace_ok, extracted): references taken are given back, insert/discard only on
  held entries, every cache entry point runs with cache_lock held by the caller;
* every bracketed public API call takes shared->lock in the mode of its class (read / write /
  write after read; ApiLock.api_req, api_call_ok): readers at least for reading, every mutating
  entry point (kdump_set_attr, kdump_set_sub_attr, kdump_attr_ref_set, kdump_clone, kdump_free,
  kdump_open_fdset) exclusively; some threads write attributes with side effects (cache.size,
  file.mmap_policy, arch.page_size, file.zero_excluded) through all three write entry points
  while the other clones read;
* every change of the shared translation object's reference counter (xlat_incref / xlat_decref in
  kdump_clone / kdump_free; hooks/04) happens with shared->lock held for writing;
* the locks are acquired in an order that is acyclic over all threads (LockOrder.acyclicb);
* a refused read (BUSY) only happens while at least `cap` references are outstanding, and never
  when the cache has as many slots as there are threads;
* bytes and statuses equal the answers of a fresh single-threaded context; fill failures are
  injected (the format handlers' fcache_pread / fcache_get_chunk fail at random, ld --wrap) while the threads read a small hot set
  of pages, so that a fill fails while other threads are attached to the same in-flight entry
  (compressed diskdumps, and ELF cores whose pages straddle several LOAD segments);
* after quiescence the main thread re-reads every page: no read may be refused as BUSY (nothing
  is in flight) and every page must read as in the reference run (wrong data that PERSISTS is a
  violation of its own, distinct from the listed transient finding C05-shared-inflight);
* sum of reference counts of the page cache and both file caches is 0 at quiescence;
* "stress": the model's lost-update schedule (C05_safe_all_schedules_refuted) searched on the
  real library: two threads repeat a cache hit + put of one page; the reference count must
  return to 0.
Thorough tier: the same driver built with -fsanitize=thread (gcc and clang) as schedule search;
reports classified by the pair of racing sites."""
import os
import random
import re

from .. import core, histgen

ENV = {"ASAN_OPTIONS": "detect_leaks=0:abort_on_error=0:exitcode=97"}


def make_dumps(run, work, n):
    dumps = []
    k = 0
    while len(dumps) < n:
        seed = run.rng.randrange(1 << 48)
        rng = random.Random(seed)
        d = histgen.gen_diskdump(rng, work, "c%d" % k)
        k += 1
        if len(d["files"]) == 1 and d["npages"] >= 9:
            d["seed"] = seed
            dumps.append(d)
    return dumps


def parse_out(line):
    parts = line.split(" | ")
    if len(parts) < 3:
        return None
    head = dict(x.split("=") for x in parts[0].split())
    tail = {}
    for x in parts[-1].split():
        k, _, v = x.partition("=")
        tail[k] = v
    return {"n": int(head["N"]), "cap": int(head["cap"]), "threads": parts[1:-1], "tail": tail}


def lock_edges(threads):
    """held -> acquired edges over all threads (mutexes and the rwlock alike)."""
    edges = set()
    for evs in threads:
        held = []
        for t in evs.split():
            if t[0] in "Lrw" and t[1:].isdigit():
                for h in held:
                    edges.add((h, int(t[1:])))
                held.append(int(t[1:]))
            elif t[0] in "Uu" and t[1:].isdigit():
                if int(t[1:]) in held:
                    held.remove(int(t[1:]))
    return sorted(edges)


def acyclic(edges):
    nodes = {a for e in edges for a in e}
    adj = {n: [b for a, b in edges if a == n] for n in nodes}
    state = {}

    def visit(n):
        if state.get(n) == 1:
            return False
        if state.get(n) == 2:
            return True
        state[n] = 1
        ok = all(visit(m) for m in adj[n])
        state[n] = 2
        return ok
    return all(visit(n) for n in nodes)


def judge(run, case, line, model_verdict, fmt="?", errtext=""):
    """Returns (kind, what, signature) or None."""
    if line.startswith("CRASH") and case.endswith(" 2") and "pc points to the zero page" in errtext:
        # first use of a lazily validated attribute from several threads: one thread resets the
        # revalidate hook (to its parent's, NULL) while another is about to call it
        return ("impl", "call through a NULL revalidate hook while several threads touch a lazily validated "
                "attribute for the first time (%s)" % line, "conc crash lazy-revalidate null-hook")
    if line.startswith("CRASH") or line == "NOT-RUN":
        return ("impl", "library crashes or hangs (%s) with threads on clones" % line,
                "conc crash-or-hang " + ("timeout" if "timeout" in line else "signal"))
    p = parse_out(line)
    if p is None:
        return ("tie", "driver output not understood: " + line[:80], "conc tie output")
    t = p["tail"]
    if t.get("persist", "0") != "0":
        return ("spec", "wrong bytes/status that PERSIST after all threads finished (%s pages re-read by the main "
                "thread differ from the reference: %s)" % (t["persist"], t.get("bad", "")),
                "conc wrong-bytes persistent fmt=" + fmt)
    if t.get("postbusy", "0") != "0":
        return ("spec", "%s reads refused as BUSY after all threads finished (nothing is in flight)" % t["postbusy"],
                "conc busy-at-quiescence")
    if not t.get("bad", "0").startswith("0"):
        j = t.get("joined", "0") != "0"
        return ("spec", "%s reads returned wrong bytes/status while other threads were reading%s"
                % (t["bad"], " (threads shared an in-flight cache entry in this run)" if j else ""),
                "conc wrong-bytes" + (" joined-inflight" if j else "") + " transient fmt=" + fmt)
    if not t.get("nolock", "0").startswith("0"):
        return ("spec", "cache entry point called without cache_lock (%s)" % t["nolock"],
                "conc cache-op-without-lock " + t["nolock"].split(":")[-1])
    if t.get("xlatnolock", "0") != "0":
        return ("spec", "the reference counter of the shared translation object (kdump_xlat.refcnt / its context "
                "list) is changed without shared->lock held for writing (%s times; hooks/04)" % t["xlatnolock"],
                "conc xlat-refcnt-without-write-lock")
    if t.get("refsum") != "0,0,0":
        return ("spec", "cache entries stay pinned after all threads finished: refsum=%s" % t.get("refsum"),
                "conc pinned-at-quiescence")
    if t.get("badbusy", "0") != "0":
        return ("spec", "reads refused as BUSY although the cache has a slot per thread", "conc busy-unjustified")
    for evs in p["threads"]:
        for m in re.finditer(r"G1:-:([0-9a-f]+)", evs):
            if int(m.group(1), 16) < p["cap"]:
                return ("spec", "BUSY with only %s references outstanding (cap %d)" % (m.group(1), p["cap"]),
                        "conc busy-unjustified")
        if "TRUNCATED" in evs:
            return ("tie", "event buffer overflow in the driver", "conc tie overflow")
    if not acyclic(lock_edges(p["threads"])):
        return ("spec", "locks are acquired in a cyclic order: %s" % lock_edges(p["threads"]),
                "conc lock-order-cycle")
    if model_verdict is not None and model_verdict.startswith("ApiLockClass"):
        return ("spec", "a public entry point does not take shared->lock in the mode its class requires "
                "(Conc/ApiLock.v api_table): " + model_verdict,
                "conc api-lock-class " + " ".join(model_verdict.split()[1:3]))
    if model_verdict is not None and model_verdict != "ok":
        return ("spec", "a thread's events are not a word of the model's per-thread automaton: " + model_verdict,
                "conc trace-not-accepted " + model_verdict.split()[0])
    return None


RACE_CLASSES = [
    ("elf-last-load", re.compile(r"find_closest_")),
    ("lazy-revalidate", re.compile(r"_revalidate|add_pfn_region|set_attr")),
    ("bitmap-errbuf", re.compile(r"err_clear|kdump_bmp_")),
    ("shared-inflight", re.compile(r"cache_entry_valid|get_inflight_entry|cache_insert|uncompress|memcpy|_read_page")),
    ("refcnt-put", re.compile(r"cache_put_entry")),
]


def classify_tsan(err):
    """[(signature, summary)] for every ThreadSanitizer report in stderr."""
    out = []
    for r in err.split("=================="):
        m = re.search(r"WARNING: ThreadSanitizer: ([^\(\n]+)", r)
        if not m:
            continue
        kind = m.group(1).strip()
        tops = sorted(set("%s@%s" % (a, b) for a, b in re.findall(r"#0 (\S+) \S*?/src/(\S+?):\d+", r)))[:2]
        frames = " ".join(re.findall(r"#\d+ (\S+) ", r))
        cls = "other"
        if "lock-order-inversion" in kind:
            cls = "lock-order-inversion"
        else:
            for name, rx in RACE_CLASSES:
                if rx.search(frames):
                    cls = name
                    break
        out.append(("conc tsan %s %s" % (cls, "+".join(tops) if cls == "other" else ""),
                    "%s [%s] %s" % (kind, cls, " / ".join(tops))))
    return out


def check(run):
    run.trusted += [
        "partial: the model's atomic steps are C statements under a lock resp. single loads/stores outside it; "
        "compiler and hardware memory-model effects below that granularity are not modelled",
        "engine conc: pthreads, the kernel scheduler (schedules are sampled, not enumerated); ThreadSanitizer in "
        "the thorough tier as schedule search",
        "hooks/01-lock-events, 02-cache-refsum, 03-cache-entry-callout, 04-xlat-refcnt-callout (add-only, guard "
        "LIBKDUMPFILE_VERIF; without hook 04 in the tree the xlat discipline is simply not observed)"]
    run.assumptions += [
        "each thread uses its own clone (threads.md); lazily validated attributes (memory.pagemap, max_pfn) are "
        "touched once before the threads start in the quick tier — first use from several threads is finding "
        "lazy-revalidate (#31)"]
    run.check_coq()
    ml_ok = run.need_ml()
    quick = run.tier == "quick"
    work = os.path.join(run.work, "dumps")
    os.makedirs(work, exist_ok=True)
    exe = run.need_cc("conc_drv", "conc_drv.c", sources=core.lib_sources(), sanitize=True,
                      flags=("-Wl,--wrap=_kdumpfile_priv_fcache_pread", "-Wl,--wrap=_kdumpfile_priv_fcache_get_chunk"))
    if exe is None:
        return
    if run.replay_path:
        rp = core.json.load(open(run.replay_path))["replay"]
        cases = [rp["case"]]
        dumps = [histgen.gen_diskdump(random.Random(rp["dump_seed"]), work, "c0")] if rp.get("dump_seed") else []
    else:
        dumps = make_dumps(run, work, 3 if quick else 12)
        cases = []
        reps = 3 if quick else 8
        for d in dumps:
            for n in (2, 3, 4, 6, 8):
                for cap in (n, n - 1):
                    for _ in range(reps):
                        # 1 prevalidate, 2 queries, 4 shared xlat, 8 attribute writes, 16 main thread recorded
                        flags = run.rng.choice([1, 3, 5, 19, 11, 27])
                        cases.append(("R %s %d %d %d %d %d" % (d["files"][0], n, cap, 50 if quick else 200,
                                                               run.rng.randrange(1 << 16), flags), d))
        # fill failures (fcache_pread / fcache_get_chunk of the format handlers fail at random) on a hot set of pages, so that a fill fails
        # while other threads are attached to the same in-flight entry; compressed diskdumps and ELF
        # cores whose pages straddle several LOAD segments
        for d in dumps:
            for n in (3, 6):
                cases.append(("R %s %d %d %d %d 33" % (d["files"][0], n, n, 60 if quick else 250,
                                                       run.rng.randrange(1 << 16)), d))
        for k in range(4 if quick else 12):
            seed = run.rng.randrange(1 << 48)
            d = histgen.gen_elf(random.Random(seed), work, "e%d" % k, straddle=True)
            d["seed"] = seed
            # the pages that straddle LOAD segments (only these go through the page cache); attribute
            # writers (flag 8) re-allocate the page cache now and then, so the pages miss again and again
            hot = sorted({x // 4096 for (pp, vv, fs, ms) in d["segs"] for x in (pp, pp + ms - 1, pp + fs - 1)
                          if x // 4096 < 256 and (pp % 4096 or (pp + ms) % 4096)})[:8]
            for n in (4, 8):
                cases.append(("R %s %d %d %d %d 41 hot=%s" % (d["files"][0], n, n, 300 if quick else 1000,
                                                              run.rng.randrange(1 << 16),
                                                              ",".join("%x" % h for h in hot)), d))
        # LKCD: reads and max_pfn queries from all threads (lock order cache_lock / pfn_block_mutex)
        for k in range(2 if quick else 10):
            seed = run.rng.randrange(1 << 48)
            d = histgen.gen_lkcd(random.Random(seed), work, "l%d" % k)
            d["seed"] = seed
            for n in (2, 4):
                cases.append(("R %s %d %d %d %d 2" % (d["files"][0], n, n, 40, run.rng.randrange(1 << 16)), d))
        # clone/free storm: the translation object's reference counter must equal the live contexts
        for n in (2, 4, 8):
            cases.append(("C %s %d %d" % (dumps[0]["files"][0], n, 20000 if quick else 200000), dumps[0]))
        # lost-update search on one hot page
        d = dumps[0]
        first = min(p for p, v in d["pages"].items() if v != "exclude")
        for n in (2, 4):
            cases.append(("S %s %d %d %x" % (d["files"][0], n, 400000 if quick else 4000000, first * 4096), d))
    lines = [c for c, _ in cases] if cases and isinstance(cases[0], tuple) else cases
    run.cov["engines"]["conc"] = {"generated": len(lines)}
    out, crashes = core.run_impl_lines(exe, run.work, lines, env=ENV, timeout=120 if quick else 1200)
    verdicts = [None] * len(lines)
    if ml_ok:
        idx = [i for i, o in enumerate(out) if o.startswith("N=") and " | " in o and lines[i].startswith("R")]
        if idx:
            res = core.run_model("conc", run.casefile("conc-traces.txt", [out[i] for i in idx]))
            for i, v in zip(idx, res):
                verdicts[i] = v
    nev = 0
    for i, (l, o) in enumerate(zip(lines, out)):
        if l.startswith("C "):
            run.note_case(l, True)
            run.count("clonestorm-runs")
            m = re.search(r"xlatref=(\d+) expected=(\d+)", o)
            if not m or m.group(1) != m.group(2):
                run.violation("spec", "clone/free storm: the reference counter of the shared translation object is %s "
                              "with %s live contexts (lost update: kdump_clone / kdump_free change it without mutual "
                              "exclusion), or the run crashed: %s" % (m.group(1) if m else "?", m.group(2) if m else "?", o[:80]),
                              {"engine": "conc", "case": l, "output": o, "how": "bin/check C05 --replay <this file>"},
                              found_input=True, signature="conc xlat-refcnt-mismatch")
            continue
        if l.startswith("S"):
            run.note_case(l, True)
            m = re.search(r"refsum=(\d+) expected=0", o)
            run.count("stress-runs")
            if not m or m.group(1) != "0":
                run.violation("spec", "lost update of a cache entry reference count on the real library: after %s "
                              "two clones hammered one cached page the count is %s instead of 0 (the schedule of "
                              "C05_safe_all_schedules_refuted)" % (l.split()[3], m.group(1) if m else o[:60]),
                              {"engine": "conc", "case": l, "output": o,
                               "how": "bin/check C05 --replay <this file>"},
                              found_input=True, signature="conc pinned-at-quiescence stress")
            continue
        p = parse_out(o)
        if p:
            nev += sum(len(t.split()) for t in p["threads"])
            run.count("threads-%d" % p["n"])
            run.count("cap-%s" % ("n" if p["cap"] == p["n"] else "n-1"))
            for k in ("ok", "busy", "err"):
                run.count("reads-" + k, int(p["tail"].get(k, "0")))
            run.note_case(l + " " + p["tail"].get("busy", "0"), p["tail"].get("busy", "0") != "0" or p["n"] > 2)
            if i < 2:
                run.sample({"case": l, "thread0_events": p["threads"][0][:160] + " ...", "summary": o.split(" | ")[-1]})
        else:
            run.note_case(l, True)
        j = judge(run, l, o, verdicts[i], fmt=(cases[i][1].get("fmt", "?") if cases and isinstance(cases[i], tuple) else "?"),
                  errtext=crashes.get(i, ("", ""))[1])
        if j:
            kind, what, sig = j
            d = cases[i][1] if cases and isinstance(cases[i], tuple) else {}
            run.violation(kind, what + "; case: " + l, {"engine": "conc", "case": l, "dump_seed": d.get("seed"),
                          "dump": d.get("desc"), "summary": o.split(" | ")[-1][:300],
                          "model_verdict": verdicts[i],
                          "stderr_tail": crashes.get(i, ("", ""))[1][-1200:],
                          "how": "bin/check C05 --replay <this file> (schedules are not reproducible; the run is "
                                 "repeated with the same parameters)"},
                          found_input=True, signature=sig)
    run.count("events-checked", nev)
    run.cov["rule"] = ("one case = one multi-threaded run (threads x cap x seed x flags) or one stress run; "
                       "non-trivial = more than 2 threads or at least one BUSY")
    if not quick and not run.replay_path:
        tsan_stage(run, lines)


def tsan_stage(run, lines):
    for cc in ("gcc", "clang"):
        exe = run.need_cc("conc_tsan_" + cc, "conc_drv.c", sources=core.lib_sources(), sanitize=False,
                          flags=("-fsanitize=thread", "-Wl,--wrap=_kdumpfile_priv_fcache_pread",
                                 "-Wl,--wrap=_kdumpfile_priv_fcache_get_chunk"), cc=cc)
        if exe is None:
            continue
        sel = [l for l in lines if l.startswith("R")][::5][:12]
        # ELF: concurrent lookups through the last_load / last_vload shortcut, reads and page-map queries
        sel += [re.sub(r" \d+( hot=\S+)?$", " 3", l) for l in lines if l.startswith("R") and "/e" in l][:4]
        # also first use of lazily validated attributes from all threads
        sel += [re.sub(r" \d+$", " 2", l) for l in sel[:4]]
        cf = run.casefile("conc-tsan.txt", sel)
        rc, out, err = core.run_impl(exe, [cf], timeout=1800,
                                     env={"TSAN_OPTIONS": "halt_on_error=0:second_deadlock_stack=1:exitcode=0"})
        reps = classify_tsan(err)
        run.count("tsan-%s-reports" % cc, len(reps))
        seen = set()
        for sig, summary in reps:
            if sig in seen:
                continue
            seen.add(sig)
            run.violation("spec", "ThreadSanitizer (%s build): %s" % (cc, summary),
                          {"engine": "conc", "tsan": summary, "cases": sel[:3]}, found_input=True, signature=sig)
