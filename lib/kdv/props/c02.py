"""C02 — address translation equals the architecture's page-table walk.

Theorems: coq/theories/Properties_C02.v (model Xlat/Step.v, spec Xlat/ArchSpec.v).
Tie: engine "walk" — addrxlat_walk() and addrxlat_launch()+addrxlat_step() of the
real library (harness/walk_drv.c, public API only, a read callback serving a
sparse memory) against the extracted model, on generated page-table chains for
every PTE format and on linear / lookup / memory-array methods; the complete
step state after every call is compared.  Search: the implementation's answers
are judged by the extracted *architectural spec* (engine "walk-spec")."""
from .. import core

M64 = (1 << 64) - 1

FORMS = {
    "x86_64": [[12, 9, 9, 9, 9], [12, 9, 9, 9, 9, 9]],
    "ia32": [[12, 10, 10]],
    "ia32_pae": [[12, 9, 9, 2]],
    "aarch64": [[12, 9, 9, 9, 9], [14, 11, 11, 11, 1], [16, 13, 13, 6]],
    "aarch64_lpa": [[16, 13, 13, 10], [16, 13, 13, 6]],
    "aarch64_lpa2": [[12, 9, 9, 9, 9], [12, 9, 9, 9, 9, 4], [14, 11, 11, 11, 1], [14, 11, 11, 11, 5]],
    "arm": [[12, 8, 12]],
    "riscv64": [[12, 9, 9, 9], [12, 9, 9, 9, 9], [12, 9, 9, 9, 9, 9]],
    "s390x": [[12, 8, 11], [12, 8, 11, 11], [12, 8, 11, 11, 11], [12, 8, 11, 11, 11, 11]],
    "ppc64_linux_rpn30": [[16, 12, 12, 4]],
    "pfn32": [[12, 8, 8], [12, 10, 10]],
    "pfn64": [[12, 8, 8], [13, 9, 9, 9], [20]],
}
SIGNED = ("x86_64", "riscv64")
UNSIGNED = ("ia32", "ia32_pae", "s390x", "pfn32", "pfn64")
PTE32 = ("ia32", "arm", "pfn32")
WEIGHTS = [("x86_64", 14), ("ia32", 6), ("ia32_pae", 7), ("aarch64", 10), ("aarch64_lpa", 9),
           ("aarch64_lpa2", 12), ("arm", 7), ("riscv64", 10), ("s390x", 14), ("ppc64_linux_rpn30", 7),
           ("pfn32", 3), ("pfn64", 3)]
MMU_PSHIFT = [12, 14, 16, 16, 18, 20, 22, 23, 24, 26, 28, 30, 34, 36]


def bits(x, lo, n):
    return (x >> lo) & ((1 << n) - 1)


def lo_of(fields, level):
    return sum(fields[:level])


# ---------------------------------------------------------------------------
# generator guide: what a (masked) entry means, so that the chain can be
# continued at the address the walk will read next.  Not an oracle: a mistake
# here only makes chains end early (the coverage histogram shows it).
# ---------------------------------------------------------------------------

def guide(fmt, fields, level, e, idx):
    """-> ('tbl', as_or_None, base) | ('leaf',) | ('np',) | ('inv',) | ('hugepd', base, newidx1)"""
    ps = fields[0]
    if fmt in ("pfn32", "pfn64"):
        if e == 0:
            return ("np",)
        a = (e << ps) & M64
        return ("leaf",) if level == 1 else ("tbl", None, a)
    if fmt in ("x86_64", "ia32_pae"):
        if not e & 1:
            return ("np",)
        a = e & ((1 << 52) - 1) & ~0xfff
        huge = (2, 3) if fmt == "x86_64" else (2,)
        if level == 1 or (level in huge and e & 0x80):
            return ("leaf",)
        return ("tbl", None, a)
    if fmt == "ia32":
        if not e & 1:
            return ("np",)
        if level == 1 or (level == 2 and e & 0x80):
            return ("leaf",)
        return ("tbl", None, e & 0xfffff000)
    if fmt.startswith("aarch64"):
        if not e & 1:
            return ("np",)
        if fmt == "aarch64":
            oa = e & ((1 << 48) - 1)
        elif fmt == "aarch64_lpa":
            oa = (e & ((1 << 48) - 1)) | (bits(e, 12, 4) << 48)
        else:
            oa = (e & ((1 << 50) - 1)) | (bits(e, 8, 2) << 50)
        if e & 2:
            return ("leaf",) if level == 1 else ("tbl", None, oa & ~((1 << ps) - 1))
        return ("leaf",)        # block or invalid: the walk ends either way
    if fmt == "arm":
        t = e & 3
        if t == 0:
            return ("np",)
        if level == 2 and t == 1:
            return ("tbl", None, e & 0xfffffc00)
        return ("leaf",)
    if fmt == "riscv64":
        if not e & 1:
            return ("np",)
        if bits(e, 1, 3) == 0 and level > 1:
            return ("tbl", None, (bits(e, 10, 44) << 12) & M64)
        return ("leaf",)
    if fmt == "s390x":
        if level == 1:
            return ("leaf",)
        if e & 0x20:
            return ("np",)
        if bits(e, 2, 2) != level - 2:
            return ("inv",)
        if level in (2, 3) and e & 0x400:
            return ("leaf",)
        if level >= 3:
            nxt = idx[level - 1] >> 9
            if nxt < bits(e, 6, 2) or nxt > bits(e, 0, 2):
                return ("np",)
            return ("tbl", None, e & ~0xfff)
        return ("tbl", None, e & ~0x7ff)
    if fmt == "ppc64_linux_rpn30":
        if e == 0:
            return ("np",)
        if level == 1:
            return ("leaf",)
        if e & 3:
            return ("leaf",)
        if not e >> 63:
            psz = (e & 0x3f) >> 2
            pdshift = MMU_PSHIFT[psz] if psz < 14 else 0
            if not pdshift:
                return ("inv",)
            off = 0
            i = level
            while i > 0:            # same loop as huge_pd_linux, i = remain-1 .. 1
                off |= idx[i]
                off = (off << fields[i - 1]) & M64
                i -= 1
            # idx[level] was the index of this entry; the loop in the library starts below it
            return ("hugepd", (e & ~0x3f & M64) | (1 << 63), pdshift)
        tsz = (8 << fields[level - 1])
        return ("tbl", 2, e & ~(tsz - 1) & M64)
    raise ValueError(fmt)


def steer(rng, fmt, fields, level, kind, r, idx):
    """Force the kind-deciding bits of a uniformly random entry `r`."""
    nlev = len(fields) - 1
    if fmt in ("pfn32", "pfn64"):
        return 0 if kind == "np" else (r or 1)
    if fmt in ("x86_64", "ia32_pae", "ia32"):
        if kind == "np":
            return r & ~1
        r |= 1
        if kind == "huge":
            return r | 0x80
        if kind == "table":
            return r & ~0x80
        return r
    if fmt.startswith("aarch64"):
        if kind == "np":
            return r & ~1
        if kind in ("huge", "inv"):
            return (r & ~3) | 1
        return r | 3
    if fmt == "arm":
        if kind == "np":
            return r & ~3
        if level == 2:
            if kind == "table":
                return (r & ~3) | 1
            r = (r & ~3) | rng.choice([2, 3])
            return r | (1 << 18) if rng.random() < 0.5 else r & ~(1 << 18)
        if kind == "huge":
            return (r & ~3) | 1
        return (r & ~3) | rng.choice([2, 3])
    if fmt == "riscv64":
        if kind == "np":
            return r & ~1
        r |= 1
        if kind == "table" or kind == "inv":
            return r & ~0xe
        if bits(r, 1, 3) == 0:
            r |= rng.choice([2, 6, 8, 10, 14])
        return r
    if fmt == "s390x":
        if level == 1:
            return r | 0x400 if kind == "np" else r & ~0x400
        if kind == "np":
            return r | 0x20
        r &= ~0x20
        tt = level - 2
        if kind == "inv":
            tt = (tt + rng.randint(1, 3)) & 3
        r = (r & ~0xc) | (tt << 2)
        if kind == "huge":
            return r | 0x400
        if kind == "table":
            r &= ~0x400
            if level >= 3:
                m = rng.random()
                if m < 0.45:
                    r = (r & ~0xc3) | (tt << 2) | 3            # TF = 0, TL = 3
                elif m < 0.75:
                    nxt = idx[level - 1] >> 9                  # boundary: TF = nxt or TL = nxt
                    tf = nxt if rng.random() < 0.5 else rng.randint(0, nxt)
                    tl = nxt if rng.random() < 0.5 else rng.randint(nxt, 3)
                    r = (r & ~0xc3) | (tf << 6) | tl
        return r
    if fmt == "ppc64_linux_rpn30":
        if kind == "np":
            return 0
        if level == 1:
            return r or 1
        if kind == "huge":
            return r | rng.choice([1, 2, 3])
        if kind == "hugepd":
            psz = rng.choice(list(range(2, 14)) + [8, 9, 10, 11, 14, 15])   # page size >= base page (Linux)
            return (r & ~(1 << 63) & ~0x3f) | (psz << 2)
        if kind == "inv":
            return (r & ~(1 << 63) & ~0x3f) | (rng.choice([14, 15]) << 2)
        return (r | (1 << 63)) & ~3
    raise ValueError(fmt)


def rand_entry(rng, width):
    m = rng.random()
    if m < 0.7:
        return rng.getrandbits(width)
    if m < 0.85:
        return rng.getrandbits(width) | ((1 << width) - 1) & ~((1 << rng.randint(0, width)) - 1)
    return rng.getrandbits(width) & ((1 << rng.randint(1, width)) - 1)


def split(fields, va):
    idx = []
    x = va
    for f in fields:
        idx.append(x & ((1 << f) - 1))
        x >>= f
    idx.append(x)
    return idx


def gen_va(rng, fmt, fields):
    t = sum(fields)
    m = rng.random()
    if fmt in SIGNED:
        half = 1 << (t - 1)
        pool = [half - 1, half, M64 - half + 1, M64 - half, M64, 0, (1 << t) - 1, 1 << t, 1 << 63]
        if m < 0.12:
            return rng.choice(pool)
        if m < 0.16:
            return rng.getrandbits(64)
        v = rng.getrandbits(t - 1)
        return v if rng.random() < 0.5 else (M64 & ~(half - 1)) | v
    if fmt in UNSIGNED:
        pool = [0, (1 << t) - 1, 1 << t, M64, (1 << t) + rng.getrandbits(12), 1 << 63]
        if m < 0.10:
            return rng.choice(pool)
        if m < 0.14:
            return rng.getrandbits(64)
        return rng.getrandbits(t)
    if m < 0.08:
        return rng.choice([0, M64, (1 << t) - 1, 1 << t])
    if m < 0.4:
        return rng.getrandbits(64)
    return rng.getrandbits(t)


def gen_mask(rng, width):
    m = rng.random()
    if m < 0.55:
        return 0
    if m < 0.75:
        return 1 << rng.choice([47, 51, 52, 58, 62, 63, 11, 9, 8, 5, 2, 1, 0, 12, 21, 31])
    if m < 0.9:
        return rng.getrandbits(64) & rng.getrandbits(64) & rng.getrandbits(64)
    return M64 & ~((1 << rng.randint(30, 63)) - 1)


def gen_root(rng, fmt):
    m = rng.random()
    if m < 0.7:
        return rng.getrandbits(rng.choice([32, 40, 48, 52])) & ~0xfff
    if m < 0.8:
        return 0
    if m < 0.9:
        return (M64 & ~0xfff) - (rng.randint(0, 3) << 12)       # tables at the top: address arithmetic wraps
    return rng.getrandbits(64) & ~(7 if rng.random() < 0.7 else 0)


def gen_pgt(rng, quick_variants=True):
    """One page-table chain; returns a list of case lines (same memory, several addresses)."""
    fmt = core_choice(rng, WEIGHTS)
    fields = rng.choice(FORMS[fmt])
    if rng.random() < 0.01 and fmt not in ("pfn32", "pfn64"):
        # more fields than the format has levels: rejected up front ("Too many paging levels")
        maxf = {"arm": 3, "ia32": 3, "ia32_pae": 4, "ppc64_linux_rpn30": 5}.get(fmt, 6)
        fields = (list(fields) + [9] * 8)[:rng.randint(maxf + 1, 8)]
    width = 32 if fmt in PTE32 else 64
    esz = width // 8
    mask = gen_mask(rng, width)
    root_as = rng.choice([0, 1, 1, 2])
    tgt = rng.choice([0, 1, 1, 2])
    if rng.random() < 0.01:
        root_as = -1
    bo = rng.choice([0, 1, 1, 2])
    root = gen_root(rng, fmt)
    va = gen_va(rng, fmt, fields)
    idx = split(fields, va)
    cells = {}
    base, bas = root, root_as
    level = len(fields) - 1
    depth = 0
    endkind = "flat"
    leaf_level = 0
    while level >= 1:
        ea = (base + idx[level] * esz) & M64
        k = rng.random()
        if k < 0.025:
            endkind = "nodata"
            break
        if k < 0.04:
            cells[(bas, ea)] = "!%s" % rng.choice(["5", "5", "4", "1", "-5"])
            endkind = "readerr"
            break
        k = rng.random()
        if level == 1:
            kind = "np" if k < 0.08 else ("inv" if k < 0.16 else ("huge" if k < 0.4 else "leaf"))
        else:
            kind = ("np" if k < 0.06 else "inv" if k < 0.11 else "huge" if k < 0.25 else
                    "hugepd" if (k < 0.40 and fmt == "ppc64_linux_rpn30") else "table")
        r = rand_entry(rng, width)
        if kind == "table" and rng.random() < 0.5:
            # keep the next table inside a small physical range so that address bits above it are
            # exercised by the other half of the cases only
            r &= (1 << rng.choice([32, 36, 44, 48, 50, 52, 56, 64])) - 1
        e = steer(rng, fmt, fields, level, kind, r, idx) & ((1 << width) - 1)
        e &= ~mask
        if fmt == "ppc64_linux_rpn30" and level > 1 and e and not e & 3 and not e >> 63 \
                and MMU_PSHIFT[(e & 0x3f) >> 2: ((e & 0x3f) >> 2) + 1] in ([12], [14]):
            # (after masking) a huge-page directory for pages smaller than the base page:
            # outside the layout's domain (Properties_C02: ppc64_mem_ok); make it a 16M one
            e = (e & ~0x3f) | ((8 << 2) & ~mask)
            if MMU_PSHIFT[(e & 0x3f) >> 2: ((e & 0x3f) >> 2) + 1] in ([12], [14]):
                e = 0
        raw = e | (rng.getrandbits(width) & mask)
        if width == 32 and rng.random() < 0.1:
            raw |= rng.getrandbits(32) << 32          # junk beyond the PTE width in the cell
        cells[(bas, ea)] = "=%x" % raw
        g = guide(fmt, fields, level, e, idx)
        depth += 1
        if g[0] == "tbl":
            base = g[2]
            bas = tgt if g[1] is None else g[1]
            level -= 1
            continue
        if g[0] == "hugepd":
            # remain := 2: one more table read at base + idx[1]*8 with the recomputed idx[1]
            off = 0
            i = level - 1
            while i >= 1:
                off |= idx[i]
                off = (off << fields[i - 1]) & M64
                i -= 1
            nidx1 = off >> g[2]
            ea2 = (g[1] + nidx1 * 8) & M64
            r2 = rand_entry(rng, 64)
            if rng.random() < 0.1:
                r2 = 0
            if rng.random() < 0.9:
                cells[(2, ea2)] = "=%x" % ((r2 & ~mask) | (rng.getrandbits(64) & mask))
            endkind = "hugepd"
            leaf_level = level
            break
        endkind = g[0] if g[0] != "leaf" else ("leaf" if level == 1 else "huge")
        leaf_level = level
        break
    # decoys
    for _ in range(rng.randint(0, 2)):
        cells.setdefault((rng.choice([0, 1, 2]), rng.getrandbits(48) & ~7), "=%x" % rng.getrandbits(64))
    cellstr = " ".join("%d:%x%s" % (a, addr, v) for (a, addr), v in cells.items())
    fs = ",".join("%x" % f for f in fields)
    vas = [va]
    if quick_variants and leaf_level >= 1:
        span = lo_of(fields, leaf_level)
        for sz in {span, fields[0], 16, 24}:
            if sz <= span:
                vas.append(va & ~((1 << sz) - 1))
                vas.append(va | ((1 << sz) - 1))
        rng.shuffle(vas)
        vas = vas[:3]
        if va not in vas:
            vas[0] = va
    lines = []
    for v in vas:
        lines.append(("pgt %s %s %d %x %x %d %d %x %s" % (fmt, fs, root_as, root, mask, tgt, bo, v & M64, cellstr)).strip())
    return lines, "%s/%d/%s" % (fmt, len(fields), endkind)


def core_choice(rng, weights):
    tot = sum(w for _, w in weights)
    x = rng.random() * tot
    for k, w in weights:
        x -= w
        if x < 0:
            return k
    return weights[-1][0]


def hexs(v):
    return ("-%x" % -v) if v < 0 else ("%x" % v)


def gen_other(rng):
    k = rng.random()
    tgt = rng.choice([0, 1, 2])
    if k < 0.3:
        off = rng.choice([0, 1, -1, -(1 << 63), (1 << 63) - 1, rng.getrandbits(63), -rng.getrandbits(63),
                          -0xffff880000000000 % (1 << 63)])
        a = rng.choice([0, M64, rng.getrandbits(64), (-off) & M64, ((-off) - 1) & M64])
        return ["lin %s %d %x" % (hexs(off), tgt, a)], "linear"
    if k < 0.65:
        n = rng.randint(0, 5)
        endoff = rng.choice([0, 0xfff, 0xffff, rng.getrandbits(rng.randint(1, 40))])
        tbl = []
        for _ in range(n):
            o = rng.choice([0, rng.getrandbits(rng.choice([16, 32, 48, 64])), M64 - endoff])
            o = min(o, M64 - endoff)                  # objects lie inside the address space
            if tbl and rng.random() < 0.3:
                o = min(M64 - endoff, max(0, tbl[-1][0] + rng.choice([-1, 1]) * rng.randint(0, endoff + 1)))
            tbl.append((o, rng.getrandbits(rng.choice([20, 48, 64]))))
        if tbl and rng.random() < 0.8:
            o = rng.choice(tbl)[0]
            a = max(0, min(M64, o + rng.choice([0, endoff, endoff + 1, -1, endoff // 2, rng.randint(0, endoff)])))
        else:
            a = rng.getrandbits(64)
        return ["lkp %x %d %x %s" % (endoff, tgt, a, " ".join("%x:%x" % t for t in tbl))], "lookup"
    if k < 0.97:
        shift = rng.choice([0, 12, 12, 16, 21, 30, 63, rng.randint(0, 63)])
        elemsz = rng.choice([4, 8, 8, 16, 1, 0x1000, 0xffffffff])
        valsz = rng.choice([4, 8, 8, 8, 2, 0, 16]) if rng.random() < 0.15 else rng.choice([4, 8])
        bas = rng.choice([0, 1, 2])
        base = rng.choice([0, rng.getrandbits(48) & ~7, M64 - 7, rng.getrandbits(64)])
        a = rng.choice([rng.getrandbits(64), rng.getrandbits(40), 0, M64])
        ea = (base + (a >> shift) * elemsz) & M64
        bo = rng.choice([0, 1, 2])
        m = rng.random()
        cell = ""
        if m < 0.85:
            v = rand_entry(rng, 64)
            cell = "%d:%x=%x" % (bas, ea, v)
        elif m < 0.93:
            cell = "%d:%x!%s" % (bas, ea, rng.choice(["5", "4", "-3"]))
        return [("mar %d %x %x %x %x %d %d %x %s" % (bas, base, shift, elemsz, valsz, tgt, bo, a, cell)).strip()], "memarr"
    return ["non %d %x" % (tgt, rng.getrandbits(64))], "nometh"


# ---------------------------------------------------------------------------

def split_impl(line):
    """'W .. | L .. ; S ..' -> (walk part, final part of launch+steps)"""
    if " | " not in line:
        return line, None
    wpart, lpart = line.split(" | ", 1)
    last = lpart.split(" ; ")[-1]
    return wpart[2:].strip(), last


def final_of_steps(last):
    """'S 0 r=0 e=0 b=1:77123 raw=.. i=..' -> '0 1:77123'; error -> '<st>'"""
    f = last.split()
    st = f[1]
    if st != "0":
        return st
    b = [x for x in f if x.startswith("b=")]
    r = [x for x in f if x.startswith("r=")]
    if r and r[0] != "r=0":
        return "unfinished"
    return "0 " + b[0][2:]


def judge(impl_line, spec_line):
    """None if the implementation's answers agree with the spec, else a reason."""
    if impl_line.startswith("CRASH") or impl_line in ("NOT-RUN", "BADCASE"):
        return "implementation: " + impl_line
    w, last = split_impl(impl_line)
    if spec_line == "nospec":
        sp = None
    else:
        sp = spec_line
    fin = final_of_steps(last)
    if sp is not None and w != sp:
        return "addrxlat_walk gives '%s', the architecture gives '%s'" % (w, sp)
    if fin != w:
        return "addrxlat_walk gives '%s' but launch+steps end with '%s'" % (w, fin)
    return None


def check(run):
    run.trusted += ["modelled, not verified: the read callback (a total function from (address space, address) "
                    "to a raw cell or a failure status), byte-order conversion (be/le*toh), the read cache of ctx.c "
                    "(the driver's callback serves one-address windows)",
                    "the PTE-format decoders of Xlat/ArchSpec.v are transcribed from the architecture manuals by hand"]
    run.assumptions += ["paging forms are those of the architectures (as used by sys_* and the test-suite)",
                        "a failing read callback returns a non-OK status",
                        "lookup objects lie inside the address space (orig + endoff <= ADDR_MAX)",
                        "the tree has fixes/01 and fixes/02 applied (LPA/LPA2 field width, s390x TF/TL shift)"]
    run.check_coq()
    if not run.need_ml():
        return
    exe = run.need_cc("walk_drv", "walk_drv.c", sources=core.lib_sources(("addrxlat",)), sanitize=True, libs=False)
    if exe is None:
        return
    quick = run.tier == "quick"
    nchains = 9000 if quick else 250000
    nother = 2500 if quick else 50000
    if run.replay_path:
        rp = core.json.load(open(run.replay_path))
        line = rp["replay"]["case"]
        model, impl, spec, crashes = run_lines(run, exe, [line])
        print("model:          " + model[0])
        print("implementation: " + impl[0])
        print("spec:           " + spec[0])
        compare(run, exe, [line], ["replay"], model, impl, spec, crashes)
        return
    cases, tags = [], []
    corpus = core.os.path.join(core.VERIF, "corpus", "walk.txt")
    if core.os.path.exists(corpus):
        for l in open(corpus).read().split("\n"):
            if l.strip() and not l.startswith("#"):
                cases.append(l.strip())
                tags.append("corpus")
    ncorpus = len(cases)
    for _ in range(nchains):
        ls, tag = gen_pgt(run.rng)
        for l in ls:
            cases.append(l)
            tags.append(tag)
    for _ in range(nother):
        ls, tag = gen_other(run.rng)
        for l in ls:
            cases.append(l)
            tags.append(tag)
    run.cov["rule"] = ("one case = method + sparse memory + input address; page-table chains are built level by "
                       "level with the kind of each descriptor steered (table / block-huge / not-present / "
                       "invalid-reserved / missing cell / failing read) and every other entry bit uniform, "
                       "addresses interior, first/last byte of the mapped unit, canonical boundary +-1, all-ones; "
                       "distinct = distinct case strings; non-trivial = the walk read at least one entry or the "
                       "method is lookup/memarr with a non-empty table")
    run.cov["engines"]["walk"] = {"corpus_cases": ncorpus, "chains": nchains, "other_methods": nother,
                                  "cases": len(cases)}
    shard = 40000
    for s0 in range(0, len(cases), shard):
        part = cases[s0:s0 + shard]
        model, impl, spec, crashes = run_lines(run, exe, part)
        if crashes:
            run.count("impl-abnormal-exit", len(crashes))
        compare(run, exe, part, tags[s0:s0 + shard], model, impl, spec, crashes)
        if len(run.violations) > 3:
            break


def run_lines(run, exe, lines):
    cf = run.casefile("walk-cases.txt", lines)
    model = core.run_model("walk", cf)
    spec = core.run_model("walk-spec", cf)
    impl, crashes = core.run_impl_lines(exe, run.work, lines)
    return model, impl, spec, crashes


def shrink_case(line, fails):
    f = line.split()
    if f[0] == "pgt":
        head, cells = f[:9], f[9:]
    elif f[0] == "mar":
        head, cells = f[:9], f[9:]
    elif f[0] == "lkp":
        head, cells = f[:4], f[4:]
    else:
        return line
    if len(cells) >= 2:
        cells = core.shrink_list(cells, lambda c: fails(" ".join(head + c)), max_tests=60)
    # the empty list is not tried by shrink_list
    if len(cells) == 1 and fails(" ".join(head)):
        cells = []
    return " ".join(head + cells)


def compare(run, exe, cases, tags, model, impl, spec, crashes):
    bad = set(core.diff_lines(model, impl))
    verdicts = {}
    for i, line in enumerate(cases):
        il = impl[i] if i < len(impl) else "NOT-RUN"
        sl = spec[i] if i < len(spec) else "nospec"
        j = judge(il, sl)
        if j:
            verdicts[i] = j
        w, _ = split_impl(il)
        st = w.split()[0] if w else "?"
        run.count("%s -> %s" % (tags[i], st if not il.startswith("CRASH") else "crash"))
        if sl == "nospec":
            run.count("tie-only (no architectural spec)")
        run.note_case(line, " ; S " in il or line.startswith(("lkp", "mar")))
        if i < 4:
            run.sample({"case": line, "impl": il, "spec": sl})
    first = sorted(set(verdicts) | set(crashes))
    todo = (first + sorted(bad - set(first)))[:5]
    for i in todo:
        line = cases[i]

        def one(l):
            m, im, sp, cr = run_lines(run, exe, [l])
            return m[0], im[0], sp[0], cr

        def fails(l):
            m, im, sp, cr = one(l)
            return bool(cr) or m != im or judge(im, sp) is not None

        def contradicts(l):         # the stronger predicate: implementation vs spec / crash
            m, im, sp, cr = one(l)
            return bool(cr) or judge(im, sp) is not None
        if not fails(line):
            run.count("unreproducible-disagreement")
            continue
        small = shrink_case(line, contradicts if contradicts(line) else fails)
        m, im, sp, cr = one(small)
        j = judge(im, sp)
        replay = {"engine": "walk", "case": small, "model": m, "implementation": im, "spec": sp,
                  "spec_verdict": j, "impl_stderr_tail": (cr[0][1][-1500:] if cr else ""),
                  "how": "bin/check C02 --replay <this file> re-runs the case through harness/walk_drv.c"}
        fmt = small.split()[1] if small.startswith("pgt") else small.split()[0]
        if cr:
            err = cr[0][1]
            where = core.re.search(r"(\w+\.c:\d+)[:\d]*: runtime error: ([^\n]*)", err)
            sig = "walk crash %s %s" % (fmt, (where.group(1) + " " + where.group(2)) if where else err[-200:])
            run.violation("impl", "libaddrxlat aborts (sanitizer/crash) on: %s" % small, replay,
                          found_input=True, signature=sig)
        elif j:
            run.violation("spec", "libaddrxlat contradicts the architectural walk (%s): %s; case: %s"
                          % (fmt, j, small), replay, found_input=True, signature="walk spec %s %s" % (fmt, j))
        else:
            run.violation("tie", "correspondence walk (model Xlat/Step.v vs addrxlat_walk/launch/step, %s) "
                          "broken on case: %s" % (fmt, small), replay, found_input=False,
                          signature="walk tie " + fmt)
