"""C16, end-to-end stage (engine "errmsg-api", harness/e2e_drv.c): public-API calls on dump files of
every format / word size / byte order (the test suite's own inputs, lib/kdv/suitedumps.py) and on
x86-64 ELF cores with complete and incomplete VMCOREINFO.  After EVERY call the returned status and
the error strings are judged by the extracted contract StatusModel.status_msg_ok (engine
"errmsg-apispec"): status in the documented enumeration; failure => kdump_get_err() non-empty;
success => no error string left behind — also in the translation context once it is reachable.
This is the run-time side of C16_entry_point_contract / C16_success_leaves_no_error."""
import os

from .. import core
from .. import hangaware
from .. import suitedumps

GET_KEYS = ["file.format", "arch.name", "arch.byte_order", "arch.ptr_size", "arch.page_size", "arch.page_shift",
            "max_pfn", "linux.uts.release", "linux.uts.machine", "linux.uts.sysname", "linux.version_code",
            "linux.phys_base", "xen.type", "xen.version.major", "xen.phys_start", "cpu.number", "cpu.0.reg.rip",
            "cpu.0.PRSTATUS", "file.pagemap", "memory.pagemap", "addrxlat.ostype", "verif.nokey", "file", "cpu",
            "linux.vmcoreinfo.lines.OSRELEASE", "linux.vmcoreinfo.raw", "cache.size", "file.set.number",
            "file.eraseinfo.raw", "addrxlat.force.virt_bits", "linux.vmcoreinfo.SYMBOL._stext"]
SETS = ["saddrxlat.ostype=linux", "saddrxlat.ostype=linux", "saddrxlat.ostype=xen", "saddrxlat.ostype=bogus",
        "narch.page_size=3", "narch.page_size=1000", "narch.page_size=0", "narch.ptr_size=8", "narch.ptr_size=3",
        "sarch.name=x86_64", "sarch.name=bogus", "narch.name=1", "nverif.nokey=1", "ncache.size=a",
        "nfile.zero_excluded=1", "uaddrxlat.force.phys_base=0", "naddrxlat.force.virt_bits=30",
        "sfile.format=elf", "nmax_pfn=100", "scpu.number=x", "nxen.xlat=1", "nxen.xlat=7",
        "ulinux.phys_base=1000000", "sfile.pagemap=x", "nfile.mmap_policy=1",
        "caddrxlat.ostype", "carch.name", "clinux.uts.release", "cverif.nokey", "cfile.format"]
ADDRS = [0, 0x1000, 0xfff, 0x2000000, 0xffff880000000000, 0xffff880002000000, 0xffffffff81e15325,
         0xffffffff80000000, 0xffffffffffffff00, 0xc0000000, 0x100000000000]
LENS = [0, 1, 0x10, 0x1001]
MISC = ["v", "lOSRELEASE", "lPAGESIZE", "lNOPE", "y_stext", "yinit_uts_ns", "ynope",
        "ilinux.uts", "icpu", "i", "iverif.nodir", "ifile.format", "iaddrxlat.force", "ilinux.vmcoreinfo.lines",
        "bfile.pagemap:0", "bmemory.pagemap:10", "bfile.pagemap:ffffffffffffff00", "bmemory.pagemap:0",
        "bfile.format:0", "x", "x"]


def vmcoreinfo_elf(path, lines, kv=0xffff880002000000):
    """x86-64 ELF core with a VMCOREINFO note made of `lines` and one LOAD page"""
    text = "".join(l + "\n" for l in lines)
    data = path + ".data"
    with open(data, "w") as f:
        f.write("@phdr type=NOTE offset=0x1800\n")
        f.write('%08x %08x 00000000 "VMCOREINFO" 00 00\n' % (11, len(text)))
        for l in lines:
            f.write('"%s\\n"\n' % l)
        f.write("\n@phdr type=LOAD offset=0x5000 paddr=0x2000000 vaddr=0x%x memsz=0x1000\n" % kv)
        f.write("01 23 45 67 89 ab cd ef\n")
    cfg = "ei_class = 2\nei_data = 1\ne_machine = 62\ne_phoff = 64\nDATA = %s\n" % data
    rc, out = core.sh([os.path.join(suitedumps.TOOLS, "mkelf"), path], input=cfg)
    os.unlink(data)
    if rc != 0:
        raise RuntimeError("mkelf failed: " + out[-300:])


VMCI_POOL = ["OSRELEASE=3.12.28", "PAGESIZE=4096", "NUMBER(phys_base)=31457280",
             "SYMBOL(_stext)=ffffffff81000000", "SYMBOL(init_level4_pgt)=ffffffff81c0a000",
             "SYMBOL(init_uts_ns)=ffffffff81c13440", "OSRELEASE=5.14.21", "NUMBER(pgtable_l5_enabled)=0",
             "CRASHTIME=1689103980", "SYMBOL(swapper_pg_dir)=ffffffff81c0a000", "KERNELOFFSET=0"]


def gen_script(rng, nops):
    ops = []
    if rng.random() < 0.15:
        # calls on a context without a file.  (Attribute *sets* before the open are left out: presetting
        # arch.page_size makes LKCD dumps crash on the first read — cache never allocated because the
        # probe's identical value skips the set hooks; a crash, not a status/message question, reported in
        # design.d/C16.md.)
        ops.append(rng.choice(["a" + rng.choice(GET_KEYS), "r1:0:10", "x", "v", "lOSRELEASE"]))
    ops.append("o")
    for _ in range(nops):
        k = rng.random()
        if k < 0.25:
            ops.append("a" + rng.choice(GET_KEYS))
        elif k < 0.45:
            ops.append(rng.choice(SETS))
        elif k < 0.65:
            ops.append("r%x:%x:%x" % (rng.randrange(3), rng.choice(ADDRS), rng.choice(LENS)))
        elif k < 0.72:
            ops.append("t%x:%x" % (rng.randrange(3), rng.choice(ADDRS)))
        else:
            ops.append(rng.choice(MISC))
    return ops


def build(run):
    return run.need_cc("e2e_drv", "e2e_drv.c", sanitize=True, libs=True, sources=core.lib_sources())


def make_files(run):
    d = os.path.join(run.work, "suite")
    files = dict(suitedumps.build(d))
    # x86-64 ELF cores with complete and incomplete VMCOREINFO (fixed seed: the files are cached)
    import random
    r = random.Random(20260930)
    fixed = [["OSRELEASE=3.12.28", "PAGESIZE=4096", "NUMBER(phys_base)=31457280"],
             ["OSRELEASE=3.12.28", "PAGESIZE=4096", "NUMBER(phys_base)=31457280",
              "SYMBOL(_stext)=ffffffff81000000", "SYMBOL(init_level4_pgt)=ffffffff81c0a000"],
             ["PAGESIZE=4096"], []]
    for i in range(10):
        lines = fixed[i] if i < len(fixed) else r.sample(VMCI_POOL, r.randint(1, 6))
        p = os.path.join(d, "out", "vmci%d.dump" % i)
        if not os.path.exists(p):
            vmcoreinfo_elf(p, lines)
        files["vmci%d" % i] = p
    return files


def triples(answer):
    return answer.split("/")


def judge(run, cases, impl):
    lines, idx = [], []
    for i, (c, l) in enumerate(zip(cases, impl)):
        if l.startswith(("CRASH", "NOT-RUN", "SETUP-FAILED")):
            continue
        ops = c.split()[1:]
        ans = l.split()
        for j, (op, a) in enumerate(zip(ops, ans)):
            for t in triples(a):
                lines.append("%s %s" % (op, t))
                idx.append((i, j))
    bad = {}
    if lines:
        verd = core.run_model("errmsg-apispec", run.casefile("api-spec.txt", lines))
        for (i, j), v in zip(idx, verd):
            if v != "ok":
                bad.setdefault(i, (j, v))
    run.count("api-returns-judged", len(lines))
    return bad


def run_one(exe, run, line):
    cf = run.casefile("api-one.txt", [line])
    rc, out, err = core.run_impl(exe, [cf], timeout=25)
    return out.split("\n")[:-1], rc, err


def report(run, exe, cases, names, impl, crashes, bad):
    for i in sorted(set(bad) | set(crashes))[:4]:
        path = cases[i].split()[0]
        ops = cases[i].split()[1:]

        def fails(cand):
            line = path + " " + " ".join(cand)
            im, rc, err = run_one(exe, run, line)
            return rc != 0 or bool(judge(run, [line], im))
        if not fails(ops):
            run.count("unreproducible-disagreement")
            continue
        small = core.shrink_list(ops, fails, max_tests=80, budget_s=25)
        line = path + " " + " ".join(small)
        im, rc, err = run_one(exe, run, line)
        b = judge(run, [line], im)
        replay = {"engine": "errmsg-api", "dump": names[path], "ops": " ".join(small), "implementation": im,
                  "impl_exit": rc, "impl_stderr_tail": err[-1500:], "spec_verdict": b.get(0),
                  "how": "bin/check C16 --replay <this file> rebuilds the suite dumps and re-runs the ops "
                         "through harness/e2e_drv.c"}
        if rc != 0:
            run.violation("impl", "public API: sanitizer/crash (exit %s) on dump %s, calls: %s"
                          % (rc, names[path], " ".join(small)), replay, found_input=True,
                          signature="api crash " + err[-300:])
        else:
            j, v = b[0]
            run.violation("spec", "public API call breaks the status/message contract on dump %s: %s after '%s' "
                          "(calls: %s)" % (names[path], v, small[j], " ".join(small)), replay, found_input=True,
                          signature="api spec %s %s" % (small[j][:1], v[:50]))


def check(run):
    exe = build(run)
    if exe is None:
        return
    files = make_files(run)
    names = {p: n for n, p in files.items()}
    quick = run.tier == "quick"
    per = 3 if quick else 40
    cases = []
    for n in sorted(files):
        for _ in range(per):
            cases.append(files[n] + " " + " ".join(gen_script(run.rng, 14 if quick else 24)))
    # the translation-context path on every dump: open, OS type, kdump_get_addrxlat, reads in all spaces
    for n in sorted(files):
        for ost in ("linux", "xen"):
            cases.append(files[n] + " o saddrxlat.ostype=%s x r2:ffff880002000000:8 r0:1000:8 r1:0:8 x "
                         "alinux.uts.release t2:ffffffff81e15325" % ost)
    run.cov["engines"]["errmsg-api"] = {"dumps": len(files), "case_lines": len(cases)}
    impl, crashes = hangaware.run_lines(exe, run.work, cases, timeout=120 if quick else 1200)
    for c, l in zip(cases, impl):
        run.note_case(c, True)
        for a in l.split():
            for t in triples(a):
                f = t.split(",")
                if len(f) == 3:
                    run.count("api-status-" + f[0])
    if crashes:
        run.count("api-abnormal-exit", len(crashes))
    bad = judge(run, cases, impl)
    report(run, exe, cases, names, impl, crashes, bad)


def replay(run, rp):
    exe = build(run)
    if exe is None:
        return
    files = make_files(run)
    if rp["dump"] not in files:
        run.violation("machinery", "replay: dump %s cannot be rebuilt" % rp["dump"], rp, found_input=False)
        return
    names = {p: n for n, p in files.items()}
    cases = [files[rp["dump"]] + " " + rp["ops"]]
    impl, crashes = hangaware.run_lines(exe, run.work, cases, timeout=120)
    print("implementation: " + impl[0])
    report(run, exe, cases, names, impl, crashes, judge(run, cases, impl))
