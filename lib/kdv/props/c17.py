"""C17 — stacking a callback layer that overrides nothing changes nothing.

Theorems: coq/theories/Properties_C17.v (model Cb/CbModel.v, spec Cb/CbSpec.v).
Tie, engine "cb": harness/cb_drv.c builds stacks of 1..6 layers through the public API
(addrxlat_ctx_add_cb / del_cb / get_cb) with random override subsets and private data; every
implementation knows which layer it belongs to and reports the private data of the record it was
called with; hooks are invoked the way the library invokes them.  The extracted model replays the same
ops.  A second case kind ("K") asks all seven hooks of a kdump_ctx_t's translation context before
adding an empty layer, with it, and after deleting it.
Search: every invocation is judged by the extracted *spec* (engine "cb-spec": CbSpec.invoke_spec =
first implementation at or below the top, called with its own record)."""
import os
import random
import time

from .. import core
from .. import readfiles as rf
from .. import suitedumps
from .. import hangaware

NH = 7
HNAMES = ["get_page", "read_caps", "reg_value", "sym_value", "sym_sizeof", "sym_offsetof", "num_value"]


def gen_case(rng, maxlayers):
    ops = []
    live = []
    n = 0
    depth = rng.randint(1, maxlayers)
    for _ in range(depth):
        n += 1
        live.append(n)
        ops.append("+")
        if rng.random() < 0.8:
            ops.append("P%d" % n)
        r = rng.random()
        if r < 0.35:
            sub = []                                    # overrides nothing
        elif r < 0.5:
            sub = list(range(NH))                       # overrides everything
        else:
            sub = [h for h in range(NH) if rng.random() < 0.4]
        for h in sub:
            ops.append("O%d:%d" % (n, h))
        if rng.random() < 0.5:
            ops += ["I%d" % h for h in rng.sample(range(NH), rng.randint(1, NH))]
    ops += ["I%d" % h for h in range(NH)]
    # remove layers in random order, asking again after each removal
    for _ in range(rng.randint(0, len(live))):
        k = rng.choice(live)
        live.remove(k)
        ops.append("-%d" % k)
        ops += ["I%d" % h for h in rng.sample(range(NH), rng.randint(1, NH))]
        if rng.random() < 0.3 and n < 8:
            n += 1
            live.append(n)
            ops.append("+")
            ops += ["I%d" % h for h in rng.sample(range(NH), 3)]
    return ops


def invocations(ops):
    return [int(o[1:]) for o in ops if o[0] == "I"]


def run_one(exe, run, ops):
    cf = run.casefile("cb-one.txt", [" ".join(ops)])
    model = core.run_model("cb", cf)
    spec = core.run_model("cb-spec", cf)
    rc, out, err = core.run_impl(exe, [cf], timeout=8)
    impl = out.split("\n")[:-1]
    return model, spec, impl, rc, err


def explain(ops, spec_line, impl_line):
    hs = invocations(ops)
    for h, s, i in zip(hs, spec_line.split(), impl_line.split()):
        if s != i:
            so, ss = s.split(":")
            if ":" in i:
                io, isn = i.split(":")
                if io == so:
                    return ("%s: the implementation of layer %s was called with the private data of %s "
                            "instead of its own (%s)" % (HNAMES[h], io, "layer " + isn if isn != "-1" else "NULL", ss))
                return "%s: implementation of layer %s ran, expected layer %s" % (HNAMES[h], io, so)
            return "%s: answer %s, expected layer %s with its own private data" % (HNAMES[h], i, so)
    if len(spec_line.split()) != len(impl_line.split()):
        return "implementation answered %d of %d invocations" % (len(impl_line.split()), len(spec_line.split()))
    return None


def k_verdict(line):
    parts = [p.strip() for p in line.split("|")]
    if len(parts) != 3:
        return "malformed answer: " + line[:80]
    if parts[0] != parts[1]:
        return "a layer that overrides nothing changed the answers of the hooks: %s -> %s" % (parts[0], parts[1])
    if parts[0] != parts[2]:
        return "deleting the layer did not restore the answers: %s -> %s" % (parts[0], parts[2])
    return None


SITE_RE = None


def scan_sites():
    """in-library invocation sites of the seven hooks: [(file:line, hook, 'same'|'other', text)]"""
    import glob
    import re
    pat = re.compile(r"((?:\w+(?:->|\.))*\w*cb)->(%s)\(\s*([^,)]+)" % "|".join(HNAMES))
    out = []
    for f in sorted(glob.glob(os.path.join(core.REPO, "src", "*", "*.[ch]"))):
        if os.path.basename(f).startswith("test-"):
            continue
        for ln, text in enumerate(open(f, errors="replace"), 1):
            for m in pat.finditer(text):
                recv, hook, arg = m.group(1), m.group(2), m.group(3).strip()
                if recv.endswith("cb->next") or "->next" in recv:
                    continue            # the next_*_cb defaults themselves (CbModel.passes_next)
                out.append(("%s:%d" % (os.path.relpath(f, core.REPO), ln), hook,
                            "same" if arg == recv else "other", text.strip()))
    return out


def check_sites(run):
    model = core.run_model("cb", run.casefile("cb-sites.txt", ["SITES"]))[0].split()
    found = scan_sites()
    got = sorted("%s:%s" % (h, k) for _, h, k, _ in found)
    run.count("library-call-sites", len(found))
    if got != sorted(model):
        odd = [x for x in found if x[2] != "same"]
        what = ("; ".join("%s passes another record than the one whose function it calls: %s" % (x[0], x[3])
                          for x in odd[:3]) or
                "sites in the sources: %s; in CbModel.library_sites: %s" % (" ".join(got), " ".join(sorted(model))))
        run.violation("tie", "in-library hook invocation sites differ from the transcription "
                      "(CbModel.library_sites): " + what,
                      {"engine": "cb", "ops": "SITES", "found": [list(x) for x in found], "model": model},
                      found_input=False, signature="cb sites")


def layer_cases(run):
    """dump objects with 0, 1, 2 empty layers stacked before open: [(group key, case line)]"""
    d = os.path.join(run.work, "suite")
    want = ["elf-dom0-no-phys_base", "elf-vmcoreinfo", "elf-xen_prstatus", "early-version-code",
            "elf-prstatus-x86_64", "elf-prstatus-aarch64", "elf-prstatus-arm", "elf-prstatus-i386",
            "elf-prstatus-ppc64", "elf-prstatus-s390x", "elf-prstatus-riscv64", "elf-task_struct",
            "diskdump-basic-raw", "diskdump-empty-ppc64", "diskdump-empty-s390x", "diskdump-v6-arm",
            "lkcd-basic-raw", "sadump-basic-single"]
    files = suitedumps.build(d, want)
    from . import c16_api
    vm = os.path.join(d, "out", "c17-vmci.dump")
    if not os.path.exists(vm):
        c16_api.vmcoreinfo_elf(vm, ["OSRELEASE=3.12.28", "PAGESIZE=4096", "NUMBER(phys_base)=31457280",
                                    "SYMBOL(_stext)=ffffffff81000000", "SYMBOL(init_uts_ns)=ffffffff81c13440"])
    files["c17-vmci"] = vm
    addrs = "ffffffff81e15325 ffff880002000000 0 ffffffff81000000 c0001000"
    out = []
    for n in sorted(files):
        for ost in ("linux", "xen", "-"):
            for k in (0, 1, 2):
                out.append(("%s/%s" % (n, ost), "L %d %s %s %s" % (k, ost, files[n], addrs)))
    return out


def judge_layers(run, exe, lcases, impl, crashes, base):
    groups = {}
    for j, (key, line) in enumerate(lcases):
        i = base + j
        ans = impl[i] if i < len(impl) else "NOT-RUN"
        groups.setdefault(key, []).append((line, ans, i))
    run.count("dump-object-groups", len(groups))
    nbad = 0
    for key, rows in sorted(groups.items()):
        ref = rows[0][1]
        if any(a == "NOT-RUN" for _, a, _ in rows):
            continue
        for line, ans, i in rows[1:]:
            if ans == ref and not ans.startswith(("CRASH", "NOT-RUN")):
                continue
            nbad += 1
            if nbad > 3:
                continue
            if ans.startswith("CRASH") or ref.startswith("CRASH"):
                rc, err = crashes.get(i, crashes.get(rows[0][2], (0, "")))
                run.violation("impl", "dump object %s: crash (exit %s) with layers that override nothing: %s"
                              % (key, rc, line), {"engine": "cb", "ops": line, "impl_stderr_tail": err[-1200:]},
                              found_input=True, signature="cb layers crash " + err[-200:])
                continue
            diff = [(a, b) for a, b in zip(ref.split(), ans.split()) if a != b][:4]
            run.violation("spec", "dump object %s: stacking %s layer(s) that override nothing on the context from "
                          "kdump_get_addrxlat() changes what the application observes: %s"
                          % (key, line.split()[1], "; ".join("%s -> %s" % d for d in diff)),
                          {"engine": "cb", "ops": line, "without_layers": ref, "with_layers": ans,
                           "how": "bin/check C17 --replay <this file> re-runs the group"},
                          found_input=True, signature="cb layers " + (diff[0][0].split("=")[0] if diff else "?"))


def gen_cache_case(rng, nops):
    """reads through the read cache interleaved with add_cb / del_cb of layers that override nothing or
    override read_caps with another capability mask; memory exists only in some address spaces; failing
    reads (multi-step walks that fail in their second step) are interleaved"""
    ops = ["C", "B%x" % rng.choice([1, 2, 3, 3]), "V%x" % rng.choice([1, 2, 3, 3, 3])]
    pool = []
    depth = 0

    def read():
        if pool and rng.random() < 0.6:
            a_as, a = rng.choice(pool)                # re-read a (probably cached) page
            a = (a & ~0xff) + 8 * rng.randrange(31)
            if rng.random() < 0.4:
                a_as = 1 - a_as                       # the same address through the other space
        else:
            a_as = rng.randrange(2)
            r = rng.random()
            if r < 0.2:
                a = rng.randrange(0x100) * 0x100 + 8 * rng.randrange(31)
            elif r < 0.3:
                a = 0xfffffffffffff000 + rng.randrange(0x10) * 0x100 + 8 * rng.randrange(31)
            elif r < 0.5:
                a = (rng.randrange(0x40) * 8 + 3) * 0x100 + 8 * rng.randrange(31)    # a region that fails
            else:
                a = 0x10000 + rng.randrange(0x40) * 0x100 + 8 * rng.randrange(31)
        pool.append((a_as, a))
        return "R%x:%x" % (a_as, a)

    for _ in range(nops):
        k = rng.random()
        if k < 0.6 or not pool:
            ops.append(read())
        elif k < 0.72 and depth < 6:
            ops.append("+")
            depth += 1
        elif k < 0.86 and depth < 6:
            ops.append("+c%x" % rng.choice([1, 2, 3]))
            depth += 1
        elif depth:
            ops.append("-%d" % rng.randrange(depth))
            depth -= 1
    return ops


def page_source_in_sync(run, exe):
    """harness/cb_drv.c's page source against Cb/CbCache.cb_page_source on probe addresses"""
    probes = []
    for a in [0, 8, 0xff, 0x100, 0x2f8, 0x300, 0x3ff, 0x400, 0xfff, 0x1000, 0x7fff, 0x8000, 0xffff, 0x10000,
              0x12345, 0xb00, 0xffffffffffffff00, 0xfffffffffffffb00, 0x7ffffffff300]:
        for s in (0, 1, 2):
            probes.append("Y %x:%x" % (s, a))
    cf = run.casefile("cb-probe.txt", probes)
    m = core.run_model("cb", cf)
    rc, out, err = core.run_impl(exe, [cf], timeout=8)
    im = out.split("\n")[:-1]
    if m != im:
        d = [(p, a, b) for p, a, b in zip(probes, m, im) if a != b][:3]
        run.violation("machinery", "the page source of harness/cb_drv.c and Cb/CbCache.cb_page_source differ "
                      "(the two definitions must change together): %s" % d,
                      {"engine": "cb", "ops": "Y", "model": m, "driver": im}, found_input=False,
                      signature="cb page source sync")
        return False
    return True


def judge_cache(run, exe, ccases, model, impl, crashes, base):
    lines = []
    for j, c in enumerate(ccases):
        i = base + j
        lines.append("%s | %s" % (" ".join(c), impl[i] if i < len(impl) else ""))
    verd = core.run_model("cb-cachespec", run.casefile("cb-cachespec.txt", lines)) if lines else []
    run.count("cache-histories", len(ccases))
    bad = []
    for j, c in enumerate(ccases):
        i = base + j
        ans = impl[i] if i < len(impl) else "NOT-RUN"
        if ans == "NOT-RUN":
            continue
        if i in crashes or ans.startswith("CRASH") or verd[j] != "ok" or model[i] != ans:
            bad.append(j)
    t_report = time.time()
    for j in bad[:3]:
        if time.time() - t_report > 40:
            run.count("failing-cases-not-examined-for-lack-of-time")
            break
        ops = ccases[j]

        def run1(cand):
            line = " ".join(["C"] + cand)
            cf = run.casefile("cb-one.txt", [line])
            m = core.run_model("cb", cf)
            rc, out, err = core.run_impl(exe, [cf], timeout=8)
            im = out.split("\n")[:-1]
            v = core.run_model("cb-cachespec", run.casefile("cb-one-spec.txt", ["%s | %s" % (line, im[0] if im else "")]))
            return m, im, rc, err, v[0]

        def valid(cand):
            depth = 0
            for o in cand:
                if o[0] == "+":
                    depth += 1
                elif o[0] == "-":
                    if int(o[1:]) >= depth:
                        return False
                    depth -= 1
            return True

        def fails(cand):
            if not valid(cand):
                return False
            m, im, rc, err, v = run1(cand)
            return rc != 0 or m != im or v != "ok"
        if not fails(ops[1:]):
            run.count("unreproducible-disagreement")
            continue
        hang = (base + j) in crashes and hangaware.is_hang(crashes[base + j][0])
        small = core.shrink_list(ops[1:], fails, max_tests=10 if hang else 400, budget_s=25)
        m, im, rc, err, v = run1(small)
        line = " ".join(["C"] + small)
        replay = {"engine": "cb", "ops": line, "model": m, "implementation": im, "impl_exit": rc,
                  "impl_stderr_tail": err[-1500:], "spec_verdict": v,
                  "how": "bin/check C17 --replay <this file> re-runs the history through harness/cb_drv.c"}
        if rc != 0:
            run.violation("impl", "read cache and layers: %s (exit %s) on history: %s"
                          % ("no answer within 5 s (the library spins)" if hangaware.is_hang(rc) else "sanitizer/crash",
                             rc, line),
                          replay, found_input=True, signature="cb cache crash " + err[-300:])
        elif v != "ok":
            run.violation("spec", "layer operations disturb the reads through the context (read cache / read capabilities): %s; "
                          "history: %s" % (v, line), replay, found_input=True, signature="cb cache " + v[:40])
        else:
            run.violation("tie", "correspondence cb (CbCache.hrun vs ctx.c) broken on history: %s: model '%s' "
                          "implementation '%s'" % (line, m[0][-120:], (im or ["?"])[0][-120:]), replay,
                          found_input=False, signature="cb cache tie")


def compare(run, exe, cases, model, spec, impl, crashes):
    bad = set(core.diff_lines(model, impl))
    spec_bad = {}
    for i, ops in enumerate(cases):
        line = impl[i] if i < len(impl) else ""
        if ops[0] == "K":
            bad.discard(i)
            if not line.startswith(("CRASH", "NOT-RUN")):
                v = k_verdict(line)
                if v:
                    spec_bad[i] = v
            run.count("kdump-context-case")
        elif not line.startswith(("CRASH", "NOT-RUN")):
            v = explain(ops, spec[i], line)
            if v:
                spec_bad[i] = v
            for h, tok in zip(invocations(ops), line.split()):
                run.count("answer-" + ("base" if tok == "0:0" else "layer" if ":" in tok else "other"))
        depth = sum(1 for o in ops if o == "+")
        run.count("layers-%d" % depth)
        run.note_case(" ".join(ops), depth >= 2)
        if i < 3:
            run.sample({"ops": " ".join(ops), "impl": line})
    nhang = 0
    t_report = time.time()
    bad = {i for i in bad if i < len(impl) and impl[i] != "NOT-RUN"}
    for i in sorted(bad | set(spec_bad) | set(crashes))[:5]:
        if time.time() - t_report > 40:
            run.count("failing-cases-not-examined-for-lack-of-time")
            break
        ops = cases[i]
        hang = i in crashes and hangaware.is_hang(crashes[i][0])
        if hang:
            nhang += 1
            if nhang > 1:
                run.count("further-hanging-cases-not-shrunk")
                continue
        if ops[0] == "K":
            rc, err = crashes.get(i, (0, ""))
            replay = {"engine": "cb", "ops": "K", "implementation": impl[i] if i < len(impl) else None,
                      "impl_exit": rc, "impl_stderr_tail": err[-1500:]}
            if i in crashes:
                run.violation("impl", "a kdump context's translation context crashes (exit %s) when its hooks are "
                              "asked through an extra layer that overrides nothing" % rc, replay, found_input=True,
                              signature="cb kdump crash " + err[-200:])
            else:
                run.violation("spec", "kdump context: " + spec_bad[i], replay, found_input=True,
                              signature="cb kdump " + spec_bad[i][:60])
            continue

        def fails(cand):
            m, s, im, r, e = run_one(exe, run, cand)
            return r != 0 or m != im or (im and explain(cand, s[0], im[0]))
        if not fails(ops):
            run.count("unreproducible-disagreement")
            continue
        # a hanging candidate costs the driver's 5 s alarm: a few steps only
        small = core.shrink_list(ops, fails, max_tests=10 if hang else 400, budget_s=25)
        m, s, im, r, e = run_one(exe, run, small)
        sv = explain(small, s[0], im[0]) if im and s else None
        replay = {"engine": "cb", "ops": " ".join(small), "model": m, "spec": s, "implementation": im,
                  "impl_exit": r, "impl_stderr_tail": e[-1500:], "spec_verdict": sv,
                  "how": "bin/check C17 --replay <this file> re-runs the ops through harness/cb_drv.c"}
        if r != 0:
            kind = "stack overflow (unbounded recursion)" if "stack-overflow" in e else \
                "no answer within 5 s (the library spins)" if hangaware.is_hang(r) else "sanitizer/crash"
            run.violation("impl", "callback layers: %s (exit %s) on ops: %s" % (kind, r, " ".join(small)),
                          replay, found_input=True, signature="cb crash " + e[-300:])
        elif sv:
            run.violation("spec", "callback layers contradict the pass-through spec: %s; ops: %s"
                          % (sv, " ".join(small)), replay, found_input=True, signature="cb spec " + sv[:60])
        else:
            run.violation("tie", "correspondence cb (CbModel vs ctx.c) broken on ops: %s" % " ".join(small),
                          replay, found_input=False, signature="cb tie")


def check(run):
    run.trusted += ["modelled, not verified: malloc in addrxlat_ctx_add_cb (always succeeds in the model), "
                    "the hook implementations themselves (arbitrary functions of the record's private data "
                    "and the arguments)"]
    run.assumptions += ["applications delete only layers they added and that are still installed",
                        "the context's own record implements every hook (addrxlat_ctx_new installs def_*_cb)"]
    run.check_coq()
    if not run.need_ml():
        return
    exe = run.need_cc("cb_drv", "cb_drv.c", sanitize=True, libs=True, sources=core.lib_sources())
    if exe is None:
        return
    quick = run.tier == "quick"
    # a small ELF core for the kdump-context case
    kpath = os.path.join(run.work, "k.elf")
    r0 = random.Random(7)
    rf.make_elf(kpath, {p: rf.page_bytes(r0) for p in (1, 2)}, 0xffff880000000000)
    if run.replay_path:
        rp = core.json.load(open(run.replay_path))["replay"]
        cases = [["K", kpath]] if rp["ops"] == "K" else [rp["ops"].split()]
        if rp["ops"].startswith(("L ", "C")) or rp["ops"] == "SITES":
            cases = []
    else:
        n = 3000 if quick else 120000
        cases = [["K", kpath]] + [gen_case(run.rng, 5 if quick else 6) for _ in range(n)]
    check_sites(run)
    lcases = [] if (run.replay_path and not rp["ops"].startswith("L ")) else layer_cases(run)
    if run.replay_path and rp["ops"].startswith("C"):
        lcases = []
    if run.replay_path and rp["ops"].startswith("L "):
        f = rp["ops"].split()
        lcases = [(k, l) for k, l in lcases if l.split()[2:4] == f[2:4]]
        cases = []
    nplain = len(cases)
    ccases = []
    in_sync = page_source_in_sync(run, exe)
    if run.replay_path:
        if rp["ops"].startswith("C"):
            ccases = [rp["ops"].split()]
    else:
        ccases = [] if not in_sync else [gen_cache_case(run.rng, rng_n) for rng_n in [run.rng.randint(4, 40) for _ in range(1500 if quick else 60000)]]
    lines = [" ".join(c) for c in cases] + [l for _, l in lcases] + [" ".join(c) for c in ccases]
    run.cov["rule"] = ("stacks of 1..5 (thorough: 6) layers over a fresh context, each layer with private data or NULL and "
                       "a random subset of the seven hooks overridden (35% override nothing, 15% everything); every "
                       "hook invoked through addrxlat_ctx_get_cb() after building, between additions and after every "
                       "deletion (random order); plus one kdump_ctx_t translation context with an added and removed "
                       "empty layer; distinct = distinct op strings; non-trivial = at least two layers")
    run.cov["rule"] += ("; plus dump objects (suite dumps of 7 architectures and 4 formats, OS type linux / xen / unset) "
                        "with 0, 1 and 2 layers that override nothing stacked on the context from kdump_get_addrxlat() "
                        "before the file is opened: attributes, reads in three address spaces and hook answers must be "
                        "identical; plus a scan of the sources for in-library hook invocation sites against "
                        "CbModel.library_sites")
    run.cov["rule"] += ("; plus histories on one context that interleave reads through the 4-slot read cache (memory-array "
                        "translation steps over a base layer handing out counted, poisoned-on-put page copies) with add_cb / "
                        "del_cb of pass-through layers while the cache is warm, re-reading cached addresses")
    run.cov["engines"]["cb"] = {"generated": len(cases), "dump_object_lines": len(lcases),
                                "cache_histories": len(ccases)}
    cf = run.casefile("cb-cases.txt", lines)
    model = core.run_model("cb", cf)
    spec = core.run_model("cb-spec", cf)
    impl, crashes = hangaware.run_lines(exe, run.work, lines, timeout=60 if quick else 600, max_abnormal=8)
    if run.replay_path and lines:
        print("model:          " + model[0])
        print("spec:           " + spec[0])
        print("implementation: " + impl[0])
    if crashes:
        run.count("impl-abnormal-exit", len(crashes))
    judge_layers(run, exe, lcases, impl, crashes, nplain)
    judge_cache(run, exe, ccases, model, impl, crashes, nplain + len(lcases))
    compare(run, exe, cases, model[:nplain], spec[:nplain], impl[:nplain],
            {i: c for i, c in crashes.items() if i < nplain})
