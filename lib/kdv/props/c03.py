"""C03 — no byte sequence offered as a dump can crash or corrupt the process.

PARTIAL BY NATURE.  Theorems (coq/theories/Properties_C03.v, models in Parse/*.v) are
about the *parsing logic*: for all byte strings the modelled parsers keep every access
inside the bytes they were given, never divide by zero / shift out of range / call a
null function pointer, and terminate within explicit fuel.  The runtime half (an actual
invalid access of the compiled C, SIGBUS on mmap, wall time) is covered only by this
tie: engine "corrupt" = harness/corrupt_drv.c (public API over all library sources,
ASan+UBSan, one forked child per file with an alarm() before every call) run on
well-formed seed files of every format, every single-field corruption (0, 1, max, sign
boundaries, +-1), sampled double-field corruptions and truncations at every structure
boundary.  Any signal, sanitizer report, timeout or undocumented status is a concrete
failing input.  For the modelled parsers the extracted model predicts the outcome
(RLE: exact output; ELF/notes/flattened/diskdump/LKCD headers: status class and stage),
and uncompress_rle is additionally judged by the extracted spec."""
import concurrent.futures
import os
import re

from .. import core
from .. import c03_formats as F

ASAN = "detect_leaks=0:abort_on_error=0:exitcode=97:allocator_may_return_null=1:max_allocation_size_mb=1024"
UBSAN = "print_stacktrace=1:halt_on_error=0:exitcode=98"
ENV = {"ASAN_OPTIONS": ASAN, "UBSAN_OPTIONS": UBSAN}
BIG_ALIM = 6 << 30
ENV_BIG = {"ASAN_OPTIONS": ASAN.replace("max_allocation_size_mb=1024", "max_allocation_size_mb=6144"),
           "UBSAN_OPTIONS": UBSAN}
CC_FLAGS = ("-fsanitize-recover=alignment",)
WORKERS = 8


# ------------------------------------------------------------------ RLE cases

def rle_encode(rng, data):
    """A valid LKCD RLE stream for `data` (encoder choices randomised)."""
    out = bytearray()
    i = 0
    while i < len(data):
        b = data[i]
        j = i
        while j < len(data) and data[j] == b and j - i < 255:
            j += 1
        n = j - i
        if b == 0 and n == 1 and rng.random() < 0.7:
            out += b"\0\0"
            i += 1
        elif n >= 3 or b == 0 or rng.random() < 0.1:
            n = rng.randint(1, n) if rng.random() < 0.2 else n
            out += bytes([0, n, b])
            i += n
        else:
            out.append(b)
            i += 1
    return bytes(out)


def gen_rle_case(rng):
    n = rng.choice([0, 1, 2, 3, 8, 16, 33, rng.randint(0, 64), rng.randint(0, 300)])
    data = bytearray()
    while len(data) < n:
        k = rng.random()
        if k < 0.4:
            data += bytes([rng.choice([0, 0, 0xff, 0x41, rng.randint(0, 255)])]) * rng.randint(1, 40)
        else:
            data += bytes(rng.randint(0, 255) for _ in range(rng.randint(1, 6)))
    data = bytes(data[:n])
    r = rng.random()
    if r < 0.55:
        src = bytearray(rle_encode(rng, data))
    else:
        src = bytearray(rng.choice([0, 0, 1, 3, 255, rng.randint(0, 255)]) for _ in range(rng.randint(0, 24)))
    # mutations: truncation, byte flips, count changes
    m = rng.random()
    if m < 0.25 and src:
        del src[rng.randint(0, len(src) - 1):]
    elif m < 0.45 and src:
        src[rng.randint(0, len(src) - 1)] = rng.choice([0, 1, 255, rng.randint(0, 255)])
    elif m < 0.55:
        src += bytes([0] * rng.randint(1, 2))
    c = rng.random()
    if c < 0.35:
        cap = len(data)
    elif c < 0.6:
        cap = max(0, len(data) + rng.choice([-1, 1, -2, 2]))
    elif c < 0.7:
        cap = 0
    else:
        cap = rng.randint(0, 320)
    return "R %x %s" % (cap, src.hex() if src else "-")


# ----------------------------------------------------------------- file cases

class FileCase:
    __slots__ = ("seed", "opts", "specs", "what", "weight", "big")

    def __init__(self, seed, opts, patches=(), trunc=None, what="seed", weight=0):
        self.seed = seed
        self.opts = opts
        specs = []
        for i, p in enumerate(seed.files):
            s = p
            if trunc is not None and trunc[0] == i:
                s += "@%x" % trunc[1]
            for (fi, off, b) in patches:
                if fi == i:
                    s += "+%x:%s" % (off, b.hex())
            specs.append(s)
        self.specs = specs
        self.what = what
        self.weight = weight
        self.big = False

    def line(self):
        return "F %s %s" % (self.opts, " ".join(self.specs))


def enumerate_cases(seeds, rng, quick):
    """Every single-field corruption and boundary truncation (thorough) or a per-seed sample of
    them (quick), plus sampled double-field corruptions."""
    cases = []
    for s in seeds:
        singles, truncs, doubles = [], [], []
        cases.append(FileCase(s, "m=1", what="%s: unmodified seed" % s.name))
        cases.append(FileCase(s, "m=0", what="%s: unmodified seed, read(2) only" % s.name))
        allp = []
        for f in s.fields:
            copylen = bool(re.search(r"namesz|descsz|dp_size|\.size$|buf_size|size_note|size_vmcoreinfo|size_eraseinfo",
                                     f.name))
            wraps = "dense" if (not quick or copylen) else "sparse"
            for v in F.corrupt_values(f, s.data[f.fidx], wraps):
                allp.append((f, v))
                c = FileCase(s, "m=1", [(f.fidx, f.off, f.enc(v))],
                             what="%s: %s = 0x%x" % (s.name, f.name, v), weight=1)
                # a length just below 2^32 only shows what it does if the allocation of that many
                # bytes succeeds: such cases run a second time with a large allocation limit
                if F.field_class(f) == "len" and (1 << 32) - 8192 <= v < (1 << 32) + 8192:
                    c.big = True
                singles.append(c)
        for fi, bs in enumerate(s.bounds):
            tl = set()
            for b in bs:
                for d in (-1, 0, 1):
                    if 0 <= b + d < len(s.data[fi]):
                        tl.add(b + d)
            for t in sorted(tl):
                truncs.append(FileCase(s, "m=1", trunc=(fi, t),
                                       what="%s: file %d truncated to %d bytes" % (s.name, fi, t), weight=1))
        nd = len(singles) // (6 if quick else 2)
        for _ in range(nd):
            (f1, v1), (f2, v2) = rng.choice(allp), rng.choice(allp)
            if f1 is f2:
                continue
            doubles.append(FileCase(s, "m=1", [(f1.fidx, f1.off, f1.enc(v1)), (f2.fidx, f2.off, f2.enc(v2))],
                                    what="%s: %s = 0x%x and %s = 0x%x" % (s.name, f1.name, v1, f2.name, v2),
                                    weight=2))
        for _ in range(len(truncs) // 3):
            (f1, v1) = rng.choice(allp)
            t = rng.choice(truncs)
            fi, tl = None, None
            m = re.search(r"file (\d+) truncated to (\d+)", t.what)
            fi, tl = int(m.group(1)), int(m.group(2))
            doubles.append(FileCase(s, "m=1", [(f1.fidx, f1.off, f1.enc(v1))], trunc=(fi, tl),
                                    what="%s: %s = 0x%x and file %d truncated to %d bytes" % (s.name, f1.name, v1, fi, tl),
                                    weight=2))
        # split sets: PFN windows of each file against the others; VMCOREINFO PAGESIZE against the
        # header's block size, read back through a page cache of 1, 2 and the default number of slots
        special = []
        for what, patches in F.window_cases(s):
            special.append(FileCase(s, "m=1", patches, what=what, weight=0))
        for what, patches in F.pagesize_cases(s):
            for opt in ("m=1", "m=1,a=cache.size:1", "m=1,a=cache.size:2"):
                special.append(FileCase(s, opt, patches, what=what + (" after " + opt[4:] if len(opt) > 3 else ""),
                                        weight=0))
        if s.name == "elfxen":
            for what, patches in F.section_offset_cases(s):
                for opt in ("m=0", "m=1"):
                    special.append(FileCase(s, opt, patches, what=what + (" [mmap never]" if opt == "m=0" else ""),
                                            weight=0))
        if s.name == "elfxen":
            for what, patches in F.relocation_cases(s):
                for opt in ("m=0", "m=1"):
                    special.append(FileCase(s, opt, patches, what=what + (" [mmap never]" if opt == "m=0" else ""),
                                            weight=0))
        if s.name == "elfpart":
            for opt in ("m=1,a=cache.size:1", "m=0,a=cache.size:1", "m=1,a=cache.size:2"):
                special.append(FileCase(s, opt, what="%s: unmodified seed after %s" % (s.name, opt[4:]), weight=0))
        cases += special
        # pre-open attribute history: values set on the fresh context before the open
        pre = []
        ps = 0x1000
        for opt in ("a=arch.page_size:%x" % ps, "a=arch.page_size:%x" % (ps * 2), "a=arch.page_size:10000",
                    "a=arch.page_shift:c", "a=arch.page_shift:10", "a=arch.byte_order:0", "a=arch.byte_order:1",
                    "a=arch.ptr_size:4", "a=arch.ptr_size:8", "a=cache.size:1", "a=cache.size:0",
                    "a=cache.size:3", "a=file.mmap_policy:0", "a=file.mmap_policy:2", "a=file.mmap_policy:3",
                    "a=arch.page_size:%x,a=cache.size:2,a=arch.ptr_size:8" % ps,
                    "a=arch.page_shift:c,a=arch.page_size:%x" % ps):
            pre.append(FileCase(s, "m=1," + opt, what="%s: unmodified seed after %s" % (s.name, opt), weight=1))
        for c in rng.sample(singles + truncs, min(len(singles + truncs), 24)):
            opt = rng.choice(["a=arch.page_size:1000", "a=arch.page_size:2000", "a=arch.page_shift:c",
                              "a=cache.size:1", "a=arch.ptr_size:4", "a=arch.byte_order:1"])
            e = FileCase(c.seed, "m=1," + opt, what=c.what + " after " + opt, weight=c.weight)
            e.specs = c.specs
            pre.append(e)
        cases += pre
        # the read(2)-only policy on a sample
        extra = []
        for c in rng.sample(singles + truncs, min(len(singles + truncs), max(10, len(singles) // 8))):
            e = FileCase(c.seed, "m=0", what=c.what + " [mmap never]", weight=c.weight)
            e.specs = c.specs
            extra.append(e)
        cases += singles + truncs + doubles + extra
    return cases


BAD = re.compile(r"DIED|san=|TIMEOUT|BADSTATUS|HARNESS-ERROR|^CRASH|^NOT-RUN|=NULL")


def signature(line):
    """Stable signature of an abnormal result (no addresses, no counts)."""
    if line.startswith("CRASH") or line.startswith("NOT-RUN"):
        return "corrupt driver-died " + line
    toks = line.split()
    parts = []
    for t in toks:
        if t.startswith("san="):
            parts.append(re.sub(r"0x[0-9a-f]+", "ADDR", t))
        elif t.startswith("TIMEOUT") or t.startswith("BADSTATUS") or t.startswith("sig=") or t.startswith("exit="):
            parts.append(t)
        elif t.startswith("fmt="):
            parts.append(t)
    stage = "open" if not any(t.startswith("open=") for t in toks) else "after-open"
    return "corrupt %s %s" % (stage, " ".join(parts))


def run_parallel(run, exe, lines, env=None, tag="w"):
    """Shard the case lines over WORKERS driver processes; keeps order."""
    env = env or ENV
    n = len(lines)
    if n == 0:
        return [], {}
    nshard = min(WORKERS, max(1, n // 20))
    shards = [list(range(i, n, nshard)) for i in range(nshard)]
    out = [None] * n
    crashes = {}

    def work(k):
        wd = os.path.join(run.work, "%s%d" % (tag, k))
        os.makedirs(wd, exist_ok=True)
        idx = shards[k]
        res, cr = core.run_impl_lines(exe, wd, [lines[i] for i in idx], pre_args=["-w", wd], env=env,
                                      timeout=3600)
        return k, res, cr

    with concurrent.futures.ThreadPoolExecutor(max_workers=nshard) as ex:
        for k, res, cr in ex.map(work, range(nshard)):
            for j, i in enumerate(shards[k]):
                out[i] = res[j] if j < len(res) else "NOT-RUN"
            for j, v in cr.items():
                if j < len(shards[k]):
                    crashes[shards[k][j]] = v
    return out, crashes


def run_model_parallel(run, engine, lines):
    """The extracted model on `lines`, sharded over WORKERS processes (order kept)."""
    n = len(lines)
    if n < 200:
        return core.run_model(engine, run.casefile("%s-cases.txt" % engine, lines))
    nshard = WORKERS
    out = [None] * n

    def work(k):
        idx = list(range(k, n, nshard))
        cf = run.casefile("%s-cases-%d.txt" % (engine, k), [lines[i] for i in idx])
        return idx, core.run_model(engine, cf)

    with concurrent.futures.ThreadPoolExecutor(max_workers=nshard) as ex:
        for idx, res in ex.map(work, range(nshard)):
            for j, i in enumerate(idx):
                out[i] = res[j] if j < len(res) else "MODEL-NOT-RUN"
    return out


def havoc_cases(seeds, rng, n):
    """Random multi-byte damage: 1..6 patches of interesting or random bytes at random places
    (biased to the mapped structures), optionally a random truncation."""
    out = []
    interesting = [b"\0", b"\xff", b"\x7f", b"\x80", b"\0\0", b"\xff\xff", b"\xff\xff\xff\xff",
                   b"\xff\xff\xff\x7f", b"\0\0\0\x80", b"\xff" * 8, b"\0" * 8, b"\x01\0\0\0"]
    for _ in range(n):
        s = rng.choice(seeds)
        patches = []
        for _ in range(rng.randint(1, 6)):
            fi = rng.randrange(len(s.files))
            if s.fields and rng.random() < 0.6:
                f = rng.choice([x for x in s.fields if x.fidx == fi] or s.fields)
                fi = f.fidx
                off = max(0, f.off + rng.randint(-2, 2))
            else:
                off = rng.randrange(max(1, len(s.data[fi])))
            b = rng.choice(interesting) if rng.random() < 0.6 else bytes(rng.getrandbits(8) for _ in range(rng.randint(1, 8)))
            patches.append((fi, off, b))
        trunc = None
        if rng.random() < 0.25:
            fi = rng.randrange(len(s.files))
            trunc = (fi, rng.randrange(len(s.data[fi]) + 1))
        def fname(fi, off, n):
            for f in s.fields:
                if f.fidx == fi and off < f.off + f.size and f.off < off + n:
                    return f.name
            return "%d@%x" % (fi, off)
        out.append(FileCase(s, "m=%d" % (0 if rng.random() < 0.2 else 1), patches, trunc,
                            what="%s: havoc %s%s" % (s.name, ",".join("%s=%s" % (fname(a, o, len(b)), b.hex()) for a, o, b in patches),
                                                     " trunc %d:%d" % trunc if trunc else ""), weight=3))
    return out


def fuzz_stage(run, seeds, seconds):
    """libFuzzer (clang) over the same call sequence, in-process; artifacts are concrete failing inputs."""
    import glob
    import hashlib
    import shutil
    import subprocess
    drv = open(os.path.join(core.VERIF, "harness", "corrupt_drv.c"), "rb").read()
    tag = "-DDRV_HASH=0x" + hashlib.sha256(drv).hexdigest()[:8]
    exe = run.need_cc("corrupt_fuzz", "corrupt_fuzz.c", sources=core.lib_sources(),
                      flags=CC_FLAGS + ("-fsanitize=fuzzer", tag), cc="clang")
    if exe is None:
        return
    d = os.path.join(run.work, "fuzz")
    shutil.rmtree(d, ignore_errors=True)
    for sub in ("corpus", "seeds", "art"):
        os.makedirs(os.path.join(d, sub))
    for s in seeds:
        if len(s.files) == 1 and len(s.data[0]) <= 40000:
            shutil.copy(s.files[0], os.path.join(d, "seeds"))
    env = dict(os.environ)
    env.update(ENV)
    cmd = [exe, "-max_total_time=%d" % seconds, "-timeout=10", "-rss_limit_mb=6000", "-max_len=40000",
           "-artifact_prefix=art/", "-jobs=%d" % WORKERS, "-workers=%d" % WORKERS, "-seed=%d" % run.seed,
           "-print_final_stats=1", "corpus", "seeds"]
    try:
        subprocess.run(cmd, cwd=d, env=env, stdout=subprocess.PIPE, stderr=subprocess.STDOUT, timeout=seconds + 120)
    except subprocess.TimeoutExpired:
        run.count("fuzz-wallclock-timeout")
    execs = 0
    for lg in glob.glob(os.path.join(d, "fuzz-*.log")):
        m = re.findall(r"stat::number_of_executed_units:\s*(\d+)", open(lg, errors="replace").read())
        if m:
            execs += int(m[-1])
    run.count("fuzz-executions", execs)
    run.cov["engines"]["corrupt"]["libfuzzer"] = {"seconds": seconds, "executions": execs,
                                                  "corpus_files": len(os.listdir(os.path.join(d, "corpus")))}
    for art in sorted(glob.glob(os.path.join(d, "art", "*")))[:10]:
        data = open(art, "rb").read()
        p = subprocess.run([exe, art], cwd=d, env=env, stdout=subprocess.PIPE, stderr=subprocess.PIPE, timeout=120)
        err = p.stderr.decode(errors="replace")
        m = re.search(r"SUMMARY: (\w+): (\S+) \S* ?(?:in (\S+))?", err)
        sig = "corrupt fuzz %s %s" % (os.path.basename(art).split("-")[0],
                                      (m.group(2) + "@" + (m.group(3) or "?")) if m else "no-summary")
        run.violation("impl", "libFuzzer artifact %s: %s" % (os.path.basename(art), sig[13:]),
                      {"engine": "corrupt-fuzz", "artifact": os.path.basename(art), "size": len(data),
                       "input_hex": data[:65536].hex(), "stderr_tail": err[-1500:],
                       "how": "write input_hex to a file and run build/cc/*/corrupt_fuzz <file>"},
                      found_input=True, signature=sig)


def check(run):
    run.trusted += [
        "C03 is partial by nature: the theorems are about the parsing logic of the models; memory safety, "
        "SIGBUS and wall time of the compiled C are observed only by the sanitizer-instrumented run",
        "modelled, not verified: zlib/snappy/zstd, libc, the kernel's pread/mmap (reads past EOF zero-filled), "
        "the allocator (requests above 1 GiB fail: ASAN max_allocation_size_mb=1024 stands for a finite RLIMIT_AS)",
        "seed files are written by the suite's own mkelf/mkdiskdump/mklkcd/mksadump/mkbinary (" + F.TOOLS + ")",
        "UBSan alignment reports are recoverable in this build (-fsanitize-recover=alignment) so that one misaligned "
        "load does not hide what follows; they are still reported as failures",
    ]
    run.assumptions += ["inputs are regular files that do not change while open (fcache takes st_size once)"]
    import time
    t0 = time.time()
    run.check_coq()
    run.cov["phase_s"] = {"coq": round(time.time() - t0, 1)}
    t0 = time.time()
    if not run.need_ml():
        return
    run.cov["phase_s"]["ml"] = round(time.time() - t0, 1)
    t0 = time.time()
    exe = run.need_cc("corrupt_drv", "corrupt_drv.c", sources=core.lib_sources(), flags=CC_FLAGS)
    if exe is None:
        return
    run.cov["phase_s"]["cc"] = round(time.time() - t0, 1)
    quick = run.tier == "quick"
    seeds = F.build_seeds(os.path.join(run.work, "seeds"))
    byname = {s.name: s for s in seeds}

    if run.replay_path:
        rp = core.json.load(open(run.replay_path))["replay"]
        line = rp["case"]
        model = core.run_model("corrupt", run.casefile("corrupt-replay.txt", [line]))
        impl, crashes = run_parallel(run, exe, [line])
        print("case:           " + line[:300])
        print("model:          " + model[0][:300])
        print("implementation: " + impl[0][:600])
        judge(run, [line], ["replay"], model, impl)
        return

    run.cov["rule"] = ("RLE: generated streams (valid encodings, random bytes, truncations, flipped counts) x capacities "
                       "(exact, +-1, 0, random); files: per seed every single-field corruption (0,1,max,sign boundaries,+-1) "
                       "of the mapped header/descriptor fields, truncation at every structure boundary +-1, sampled "
                       "double corruptions; distinct = distinct case lines; non-trivial = the open did not succeed "
                       "unchanged or a later call returned an error")
    # ---- RLE ----
    nrle = 6000 if quick else 200000
    rle = [gen_rle_case(run.rng) for _ in range(nrle)]
    corpus = os.path.join(core.VERIF, "corpus", "corrupt.txt")
    pre = []
    if os.path.exists(corpus):
        sd = os.path.join(run.work, "seeds")
        pre = [l.replace("$SEEDS", sd) for l in open(corpus).read().split("\n")
               if l.strip() and not l.startswith("#")]
    # ---- files ----
    cases = enumerate_cases(seeds, run.rng, quick)
    ntotal = len(cases)
    if quick:
        # all unmodified seeds + a per-seed sample sized for the time budget
        keep = [c for c in cases if c.weight == 0]
        rest = [c for c in cases if c.weight != 0]
        budget = int(os.environ.get("C03_QUICK_CASES", "15000"))
        keep += run.rng.sample(rest, min(len(rest), budget))
        cases = keep
    # ---- page size through the public API (model: SizesModel.set_page_size) ----
    pvals = set([0, 1, 2, 3, 4095, 4096, 4097, 65536, (1 << 31), (1 << 32), (1 << 63), (1 << 64) - 1,
                 (1 << 63) + 1, 0x7fffffffffffffff, 6, 12, 0x1800])
    for k in range(64):
        pvals |= {1 << k, (1 << k) + 1, max(0, (1 << k) - 1)}
    for _ in range(60):
        pvals.add(run.rng.getrandbits(run.rng.choice([8, 16, 32, 64])))
    sizes = ["S ps %x" % v for v in sorted(pvals)]
    if not quick:
        cases += havoc_cases(seeds, run.rng, 30000)
    bigcases = []
    bigpre = [l for l in pre if ",A=" in l.split(" ")[1]] if pre else []
    pre = [l for l in pre if l not in bigpre]
    for c in cases:
        if c.big and c.opts == "m=1":
            b = FileCase(c.seed, "m=1,A=%x" % BIG_ALIM, what=c.what + " [allocation limit 6 GiB]", weight=c.weight)
            b.specs = c.specs
            bigcases.append(b)
    if quick and len(bigcases) > 800:
        bigcases = run.rng.sample(bigcases, 800)
    lines = pre + rle + sizes + [c.line() for c in cases]
    whats = ["corpus"] * len(pre) + ["rle"] * len(rle) + ["page size"] * len(sizes) + [c.what for c in cases]
    run.count("enumerated-file-cases-before-sampling", ntotal)
    run.cov["engines"]["corrupt"] = {"corpus_cases": len(pre), "rle_cases": len(rle), "file_cases": len(cases),
                                     "seeds": [s.name for s in seeds],
                                     "fields_mapped": sum(len(s.fields) for s in seeds)}
    t0 = time.time()
    with concurrent.futures.ThreadPoolExecutor(max_workers=2) as ex:
        fm = ex.submit(run_model_parallel, run, "corrupt", lines)
        fi = ex.submit(run_parallel, run, exe, lines)
        model = fm.result()
        impl, crashes = fi.result()
    # second pass: near-2^32 lengths with an allocation limit above 4 GiB (model told the same limit)
    if bigcases or bigpre:
        blines = bigpre + [c.line() for c in bigcases]
        bmodel = run_model_parallel(run, "corrupt", blines)
        bimpl, _ = run_parallel(run, exe, blines, env=ENV_BIG, tag="b")
        lines += blines
        whats += ["corpus"] * len(bigpre) + [c.what for c in bigcases]
        model += bmodel
        impl += bimpl
        run.cov["engines"]["corrupt"]["big_allocation_cases"] = len(blines)
    run.cov["phase_s"]["campaign"] = round(time.time() - t0, 1)
    t0 = time.time()
    judge(run, lines, whats, model, impl)
    run.cov["phase_s"]["judge"] = round(time.time() - t0, 1)
    if not quick and not run.violations:
        t0 = time.time()
        fuzz_stage(run, seeds, int(os.environ.get("C03_FUZZ_SECONDS", "60")))
        run.cov["phase_s"]["libfuzzer"] = round(time.time() - t0, 1)


def judge(run, lines, whats, model, impl):
    # 1. RLE: implementation vs spec (every case), implementation vs model
    spec_in, spec_idx = [], []
    for i, l in enumerate(lines):
        if l.startswith("R ") and impl[i].startswith("R "):
            spec_in.append(l + " | " + impl[i])
            spec_idx.append(i)
    verd = core.run_model("corrupt-spec", run.casefile("corrupt-spec.txt", spec_in)) if spec_in else []
    run.count("rle-spec-checked", len(spec_in))
    groups = {}
    for j, v in enumerate(verd):
        if v != "ok":
            i = spec_idx[j]
            groups.setdefault("corrupt rle-spec " + v, []).append(i)
    for i, l in enumerate(lines):
        il = impl[i]
        if l.startswith("R "):
            nt = not il.startswith("R 0 ")
            run.note_case(l, nt)
            run.count("rle-" + (il.split()[1] if il.startswith("R ") and len(il.split()) > 1 else "abnormal"))
            if il != model[i]:
                if BAD.search(il) or not il.startswith("R "):
                    groups.setdefault("corrupt rle-crash " + il[:60], []).append(i)
                else:
                    groups.setdefault("corrupt rle-tie", []).append(i)
            continue
        if l.startswith("S "):
            run.note_case(l, not il.startswith("S ok"))
            run.count("pagesize-" + (il.split()[1] if len(il.split()) > 1 else "abnormal"))
            if il != model[i]:
                if il.startswith("S "):
                    groups.setdefault("corrupt tie page-size", []).append(i)
                else:
                    groups.setdefault("corrupt pagesize-crash " + il[:60], []).append(i)
            continue
        # file cases
        toks = il.split()
        op = [t for t in toks if t.startswith("open=")]
        run.count("open-" + (op[0][5:] if op else "none"))
        fm = [t for t in toks if t.startswith("fmt=")]
        if fm:
            run.count(fm[0])
        nt = not (op and op[0] == "open=OK") or bool(re.search(r"aerr:|TIMEOUT|DIED", il))
        run.note_case(l, nt)
        if i < 2 or (nt and len(run.cov["samples"]) < 6):
            run.sample({"what": whats[i], "impl": il[:300]})
        if BAD.search(il):
            groups.setdefault(signature(il), []).append(i)
        elif "open=BUSY" in toks:
            # data that is not mmap'ed (read(2)-only policy, or beyond EOF) goes through the 16-entry
            # read cache; a chunk of more than 16 pages can exhaust it (KDUMP_ERR_BUSY, a documented
            # status); the model has no cache
            run.count("busy-tolerated")
        elif model[i].startswith("P ? model-"):
            run.count(model[i][4:])
        elif model[i] not in ("SKIP", "") and not model[i].startswith("P ?"):
            run.count("predicted")
            d = compare_prediction(model[i], il)
            if d:
                groups.setdefault("corrupt tie " + d, []).append(i)
    with open(os.path.join(run.work, "abnormal.txt"), "w") as f:
        for sig, idxs in sorted(groups.items()):
            i = min(idxs, key=lambda k: (lines[k].count("+") + lines[k].count("@"), len(lines[k])))
            f.write("%d\t%s\n\t%s\n\t%s\n\t%s\n" % (len(idxs), sig, whats[i], lines[i][:400], impl[i][:700]))
    # relocated sections: the file means the same as the unmodified seed, so must the answers
    base = {}
    for i, w in enumerate(whats):
        m = re.match(r"(\w+): unmodified seed(, read\(2\) only)?$", w)
        if m and lines[i].startswith("F "):
            base[(m.group(1), "m=0" if m.group(2) else "m=1")] = impl[i]
    keys = ("open=", "fmt=", "maxpfn=", "rdm=", "rdk=", "bmp=")
    for i, w in enumerate(whats):
        if "[same meaning as the unmodified seed]" in w and not BAD.search(impl[i]):
            b = base.get((w.split(":")[0], lines[i].split()[1][:3]))
            if b is None:
                continue
            pick = lambda l: [t for t in l.split() if t.startswith(keys)]
            if pick(b) != pick(impl[i]):
                groups.setdefault("corrupt tie relocated-section-differs", []).append(i)
    with open(os.path.join(run.work, "abnormal.txt"), "w") as f:
        for sig, idxs in sorted(groups.items()):
            i = min(idxs, key=lambda k: (lines[k].count("+") + lines[k].count("@"), len(lines[k])))
            f.write("%d\t%s\n\t%s\n\t%s\n\t%s\n" % (len(idxs), sig, whats[i], lines[i][:400], impl[i][:700]))
    for sig, idxs in sorted(groups.items()):
        # the simplest example: fewest patches, then shortest line
        i = min(idxs, key=lambda k: (lines[k].count("+") + lines[k].count("@"), len(lines[k])))
        replay = {"engine": "corrupt", "case": lines[i], "what": whats[i], "model": model[i][:600],
                  "implementation": impl[i][:900], "same_signature_cases": len(idxs),
                  "how": "bin/check C03 --replay <this file> rebuilds the seeds and re-runs the case through "
                         "harness/corrupt_drv.c"}
        run.count("abnormal:" + sig[:80], len(idxs))
        if sig.startswith("corrupt rle-spec"):
            run.violation("spec", "uncompress_rle contradicts the RLE spec (%s) on %s" % (sig[17:], lines[i][:120]),
                          replay, found_input=True, signature=sig)
        elif sig.startswith("corrupt rle-tie"):
            run.violation("tie", "correspondence RleModel.uncompress_rle vs util.c broken on %s" % lines[i][:120],
                          replay, found_input=False, signature=sig)
        elif sig.startswith("corrupt tie relocated"):
            run.violation("impl", "the same dump with a section moved to an unaligned file offset is answered "
                          "differently (max_pfn / page statuses): %s" % whats[i], replay, found_input=True,
                          signature=sig + " :: " + whats[i])
        elif sig.startswith("corrupt tie"):
            run.violation("tie", "model prediction and library disagree (%s): %s" % (sig[12:], whats[i]),
                          replay, found_input=False, signature=sig)
        else:
            run.violation("impl", "library crashes / reports / hangs (%s) on: %s" % (sig[8:], whats[i]),
                          replay, found_input=True, signature=sig + " :: " + whats[i])


def compare_prediction(pred, impl):
    """pred: 'P tok ...'.  tok forms: 'k=v' must be a token of the implementation line;
    'k=v*' some token must start with it; '!pfx' no token may start with pfx;
    '?cond:tok' tok (any form) only applies if the token cond is present;
    'MODEL-...' the model itself reached an outcome the theorems exclude.
    Returns a short description of the difference or None."""
    toks = impl.split()
    tset = set(toks)

    def one(p):
        if p.startswith("MODEL-"):
            return "model outcome " + p
        if p.startswith("?"):
            cond, _, rest = p[1:].partition(":")
            return one(rest) if cond in tset else None
        if p.startswith("!"):
            if any(t.startswith(p[1:]) for t in toks):
                return "unexpected " + p[1:40]
            return None
        if p.endswith("*"):
            if not any(t.startswith(p[:-1]) for t in toks):
                return "missing " + p.split("=")[0] + "=..."
            return None
        if p not in tset:
            return "missing " + p.split("=")[0]
        return None

    for p in pred.split()[1:]:
        d = one(p)
        if d:
            return d
    return None
