"""C12 — a failed or partial read reports exactly the prefix it delivered.

Theorems: coq/theories/Properties_C12.v (model Read/ReadModel.v, spec Read/ReadSpec.v).
Tie, engine "read": synthetic ELF and diskdump files with chosen present/missing page patterns
(written with the test suite's mkelf / mkdiskdump); harness/read_drv.c (#include of read.c with
realloc/free tracked, rest of the library linked) calls kdump_read / kdump_read_string through the
public API for ranges at every boundary class.  The page source the model runs over is what the
library itself answers for single whole pages (probe), cross-checked against the generated layout.
Search: every answer of the implementation is judged by the extracted *spec* (engine "read-spec":
ReadSpec.prefix_len / prefix_bytes / fail_status / cstring_at over the same page source)."""
import os
import random
import re

from .. import core
from .. import hangaware
from .. import readfiles as rf

PS = rf.PS
VOFF = 0xffff880000000000
AS_KPHYS, AS_MACHPHYS, AS_KV = 0, 1, 2
# values outside the enumeration: 3, 4, 64, 65, INT_MAX, KDUMP_NOADDR (-1)
BAD_AS = [3, 4, 0x40, 0x41, 0x7fffffff, 0xffffffff]


# ---------------------------------------------------------------------------------------------
# layouts and files
# ---------------------------------------------------------------------------------------------

def gen_layout(rng, kind, top=False):
    npfn = rng.randint(6, 20)
    present = set()
    p = rng.choice([0, 1, 2])
    while p < npfn:
        run = rng.choice([1, 1, 2, 3, 4])
        for q in range(p, min(npfn, p + run)):
            present.add(q)
        p += run + rng.choice([1, 2, 2, 3])
    pages = {}
    for q in sorted(present):
        r = rng.random()
        if r < 0.45:
            nuls = []
        elif r < 0.6:
            nuls = [PS - 1]
        elif r < 0.7:
            nuls = [0]
        elif r < 0.8:
            nuls = [PS - 2, rng.randrange(PS)]
        else:
            nuls = sorted(rng.sample(range(PS), rng.randint(1, 4)))
        pages[q] = [rng.randrange(1 << 30), nuls]
    # strings that run exactly to a page end: for some present pairs (q, q+1) the NUL is the FIRST byte of
    # page q+1 and page q has no NUL in its last 300 bytes; the mirror case (NUL as the LAST byte of a
    # page) comes from the PS-1 entries above
    for q in sorted(pages):
        if q + 1 in pages and rng.random() < 0.6:
            pages[q + 1][1] = sorted(set(pages[q + 1][1]) | {0})
            pages[q][1] = [z for z in pages[q][1] if z < PS - 300]
        elif PS - 1 in pages[q][1]:
            pages[q][1] = [z for z in pages[q][1] if z < PS - 300 or z == PS - 1]
    lay = {"kind": kind, "npfn": npfn, "pages": {str(k): v for k, v in pages.items()},
           "xlat": rng.random() < 0.5}
    if kind == "elf" and top:
        # kernel-virtual addresses in the last pages of the 64-bit address space: the last page
        # frame sits at 0xfffffffffffff000 and is present (reads may end exactly at 2^64)
        for q in (npfn - 1,) + ((npfn - 2,) if rng.random() < 0.6 else ()):
            if str(q) not in lay["pages"]:
                lay["pages"][str(q)] = [rng.randrange(1 << 30), [] if rng.random() < 0.7 else [rng.randrange(PS)]]
        lay["kvbase"] = (1 << 64) - npfn * PS
        lay["xlat"] = False
    if kind == "diskdump":
        lay["methods"] = {str(q): rng.choice(["raw", "zlib", "snappy", "zstd"]) for q in pages}
    return lay


def gen_xc_layout(rng):
    """Xen xc_core dump: the PFN table is a mixture of ascending runs, descending runs and single pages
    in random table order, with holes next to every run (the PFN just above and just below a run is
    absent), so that reads cross run -> hole boundaries in both directions"""
    runs = []
    p = rng.choice([1, 2, 3])
    while p < 36 and len(runs) < 7:
        ln = rng.choice([1, 2, 2, 3, 4])
        pf = list(range(p, p + ln))
        if rng.random() < 0.5:
            pf.reverse()                                   # descending run
        runs.append(pf)
        p += ln + rng.choice([1, 1, 2, 3])
    rng.shuffle(runs)
    order = [q for r in runs for q in r]
    pages = {}
    for q in order:
        nuls = [] if rng.random() < 0.6 else sorted(rng.sample(range(PS), rng.randint(1, 3)))
        pages[q] = [rng.randrange(1 << 30), nuls]
    return {"kind": "xc", "npfn": max(order) + 2, "order": order, "xlat": False,
            "pages": {str(k): v for k, v in pages.items()}}


def layout_pages(lay):
    return {int(k): rf.page_bytes(random.Random(v[0]), PS, v[1]) for k, v in lay["pages"].items()}


def build_file(lay, path):
    pages = layout_pages(lay)
    if lay["kind"] == "xc":
        rf.make_xc_core(path, lay["order"], pages)
    elif lay["kind"] == "elf":
        rf.make_elf(path, pages, lay.get("kvbase", VOFF))
    else:
        data = path + ".data"
        with open(data, "w") as f:
            for p in sorted(pages):
                f.write("@0x%x %s\n" % (p * PS, lay["methods"][str(p)]))
                f.write(rf.hexlines(pages[p]))
        cfg = ("version = 6\narch_name = x86_64\nblock_size = %d\nphys_base = 0\nmax_mapnr = 0x%x\n"
               "sub_hdr_size = 1\nuts.sysname = Linux\nuts.nodename = verif\nuts.release = 3.4.5-test\n"
               "uts.version = #1\nuts.machine = x86_64\nuts.domainname = (none)\nnr_cpus = 1\nDATA = %s\n"
               % (PS, lay["npfn"], data))
        rc, out = core.sh([os.path.join(rf.TOOLS, "mkdiskdump"), path], input=cfg)
        os.unlink(data)
        if rc != 0:
            raise RuntimeError("mkdiskdump failed: " + out[-400:])
    return pages


def spaces(lay):
    """(address space, base address of pfn 0) the file is read through"""
    if lay["kind"] == "xc":
        return [(AS_MACHPHYS, 0), (AS_KPHYS, 0), (AS_KV, 0)]
    if "kvbase" in lay:
        return [(AS_MACHPHYS, 0), (AS_KPHYS, 0), (AS_KV, lay["kvbase"])]
    if lay["kind"] == "elf" or lay.get("xlat"):
        return [(AS_MACHPHYS, 0), (AS_KPHYS, 0), (AS_KV, VOFF)]
    return [(AS_MACHPHYS, 0), (AS_KPHYS, 0), (AS_KV, 0)]


def drv_mode(lay, m):
    """driver mode letter; 'x' = bring up the Linux/x86-64 translation system first"""
    return m + ("x" if lay.get("xlat") else "")


def probe_line(lay, path):
    # two pages beyond the end of the layout are probed too
    if "kvbase" in lay:
        # the window ends at 2^64; a string that runs off the top continues at address 0
        its = ["%x:%x:%x:%x" % (a, base, lay["npfn"] + (0 if a == AS_KV else 2), PS) for a, base in spaces(lay)]
        its.append("%x:0:1:%x" % (AS_KV, PS))
        return "%s %s %s" % (drv_mode(lay, "P"), path, " ".join(its))
    return "%s %s %s" % (drv_mode(lay, "P"), path, " ".join("%x:%x:%x:%x" % (a, base, lay["npfn"] + 2, PS)
                                        for a, base in spaces(lay)))


def write_sidecar(path, probe_out):
    with open(path + ".pages", "w") as f:
        f.write("ps %x\n" % PS)
        for w in probe_out.split():
            f.write(w + "\n")


# ---------------------------------------------------------------------------------------------
# cases
# ---------------------------------------------------------------------------------------------

def gen_read_items(rng, lay, n):
    items = []
    for _ in range(n):
        if rng.random() < 0.05:
            items.append("%x:%x:%x" % (rng.choice(BAD_AS), rng.choice([0, PS, 5 * PS + 1]),
                                       rng.choice([0, 1, 0x10, PS + 1])))
            continue
        a, base = rng.choice(spaces(lay) + spaces(lay)[:1] * 2)
        top = (lay["npfn"] + 2) * PS
        if "kvbase" in lay and rng.random() < 0.6:
            a, base = AS_KV, lay["kvbase"]
        if "kvbase" in lay and a == AS_KV:
            top = lay["npfn"] * PS                       # base + top == 2^64
            if rng.random() < 0.6:
                # ends before, one byte before, and exactly at 2^64
                end = top - rng.choice([0, 0, 0, 1, 1, 2, 16])
                ln = rng.choice([1, 1, 2, 8, 16, PS - 1, PS, PS + 1, 2 * PS, 2 * PS + 7, rng.randrange(1, 3 * PS)])
                ln = min(ln, end)
                items.append("%x:%x:%x" % (a, base + end - ln, ln))
                continue
        p = rng.randrange(lay["npfn"] + 1)
        b = p * PS
        start = b + rng.choice([0, 0, 1, -1, -2, 2, -PS // 2, rng.randrange(-PS, PS), PS - 1, -PS + 1])
        start = max(0, min(top - 1, start))
        r = rng.random()
        nxt = (start // PS + 1) * PS
        if r < 0.08:
            ln = 0
        elif r < 0.4:
            ln = nxt - start + rng.choice([-1, 0, 1, 2, -2])
        elif r < 0.6:
            ln = nxt - start + PS * rng.randint(1, 3) + rng.choice([-1, 0, 1, rng.randrange(PS)])
        elif r < 0.8:
            ln = rng.choice([1, 2, 3, 8, 16, rng.randrange(1, PS)])
        else:
            ln = rng.randrange(0, 4 * PS)
        ln = max(0, min(ln, top - start))
        items.append("%x:%x:%x" % (a, base + start, ln))
    return items


def gen_string_items(rng, lay, n):
    items = []
    pages = {int(k): v for k, v in lay["pages"].items()}
    ends = [q for q in pages if q + 1 in pages and 0 in pages[q + 1][1]]       # NUL first in page q+1
    lasts = [q for q in pages if PS - 1 in pages[q][1]]                        # NUL last in page q
    for _ in range(n):
        if rng.random() < 0.05:
            items.append("%x:%x:%s" % (rng.choice(BAD_AS), rng.choice([0, PS, 5 * PS + 1]), rng.choice(["-", "0"])))
            continue
        a, base = rng.choice(spaces(lay)[:1] * 3 + spaces(lay))
        top = (lay["npfn"] + 2) * PS
        if (ends or lasts) and rng.random() < 0.45:
            # a string of length L that ends at the page's last byte (NUL = first byte of the next page),
            # or whose NUL is the page's last byte; lengths that exactly fill a malloc chunk included
            L = rng.choice([rng.randint(0, 200), rng.randint(0, 200), 24, 40, 56, 72, 88, 104, 120, 136])
            if ends and (not lasts or rng.random() < 0.6):
                start = (rng.choice(ends) + 1) * PS - L
            else:
                start = rng.choice(lasts) * PS + PS - 1 - L
            k = rng.choice(["-", "-", "-", "0", "1"])
            items.append("%x:%x:%s" % (a, base + start, k))
            continue
        if "kvbase" in lay and rng.random() < 0.5:
            a, base = AS_KV, lay["kvbase"]
        p = rng.randrange(lay["npfn"] + 1)
        if "kvbase" in lay and a == AS_KV:
            top = lay["npfn"] * PS
            p = rng.choice([lay["npfn"] - 1, lay["npfn"] - 1, lay["npfn"] - 2, rng.randrange(lay["npfn"])])
        nuls = pages.get(p, [0, []])[1]
        r = rng.random()
        if nuls and r < 0.5:
            z = rng.choice(nuls)
            off = max(0, z + rng.choice([0, -1, -2, 1, -rng.randrange(1, 64)]))
        elif r < 0.8:
            off = rng.choice([PS - 1, PS - 2, 0, 1, PS - rng.randrange(1, 40)])
        else:
            off = rng.randrange(PS)
        start = min(top - 1, p * PS + min(off, PS - 1))
        k = rng.choice(["-", "-", "-", "0", "1", "2"])
        items.append("%x:%x:%s" % (a, base + start, k))
    return items


# ---------------------------------------------------------------------------------------------
# comparison
# ---------------------------------------------------------------------------------------------

def split_case(line):
    w = line.split()
    return w[0], w[1], w[2:]


def judge_items(run, cases, impl):
    """every answer of the implementation through the extracted spec; returns {case index: verdict}"""
    lines, idx = [], []
    for i, c in enumerate(cases):
        mode, path, items = split_case(c)
        ans = impl[i].split() if i < len(impl) else []
        if len(ans) != len(items):
            continue
        for it, an in zip(items, ans):
            lines.append("%s %s %s %s" % (mode, path, it, an))
            idx.append(i)
    bad = {}
    if lines:
        verd = core.run_model("read-spec", run.casefile("read-spec.txt", lines))
        for j, v in enumerate(verd):
            if not v.startswith("ok"):
                bad.setdefault(idx[j], "%s on %s" % (v, lines[j].split()[2]))
    run.count("answers-judged-by-spec", len(lines))
    return bad


def run_one(exe, run, line):
    cf = run.casefile("read-one.txt", [line])
    model = core.run_model("read", cf)
    rc, out, err = core.run_impl(exe, [cf], timeout=25)
    impl = out.split("\n")[:-1]
    return model, impl, rc, err


def classify(run, c, ans):
    mode = c[0]
    for a in ans.split():
        f = a.split(",")
        if mode == "R" and len(f) >= 5:
            run.count("read-" + ("ok" if f[0] == "0" else "fail-%s-%s" % (f[0], "empty" if f[1] == "0" else "partial")))
        elif mode == "S" and len(f) >= 4:
            run.count("string-" + ("ok" if f[0] == "0" else "fail-" + f[0]) + ("-LEAK" if f[2] == "1" else ""))


def compare(run, exe, cases, layouts, model, impl, crashes):
    spec_bad = judge_items(run, cases, impl)
    bad = core.diff_lines(model, impl)
    for i, c in enumerate(cases):
        line = impl[i] if i < len(impl) else ""
        run.note_case(c, "," in line and any(not a.startswith("0,") for a in line.split()))
        classify(run, c, line)
        if i < 2:
            run.sample({"case": c, "impl": line[:300]})
    todo = sorted(set(bad) | set(spec_bad) | set(crashes))[:4]
    for i in todo:
        mode, path, items = split_case(cases[i])

        def fails(its):
            line = "%s %s %s" % (mode, path, " ".join(its))
            m, im, r, e = run_one(exe, run, line)
            return r != 0 or m != im or bool(judge_items(run, [line], im))
        if not fails(items):
            run.count("unreproducible-disagreement")
            continue
        small = core.shrink_list(items, fails, max_tests=60, budget_s=25)
        line = "%s %s %s" % (mode, path, " ".join(small))
        m, im, r, e = run_one(exe, run, line)
        sv = judge_items(run, [line], im)
        replay = {"engine": "read", "layout": layouts[path], "mode": mode, "items": small,
                  "model": m, "implementation": im, "impl_exit": r, "impl_stderr_tail": e[-1500:],
                  "spec_verdict": sv.get(0),
                  "how": "bin/check C12 --replay <this file> rebuilds the dump file from 'layout' and re-runs the items"}
        what = "%s %s file, %s" % (layouts[path]["kind"], "kdump_read" if mode[0] == "R" else "kdump_read_string",
                                   " ".join(small))
        if r != 0:
            asan = [l for l in e.split("\n") if "ERROR: AddressSanitizer" in l or "runtime error" in l]
            if asan:
                what = asan[0].split("ERROR: ")[-1][:110] + " on " + what
            run.violation("impl", "read.c: sanitizer/crash (exit %s) on %s" % (r, what), replay,
                          found_input=True, signature="read crash " + e[-300:])
        elif sv:
            run.violation("spec", "read.c contradicts the prefix contract: %s (%s)" % (sv[0], what), replay,
                          found_input=True, signature="read spec " + sv[0])
        else:
            run.violation("tie", "correspondence read (ReadModel vs read.c) broken on %s: model '%s' implementation '%s'"
                          % (what, (m or ["?"])[0][:120], (im or ["?"])[0][:120]), replay, found_input=False,
                          signature="read tie")


def check_probe(run, lay, pages, probe_out):
    """the library's whole-page answers against the generated layout"""
    for w in probe_out.split():
        a, addr, st, hx = w.split(":")
        if hx.startswith("short"):
            return ("kdump_read of the whole page %s:%s succeeds but reports %s of %x bytes"
                    % (a, addr, hx[5:], PS))
        a, addr = int(a, 16), int(addr, 16)
        base = VOFF if (a == AS_KV and (lay["kind"] == "elf" or lay.get("xlat"))) else 0
        if "kvbase" in lay and a == AS_KV:
            if addr == 0:
                run.count("probe-kv-page-0-%s" % st)
                continue
            base = lay["kvbase"]
        if (a == AS_KV and lay["kind"] != "elf" and not lay.get("xlat")) or \
                (a == AS_KPHYS and not lay.get("xlat") and lay["kind"] != "xc"):
            run.count("probe-untranslatable" if st != "0" else "probe-translated-unexpectedly")
            continue
        pfn = (addr - base) // PS
        if pfn in pages:
            if st != "0":
                return ("page %x of address space %d is in the file but a whole-page read fails with status %s"
                        % (pfn, a, st))
            elif bytes.fromhex(hx) != pages[pfn]:
                return "page %x of address space %d reads back different bytes than were written" % (pfn, a)
            else:
                run.count("probe-present")
        else:
            if st == "0":
                return ("page %x of address space %d is not in the file, but a whole-page read succeeds "
                        "(a read running into this hole would report more than the readable prefix)" % (pfn, a))
            run.count("probe-missing-%s" % st)
    return None


def check(run):
    run.trusted += ["modelled, not verified: the page source behind read_locked (format get_page, cache, "
                    "address translation) — taken from the library's own whole-page answers and cross-checked "
                    "against the generated file contents; realloc (oracle), memcpy, memchr",
                    "test-suite generators mkelf / mkdiskdump write the files"]
    run.assumptions += ["page_size is a power of two below 2^64 (what page_size_pre_hook is meant to guarantee)",
                        "reads do not wrap around 2^64 (addr + length <= 2^64)",
                        "a failing page has a status other than KDUMP_OK; a successful page has page_size bytes"]
    run.check_coq()
    if not run.need_ml():
        return
    exe = run.need_cc("read_drv", "read_drv.c", sanitize=True, libs=True,
                      sources=core.lib_sources(exclude=("read.c",)))
    if exe is None:
        return
    quick = run.tier == "quick"
    fdir = os.path.join(run.work, "files")
    os.makedirs(fdir, exist_ok=True)
    layouts = {}
    if run.replay_path:
        rp = core.json.load(open(run.replay_path))["replay"]
        lays = [rp["layout"]]
    else:
        nfiles = 16 if quick else 240
        lays = [gen_layout(run.rng, "elf" if i % 2 == 0 else "diskdump", top=(i % 4 == 2))
                for i in range(nfiles)]
        lays += [gen_xc_layout(run.rng) for _ in range(4 if quick else 60)]
    paths = []
    pagesets = {}
    for i, lay in enumerate(lays):
        path = os.path.join(fdir, "f%d.%s" % (i, lay["kind"]))
        pagesets[path] = build_file(lay, path)
        layouts[path] = lay
        paths.append(path)
    # probe
    plines = [probe_line(layouts[p], p) for p in paths]
    pout, pcr = hangaware.run_lines(exe, run.work, plines)
    for p, o in zip(paths, pout):
        if o.startswith(("CRASH", "NOT-RUN", "OPEN-FAILED", "NEW-FAILED")):
            run.violation("impl", "cannot open/probe generated %s file: %s" % (layouts[p]["kind"], o[:200]),
                          {"engine": "read", "layout": layouts[p], "mode": "P", "items": []},
                          found_input=True, signature="read probe " + o[:60])
            return
        write_sidecar(p, o)
        msg = check_probe(run, layouts[p], pagesets[p], o)
        if msg:
            items = []
            m = re.match(r"page ([0-9a-f]+) of address space (\d) is not in the file", msg)
            if m and int(m.group(1), 16) - 1 in pagesets[p]:
                # the read the property talks about: from the present page below into this hole
                pfn, a = int(m.group(1), 16), int(m.group(2))
                base = dict(spaces(layouts[p])).get(a, 0)
                items = ["%x:%x:10" % (a, base + pfn * PS - 8)]
                out, _ = hangaware.run_lines(exe, run.work, ["%s %s %s" % (drv_mode(layouts[p], "R"), p, items[0])],
                                             timeout=40)
                f = out[0].split(",")
                if len(f) >= 2:
                    msg += "; kdump_read(%s) of 16 bytes across that boundary returns status %s, *plength = %s " \
                           "(the readable prefix has 8 bytes)" % (items[0].rsplit(":", 1)[0], f[0], f[1])
            run.violation("spec", "whole-page read of a generated %s file: %s" % (layouts[p]["kind"], msg),
                          {"engine": "read", "layout": layouts[p], "mode": "P", "items": items},
                          found_input=True, signature="read content " + msg[:40])
    if run.violations:
        return          # the page source itself is broken; nothing to run the model over
    # cases
    cases = []
    if run.replay_path:
        cases = ["%s %s %s" % (rp["mode"], paths[0], " ".join(rp["items"]))] if rp["items"] else []
        # (rp["mode"] already carries the 'x')
    else:
        per_r = 12 if quick else 30
        per_s = 6 if quick else 16
        for p in paths:
            lay = layouts[p]
            for _ in range(per_r):
                cases.append("%s %s %s" % (drv_mode(lay, "R"), p, " ".join(gen_read_items(run.rng, lay, 8))))
            for _ in range(per_s):
                cases.append("%s %s %s" % (drv_mode(lay, "S"), p, " ".join(gen_string_items(run.rng, lay, 6))))
    run.cov["rule"] = ("kdump_read / kdump_read_string items on synthetic ELF (KVADDR via p_vaddr, MACHPHYSADDR, KPHYSADDR) "
                       "and diskdump (raw/zlib/snappy/zstd pages; MACHPHYSADDR, KPHYSADDR, untranslatable KVADDR) files "
                       "with random runs of present pages and holes; starts at page boundaries +-1,2, lengths ending 1 "
                       "before/at/after a boundary, zero, several pages then a hole; strings aimed at NULs placed at "
                       "offsets 0, page_size-1, page_size-2 and random, with the 0th/1st/2nd realloc failing; strings of every "
                       "length 0..200 (and chunk-filling 24, 40, ...) that end at a page's last byte with the NUL first in "
                       "the next page, or with the NUL as the page's last byte; address spaces outside the enumeration "
                       "(3, 4, 64, 65, INT_MAX, KDUMP_NOADDR); "
                       "distinct = distinct case lines; non-trivial = contains a failing or partial answer")
    run.cov["engines"]["read"] = {"files": len(paths), "case_lines": len(cases)}
    if not cases:
        return
    model = core.run_model("read", run.casefile("read-cases.txt", cases))
    impl, crashes = hangaware.run_lines(exe, run.work, cases, timeout=40 if quick else 600)
    if run.replay_path:
        print("model:          " + model[0][:400])
        print("implementation: " + impl[0][:400])
    compare(run, exe, cases, layouts, model, impl, crashes)
