"""C19 — Xen domain dumps: guest and machine frame views describe the same pages.

Theorems: coq/theories/Properties_C19.v (models Xen/Pfn2IdxModel.v, Xen/XcCoreModel.v,
spec Xen/XenSpec.v).
Tie: engine "xen" — (I) white-box: page lists (ascending / descending runs, isolated
frames, sparse 64-bit numbers, wrap-around neighbours, allocation failures) are fed to the
real pfn2idx_map_start/add/end/search of elfdump.c (harness/xen_drv.c #includes it, realloc
interposed) and to the extracted model; the sorted arrays and every search answer are
compared; (X) end to end: xc_core ELF files (.xen_p2m / .xen_pfn + .xen_pages) are opened
through the public API, pages are read by KDUMP_KPHYSADDR and KDUMP_MACHPHYSADDR and
addresses converted with addrxlat_fulladdr_conv, against XcCoreModel.
Search: every answer of the implementation is judged by the extracted *spec* (engine
"xen-spec": position in the page list)."""
from .. import core, linesrun

M64 = (1 << 64) - 1
ADDRESSABLE = 1 << 52            # frames below this have a 64-bit address with 4 KiB pages


def gen_frames(rng, maxseg, top=M64, hot=None):
    """A duplicate-free page list made of runs; returns (frames, interesting probes)."""
    used = set()
    out = []
    probes = set()
    bases = [0, 1, 0x10, 0xff, 0x100, 0xfffff, 1 << 20, (1 << 32) - 3, 1 << 32, (1 << 36) + 5,
             ADDRESSABLE - 40, ADDRESSABLE - 1]
    if top > ADDRESSABLE:
        bases += [ADDRESSABLE, 1 << 63, (1 << 63) - 2, M64 - 50, M64 - 1, M64]
    nseg = rng.randint(0, maxseg)
    last = None
    for _ in range(nseg):
        k = rng.random()
        r = rng.random()
        if last is not None and r < 0.35:
            # start next to something that exists already (adjacent runs, direction switches)
            start = (last + rng.choice([1, -1, 2, -2, 3])) & M64
        elif r < 0.75:
            start = (rng.choice(bases) + rng.randint(-3, 40)) & M64
        elif hot and r < 0.85:
            start = rng.choice(hot)
        else:
            start = rng.getrandbits(rng.choice([8, 16, 33, 52, 64]))
        if start > top:
            start &= top
        if k < 0.30:
            n, d = 1, 0
        elif k < 0.65:
            n, d = rng.choice([2, 2, 3, 4, 7, 15, 16, 17, rng.randint(2, 40)]), 1
        else:
            n, d = rng.choice([2, 2, 3, 4, 7, 15, 16, 17, rng.randint(2, 40)]), -1
        for j in range(n):
            p = (start + d * j) & M64          # runs may try to wrap around 0 / 2^64-1
            if p in used or p > top:
                break
            used.add(p)
            out.append(p)
            last = p
        probes.update(((start - 1) & M64, start, (start + d * n) & M64, (start + d * (n - 1)) & M64))
    return out, probes


def gen_index_case(rng, tier):
    big = rng.random() < 0.12                   # many ranges / singles: several realloc steps
    frames, probes = gen_frames(rng, 70 if big else rng.choice([2, 4, 8, 14]))
    junk = rng.choice([0, 1, M64, rng.getrandbits(64)])
    if frames and rng.random() < 0.3:           # the uninitialised field "continues" nothing
        junk = (frames[0] + rng.choice([1, -1])) & M64
    oks = [1] * len(frames)
    okend = 1
    if frames and rng.random() < 0.2:
        r = rng.random()
        if r < 0.3:
            okend = 0
        else:
            for _ in range(rng.randint(1, 3)):
                oks[rng.randrange(len(frames))] = 0
    pr = set(probes) | {0, M64}
    pr.update(rng.sample(frames, min(len(frames), 24)))
    for p in rng.sample(frames, min(len(frames), 8)):
        pr.update(((p + 1) & M64, (p - 1) & M64))
    pr.add(rng.getrandbits(64))
    pr = sorted(pr)
    rng.shuffle(pr)
    return "I %x %d %s | %s" % (junk, okend, ",".join("%x:%d" % (p, o) for p, o in zip(frames, oks)),
                                " ".join("%x" % p for p in pr[:60]))


def gen_e2e_case(rng):
    nonauto = rng.random() < 0.7
    pf, pp = gen_frames(rng, rng.choice([1, 3, 6, 10]), top=M64 if rng.random() < 0.2 else ADDRESSABLE - 1)
    pf = pf[:120]
    collide = nonauto and rng.random() < 0.5
    if collide:
        # PV-guest style: the machine frames are (mostly) the same numbers as the guest frames,
        # paired differently - swapped pairs, cycles, a shuffle - so that a number N is a guest
        # frame of one entry and the machine frame of another; a few numbers occur in one
        # column only
        pf = [p for p in pf if p < ADDRESSABLE][:60] or [5, 6, 7]
        k = rng.random()
        mf = list(pf)
        if k < 0.35 and len(mf) >= 2:                   # swapped neighbours
            for i in range(0, len(mf) - 1, 2):
                mf[i], mf[i + 1] = mf[i + 1], mf[i]
        elif k < 0.7:                                   # one cycle
            r = rng.randrange(1, len(mf)) if len(mf) > 1 else 0
            mf = mf[r:] + mf[:r]
        else:
            rng.shuffle(mf)
        used = set(pf)
        for i in range(len(mf)):                        # machine-only numbers
            if rng.random() < 0.15:
                g = mf[i] + rng.choice([0x1000, 0x10000, 3])
                if g not in used and g not in mf and g < ADDRESSABLE:
                    mf[i] = g
    elif nonauto:
        # machine frames: another duplicate-free run structure of the same length
        mf = []
        seen = set()
        while len(mf) < len(pf):
            more, mp = gen_frames(rng, 6, top=ADDRESSABLE - 1)
            for g in more:
                if g not in seen and len(mf) < len(pf):
                    seen.add(g)
                    mf.append(g)
            if not more:
                g = rng.getrandbits(40)
                if g not in seen:
                    seen.add(g)
                    mf.append(g)
    else:
        mf = [0] * len(pf)
    probes = []
    cand_p = [p for p in pf if p < ADDRESSABLE] + [p for p in pp if p < ADDRESSABLE]
    cand_m = [g for g in mf if g < ADDRESSABLE]
    if collide:
        # histories that alternate the two directions on the same number, in both orders,
        # also with a number that only one column lists
        nums = list(set(cand_p[:len(pf)]) | set(cand_m))
        for _ in range(rng.randint(3, 10)):
            n = rng.choice(nums)
            off = rng.choice([0, 8, 0x123 & ~7, 0xff8])
            pat = rng.choice(["pm", "mp", "pmp", "mpm", "ppm", "mmp", "pmmp"])
            for c in pat:
                probes.append("%s:%x" % (c, (n << 12) | off))
    for _ in range(rng.randint(4, 24)):
        mach = rng.random() < 0.45
        pool = cand_m if (mach and nonauto) else cand_p
        if pool and rng.random() < 0.8:
            f = rng.choice(pool) + rng.choice([0, 0, 0, 0, 1, -1])
        else:
            f = rng.getrandbits(rng.choice([8, 20, 40, 52]))
        f = max(0, min(ADDRESSABLE - 1, f))
        off = rng.choice([0, 8, 0xff8, 8 * rng.randrange(512)])
        probes.append("%s:%x" % ("m" if mach else "p", (f << 12) | off))
    if collide:
        rng.shuffle(probes) if rng.random() < 0.3 else None
    return "X %s %s | %s" % ("n" if nonauto else "a",
                             ",".join("%x:%x" % e for e in zip(pf, mf)), " ".join(probes))


def gen_e2e_straddle(rng):
    """Long lists whose .xen_p2m / .xen_pfn section starts at an unaligned file offset, so that
    entries straddle the 4 KiB blocks of the file cache (read with and without mmap): the
    entries at the block boundaries and their neighbours are probed in both views."""
    nonauto = rng.random() < 0.65
    esz = 16 if nonauto else 8
    delta = rng.choice([8, 8, 4, 0xc, 1, 0] if nonauto else [4, 4, 1, 7, 2, 0])
    never = rng.random() < 0.7
    n = rng.choice([260, 300, 520, 700, 1100])
    base = rng.choice([0x100, 0x10000, 0x2345678])
    pf = []
    p = base
    while len(pf) < n:                      # ascending runs with a few gaps and one descending run
        k = min(n - len(pf), rng.choice([7, 40, 130, 300]))
        run = list(range(p, p + k))
        if rng.random() < 0.2:
            run.reverse()
        pf += run
        p += k + rng.choice([0, 1, 5])
    if nonauto:
        mbase = rng.choice([base, 0x40000, 0x7000000])      # same numbers (PV style) or others
        mf = [mbase + (n - 1 - i) for i in range(n)] if rng.random() < 0.5 else \
             [mbase + ((i * 7) % n if n % 7 else i) for i in range(n)]
        if len(set(mf)) != n:
            mf = [mbase + i for i in range(n)]
    else:
        mf = [0] * n
    start = 0x170 + delta
    cross = [k for k in range(n) if (start + esz * k) // 4096 != (start + esz * k + esz - 1) // 4096]
    near = set()
    for k in cross:
        near.update(j for j in (k - 1, k, k + 1) if 0 <= j < n)
    near.update(rng.sample(range(n), 6))
    probes = []
    for k in sorted(near):
        off = rng.choice([0, 8, 0xff8])
        probes.append("p:%x" % ((pf[k] << 12) | off))
        if nonauto:
            probes.append("m:%x" % ((mf[k] << 12) | off))
    rng.shuffle(probes)
    return "X %s:%x:%s %s | %s" % ("n" if nonauto else "a", delta, "n" if never else "d",
                                   ",".join("%x:%x" % e for e in zip(pf, mf)), " ".join(probes[:70]))


# ---- running ------------------------------------------------------------------

def run_both(run, exe, lines, tag):
    cf = run.casefile("xen-%s.txt" % tag, lines)
    model = core.run_model("xen", cf)
    impl, crashes = linesrun.run_impl_lines(exe, run.work, lines, timeout=5 if len(lines) == 1 else (60 if run.tier == 'quick' else 900))
    sl = ["%s | %s" % (l, o) for l, o in zip(lines, impl)]
    ok_idx = [i for i, o in enumerate(impl) if not (o.startswith("CRASH") or o == "NOT-RUN" or o == "BAD-CASE")]
    verd = core.run_model("xen-spec", run.casefile("xen-%s-spec.txt" % tag, [sl[i] for i in ok_idx]))
    spec = {i: v for i, v in zip(ok_idx, verd) if v != "ok"}
    return model, impl, crashes, spec


def frames_of(line):
    hd, _, probes = line.partition("|")
    w = hd.split()
    if w[0] == "I":
        fr = w[3].split(",") if len(w) > 3 else []
        return w[:3], fr, probes.split()
    fr = w[2].split(",") if len(w) > 2 else []
    return w[:2], fr, probes.split()


def mk_line(head, frames, probes):
    return "%s %s | %s" % (" ".join(head), ",".join(frames), " ".join(probes))


def verdict(run, exe, line):
    """'crash' | 'spec' | 'tie' | None for one case."""
    model, impl, crashes, spec = run_both(run, exe, [line], "one")
    if crashes:
        return "crash"
    if spec:
        return "spec"
    if model != impl:
        return "tie"
    return None


def shrink(run, exe, line, kind):
    """Smaller case with the same kind of failure (a spec violation is not traded for a mere tie difference)."""
    head, frames, probes = frames_of(line)
    if len(probes) > 1:
        probes = core.shrink_list(probes, lambda c: verdict(run, exe, mk_line(head, frames, c)) == kind, max_tests=60)
    if len(frames) > 1:
        frames = core.shrink_list(frames, lambda c: verdict(run, exe, mk_line(head, c, probes)) == kind, max_tests=200)
    return mk_line(head, frames, probes)


def report(run, exe, line):
    kind0 = verdict(run, exe, line)
    if kind0 is None:
        run.count("unreproducible-disagreement")
        return
    hang = False
    if kind0 == "crash":
        _, _, cr, _ = run_both(run, exe, [line], "one")
        hang = any(v[0] == "timeout" for v in cr.values())
    small = line if hang else shrink(run, exe, line, kind0)
    model, impl, crashes, spec = run_both(run, exe, [small], "one")
    replay = {"engine": "xen", "case": small, "model": model[0], "implementation": impl[0],
              "spec_verdict": spec.get(0, "ok"),
              "impl_stderr_tail": crashes[0][1][-1500:] if crashes else "",
              "how": "bin/check C19 --replay <this file> re-runs the case through harness/xen_drv.c"}
    kind = "index functions (elfdump.c pfn2idx_map_*)" if small[0] == "I" else "xc_core dump through the public API"
    if crashes:
        run.violation("impl", "%s: abnormal exit (%s) on: %s" % (kind, crashes[0][0], small), replay,
                      found_input=True, signature="xen crash " + crashes[0][1][-300:])
    elif spec:
        run.violation("spec", "%s contradict the page list: %s; case: %s" % (kind, spec[0], small), replay,
                      found_input=True, signature="xen spec " + spec[0])
    else:
        run.violation("tie", "correspondence xen (extracted model vs elfdump.c) broken on: %s" % small, replay,
                      found_input=False, signature="xen tie")


def check(run):
    run.trusted += ["modelled, not verified: realloc (one answer per pfn2idx_map_add/end call), libc qsort "
                    "(any sorted permutation in the theorems, insertion sort in the extracted model)",
                    "end-to-end cases: ELF section parsing, fcache/flatmap reads and the generic addrxlat launch/step "
                    "are exercised but not modelled (the model starts at the entry list of .xen_p2m/.xen_pfn)"]
    run.assumptions += ["page lists are duplicate-free (per column) and shorter than 2^63 entries",
                        "round trip: the machine frame of the pair has an address (gmfn << page_shift fits 64 bits)"]
    run.check_coq()
    if not run.need_ml():
        return
    exe = run.need_cc("xen_drv", "xen_drv.c", sources=core.lib_sources(exclude=("elfdump.c",)))
    if exe is None:
        return
    if run.replay_path:
        rp = core.json.load(open(run.replay_path))
        line = rp["replay"]["case"]
        model, impl, crashes, spec = run_both(run, exe, [line], "one")
        print("model:          " + model[0])
        print("implementation: " + impl[0])
        print("spec verdict:   " + spec.get(0, "ok"))
        if crashes or model != impl or spec:
            report(run, exe, line)
        return
    quick = run.tier == "quick"
    n_idx = 2500 if quick else 80000
    n_e2e = 250 if quick else 6000
    lines = []
    corpus = core.os.path.join(core.VERIF, "corpus", "xen.txt")
    if core.os.path.exists(corpus):
        lines += [l for l in open(corpus).read().split("\n") if l.strip() and not l.startswith("#")]
    ncorpus = len(lines)
    lines += [gen_index_case(run.rng, run.tier) for _ in range(n_idx)]
    lines += [gen_e2e_case(run.rng) for _ in range(n_e2e)]
    n_str = 24 if quick else 400
    lines += [gen_e2e_straddle(run.rng) for _ in range(n_str)]
    run.cov["rule"] = ("distinct case lines; non-trivial = the index has at least one range and one single, or an "
                       "allocation failure is injected (I cases) / at least one listed and one unlisted frame is "
                       "probed (X cases)")
    run.cov["engines"]["xen"] = {"corpus_cases": ncorpus, "index_cases": n_idx, "end_to_end_cases": n_e2e,
                                 "end_to_end_straddling_section_cases": n_str}
    shard = 4000
    for s0 in range(0, len(lines), shard):
        part = lines[s0:s0 + shard]
        model, impl, crashes, spec = run_both(run, exe, part, "cases")
        bad = set(core.diff_lines(model, impl)) | set(spec) | set(crashes)
        for i, (l, o) in enumerate(zip(part, impl)):
            if l[0] == "I":
                nt = o.startswith("F") or (" R" in o and " S" in o and " R S" not in o and " S Q" not in o)
                run.count("I-built" if o.startswith("B") else "I-nomem" if o.startswith("F") else "I-other")
                if o.startswith("B"):
                    w = o.split()
                    run.count("ranges-total", len(w[1][1:].split(",")) if len(w[1]) > 1 else 0)
                    run.count("singles-total", len(w[2][1:].split(",")) if len(w[2]) > 1 else 0)
                    q = w[3][1:].split(",") if len(w) > 3 and len(w[3]) > 1 else []
                    run.count("search-found", sum(1 for a in q if a != "ffffffffffffffff"))
                    run.count("search-missing", sum(1 for a in q if a == "ffffffffffffffff"))
            else:
                nt = " R0:" in o and " R3:" in o
                run.count("X-nonauto" if l[2] == "n" else "X-auto")
                run.count("read-ok", o.count(" R0:"))
                run.count("read-nodata", o.count(" R3:"))
                run.count("conv-ok", o.count(" C0:"))
                run.count("conv-nodata", o.count(" C6:"))
            run.note_case(l, nt)
            if s0 == 0 and i in (0, n_idx // 2, len(part) - 1):
                run.sample({"case": l[:300], "impl": o[:300]})
        first = sorted(set(crashes) | set(spec))[:3]
        for i in first + [j for j in sorted(bad) if j not in first][:max(1, 4 - len(first))]:
            report(run, exe, part[i])
        if len(run.violations) > 3:
            break
