"""run_impl_lines with a hard bound on hangs (used by the xen and pfn engines).

core.run_impl_lines restarts the driver after every abnormal exit; when the
implementation loops forever on many cases that means one full timeout per
case.  Here the first timeout ends the run: the hanging case gets 'CRASH
timeout', the cases after it 'NOT-RUN'."""
import os

from . import core


def run_impl_lines(exe, workdir, lines, timeout=120, env=None):
    out_lines = []
    crashes = {}
    start = 0
    n = len(lines)
    guard = 0
    cf = os.path.join(workdir, "impl-cases-%d.txt" % os.getpid())
    while start < n and guard < 50:
        guard += 1
        with open(cf, "w") as f:
            for l in lines[start:]:
                f.write(l + "\n")
        rc, out, err = core.run_impl(exe, [cf], timeout=timeout, env=env)
        got = out.split("\n")
        if got and got[-1] == "":
            got.pop()
        elif got:
            got.pop()
        got = got[:n - start]
        out_lines += got
        start += len(got)
        if start < n:
            crashes[start] = (rc, err[-2500:] if rc != "timeout" else "timeout after %ss (endless loop?)" % timeout)
            out_lines.append("CRASH %s" % rc)
            start += 1
            if rc == "timeout":
                break
        elif rc != 0:
            crashes[n - 1] = (rc, err[-2500:])
            break
    try:
        os.unlink(cf)
    except OSError:
        pass
    while len(out_lines) < n:
        out_lines.append("NOT-RUN")
    return out_lines, crashes
